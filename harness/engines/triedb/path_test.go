// TestPathReplay steps TLC-generated behaviours of spec/triedb/PathDB.tla (PathDBMBT.tla) through a
// REAL pathdb.Database on db/memory or pebblev2 (in-memory file system): Update (real tries opened on
// the parent root, changed, committed, node sets merged as core/state does), Cap (the real
// layerTree.cap, see link.go) / Commit, Journal, Close + New (restart), crash (a copy of the store
// taken at a mutation boundary inside Commit), and compares after every step, for every root the
// model ever named: registered or not (NodeReader), and for live roots every Get of every model key
// of every trie, every trie root, and every node read through the reader (by path) against the
// expectation of world_test.go; slices handed out by readers are retained and re-checked.
package triedb

import (
	"bytes"
	"encoding/json"
	"errors"
	"fmt"
	"math/rand"
	"strings"
	"testing"

	"github.com/NethermindEth/juno/core/felt"
	"github.com/NethermindEth/juno/core/trie2/triedb/pathdb"
	"github.com/NethermindEth/juno/core/trie2/trieutils"
	"github.com/NethermindEth/juno/db"

	"verifharness/internal/faultkv"
	"verifharness/internal/vh"
)

func jsonUnmarshal(b []byte, v any) error { return json.Unmarshal(b, v) }
func jsonMarshal(v any) ([]byte, error)   { return json.Marshal(v) }

type pathInput struct {
	H          int       `json:"h"`
	AutoCap    bool      `json:"autocap"` // behaviours of the AutoCap = 128 model: Update flattens by itself, no Cap steps
	Behaviours [][]step  `json:"behaviours"`
	Variants   []variant `json:"variants,omitempty"`
}

type retained struct {
	where string
	got   []byte
	copy  []byte
}

type pathWorld struct {
	*world
	kit      *storeKit
	store    db.KeyValueStore
	fk       *faultkv.Store
	pdb      *pathdb.Database
	eager    bool
	retained []retained
	counts   map[string]int
}

func (pw *pathWorld) config() *pathdb.Config {
	c := &pathdb.Config{CleanCacheSize: 16 * 1024 * 1024, WriteBufferSize: 64 * 1024 * 1024}
	if pw.eager {
		c.WriteBufferSize = 0
	}
	return c
}

func (pw *pathWorld) openDB() error {
	pw.fk = faultkv.Wrap(pw.store)
	d, err := pathdb.New(pw.fk, pw.config())
	if err != nil {
		return err
	}
	pw.pdb = d
	return nil
}

// restart: a new process on the same disk. pebble: the store itself is closed and reopened.
func (pw *pathWorld) restart() error {
	if pw.kit.backend == "pebblev2" {
		if c, ok := pw.store.(interface{ Close() error }); ok {
			if err := c.Close(); err != nil {
				return err
			}
		}
		s, err := pw.kit.open()
		if err != nil {
			return err
		}
		pw.store = s
	}
	return pw.openDB()
}

func (pw *pathWorld) close() {
	if c, ok := pw.store.(interface{ Close() error }); ok {
		_ = c.Close()
	}
}

var errStale = pathdb.ErrDiskLayerStale

// checkRoot compares everything observable under one model root with the expectation.
// status: "L" live, "S" registered over a stale base, "A" not registered.
func (pw *pathWorld) checkRoot(ri *rootInfo, status string, full bool) *mismatch {
	cid := pw.trieID("ct", ri.label)
	rd, err := pw.pdb.NodeReader(cid)
	if status == "A" {
		if err == nil {
			return &mismatch{key: "triedb:pathdb:dropped-root-still-served", what: fmt.Sprintf("model root %d is not registered in the layer tree according to PathDB.tla, yet NodeReader succeeds", ri.id),
				expected: "layer not found", observed: "reader"}
		}
		return nil
	}
	if err != nil || rd == nil {
		return &mismatch{key: "triedb:pathdb:live-root-not-served", what: fmt.Sprintf("model root %d (status %s) must be readable, NodeReader fails: %v", ri.id, status, err),
			expected: "reader", observed: fmt.Sprint(err)}
	}
	if !full {
		return nil
	}
	open := pw.pathOpener(pw.pdb)
	for _, t := range trieNames {
		// node level: every path any state ever had, through the reader
		trd, err := pw.pdb.NodeReader(pw.trieID(t, ri.label))
		if err != nil {
			return &mismatch{key: "triedb:pathdb:live-root-not-served", what: fmt.Sprintf("NodeReader of trie %s at model root %d: %v", t, ri.id, err)}
		}
		o := pw.owner(t)
		for p := range pw.seen[t] {
			pp := p
			want, present := ri.nodes[t][p]
			h := felt.Hash(want.hash)
			blob, err := trd.Node(&o, &pp, &h, int(pp.Len()) == pw.v.Height)
			pw.counts["node-reads"]++
			if status == "S" && errors.Is(err, errStale) {
				pw.counts["stale-errors"]++
				continue
			}
			switch {
			case present && (err != nil || !bytes.Equal(blob, want.blob)):
				kind := "lost"
				if err == nil {
					kind = "wrong"
				}
				return &mismatch{key: fmt.Sprintf("triedb:pathdb:node-%s:%s", kind, t),
					what:     fmt.Sprintf("reader of model root %d, trie %s, path %s: the canonical trie of the content has a node here (err %v)", ri.id, t, bitsOf(&pp), err),
					expected: fmt.Sprintf("%x", want.blob), observed: fmt.Sprintf("%x", blob)}
			case !present && err == nil && len(blob) > 0:
				return &mismatch{key: "triedb:pathdb:node-not-deleted:" + t,
					what:     fmt.Sprintf("reader of model root %d, trie %s, path %s: the canonical trie of the content has NO node here, the reader returns one (node of another state)", ri.id, t, bitsOf(&pp)),
					expected: "not found", observed: fmt.Sprintf("%x", blob)}
			case !present && err != nil && !isNotFound(err):
				return &mismatch{key: "triedb:pathdb:node-read-error:" + t,
					what: fmt.Sprintf("reader of model root %d, trie %s, path %s: unexpected error %v", ri.id, t, bitsOf(&pp), err)}
			}
			if present && err == nil && len(pw.retained) < 4000 && pw.counts["node-reads"]%7 == 0 {
				pw.retained = append(pw.retained, retained{where: fmt.Sprintf("root %d trie %s path %s", ri.id, t, bitsOf(&pp)), got: blob, copy: bytes.Clone(blob)})
			}
		}
		// trie level
		tr, err := open(t, ri)
		if err != nil {
			if status == "S" && errors.Is(err, errStale) {
				continue
			}
			return &mismatch{key: "triedb:pathdb:trie-open:" + t, what: fmt.Sprintf("opening trie %s at model root %d: %v", t, ri.id, err)}
		}
		if status == "L" {
			got, _ := tr.Hash()
			want := ri.roots[t]
			if !got.Equal(&want) {
				return &mismatch{key: "triedb:pathdb:trie-root:" + t, what: fmt.Sprintf("root hash of trie %s opened at model root %d differs from the committed / refimpl root", t, ri.id),
					expected: want.String(), observed: got.String()}
			}
		}
		for _, kb := range pw.allKeys {
			want := pw.v.value(ri.kv[t][fmt.Sprint(kb)])
			got, err := tr.Get(pw.v.key(kb))
			pw.counts["gets"]++
			if err != nil {
				if status == "S" && errors.Is(err, errStale) {
					continue
				}
				return &mismatch{key: "triedb:pathdb:get-error:" + t, what: fmt.Sprintf("Get(%v) on trie %s at model root %d: %v", kb, t, ri.id, err)}
			}
			if !got.Equal(want) {
				return &mismatch{key: "triedb:pathdb:get-wrong-value:" + t,
					what:     fmt.Sprintf("Get(%v) on trie %s at model root %d returns a value of another state", kb, t, ri.id),
					expected: want.String(), observed: got.String()}
			}
		}
	}
	return nil
}

func (pw *pathWorld) checkRetained() *mismatch {
	for _, r := range pw.retained {
		if !bytes.Equal(r.got, r.copy) {
			return &mismatch{key: "triedb:pathdb:retained-blob-changed", what: "a node blob handed out by a reader changed afterwards: " + r.where,
				expected: fmt.Sprintf("%x", r.copy), observed: fmt.Sprintf("%x", r.got)}
		}
	}
	return nil
}

// commitWithCrash runs Commit(root) and takes the surviving disk image right after its j-th flush
// batch (or one mutation later), then continues on that image with a new process.
func (pw *pathWorld) commitWithCrash(ri *rootInfo, j int) *mismatch {
	batches, armed := 0, false
	var image db.KeyValueStore
	var imageKit *storeKit
	var cloneErr error
	take := func() {
		if image == nil && cloneErr == nil {
			imageKit, image, cloneErr = pw.kit.clone(pw.store)
		}
	}
	pw.fk.OnWrite = func(n int, kind string) {
		if strings.HasPrefix(kind, "batch") {
			if armed {
				if image == nil && cloneErr == nil { // no direct put between two flushes: the late point does not exist
					cloneErr = errors.New("late crash point: no mutation between two flush batches")
				}
				return
			}
			batches++
			if batches == j {
				if pw.v.Late {
					armed = true
				} else {
					take()
				}
			}
			return
		}
		if armed && image == nil {
			take() // one direct put (a state id) after the j-th flush
		}
	}
	label := ri.label
	err := pw.pdb.Commit(&label)
	pw.fk.OnWrite = nil
	if armed && image == nil && batches == j {
		take() // no later mutation: the image is the final disk
	}
	if err != nil {
		return &mismatch{key: "triedb:pathdb:commit-error", what: fmt.Sprintf("Commit(model root %d): %v", ri.id, err)}
	}
	if cloneErr != nil {
		return &mismatch{key: "triedb-harness:clone", what: cloneErr.Error()}
	}
	if image == nil {
		return &mismatch{key: "triedb:pathdb:commit-flush-count", what: fmt.Sprintf("Commit(model root %d) wrote %d flush batches, PathDB.tla expects at least %d (one per persisted layer)", ri.id, batches, j),
			expected: j, observed: batches}
	}
	pw.close()
	pw.kit, pw.store = imageKit, image
	pw.counts["crash-images"]++
	if e := pw.openDB(); e != nil {
		return &mismatch{key: "triedb:pathdb:open-after-crash", what: "pathdb.New on the surviving image fails: " + e.Error()}
	}
	return nil
}

type outcome struct {
	key, what          string
	step               int
	expected, observed any
}

func replayPath(in *pathInput, beh []step, v *variant) (out *outcome, nsteps int, counts map[string]int) {
	counts = map[string]int{}
	if len(beh) == 0 {
		return nil, 0, counts
	}
	kit := newStoreKit(v.Backend)
	store, err := kit.open()
	if err != nil {
		return &outcome{key: "triedb-harness:open-store", what: err.Error()}, 0, counts
	}
	pw := &pathWorld{world: newWorld(v, in.H), kit: kit, store: store, eager: beh[0].Eager, counts: counts}
	defer func() { pw.close() }()
	if err := pw.openDB(); err != nil {
		return &outcome{key: "triedb:pathdb:open-empty", what: err.Error()}, 0, counts
	}
	last := "none"
	defer func() {
		if p := recover(); p != nil {
			out = &outcome{key: "triedb:pathdb:panic:after-" + last, what: fmt.Sprintf("panic in the real pathdb: %v", p), step: nsteps}
		}
	}()
	fail := func(si int, m *mismatch) (*outcome, int, map[string]int) {
		return &outcome{key: m.key, what: m.what, step: si, expected: m.expected, observed: m.observed}, si, counts
	}
	for si, s := range beh {
		nsteps = si + 1
		counts[s.A.Name]++
		last = s.A.Name
		switch s.A.Name {
		case "Update":
			parent := pw.roots[s.A.Parent]
			if parent == nil {
				return &outcome{key: "triedb-harness:unknown-parent", what: fmt.Sprint(s.A.Parent), step: si}, si, counts
			}
			ri, err := pw.newRoot(s.A.Root, parent, s.A.Ch, s.A.Pres, si)
			if err != nil {
				var m *mismatch
				if errors.As(err, &m) {
					return fail(si, m)
				}
				return &outcome{key: "triedb-harness:new-root", what: err.Error(), step: si}, si, counts
			}
			if old := pw.roots[s.A.Root]; old != nil {
				if old.label != ri.label {
					return fail(si, &mismatch{key: "triedb:pathdb:same-content-different-root", what: fmt.Sprintf("model root %d reached again commits to a different state root", s.A.Root),
						expected: old.label.String(), observed: ri.label.String()})
				}
				counts["root-repeated"]++
			} else {
				for _, o := range pw.roots {
					if o.label == ri.label {
						return &outcome{key: "triedb-harness:label-collision", what: fmt.Sprintf("model roots %d and %d commit to the same state root", o.id, ri.id), step: si}, si, counts
					}
				}
			}
			if len(s.A.Ch) == 0 {
				counts["empty-block"]++
			}
			if s.A.Parent != len(pw.roots)-1 && s.A.Parent != s.A.Root {
				counts["update-on-older-root"]++
			}
			cm, err := pw.applyChanges(pw.pathOpener(pw.pdb), parent, s.A.Ch)
			if err != nil {
				return fail(si, &mismatch{key: "triedb:pathdb:update-tries", what: "tries opened on the live parent root fail: " + err.Error()})
			}
			for _, t := range trieNames {
				if want, got := ri.roots[t], cm.roots[t]; !want.Equal(&got) {
					return fail(si, &mismatch{key: "triedb:pathdb:committed-root:" + t,
						what:     fmt.Sprintf("trie %s opened on model root %d through pathdb commits to a different root than on the raw scheme / refimpl", t, parent.id),
						expected: want.String(), observed: got.String()})
				}
			}
			pl := parent.label
			if err := pw.pdb.Update(&cm.label, &pl, uint64(si+1), cm.classSet, cm.contracts, nil); err != nil {
				return fail(si, &mismatch{key: "triedb:pathdb:update-error", what: fmt.Sprintf("Update(root %d, parent %d): %v", ri.id, parent.id, err)})
			}
			pw.roots[s.A.Root] = ri
		case "Cap":
			ri := pw.roots[s.A.Root]
			label := ri.label
			var err error
			if s.A.K == 0 {
				err = pw.pdb.Commit(&label)
				counts["commit"]++
			} else {
				err = capLayers(pw.pdb, &label, s.A.K)
			}
			if err != nil && !s.Failed {
				return fail(si, &mismatch{key: "triedb:pathdb:cap-error", what: fmt.Sprintf("cap(model root %d, %d): %v", ri.id, s.A.K, err)})
			}
		case "Journal":
			ri := pw.roots[s.A.Root]
			label := ri.label
			if err := pw.pdb.Journal(&label); err != nil {
				return fail(si, &mismatch{key: "triedb:pathdb:journal-error", what: fmt.Sprintf("Journal(model root %d): %v", ri.id, err)})
			}
		case "Shutdown":
			ri := pw.roots[s.A.Root]
			label := ri.label
			if err := pw.pdb.Journal(&label); err != nil {
				return fail(si, &mismatch{key: "triedb:pathdb:journal-error", what: fmt.Sprintf("Journal(model root %d): %v", ri.id, err)})
			}
			if err := pw.pdb.Close(); err != nil {
				return fail(si, &mismatch{key: "triedb:pathdb:close-error", what: err.Error()})
			}
			if err := pw.restart(); err != nil {
				return fail(si, &mismatch{key: "triedb:pathdb:open-after-shutdown", what: "pathdb.New after Journal; Close fails: " + err.Error()})
			}
		case "Reopen":
			if err := pw.restart(); err != nil {
				return fail(si, &mismatch{key: "triedb:pathdb:open-after-crash", what: "pathdb.New on the disk of a crashed process fails: " + err.Error()})
			}
		case "CommitCrash":
			if m := pw.commitWithCrash(pw.roots[s.A.Root], s.A.J); m != nil {
				return fail(si, m)
			}
		case "Warm", "Skip":
		default:
			return &outcome{key: "triedb-harness:unknown-action", what: s.A.Name, step: si}, si, counts
		}
		if s.Tainted || s.Failed {
			// the code as it is has left the repaired design (reported by TestTriedbProbe under its own key):
			// the as-is model stops predicting here and the behaviour ends
			counts["ended-tainted"]++
			break
		}
		// statuses of every root the model ever named; full sweeps as the variant says
		full := v.Sweep || s.A.Name == "Warm" || si == len(beh)-1 || s.A.Name == "Reopen" || s.A.Name == "Shutdown" || s.A.Name == "CommitCrash"
		if in.AutoCap {
			full = false
		}
		for id := 0; id < len(s.St); id++ {
			ri := pw.roots[id]
			if ri == nil {
				return &outcome{key: "triedb-harness:status-of-unknown-root", what: fmt.Sprint(id), step: si}, si, counts
			}
			st := s.St[id]
			f := full
			if in.AutoCap && st != "A" && (id >= len(s.St)-2 || id == s.Disk || (si*7+id)%23 == 0 || si == len(beh)-1) {
				f = true
			}
			if st == "S" {
				counts["semi-stale-checked"]++
			}
			if m := pw.checkRoot(ri, st, f); m != nil {
				m.key += ":after-" + s.A.Name
				return fail(si, m)
			}
			counts["root-checks-"+st]++
		}
		if m := pw.checkRetained(); m != nil {
			return fail(si, m)
		}
	}
	return nil, len(beh), counts
}

func deriveVariants(h int, seed int64, bi int, thorough bool) []variant {
	r := rand.New(rand.NewSource(seed*1_000_003 + int64(bi)))
	be := "memory"
	if (int64(bi)+seed)%4 == 3 {
		be = "pebblev2"
	}
	vs := []variant{smallVariant(h, seed+int64(bi), be)}
	if thorough || bi%2 == 0 {
		vs = append(vs, embedVariant(h, r, seed+int64(bi), "memory"))
	}
	return vs
}

func TestPathReplay(t *testing.T) {
	if !vh.Enabled() {
		t.Skip("driver only")
	}
	var in pathInput
	if err := vh.Input(&in); err != nil {
		t.Fatal(err)
	}
	out := vh.NewResult()
	defer out.Write()
	total := map[string]int{}
	for bi, beh := range in.Behaviours {
		vs := in.Variants
		if len(vs) == 0 {
			vs = deriveVariants(in.H, vh.Seed(), bi, vh.Thorough())
			if in.AutoCap {
				vs = vs[:1]
			}
		}
		for vi := range vs {
			v := vs[vi]
			o, n, counts := replayPath(&in, beh, &v)
			out.Done(1, n)
			for k, c := range counts {
				total[k] += c
			}
			total["replays-"+v.Backend]++
			if v.Height == 251 {
				total["replays-height-251"]++
			} else {
				total["replays-small-height"]++
			}
			if o != nil {
				cut := min(o.step+1, len(beh))
				out.Diverge(vh.Divergence{
					Key: o.key, What: o.what, Step: o.step, Expected: o.expected, Observed: o.observed,
					Input: pathInput{H: in.H, AutoCap: in.AutoCap, Behaviours: [][]step{beh[:cut]}, Variants: []variant{v}},
				})
			}
		}
	}
	for k, c := range total {
		out.Count("path_"+k, c)
	}
	if len(in.Behaviours) > 0 {
		b := in.Behaviours[0]
		out.Sample(vh.J{"scheme": "pathdb", "first_steps": b[:min(5, len(b))]})
	}
}

var _ = trieutils.Path{}

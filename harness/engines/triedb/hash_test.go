// TestHashReplay steps TLC-generated behaviours of spec/triedb/HashDB.tla (HashDBMBT.tla) through a
// REAL hashdb.Database: Update (real tries opened BY ROOT HASH on the parent state, changed,
// committed, node sets merged as core/state does), Commit, restart / crash (Close is a no-op: a new
// Database on the same store), and compares after every step, for every state the model ever named:
// "D"/"R" (every node durable / durable or dirty): every Get of every key of every trie, every trie
// root, every node of the canonical node table read through the reader by (path, hash); "D":
// GetTrieRootNodes (the crash detector, reads the disk only) finds the roots; "A" (lost in a crash):
// whatever is still answered is this state's data or nothing, never another state's.
package triedb

import (
	"bytes"
	"errors"
	"fmt"
	"testing"

	"github.com/NethermindEth/juno/core/felt"
	"github.com/NethermindEth/juno/core/trie2/triedb/hashdb"
	"github.com/NethermindEth/juno/db"

	"verifharness/internal/faultkv"
	"verifharness/internal/vh"
)

type hashInput struct {
	H          int       `json:"h"`
	Behaviours [][]step  `json:"behaviours"`
	Variants   []variant `json:"variants,omitempty"`
}

type hashWorld struct {
	*world
	kit      *storeKit
	store    db.KeyValueStore
	fk       *faultkv.Store
	hdb      *hashdb.Database
	retained []retained
	counts   map[string]int
}

func (hw *hashWorld) openDB() {
	hw.fk = faultkv.Wrap(hw.store)
	hw.hdb = hashdb.New(hw.fk, &hashdb.Config{CleanCacheSize: 16 * 1024 * 1024})
}

func (hw *hashWorld) restart() error {
	if hw.kit.backend == "pebblev2" {
		if c, ok := hw.store.(interface{ Close() error }); ok {
			if err := c.Close(); err != nil {
				return err
			}
		}
		s, err := hw.kit.open()
		if err != nil {
			return err
		}
		hw.store = s
	}
	hw.openDB()
	return nil
}

func (hw *hashWorld) close() {
	if c, ok := hw.store.(interface{ Close() error }); ok {
		_ = c.Close()
	}
}

func (hw *hashWorld) checkRoot(ri *rootInfo, status string) *mismatch {
	open := hw.hashOpener(hw.hdb)
	strict := status != "A"
	for _, t := range trieNames {
		rd, err := hw.hdb.NodeReader(hw.trieID(t, ri.label))
		if err != nil {
			return &mismatch{key: "triedb:hashdb:reader-error", what: err.Error()}
		}
		o := hw.owner(t)
		for p, want := range ri.nodes[t] {
			pp := p
			h := felt.Hash(want.hash)
			blob, err := rd.Node(&o, &pp, &h, want.leaf)
			hw.counts["node-reads"]++
			if err != nil || blob == nil {
				if strict {
					return &mismatch{key: "triedb:hashdb:node-lost:" + t,
						what:     fmt.Sprintf("state %d (status %s), trie %s, path %s: the node of the canonical trie is not found by (path, hash): %v", ri.id, status, t, bitsOf(&pp), err),
						expected: fmt.Sprintf("%x", want.blob), observed: fmt.Sprint(err)}
				}
				continue
			}
			if !bytes.Equal(blob, want.blob) {
				return &mismatch{key: "triedb:hashdb:node-wrong:" + t,
					what:     fmt.Sprintf("state %d, trie %s, path %s: the blob stored under the node's hash is not the node", ri.id, t, bitsOf(&pp)),
					expected: fmt.Sprintf("%x", want.blob), observed: fmt.Sprintf("%x", blob)}
			}
			if len(hw.retained) < 4000 && hw.counts["node-reads"]%7 == 0 {
				hw.retained = append(hw.retained, retained{where: fmt.Sprintf("state %d trie %s path %s", ri.id, t, bitsOf(&pp)), got: blob, copy: bytes.Clone(blob)})
			}
		}
		tr, err := open(t, ri)
		if err != nil {
			if strict {
				return &mismatch{key: "triedb:hashdb:trie-open:" + t, what: fmt.Sprintf("opening trie %s of state %d by its root hash: %v", t, ri.id, err)}
			}
			continue
		}
		if strict {
			got, _ := tr.Hash()
			want := ri.roots[t]
			if !got.Equal(&want) {
				return &mismatch{key: "triedb:hashdb:trie-root:" + t, what: fmt.Sprintf("root hash of trie %s of state %d differs from the committed / refimpl root", t, ri.id),
					expected: want.String(), observed: got.String()}
			}
		}
		for _, kb := range hw.allKeys {
			want := hw.v.value(ri.kv[t][fmt.Sprint(kb)])
			got, err := tr.Get(hw.v.key(kb))
			hw.counts["gets"]++
			if err != nil {
				if strict {
					return &mismatch{key: "triedb:hashdb:get-error:" + t, what: fmt.Sprintf("Get(%v) on trie %s of state %d: %v", kb, t, ri.id, err)}
				}
				continue
			}
			if !got.Equal(want) && (strict || !got.IsZero()) {
				return &mismatch{key: "triedb:hashdb:get-wrong-value:" + t,
					what:     fmt.Sprintf("Get(%v) on trie %s of state %d (status %s) returns a value of another state", kb, t, ri.id, status),
					expected: want.String(), observed: got.String()}
			}
		}
	}
	if status == "D" {
		cl, ct := ri.roots["cl"], ri.roots["ct"]
		if !cl.IsZero() && !ct.IsZero() {
			if _, _, err := hw.hdb.GetTrieRootNodes((*felt.Hash)(&cl), (*felt.Hash)(&ct)); err != nil {
				return &mismatch{key: "triedb:hashdb:root-nodes-missing-on-disk", what: fmt.Sprintf("state %d is durable according to HashDB.tla, GetTrieRootNodes fails: %v", ri.id, err)}
			}
			hw.counts["root-node-probes"]++
		}
	}
	return nil
}

func replayHash(in *hashInput, beh []step, v *variant) (out *outcome, nsteps int, counts map[string]int) {
	counts = map[string]int{}
	kit := newStoreKit(v.Backend)
	store, err := kit.open()
	if err != nil {
		return &outcome{key: "triedb-harness:open-store", what: err.Error()}, 0, counts
	}
	hw := &hashWorld{world: newWorld(v, in.H), kit: kit, store: store, counts: counts}
	hw.couple = false
	hw.roots[0].label = felt.StateRootHash(felt.One)
	defer func() { hw.close() }()
	hw.openDB()
	last := "none"
	defer func() {
		if p := recover(); p != nil {
			out = &outcome{key: "triedb:hashdb:panic:after-" + last, what: fmt.Sprintf("panic in the real hashdb: %v", p), step: nsteps}
		}
	}()
	fail := func(si int, m *mismatch) (*outcome, int, map[string]int) {
		return &outcome{key: m.key, what: m.what, step: si, expected: m.expected, observed: m.observed}, si, counts
	}
	for si, s := range beh {
		nsteps = si + 1
		counts[s.A.Name]++
		last = s.A.Name
		switch s.A.Name {
		case "Update":
			parent := hw.roots[s.A.Parent]
			if parent == nil {
				return &outcome{key: "triedb-harness:unknown-parent", what: fmt.Sprint(s.A.Parent), step: si}, si, counts
			}
			ri, err := hw.newRoot(s.A.Root, parent, s.A.Ch, s.A.Pres, si)
			if err != nil {
				var m *mismatch
				if errors.As(err, &m) {
					return fail(si, m)
				}
				return &outcome{key: "triedb-harness:new-root", what: err.Error(), step: si}, si, counts
			}
			cm, err := hw.applyChanges(hw.hashOpener(hw.hdb), parent, s.A.Ch)
			if err != nil {
				return fail(si, &mismatch{key: "triedb:hashdb:update-tries", what: "tries opened by root hash on a readable state fail: " + err.Error()})
			}
			for _, t := range trieNames {
				if want, got := ri.roots[t], cm.roots[t]; !want.Equal(&got) {
					return fail(si, &mismatch{key: "triedb:hashdb:committed-root:" + t,
						what:     fmt.Sprintf("trie %s opened on state %d through hashdb commits to a different root than on the raw scheme / refimpl", t, parent.id),
						expected: want.String(), observed: got.String()})
				}
			}
			pl := parent.label
			if err := hw.hdb.Update(&cm.label, &pl, uint64(si+1), cm.classSet, cm.contracts, nil); err != nil {
				return fail(si, &mismatch{key: "triedb:hashdb:update-error", what: err.Error()})
			}
			hw.roots[s.A.Root] = ri
		case "Commit":
			if err := hw.hdb.Commit(nil); err != nil {
				return fail(si, &mismatch{key: "triedb:hashdb:commit-error", what: err.Error()})
			}
		case "Reopen":
			if si%2 == 0 {
				_ = hw.hdb.Close()
			}
			if err := hw.restart(); err != nil {
				return &outcome{key: "triedb-harness:restart", what: err.Error(), step: si}, si, counts
			}
		case "Warm", "Skip":
		default:
			return &outcome{key: "triedb-harness:unknown-action", what: s.A.Name, step: si}, si, counts
		}
		full := v.Sweep || s.A.Name == "Warm" || s.A.Name == "Reopen" || s.A.Name == "Commit" || si == len(beh)-1
		if full {
			for id := 0; id < len(s.St); id++ {
				ri := hw.roots[id]
				if ri == nil {
					return &outcome{key: "triedb-harness:status-of-unknown-root", what: fmt.Sprint(id), step: si}, si, counts
				}
				if m := hw.checkRoot(ri, s.St[id]); m != nil {
					m.key += ":after-" + s.A.Name
					return fail(si, m)
				}
				counts["root-checks-"+s.St[id]]++
			}
		}
		for _, r := range hw.retained {
			if !bytes.Equal(r.got, r.copy) {
				return fail(si, &mismatch{key: "triedb:hashdb:retained-blob-changed", what: "a node blob handed out by a reader changed afterwards: " + r.where,
					expected: fmt.Sprintf("%x", r.copy), observed: fmt.Sprintf("%x", r.got)})
			}
		}
	}
	return nil, len(beh), counts
}

func TestHashReplay(t *testing.T) {
	if !vh.Enabled() {
		t.Skip("driver only")
	}
	var in hashInput
	if err := vh.Input(&in); err != nil {
		t.Fatal(err)
	}
	out := vh.NewResult()
	defer out.Write()
	total := map[string]int{}
	for bi, beh := range in.Behaviours {
		vs := in.Variants
		if len(vs) == 0 {
			vs = deriveVariants(in.H, vh.Seed(), bi, vh.Thorough())
		}
		for vi := range vs {
			v := vs[vi]
			o, n, counts := replayHash(&in, beh, &v)
			out.Done(1, n)
			for k, c := range counts {
				total[k] += c
			}
			total["replays-"+v.Backend]++
			if o != nil {
				cut := min(o.step+1, len(beh))
				out.Diverge(vh.Divergence{
					Key: o.key, What: o.what, Step: o.step, Expected: o.expected, Observed: o.observed,
					Input: hashInput{H: in.H, Behaviours: [][]step{beh[:cut]}, Variants: []variant{v}},
				})
			}
		}
	}
	for k, c := range total {
		out.Count("hash_"+k, c)
	}
	if len(in.Behaviours) > 0 {
		b := in.Behaviours[0]
		out.Sample(vh.J{"scheme": "hashdb", "first_steps": b[:min(5, len(b))]})
	}
}

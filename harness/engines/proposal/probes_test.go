package proposal

import (
	"fmt"
	"testing"
	"testing/synctest"

	"github.com/NethermindEth/juno/consensus/starknet"

	"verifharness/internal/vh"
)

// Directed scripts: the shortest histories that show, on the REAL demux, each defect the as-coded
// model has a switch for (ProposalStream.tla: FixNilState, FixBlock, FixReFin), and the stated
// design limits (unbounded out-of-order buffer, stream objects no commit removes). Every script
// ends with an honest stream under another id and a commit: what the defect costs the node.

type probeInput struct {
	Probes   []string `json:"probes"` // empty = all
	InputCap int      `json:"input_cap"`
}

// ---------------------------------------------------------------- script constructors (MCProposalStream.tla)

func pInit(h, r, vr, p int) absPart { return absPart{K: "Init", H: h, R: r, VR: vr, P: p} }
func pInfo(i int) absPart          { return absPart{K: "Info", I: i} }
func pTx(b int) absPart            { return absPart{K: "Txs", B: b} }
func pCommit(i int, t []int) absPart {
	if t == nil {
		t = []int{}
	}
	return absPart{K: "Commit", I: i, T: t}
}
func pPFin(h, i int, t []int, p int) absPart {
	if t == nil {
		t = []int{}
	}
	e := 0
	if i == 0 {
		e = p
	}
	return absPart{K: "PFin", V: &absVal{H: h, I: i, T: t, E: e}}
}

var pFin = absPart{K: "Fin"}

func seqOf(parts ...absPart) absScript {
	sc := make(absScript, len(parts))
	for j, p := range parts {
		sc[j] = absMsg{Seq: uint64(j), Part: p}
	}
	return sc
}

// honestScript = Honest(h, r, vr, p, i, t) of MCProposalStream.tla
func honestScript(h, r, vr, p, i int, t []int) absScript {
	parts := []absPart{pInit(h, r, vr, p), pInfo(i)}
	for _, b := range t {
		parts = append(parts, pTx(b))
	}
	parts = append(parts, pCommit(i, t), pPFin(h, i, t, p), pFin)
	return seqOf(parts...)
}

func honestProp(h, r, vr, p, i int, t []int) absProp {
	if t == nil {
		t = []int{}
	}
	return absProp{H: h, R: r, P: p, VR: vr, V: absVal{H: h, I: i, T: t}}
}

// ---------------------------------------------------------------- one probe world

type probe struct {
	t    *testing.T
	w    *world
	u    *universe
	cap  int
	note []string
}

func (p *probe) publish(sc absScript, id []byte, from int) {
	msgs, err := p.u.craft(sc, id)
	if err != nil {
		p.t.Fatalf("craft: %v", err)
	}
	for _, m := range msgs[from:] {
		if err := p.w.publish(m); err != nil {
			p.t.Fatalf("publish: %v", err)
		}
		synctest.Wait()
	}
}

func (p *probe) publishMsgs(id []byte, msgs ...absMsg) {
	p.publish(absScript(msgs), id, 0)
}

// aftermath: an honest stream of the current height under its own id, then a commit. Returns how
// many proposals the driver got out of it and whether the commit moved the height.
func (p *probe) aftermath() (delivered int, moved bool, dmx string) {
	h := p.w.cur
	p.publish(honestScript(h, 3, -1, 2, 1, nil), craftedStreamID(77), 0)
	want, err := p.u.concreteProp(honestProp(h, 3, -1, 2, 1, nil))
	if err != nil {
		p.t.Fatal(err)
	}
	for _, g := range p.w.drain() {
		if sameProp(&want, g) {
			delivered++
		}
	}
	before := p.w.view().Cur
	if err := p.w.commit(); err != nil {
		p.t.Fatal(err)
	}
	synctest.Wait()
	v := p.w.view()
	return delivered, v.Cur == before+1, v.Dmx
}

type probeResult struct {
	dv   *vh.Divergence
	obs  map[string]string
	fail string // harness-level failure (the probe could not be set up)
}

func runProbe(t *testing.T, u *universe, name string, inputCap int) (res probeResult) {
	res.obs = map[string]string{}
	dead := bubble(t, func(t *testing.T) {
		w, err := newWorld(t, u, worldOpts{initHeight: 1, inputCap: inputCap, outCap: 8, bad: []int{3}})
		if err != nil {
			t.Fatal(err)
		}
		var panicked any
		closed := false
		defer func() {
			if !closed {
				w.close()
			}
		}()
		synctest.Wait()
		p := &probe{t: t, w: w, u: u, cap: inputCap}
		id := craftedStreamID(1)
		filler := func(first, n int) []absMsg { // n messages with sequence numbers first.., alternating batches
			ms := make([]absMsg, n)
			for k := range ms {
				ms[k] = absMsg{Seq: uint64(first + k), Part: pTx(1 + k%2)}
			}
			return ms
		}
		blockedVerdict := func(variant, how string) {
			v := w.view()
			if v.Dmx != "blocked" {
				res.obs["blocked:"+variant] = "not reproduced: the demux is " + v.Dmx + " after " + how
				// sanity: on a repaired tree the node must go on
				d, moved, _ := p.aftermath()
				if d != 1 || !moved {
					res.fail = fmt.Sprintf("probe blocked/%s: the demux is not blocked but the honest stream was delivered %d time(s), commit handled: %v", variant, d, moved)
				}
				return
			}
			d, moved, dmx := p.aftermath()
			res.dv = &vh.Divergence{Key: "proposal-stream:demux-blocked:" + variant,
				What: fmt.Sprintf("%s: the demux goroutine is parked in (*proposalStream).enqueueMessage for ever (nobody reads that stream's input channel, capacity %d); "+
					"afterwards an honest stream of the current height under another id is delivered %d time(s), a commit notification is handled: %v, the demux stays %s",
					how, inputCap, d, moved, dmx),
				Expected: "the demux handles the next message and the commit", Observed: v}
		}
		switch name {
		case "nil-state":
			// number 0 with a part that is not a (valid) ProposalInit: start() fails, the stream object stays
			// with stateMachine = nil and started = false; the next number 0 under the id calls OnEvent on nil
			p.publishMsgs(id, absMsg{Seq: 0, Part: pInfo(1)})
			v1 := w.view()
			p.publishMsgs(id, absMsg{Seq: 0, Part: pInit(1, 0, -1, 1)})
			v2 := w.view()
			if v2.Dmx != "crashed" {
				res.obs["nil-state"] = fmt.Sprintf("not reproduced: after a refused number 0 the stream's state machine is %s, the demux is %s after the second number 0",
					v1.Streams[string(id)].SM, v2.Dmx)
				d, moved, _ := p.aftermath()
				if d != 1 || !moved {
					res.fail = fmt.Sprintf("probe nil-state: the demux did not crash but the honest stream was delivered %d time(s), commit handled: %v", d, moved)
				}
				return
			}
			d, moved, _ := p.aftermath()
			closed = true
			panicked = w.close()
			res.dv = &vh.Divergence{Key: "proposal-stream:demux-panic:nil-state-machine",
				What: fmt.Sprintf("two messages with sequence number 0 under one stream id, the first one not a ProposalInit (a BlockInfo), the second a valid ProposalInit: "+
					"processProposalPart has overwritten the stream's state machine with the nil the failed transition returned (observed: %s, started=%v) and the second "+
					"start() calls OnEvent on it: the demux goroutine panics (conc re-raises at shutdown: %s); afterwards an honest stream under another id is delivered %d time(s), "+
					"a commit notification is handled: %v — the node receives no proposal until it is restarted",
					v1.Streams[string(id)].SM, v1.Streams[string(id)].Started, firstLine(fmt.Sprint(panicked)), d, moved),
				Expected: "the refused message leaves the stream as it was; the demux goes on", Observed: v2}
		case "nil-state-badinit":
			// the same with a ProposalInit the adapter refuses (no proposer)
			p.publishMsgs(id, absMsg{Seq: 0, Part: absPart{K: "BadInit"}})
			p.publishMsgs(id, absMsg{Seq: 0, Part: absPart{K: "BadInit"}})
			v2 := w.view()
			if v2.Dmx != "crashed" {
				res.obs["nil-state-badinit"] = "not reproduced: the demux is " + v2.Dmx
				return
			}
			res.dv = &vh.Divergence{Key: "proposal-stream:demux-panic:nil-state-machine",
				What:     "the same ProposalInit without a proposer address published twice with sequence number 0 under one stream id: the demux goroutine panics on the nil state machine",
				Expected: "the demux goes on", Observed: v2}
		case "blocked-unstarted":
			p.publishMsgs(id, filler(1, inputCap+1)...)
			blockedVerdict("unstarted-stream", fmt.Sprintf("%d messages with sequence numbers 1..%d under an id whose number 0 never came", inputCap+1, inputCap+1))
		case "blocked-future":
			p.publishMsgs(id, absMsg{Seq: 0, Part: pInit(3, 0, -1, 1)})
			p.publishMsgs(id, filler(1, inputCap+1)...)
			blockedVerdict("future-height-stream", fmt.Sprintf("a ProposalInit for height 3 (the node is at 1) and %d further parts", inputCap+1))
		case "blocked-past":
			if err := w.commit(); err != nil {
				t.Fatal(err)
			}
			synctest.Wait()
			p.publishMsgs(id, absMsg{Seq: 0, Part: pInit(1, 0, -1, 1)})
			p.publishMsgs(id, filler(1, inputCap+1)...)
			blockedVerdict("past-height-stream", fmt.Sprintf("a ProposalInit for height 1 (the node is at 2) and %d further parts", inputCap+1))
		case "blocked-dead":
			p.publishMsgs(id, absMsg{Seq: 0, Part: pInit(1, 0, -1, 1)}, absMsg{Seq: 1, Part: pFin})
			if v := w.view(); v.Loops != 0 {
				res.fail = fmt.Sprintf("probe blocked-dead: the loop did not end on the early Fin (loops=%d)", v.Loops)
				return
			}
			p.publishMsgs(id, filler(2, inputCap+1)...)
			blockedVerdict("dead-stream", fmt.Sprintf("a stream of the current height whose loop has returned with an error (stream Fin as number 1) and %d further parts", inputCap+1))
		case "refin":
			sc := honestScript(1, 0, -1, 1, 1, []int{1})
			sc = append(sc, absMsg{Seq: uint64(len(sc)), Part: pFin})
			p.publish(sc, id, 0)
			want, err := u.concreteProp(honestProp(1, 0, -1, 1, 1, []int{1}))
			if err != nil {
				t.Fatal(err)
			}
			n := 0
			var got []*starknet.Proposal
			for _, g := range w.drain() {
				got = append(got, g)
				if sameProp(&want, g) {
					n++
				}
			}
			switch {
			case n == 0 || n != len(got):
				res.fail = fmt.Sprintf("probe refin: the honest stream was delivered %d time(s) among %d proposals", n, len(got))
			case n == 1:
				res.obs["refin"] = "not reproduced: one Proposal for a stream with two stream-level Fin messages"
			default:
				res.dv = &vh.Divergence{Key: "proposal-stream:proposal-delivered-twice:second-fin",
					What: fmt.Sprintf("an honest stream (Init, BlockInfo, one batch, Commitment, ProposalFin, Fin = numbers 0..5) followed by a second stream-level Fin under number 6: "+
						"the loop goes on after the hand-over, the state machine is still FinState, and the same Proposal is written to the outputs again (%d times in all)", n),
					Expected: []string{propString(&want)}, Observed: propStrings(got)}
			}
		case "limits":
			// stated design limits, measured (observations, never a verdict)
			p.publishMsgs(id, absMsg{Seq: 0, Part: pInit(1, 0, -1, 1)})
			const far = 300
			for k := 0; k < far; k++ {
				p.publishMsgs(id, absMsg{Seq: uint64(10 + 3*k), Part: pTx(1)})
			}
			v := w.view()
			res.obs["limit:reorder-buffer"] = fmt.Sprintf("%d parts with sequence numbers 10, 13, ... (never contiguous) published to a running stream that waits for number 1: "+
				"the out-of-order map holds %d entries — no window, no bound until the height is committed", far, len(v.Streams[string(id)].Buf))
			// a processed number arriving again is buffered and never removed
			id2 := craftedStreamID(2)
			sc := honestScript(1, 1, 0, 2, 2, nil)
			p.publish(sc, id2, 0)
			p.publish(sc[1:4], id2, 0)
			v = w.view()
			if sv := v.Streams[string(id2)]; len(sv.Buf) > 0 {
				res.obs["limit:stale-duplicates"] = fmt.Sprintf("numbers 1..3 of a completed stream published again: the out-of-order map of the stream keeps them (%v) although "+
					"the next expected number is %d", sv.Buf, sv.Next)
			}
			w.drain()
			// stream objects no commit removes: a height already left, an id without number 0
			if err := w.commit(); err != nil {
				t.Fatal(err)
			}
			synctest.Wait()
			id3, id4 := craftedStreamID(3), craftedStreamID(4)
			p.publishMsgs(id3, absMsg{Seq: 0, Part: pInit(1, 2, -1, 1)}, absMsg{Seq: 1, Part: pInfo(1)})
			p.publishMsgs(id4, absMsg{Seq: 1, Part: pInfo(1)})
			for k := 0; k < 2; k++ {
				if err := w.commit(); err != nil {
					t.Fatal(err)
				}
				synctest.Wait()
			}
			v = w.view()
			_, past := v.Streams[string(id3)]
			_, unstarted := v.Streams[string(id4)]
			_, old := v.Streams[string(id)]
			res.obs["limit:stream-objects-kept"] = fmt.Sprintf("two commits after they were created (height now %d): the stream of an already-left height is still held: %v; "+
				"the stream whose number 0 never came is still held: %v (each with its input channel); the streams registered under a committed height are gone: %v",
				v.Cur, past, unstarted, !old)
		default:
			res.fail = "unknown probe " + name
		}
	})
	if dead != "" && res.dv == nil && res.fail == "" {
		res.fail = "goroutines left blocked after the probe's world was closed: " + dead
	}
	return res
}

func firstLine(s string) string {
	for i, c := range s {
		if c == '\n' || i >= 200 {
			return s[:i]
		}
	}
	return s
}

var allProbes = []string{"nil-state", "nil-state-badinit", "blocked-unstarted", "blocked-future", "blocked-past", "blocked-dead", "refin", "limits"}

func TestProposalProbes(t *testing.T) {
	if !vh.Enabled() {
		t.Skip("driver only")
	}
	var in probeInput
	if err := vh.Input(&in); err != nil {
		t.Fatal(err)
	}
	out := vh.NewResult()
	defer out.Write()
	if len(in.Probes) == 0 {
		in.Probes = allProbes
	}
	if in.InputCap == 0 {
		in.InputCap = 4
	}
	u, err := newUniverse(vh.Seed(), 4, true)
	if err != nil {
		t.Fatal(err)
	}
	obs := map[string]string{}
	n := 0
	for _, name := range in.Probes {
		r := runProbe(t, u, name, in.InputCap)
		if r.fail != "" {
			t.Fatalf("probe %s: %s", name, r.fail)
		}
		for k, v := range r.obs {
			obs[k] = v
		}
		if r.dv != nil {
			r.dv.Input = probeInput{Probes: []string{name}, InputCap: in.InputCap}
			out.Diverge(*r.dv)
			out.Count("probes_reproduced", 1)
		}
		n++
	}
	out.Stats["observations"] = obs
	out.Done(n, 0)
}

package proposal

import (
	"context"
	"testing"
	"testing/synctest"
	"time"

	pubsub "github.com/libp2p/go-libp2p-pubsub"
	mocknet "github.com/libp2p/go-libp2p/p2p/net/mock"
)

func TestExpBubble(t *testing.T) {
	synctest.Test(t, func(t *testing.T) {
		ctx, cancel := context.WithCancel(context.Background())
		mn := mocknet.New()
		h, err := mn.GenPeer()
		if err != nil {
			t.Fatal(err)
		}
		ps, err := pubsub.NewGossipSub(ctx, h)
		if err != nil {
			t.Fatal(err)
		}
		topic, err := ps.Join("x")
		if err != nil {
			t.Fatal(err)
		}
		sub, err := topic.Subscribe(pubsub.WithBufferSize(2))
		if err != nil {
			t.Fatal(err)
		}
		got := 0
		go func() {
			for {
				m, err := sub.Next(ctx)
				if err != nil {
					return
				}
				_ = m
				got++
			}
		}()
		synctest.Wait()
		t0 := time.Now()
		for i := 0; i < 5; i++ {
			if err := topic.Publish(ctx, []byte{byte(i)}); err != nil {
				t.Fatal(err)
			}
			synctest.Wait()
			t.Logf("after publish %d got=%d dt=%v", i, got, time.Since(t0))
		}
		time.Sleep(3 * time.Second)
		synctest.Wait()
		t.Logf("after sleep got=%d", got)
		cancel()
		sub.Cancel()
		topic.Close()
		h.Close()
		mn.Close()
		synctest.Wait()
	})
}

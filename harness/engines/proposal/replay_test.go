package proposal

import (
	"encoding/json"
	"fmt"
	"reflect"
	"sort"
	"strings"
	"testing"
	"testing/synctest"

	"github.com/NethermindEth/juno/consensus/starknet"
	"github.com/starknet-io/starknet-p2p-specs/p2p/proto/consensus/consensus"
	"google.golang.org/protobuf/proto"

	"verifharness/internal/vh"
)

type absView struct {
	Ex      bool     `json:"ex"`
	Started bool     `json:"started"`
	SM      string   `json:"sm"`
	Next    uint64   `json:"next"`
	Buf     []uint64 `json:"buf"`
	Inq     int      `json:"inq"`
	Reg     int      `json:"reg"`
	H       int      `json:"h"`
}

type absProj struct {
	Cur     int         `json:"cur"`
	Dmx     string      `json:"dmx"`
	Loops   int         `json:"loops"`
	Streams []absView   `json:"streams"`
	Got     [][]absProp `json:"got"`
}

type absStep struct {
	A struct {
		Name string `json:"name"`
		S    int    `json:"s"`
		J    int    `json:"j"`
	} `json:"a"`
	Pre absProj `json:"pre"`
}

type behaviour struct {
	Scripts []absScript `json:"scripts"`
	Honest  []bool      `json:"honest"`
	Good    [][]absProp `json:"good"`
	Steps   []absStep   `json:"steps"`
}

type replayConsts struct {
	InitHeight int   `json:"InitHeight"`
	MaxHeight  int   `json:"MaxHeight"`
	InputCap   int   `json:"InputCap"`
	OutCap     int   `json:"OutCap"`
	Bad        []int `json:"Bad"`
}

type replayInput struct {
	Consts     replayConsts `json:"consts"`
	Behaviours []behaviour  `json:"behaviours"`
	Small      bool         `json:"small"` // 3 transactions per batch instead of 64 (crafted scripts only)
}

func TestProposalReplay(t *testing.T) {
	if !vh.Enabled() {
		t.Skip("driver only")
	}
	var in replayInput
	if err := vh.Input(&in); err != nil {
		t.Fatal(err)
	}
	out := vh.NewResult()
	defer out.Write()
	u, err := newUniverse(vh.Seed(), in.Consts.MaxHeight, in.Small)
	if err != nil {
		t.Fatal(err)
	}
	steps := 0
	for bi := range in.Behaviours {
		b := &in.Behaviours[bi]
		one := replayInput{Consts: in.Consts, Behaviours: []behaviour{*b}, Small: in.Small}
		var dv *vh.Divergence
		dead := bubble(t, func(t *testing.T) { dv = replayOne(t, u, in.Consts, b, out) })
		if dv == nil && dead != "" {
			dv = &vh.Divergence{Key: "proposal-replay:goroutines-left", What: "goroutines left blocked after the world was closed: " + dead}
		}
		if dv != nil {
			dv.Input = one
			out.Diverge(*dv)
			break
		}
		steps += len(b.Steps)
		if bi < 2 {
			acts := make([]string, 0, len(b.Steps))
			for _, s := range b.Steps {
				acts = append(acts, fmt.Sprintf("%s(%d,%d)", s.A.Name, s.A.S, s.A.J))
			}
			out.Sample(vh.J{"acts": strings.Join(acts, " ")})
		}
	}
	out.Done(len(in.Behaviours), steps)
}

// replayOne steps one behaviour through the real demux; nil = conforms.
func replayOne(t *testing.T, u *universe, c replayConsts, b *behaviour, out *vh.Result) *vh.Divergence {
	w, err := newWorld(t, u, worldOpts{initHeight: c.InitHeight, inputCap: c.InputCap, outCap: c.OutCap, bad: c.Bad})
	if err != nil {
		t.Fatal(err)
	}
	closed := false
	defer func() {
		if !closed {
			w.close()
		}
	}()
	synctest.Wait()
	// the wire bytes of every script: honest ones from the real dispatcher, the others crafted
	wire := make([][][]byte, len(b.Scripts))
	ids := make([]string, len(b.Scripts))
	sent := make([]*starknet.Proposal, len(b.Scripts))
	for s, sc := range b.Scripts {
		if b.Honest[s] {
			msgs, p, err := w.dispatch(sc)
			if err != nil {
				t.Fatalf("dispatch stream %d: %v", s+1, err)
			}
			if what := w.checkDispatched(sc, msgs); what != "" {
				return &vh.Divergence{Key: "proposal-dispatch:parts", What: fmt.Sprintf("stream %d: %s", s+1, what)}
			}
			out.Count("dispatched_by_real_proposer", 1)
			wire[s], sent[s] = msgs, p
			var sm consensus.StreamMessage
			_ = proto.Unmarshal(msgs[0], &sm)
			ids[s] = string(sm.StreamId)
		} else {
			id := craftedStreamID(s + 1)
			msgs, err := u.craft(sc, id)
			if err != nil {
				t.Fatalf("craft stream %d: %v", s+1, err)
			}
			wire[s], ids[s] = msgs, string(id)
		}
	}
	got := make([][]*starknet.Proposal, len(b.Scripts))
	for k, st := range b.Steps {
		synctest.Wait()
		if dv := compare(w, u, b, ids, got, &st.Pre, k); dv != nil {
			return dv
		}
		switch st.A.Name {
		case "Recv":
			if err := w.publish(wire[st.A.S-1][st.A.J-1]); err != nil {
				t.Fatalf("publish: %v", err)
			}
			out.Count("recv", 1)
		case "Commit":
			if err := w.commit(); err != nil {
				t.Fatal(err)
			}
			out.Count("commit", 1)
		case "Drain":
			for _, p := range w.drain() {
				s := attribute(u, b, p)
				if s < 0 {
					return &vh.Divergence{Key: "proposal-replay:alien-proposal", Step: k,
						What: "the demux handed the driver a Proposal no stream of the behaviour means: " + propString(p)}
				}
				got[s] = append(got[s], p)
				out.Count("proposals_delivered", 1)
			}
		case "End":
		default:
			t.Fatalf("unknown act %q", st.A.Name)
		}
	}
	last := b.Steps[len(b.Steps)-1].Pre
	out.Count("end_"+last.Dmx, 1)
	// shutdown: Loop must return; a panic of the demux goroutine is re-raised here by conc
	closed = true
	p := w.close()
	// (a demux parked in enqueueMessage is released by the cancellation and may then pick a queued
	// message instead of ctx.Done() — the select is a coin flip —, so a panic at shutdown decides
	// nothing there)
	if last.Dmx != "blocked" && (p != nil) != (last.Dmx == "crashed") {
		return &vh.Divergence{Key: "proposal-replay:shutdown", Step: len(b.Steps),
			What: fmt.Sprintf("Loop ended with %v at shutdown, model says the demux is %q", p, last.Dmx)}
	}
	return nil
}

// attribute finds the stream a delivered proposal belongs to: the one whose Good set holds it.
func attribute(u *universe, b *behaviour, p *starknet.Proposal) int {
	for s := range b.Scripts {
		for _, g := range b.Good[s] {
			cp, err := u.concreteProp(g)
			if err == nil && sameProp(&cp, p) {
				return s
			}
		}
	}
	return -1
}

func sameProp(a, b *starknet.Proposal) bool {
	if a.Height != b.Height || a.Round != b.Round || a.ValidRound != b.ValidRound || a.Sender != b.Sender {
		return false
	}
	if (a.Value == nil) != (b.Value == nil) {
		return false
	}
	return a.Value == nil || *a.Value == *b.Value
}

func compare(w *world, u *universe, b *behaviour, ids []string, got [][]*starknet.Proposal, want *absProj, k int) *vh.Divergence {
	v := w.view()
	obs := absProj{Cur: v.Cur, Dmx: v.Dmx, Loops: v.Loops}
	known := map[string]bool{}
	for s := range b.Scripts {
		known[ids[s]] = true
		sv, ok := v.Streams[ids[s]]
		av := absView{Ex: ok, SM: "Initial", Buf: []uint64{}}
		if ok {
			av = absView{Ex: true, Started: sv.Started, SM: sv.SM, Next: sv.Next, Buf: sv.Buf, Inq: sv.Inq, Reg: sv.Reg, H: sv.H}
		}
		obs.Streams = append(obs.Streams, av)
	}
	for id := range v.Streams {
		if !known[id] {
			return &vh.Divergence{Key: "proposal-replay:alien-stream", Step: k, What: fmt.Sprintf("the demux holds a stream %x nobody published", id)}
		}
	}
	exp := *want
	for s := range exp.Streams {
		if exp.Streams[s].Buf == nil {
			exp.Streams[s].Buf = []uint64{}
		}
		sort.Slice(exp.Streams[s].Buf, func(a, c int) bool { return exp.Streams[s].Buf[a] < exp.Streams[s].Buf[c] })
	}
	expGot := exp.Got
	exp.Got = nil
	if !reflect.DeepEqual(obs, exp) {
		field := "state"
		switch {
		case obs.Cur != exp.Cur:
			field = "height"
		case obs.Dmx != exp.Dmx:
			field = "demux-" + obs.Dmx + "-expected-" + exp.Dmx
		case obs.Loops != exp.Loops:
			field = "loops"
		default:
			for s := range obs.Streams {
				if !reflect.DeepEqual(obs.Streams[s], exp.Streams[s]) {
					field = "stream:" + diffField(obs.Streams[s], exp.Streams[s])
					break
				}
			}
		}
		return &vh.Divergence{Key: "proposal-replay:" + field, Step: k,
			What:     fmt.Sprintf("before act %d (%s) the real demux is not in the model's state (%s); logged errors: %v", k, actName(b, k), field, tail(w.log.take(), 4)),
			Expected: exp, Observed: obs}
	}
	// what the driver has read so far against the model (exact proposals; as a multiset, because two
	// streams may mean the same proposal)
	var wantAll, gotAll []string
	for s := range expGot {
		for _, ap := range expGot[s] {
			cp, err := u.concreteProp(ap)
			if err != nil {
				return &vh.Divergence{Key: "proposal-replay:harness", Step: k, What: err.Error()}
			}
			wantAll = append(wantAll, propString(&cp))
		}
	}
	for s := range got {
		gotAll = append(gotAll, propStrings(got[s])...)
	}
	sort.Strings(wantAll)
	sort.Strings(gotAll)
	if !reflect.DeepEqual(wantAll, gotAll) {
		key := "proposal-replay:delivered-value"
		if len(wantAll) != len(gotAll) {
			key = fmt.Sprintf("proposal-replay:delivered-%d-expected-%d", len(gotAll), len(wantAll))
		}
		return &vh.Divergence{Key: key, Step: k,
			What:     fmt.Sprintf("before act %d (%s) the driver has read %d proposal(s), the model says %d (or other ones); logged errors: %v", k, actName(b, k), len(gotAll), len(wantAll), tail(w.log.take(), 4)),
			Expected: wantAll, Observed: gotAll}
	}
	return nil
}

func diffField(a, b absView) string {
	switch {
	case a.Ex != b.Ex:
		return "exists"
	case a.Started != b.Started:
		return "started"
	case a.SM != b.SM:
		return "sm-" + a.SM + "-expected-" + b.SM
	case a.Next != b.Next:
		return "next"
	case !reflect.DeepEqual(a.Buf, b.Buf):
		return "buffer"
	case a.Inq != b.Inq:
		return "input"
	case a.Reg != b.Reg:
		return "registered"
	case a.H != b.H:
		return "height"
	}
	return "?"
}

func actName(b *behaviour, k int) string {
	a := b.Steps[k].A
	return fmt.Sprintf("%s(%d,%d)", a.Name, a.S, a.J)
}

func tail(s []string, n int) []string {
	if len(s) > n {
		return s[len(s)-n:]
	}
	return s
}

func propStrings(ps []*starknet.Proposal) []string {
	r := make([]string, len(ps))
	for i, p := range ps {
		r[i] = propString(p)
	}
	return r
}

var _ = json.Marshal

package proposal

import (
	"context"
	"fmt"
	"time"

	"github.com/NethermindEth/juno/adapters/consensus2p2p"
	"github.com/NethermindEth/juno/consensus/p2p/proposer"
	"github.com/NethermindEth/juno/consensus/proposal"
	"github.com/NethermindEth/juno/consensus/starknet"
	"github.com/NethermindEth/juno/consensus/types"
	"github.com/NethermindEth/juno/core/felt"
	pubsub "github.com/libp2p/go-libp2p-pubsub"
	"github.com/starknet-io/starknet-p2p-specs/p2p/proto/common"
	"github.com/starknet-io/starknet-p2p-specs/p2p/proto/consensus/consensus"
	"google.golang.org/protobuf/proto"
)

// ---------------------------------------------------------------- abstract scripts (from TLC)

type absPart struct {
	K  string  `json:"k"`
	H  int     `json:"h"`
	R  int     `json:"r"`
	VR int     `json:"vr"`
	P  int     `json:"p"`
	I  int     `json:"i"`
	B  int     `json:"b"`
	T  []int   `json:"t"`
	V  *absVal `json:"v"`
}

type absMsg struct {
	Seq  uint64  `json:"seq"`
	Part absPart `json:"part"`
}

type absScript []absMsg

func (sc absScript) init() (absPart, bool) {
	for _, m := range sc {
		if m.Part.K == "Init" {
			return m.Part, true
		}
	}
	return absPart{}, false
}

func addr(f felt.Felt) *common.Address { b := f.Bytes(); return &common.Address{Elements: b[:]} }

func craftedStreamID(s int) []byte {
	id, _ := proto.Marshal(&consensus.ConsensusStreamId{BlockNumber: uint64(9000 + s), Round: uint32(s), Nonce: uint64(s)})
	return id
}

// craftPart turns one abstract part into the bytes of a ProposalPart the way another (or a hostile)
// implementation would put them on the wire. ini = the Init the script's Commit parts refer to.
func (u *universe) craftPart(pt absPart, ini absPart) (content []byte, fin bool, err error) {
	var pp consensus.ProposalPart
	switch pt.K {
	case "Fin":
		return nil, true, nil
	case "Junk":
		return []byte{0x0a, 0x05, 0x01}, false, nil // field 1, length 5, one byte: truncated
	case "Init":
		pi := consensus2p2p.AdaptProposalInit(&types.ProposalInit{BlockNum: types.Height(pt.H), Round: types.Round(pt.R),
			ValidRound: types.Round(pt.VR), Proposer: u.proposers[pt.P]})
		pp.Messages = &consensus.ProposalPart_Init{Init: &pi}
	case "BadInit":
		pp.Messages = &consensus.ProposalPart_Init{Init: &consensus.ProposalInit{BlockNumber: 1}}
	case "Info":
		p := u.params(pt.I, 0)
		bi := consensus2p2p.AdaptBlockInfo(&types.BlockInfo{BlockNumber: uint64(ini.H), Builder: p.Builder, Timestamp: p.Timestamp,
			L2GasPriceFRI: p.L2GasPriceFRI, L1GasPriceWEI: p.L1GasPriceWEI, L1DataGasPriceWEI: p.L1DataGasPriceWEI,
			EthToStrkRate: p.EthToStrkRate, L1DAMode: p.L1DAMode})
		pp.Messages = &consensus.ProposalPart_BlockInfo{BlockInfo: &bi}
	case "Txs":
		txs := make([]types.Transaction, len(u.batches[pt.B]))
		for k, tx := range u.batches[pt.B] {
			txs[k] = types.Transaction{Transaction: tx}
		}
		tb, err := consensus2p2p.AdaptProposalTransaction(txs)
		if err != nil {
			return nil, false, err
		}
		pp.Messages = &consensus.ProposalPart_Transactions{Transactions: &tb}
	case "Commit":
		h := ini.H
		if h < 1 {
			h = 1
		}
		e := 0
		if pt.I == 0 {
			e = ini.P
		}
		res, err := u.build(absVal{H: h, I: pt.I, T: pt.T, E: e})
		if err != nil {
			return nil, false, fmt.Errorf("commit claim: %w", err)
		}
		c, err := res.ProposalCommitment()
		if err != nil {
			return nil, false, err
		}
		pc := consensus2p2p.AdaptProposalCommitment(&c)
		pp.Messages = &consensus.ProposalPart_Commitment{Commitment: &pc}
	case "PFin":
		vh, err := u.valueHash(*pt.V)
		if err != nil {
			return nil, false, fmt.Errorf("fin claim: %w", err)
		}
		f := types.ProposalFin(vh)
		pf := consensus2p2p.AdaptProposalFin(&f)
		pp.Messages = &consensus.ProposalPart_Fin{Fin: &pf}
	default:
		return nil, false, fmt.Errorf("unknown part kind %q", pt.K)
	}
	b, err := proto.Marshal(&pp)
	return b, false, err
}

// craft = the wire bytes of every message of a script under stream id `id`.
func (u *universe) craft(sc absScript, id []byte) ([][]byte, error) {
	ini, _ := sc.init()
	out := make([][]byte, len(sc))
	for j, m := range sc {
		content, fin, err := u.craftPart(m.Part, ini)
		if err != nil {
			return nil, fmt.Errorf("message %d: %w", j+1, err)
		}
		sm := &consensus.StreamMessage{StreamId: id, SequenceNumber: m.Seq}
		if fin {
			sm.Message = &consensus.StreamMessage_Fin{Fin: &common.Fin{}}
		} else {
			sm.Message = &consensus.StreamMessage_Content{Content: content}
		}
		b, err := proto.Marshal(sm)
		if err != nil {
			return nil, err
		}
		out[j] = b
	}
	return out, nil
}

// ---------------------------------------------------------------- the real sending side

// dispatch runs the REAL proposal broadcaster (processLoop -> dispatcher -> ProtoBroadcaster.Loop ->
// topic.Publish) for the proposal an honest script stands for and returns what it published, in
// order. Must run inside a bubble (the broadcaster sleeps two gossipsub heartbeats first).
func (w *world) dispatch(sc absScript) (msgs [][]byte, prop *starknet.Proposal, err error) {
	ini, ok := sc.init()
	if !ok {
		return nil, nil, fmt.Errorf("honest script without Init")
	}
	var info int
	var t []int
	for _, m := range sc {
		switch m.Part.K {
		case "Info":
			info = m.Part.I
		case "Txs":
			t = append(t, m.Part.B)
		}
	}
	if t == nil {
		t = []int{}
	}
	ap := absProp{H: ini.H, R: ini.R, P: ini.P, VR: ini.VR, V: absVal{H: ini.H, I: info, T: t}}
	p, err := w.u.concreteProp(ap)
	if err != nil {
		return nil, nil, err
	}
	res, err := w.u.build(ap.V)
	if err != nil {
		return nil, nil, err
	}
	store := &proposal.ProposalStore[starknet.Hash]{}
	store.Store(p.Value.Hash(), res)
	topic, err := w.ps.Join(fmt.Sprintf("proposer-side-%d-%d-%d", ini.H, ini.R, len(w.topics)))
	if err != nil {
		return nil, nil, err
	}
	w.topics = append(w.topics, topic)
	sub, err := topic.Subscribe(pubsub.WithBufferSize(64))
	if err != nil {
		return nil, nil, err
	}
	defer sub.Cancel()
	pb := proposer.NewProposalBroadcaster(w.log, proposer.NewStarknetProposerAdapter(), store, 16, time.Second)
	ctx, cancel := context.WithCancel(w.ctx)
	done := make(chan struct{})
	go func() { defer close(done); pb.Loop(ctx, topic) }()
	pb.Broadcast(ctx, &p)
	time.Sleep(2 * time.Second) // fake clock: past the broadcaster's initial sleep, everything published
	for {
		c, cc := context.WithTimeout(ctx, time.Millisecond)
		m, err := sub.Next(c)
		cc()
		if err != nil {
			break
		}
		msgs = append(msgs, m.Data)
	}
	cancel()
	<-done
	return msgs, &p, nil
}

// checkDispatched binds the sending side to the model: what the real dispatcher published must be,
// message by message, the honest script (sequence numbers, part kinds, Init fields, batch
// contents, the commitment and the fin of the executed block), all under one (height, round) id.
func (w *world) checkDispatched(sc absScript, msgs [][]byte) string {
	if len(msgs) != len(sc) {
		return fmt.Sprintf("the dispatcher published %d messages, the honest script has %d", len(msgs), len(sc))
	}
	ini, _ := sc.init()
	wantID, _ := proto.Marshal(&consensus.ConsensusStreamId{BlockNumber: uint64(ini.H), Round: uint32(ini.R)})
	crafted, err := w.u.craft(sc, wantID)
	if err != nil {
		return "cannot craft the reference bytes: " + err.Error()
	}
	for j, b := range msgs {
		var got, want consensus.StreamMessage
		if err := proto.Unmarshal(b, &got); err != nil {
			return fmt.Sprintf("message %d does not unmarshal: %v", j+1, err)
		}
		_ = proto.Unmarshal(crafted[j], &want)
		if got.SequenceNumber != sc[j].Seq {
			return fmt.Sprintf("message %d has sequence number %d, expected %d", j+1, got.SequenceNumber, sc[j].Seq)
		}
		if string(got.StreamId) != string(wantID) {
			return fmt.Sprintf("message %d has stream id %x, expected %x", j+1, got.StreamId, wantID)
		}
		if (got.GetFin() != nil) != (sc[j].Part.K == "Fin") {
			return fmt.Sprintf("message %d: stream-level fin = %v, script part %s", j+1, got.GetFin() != nil, sc[j].Part.K)
		}
		if got.GetFin() != nil {
			continue
		}
		var gp, wp consensus.ProposalPart
		if err := proto.Unmarshal(got.GetContent(), &gp); err != nil {
			return fmt.Sprintf("message %d content does not unmarshal: %v", j+1, err)
		}
		_ = proto.Unmarshal(want.GetContent(), &wp)
		if !proto.Equal(&gp, &wp) {
			return fmt.Sprintf("message %d (%s): the dispatcher's part differs from the part the built proposal stands for:\n got  %v\n want %v",
				j+1, sc[j].Part.K, trunc(gp.String()), trunc(wp.String()))
		}
	}
	return ""
}

func trunc(s string) string {
	if len(s) > 600 {
		return s[:600] + "..."
	}
	return s
}

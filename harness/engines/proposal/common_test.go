// Engine "proposal" (specification growth G11): consensus proposal streaming and vote gossip —
// consensus/p2p/validator (demux, streams, state machine, transitions), consensus/p2p/proposer
// (the dispatcher that cuts a built proposal into parts), consensus/p2p/buffered (bounded topic
// subscription, proto broadcaster, re-broadcast strategy), consensus/p2p/vote — bound to
// spec/proposal/*.tla.
//
// Everything real except the VM and the wire:
//   - the VM cannot run here: builder.Executor is scripted (RunTxns appends the transactions with
//     receipts that are a function of the transaction, or fails for a designated batch; Finish is
//     the real Blockchain.Simulate, so commitments and block hashes are the real ones);
//   - libp2p-pubsub runs on ONE in-memory mocknet host: ProposalStreamDemux.Loop, the proposal
//     broadcaster's Loop, the vote listeners and broadcasters get real *pubsub.Topic values and
//     subscribe / publish for real, but no socket is opened. This lets the whole engine run inside
//     testing/synctest bubbles: synctest.Wait() returns exactly when every goroutine (demux,
//     streams, pubsub) is durably blocked, so "the demux is blocked for ever" is decided, not
//     timed out, and re-broadcast cadences run on the fake clock.
//
// Unexported state of the demux (streams, buffers, heights) is read with reflection at quiescent
// points; nothing in /repo is changed.
package proposal

import (
	"context"
	"encoding/json"
	"errors"
	"fmt"
	"reflect"
	"runtime"
	"sort"
	"strings"
	"sync"
	"testing"
	"testing/synctest"
	"time"

	"github.com/NethermindEth/juno/blockchain"
	"github.com/NethermindEth/juno/builder"
	"github.com/NethermindEth/juno/consensus/p2p/config"
	"github.com/NethermindEth/juno/consensus/p2p/proposer"
	"github.com/NethermindEth/juno/consensus/p2p/validator"
	"github.com/NethermindEth/juno/consensus/proposal"
	"github.com/NethermindEth/juno/consensus/starknet"
	"github.com/NethermindEth/juno/consensus/types"
	"github.com/NethermindEth/juno/core"
	"github.com/NethermindEth/juno/core/felt"
	"github.com/NethermindEth/juno/mempool"
	pubsub "github.com/libp2p/go-libp2p-pubsub"
	mocknet "github.com/libp2p/go-libp2p/p2p/net/mock"
	"go.uber.org/zap"

	"verifharness/internal/chainkit"
	"verifharness/internal/vh"
)

const junoPkg = "github.com/NethermindEth/juno/"

// ---------------------------------------------------------------- logger that remembers errors

type memLogger struct {
	mu   sync.Mutex
	errs []string
}

func (l *memLogger) add(msg string, fields []zap.Field) {
	l.mu.Lock()
	defer l.mu.Unlock()
	for _, f := range fields {
		if e, ok := f.Interface.(error); ok && e != nil {
			msg += ": " + e.Error()
		}
	}
	if len(l.errs) < 2000 {
		l.errs = append(l.errs, msg)
	}
}
func (l *memLogger) take() []string {
	l.mu.Lock()
	defer l.mu.Unlock()
	e := l.errs
	l.errs = nil
	return e
}
func (l *memLogger) Debug(string, ...zap.Field)      {}
func (l *memLogger) Info(string, ...zap.Field)       {}
func (l *memLogger) Warn(string, ...zap.Field)       {}
func (l *memLogger) Trace(string, ...zap.Field)      {}
func (l *memLogger) Error(m string, f ...zap.Field)  { l.add(m, f) }
func (l *memLogger) Infof(string, ...any)            {}
func (l *memLogger) Errorf(f string, a ...any)       { l.add(fmt.Sprintf(f, a...), nil) }
func (l *memLogger) Fatalf(f string, a ...any)       { l.add("FATAL "+fmt.Sprintf(f, a...), nil) }

// ---------------------------------------------------------------- scripted executor

// scriptExec stands in for the VM-backed builder.Executor. The outcome of a transaction is a
// function of the transaction alone (same content => same receipts => same commitments on every
// node), a transaction in bad makes RunTxns fail, Finish is the real Simulate.
type scriptExec struct {
	bc  *blockchain.Blockchain
	bad map[felt.Felt]bool
	mu  sync.Mutex
	ran int
}

var errScripted = errors.New("scripted executor: transaction cannot be executed")

func receiptFor(tx core.Transaction) *core.TransactionReceipt {
	h := tx.Hash()
	b := h.Bytes()
	return &core.TransactionReceipt{
		Fee:             chainkit.F(uint64(b[31]) + 1),
		FeeUnit:         core.STRK,
		Events:          []*core.Event{},
		TransactionHash: h,
		ExecutionResources: &core.ExecutionResources{
			Steps:            uint64(b[30]) + 10,
			DataAvailability: &core.DataAvailability{L1Gas: 1, L1DataGas: uint64(b[29])},
			TotalGasConsumed: &core.GasConsumed{L1Gas: 1, L1DataGas: uint64(b[29]), L2Gas: uint64(b[28])},
		},
		L2ToL1Message: []*core.L2ToL1Message{},
	}
}

func (e *scriptExec) RunTxns(state *builder.BuildState, txns []mempool.BroadcastedTransaction) error {
	for i := range txns {
		if e.bad[*txns[i].Transaction.Hash()] {
			return errScripted
		}
	}
	e.mu.Lock()
	e.ran += len(txns)
	e.mu.Unlock()
	pc := state.PreConfirmed
	for i := range txns {
		tx := txns[i].Transaction
		pc.Block.Transactions = append(pc.Block.Transactions, tx)
		pc.Block.Receipts = append(pc.Block.Receipts, receiptFor(tx))
		pc.Block.TransactionCount++
		pc.TransactionStateDiffs = append(pc.TransactionStateDiffs, chainkit.EmptyDiff())
	}
	return nil
}

func (e *scriptExec) Finish(state *builder.BuildState) (blockchain.SimulateResult, error) {
	return e.bc.Simulate(state.PreConfirmed.Block, state.PreConfirmed.StateUpdate, state.PreConfirmed.NewClasses, nil)
}

// ---------------------------------------------------------------- the universe (concretisation)

const batchSize = 64 // proposer_dispatcher.go txBatchSize: an abstract batch is exactly one Txs part

type infoParams struct {
	builder felt.Felt
	ts      uint64
	l2      felt.Felt
}

// universe maps the specification's abstract ids to real values, deterministically from the seed:
// batches 1..3 (64 invoke-v3 transactions each), infos 1..2 (builder, timestamp, L2 gas price),
// proposers 1..2, and the decided chain D0, D1, ... the heights move along.
type universe struct {
	batches   map[int][]core.Transaction
	infos     map[int]infoParams
	proposers map[int]felt.Felt
	maxHeight int
	decided   []*chainkit.Built       // decided[h] = block h (decided[0] = the start of the chain)
	twin      map[int]*chainkit.Node  // twin[h]: a chain whose head is decided[h-1]
	twinBld   map[int]*builder.Builder
	cache     map[string]*builder.BuildResult
}

func newUniverse(seed int64, maxHeight int, small bool) (*universe, error) {
	g := chainkit.NewGen(seed*7919 + 11)
	u := &universe{batches: map[int][]core.Transaction{}, infos: map[int]infoParams{}, proposers: map[int]felt.Felt{},
		maxHeight: maxHeight, twin: map[int]*chainkit.Node{}, twinBld: map[int]*builder.Builder{}, cache: map[string]*builder.BuildResult{}}
	n := batchSize
	if small {
		n = 3
	}
	for b := 1; b <= 3; b++ {
		for i := 0; i < n; i++ {
			u.batches[b] = append(u.batches[b], wireTx(g))
		}
	}
	for i := 1; i <= 2; i++ {
		u.infos[i] = infoParams{builder: *g.Felt(), ts: uint64(1_700_000_000 + 100*i), l2: *chainkit.F(uint64(7 + i))}
	}
	for p := 0; p <= 2; p++ {
		u.proposers[p] = *g.Felt()
	}
	// the decided chain: block 0 .. maxHeight, each an (otherwise unrelated) block with one transaction
	base := chainkit.NewNode(nil, false)
	for h := 0; h <= maxHeight; h++ {
		u.twin[h] = nil
		tx := g.Tx("invoke3")
		b, err := base.Append(chainkit.BlockSpec{Timestamp: uint64(1_600_000_000 + h), Txs: []core.Transaction{tx},
			Receipts: []*core.TransactionReceipt{receiptFor(tx)}})
		if err != nil {
			return nil, fmt.Errorf("decided chain: %w", err)
		}
		u.decided = append(u.decided, b)
	}
	for h := 1; h <= maxHeight+1; h++ {
		nd, err := u.chainUpTo(h - 1)
		if err != nil {
			return nil, err
		}
		u.twin[h] = nd
		bld := builder.New(nd.BC, &scriptExec{bc: nd.BC})
		u.twinBld[h] = &bld
	}
	return u, nil
}

// wireTx is an invoke v3 the consensus wire format carries unchanged (no account deployment data:
// p2p2core drops it, and the receiver's hash check would then refuse the transaction).
func wireTx(g *chainkit.Gen) core.Transaction {
	rb := func() core.ResourceBounds {
		return core.ResourceBounds{MaxAmount: uint64(g.R.Intn(1000)), MaxPricePerUnit: chainkit.F(uint64(g.R.Intn(1000)))}
	}
	tx := &core.InvokeTransaction{Version: new(core.TransactionVersion).SetUint64(3), SenderAddress: g.Felt(), Nonce: g.Felt(),
		CallData: g.Felts(g.R.Intn(3)), TransactionSignature: g.Felts(2),
		ResourceBounds: map[core.Resource]core.ResourceBounds{core.ResourceL1Gas: rb(), core.ResourceL2Gas: rb(), core.ResourceL1DataGas: rb()},
		Tip: uint64(g.R.Intn(9)), PaymasterData: g.Felts(g.R.Intn(2)),
		NonceDAMode: core.DataAvailabilityMode(g.R.Intn(2)), FeeDAMode: core.DataAvailabilityMode(g.R.Intn(2))}
	h, err := core.TransactionHash(tx, chainkit.Network)
	if err != nil {
		panic(err)
	}
	tx.TransactionHash = &h
	return tx
}

// chainUpTo returns a fresh node holding decided[0..top].
func (u *universe) chainUpTo(top int) (*chainkit.Node, error) {
	nd := chainkit.NewNode(nil, false)
	for h := 0; h <= top; h++ {
		if err := nd.StoreBuilt(u.decided[h]); err != nil {
			return nil, fmt.Errorf("store decided %d: %w", h, err)
		}
	}
	return nd, nil
}

func (u *universe) badSet(bad []int) map[felt.Felt]bool {
	m := map[felt.Felt]bool{}
	for _, b := range bad {
		for _, tx := range u.batches[b] {
			m[*tx.Hash()] = true
		}
	}
	return m
}

// params of the block a validator builds for info i (i = 0: the empty form, builder = proposer e)
func (u *universe) params(i, e int) builder.BuildParams {
	if i == 0 {
		return builder.BuildParams{Builder: u.proposers[e], Timestamp: 1_700_000_000, L1DAMode: core.L1DAMode(0)}
	}
	ip := u.infos[i]
	return builder.BuildParams{Builder: ip.builder, Timestamp: ip.ts, L2GasPriceFRI: ip.l2, L1GasPriceWEI: felt.One,
		L1DataGasPriceWEI: felt.One, EthToStrkRate: felt.One, L1DAMode: core.Blob}
}

type absVal struct {
	H int   `json:"h"`
	I int   `json:"i"`
	T []int `json:"t"`
	E int   `json:"e"`
}

func (v absVal) key() string { return fmt.Sprintf("%d/%d/%v/%d", v.H, v.I, v.T, v.E) }
func (v absVal) isNone() bool { return v.H == 0 }

// build executes (on the twin chain of height v.H, with an executor that refuses nothing) the block
// the abstract value stands for: the real block hash and the real commitment of that content.
func (u *universe) build(v absVal) (*builder.BuildResult, error) {
	if r, ok := u.cache[v.key()]; ok {
		return r, nil
	}
	bld := u.twinBld[v.H]
	if bld == nil {
		return nil, fmt.Errorf("no twin chain for height %d", v.H)
	}
	p := u.params(v.I, v.E)
	bs, err := bld.InitPreconfirmedBlock(&p)
	if err != nil {
		return nil, err
	}
	for _, b := range v.T {
		txs := make([]mempool.BroadcastedTransaction, len(u.batches[b]))
		for k, tx := range u.batches[b] {
			txs[k] = mempool.BroadcastedTransaction{Transaction: tx}
		}
		if err := bld.RunTxns(bs, txs); err != nil {
			return nil, err
		}
	}
	res, err := bld.Finish(bs)
	if err != nil {
		return nil, err
	}
	u.cache[v.key()] = &res
	return &res, nil
}

func (u *universe) valueHash(v absVal) (starknet.Hash, error) {
	r, err := u.build(v)
	if err != nil {
		return starknet.Hash{}, err
	}
	return starknet.Hash(*r.PreConfirmed.Block.Hash), nil
}

// ---------------------------------------------------------------- abstract proposals

type absProp struct {
	H  int    `json:"h"`
	R  int    `json:"r"`
	P  int    `json:"p"`
	VR int    `json:"vr"`
	V  absVal `json:"v"`
}

func (u *universe) concreteProp(p absProp) (starknet.Proposal, error) {
	vh, err := u.valueHash(p.V)
	if err != nil {
		return starknet.Proposal{}, err
	}
	val := starknet.Value(vh)
	return starknet.Proposal{
		MessageHeader: starknet.MessageHeader{Height: types.Height(p.H), Round: types.Round(p.R), Sender: starknet.Address(u.proposers[p.P])},
		ValidRound:    types.Round(p.VR),
		Value:         &val,
	}, nil
}

func propString(p *starknet.Proposal) string {
	v := "nil"
	if p.Value != nil {
		h := p.Value.Hash()
		v = (*felt.Felt)(&h).String()
	}
	return fmt.Sprintf("h=%d r=%d vr=%d sender=%s value=%s", p.Height, p.Round, p.ValidRound, (*felt.Felt)(&p.Sender).String(), v)
}

// ---------------------------------------------------------------- the world: pubsub, validator, proposer

type world struct {
	t       *testing.T
	u       *universe
	ctx     context.Context
	cancel  context.CancelFunc
	mn      mocknet.Mocknet
	ps      *pubsub.PubSub
	inTopic *pubsub.Topic // what the validator's demux listens to
	topics  []*pubsub.Topic
	log     *memLogger

	node     *chainkit.Node // the validator's chain
	exec     *scriptExec
	store    *proposal.ProposalStore[starknet.Hash]
	commits  chan types.Height
	demux    validator.ProposalStreamDemux[starknet.Value, starknet.Hash, starknet.Address]
	sizes    config.BufferSizes
	cur      int
	loopDone chan any // the panic value Loop ended with (nil = returned)
}

type worldOpts struct {
	initHeight int
	inputCap   int
	outCap     int
	demuxCap   int
	bad        []int
}

func newWorld(t *testing.T, u *universe, o worldOpts) (*world, error) {
	w := &world{t: t, u: u, log: &memLogger{}, cur: o.initHeight}
	w.ctx, w.cancel = context.WithCancel(context.Background())
	w.mn = mocknet.New()
	h, err := w.mn.GenPeer()
	if err != nil {
		return nil, err
	}
	if w.ps, err = pubsub.NewGossipSub(w.ctx, h); err != nil {
		return nil, err
	}
	if w.inTopic, err = w.ps.Join("consensus_proposals"); err != nil {
		return nil, err
	}
	if w.node, err = u.chainUpTo(o.initHeight - 1); err != nil {
		return nil, err
	}
	w.exec = &scriptExec{bc: w.node.BC, bad: u.badSet(o.bad)}
	bld := builder.New(w.node.BC, w.exec)
	w.store = &proposal.ProposalStore[starknet.Hash]{}
	if o.demuxCap == 0 {
		o.demuxCap = 256
	}
	w.sizes = config.DefaultBufferSizes
	w.sizes.ProposalDemux = o.demuxCap
	w.sizes.ProposalSingleStreamInput = o.inputCap
	w.sizes.ProposalOutputs = o.outCap
	w.commits = make(chan types.Height, 64)
	w.demux = validator.NewProposalStreamDemux(w.log, w.store, validator.NewTransition(&bld, nil), &w.sizes, w.commits, types.Height(o.initHeight))
	w.loopDone = make(chan any, 1)
	go func() {
		defer func() { w.loopDone <- recover() }()
		w.demux.Loop(w.ctx, w.inTopic)
	}()
	return w, nil
}

// close ends the world; returns the panic Loop re-raised at shutdown, if any.
func (w *world) close() any {
	w.cancel()
	var p any
	select {
	case p = <-w.loopDone:
	case <-time.After(30 * time.Second):
		p = "Loop did not return within 30s of cancellation"
	}
	for _, tp := range w.topics {
		tp.Close()
	}
	w.inTopic.Close()
	w.mn.Close()
	return p
}

func (w *world) publish(data []byte) error { return w.inTopic.Publish(w.ctx, data) }

// commit: the driver decided height cur — the block is stored, then p2p.OnCommit notifies the demux.
func (w *world) commit() error {
	if err := w.node.StoreBuilt(w.u.decided[w.cur]); err != nil {
		return fmt.Errorf("store decided block %d: %w", w.cur, err)
	}
	w.commits <- types.Height(w.cur)
	w.cur++
	return nil
}

// drain reads what the driver would read, until nothing more comes (inside a bubble).
func (w *world) drain() []*starknet.Proposal {
	var got []*starknet.Proposal
	for {
		synctest.Wait()
		select {
		case p, ok := <-w.demux.Listen():
			if !ok {
				return got
			}
			got = append(got, p)
		default:
			return got
		}
	}
}

// ---------------------------------------------------------------- projection by reflection

type streamView struct {
	Started bool     `json:"started"`
	SM      string   `json:"sm"`
	Next    uint64   `json:"next"`
	Buf     []uint64 `json:"buf"`
	Inq     int      `json:"inq"`
	Reg     int      `json:"reg"`
	H       int      `json:"h"`
}

type demuxView struct {
	Cur     int                   `json:"cur"`
	Dmx     string                `json:"dmx"`
	Loops   int                   `json:"loops"`
	Streams map[string]streamView `json:"streams"` // by stream id bytes
}

func smName(v reflect.Value) (string, int) {
	if v.IsNil() {
		return "Nil", 0
	}
	p := v.Elem() // pointer to a state struct
	if p.Kind() == reflect.Pointer && p.IsNil() {
		return "Nil", 0
	}
	name := p.Type().String()
	name = name[strings.LastIndex(name, ".")+1:]
	h := 0
	if p.Kind() == reflect.Pointer {
		s := p.Elem()
		if hdr := s.FieldByName("Header"); hdr.IsValid() && hdr.Kind() == reflect.Pointer && !hdr.IsNil() {
			h = int(hdr.Elem().FieldByName("Height").Uint())
		}
		if pr := s.FieldByName("Proposal"); pr.IsValid() && pr.Kind() == reflect.Pointer && !pr.IsNil() {
			h = int(pr.Elem().FieldByName("MessageHeader").FieldByName("Height").Uint())
		}
	}
	switch name {
	case "InitialState":
		return "Initial", h
	case "AwaitingBlockInfoOrCommitmentState":
		return "AwaitInfo", h
	case "ReceivingTransactionsState":
		return "RecvTxs", h
	case "AwaitingProposalFinState":
		return "AwaitFin", h
	case "FinState":
		return "Fin", h
	}
	return name, h
}

// view reads the demux's unexported state. Only call at quiescence (synctest.Wait returned).
func (w *world) view() demuxView {
	d := reflect.ValueOf(w.demux).Elem()
	v := demuxView{Cur: int(d.FieldByName("currentHeight").Uint()), Streams: map[string]streamView{}}
	reg := map[string]int{}
	it := d.FieldByName("streamHeights").MapRange()
	for it.Next() {
		h := int(it.Key().Uint())
		for i := 0; i < it.Value().Len(); i++ {
			reg[it.Value().Index(i).String()] = h
		}
	}
	it = d.FieldByName("streams").MapRange()
	for it.Next() {
		id := it.Key().String()
		s := it.Value().Elem()
		sv := streamView{Started: s.FieldByName("started").Bool(), Next: s.FieldByName("nextSequenceNumber").Uint(),
			Inq: s.FieldByName("input").Len(), Reg: reg[id], Buf: []uint64{}}
		sv.SM, sv.H = smName(s.FieldByName("stateMachine"))
		for _, k := range s.FieldByName("messages").MapKeys() {
			sv.Buf = append(sv.Buf, k.Uint())
		}
		sort.Slice(sv.Buf, func(a, b int) bool { return sv.Buf[a] < sv.Buf[b] })
		v.Streams[id] = sv
	}
	// the goroutines: is the demux goroutine alive, is it parked in enqueueMessage, how many stream loops run
	demuxAlive, blocked := false, false
	for _, g := range goroutines() {
		switch {
		case strings.Contains(g, "(*proposalStream).enqueueMessage"):
			blocked = true
			demuxAlive = true
		case strings.Contains(g, "(*proposalStream).loop"):
			v.Loops++
		case strings.Contains(g, "(*proposalStreamDemux).Loop.func1"):
			demuxAlive = true
		}
	}
	switch {
	case !demuxAlive:
		v.Dmx = "crashed"
	case blocked:
		v.Dmx = "blocked"
	default:
		v.Dmx = "ok"
	}
	return v
}

func goroutines() []string {
	buf := make([]byte, 8<<20)
	n := runtime.Stack(buf, true)
	gs := strings.Split(string(buf[:n]), "\n\n")
	mine := ""
	if k := strings.Index(gs[0], "synctest bubble "); k >= 0 {
		head := strings.SplitN(gs[0], "\n", 2)[0]
		mine = strings.TrimRight(head[strings.Index(head, "synctest bubble "):], "]:")
	}
	var res []string
	for _, g := range gs[1:] {
		head := strings.SplitN(g, "\n", 2)[0]
		if mine != "" && !strings.Contains(head, mine+"]") {
			continue
		}
		res = append(res, g)
	}
	return res
}

// bubble runs f inside a synctest bubble and returns the runtime's complaint if goroutines were
// left blocked when f returned.
func bubble(t *testing.T, f func(t *testing.T)) (deadlock string) {
	defer func() {
		if r := recover(); r != nil {
			deadlock = fmt.Sprint(r)
		}
	}()
	synctest.Test(t, f)
	return ""
}

func jsonOf(v any) string {
	b, _ := json.Marshal(v)
	return string(b)
}

var _ = vh.Enabled
var _ = proposer.NewStarknetProposerAdapter

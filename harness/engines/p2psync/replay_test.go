// replay_test.go: TLC-simulated behaviours of P2PSyncMBT.tla stepped through the REAL Service.
// The harness is the environment of the specification: it acts only when every goroutine is
// durably blocked (synctest.Wait), compares the projection of the real state with the
// specification's before every harness step and at the end.
package p2psync

import (
	"encoding/json"
	"fmt"
	"reflect"
	"sort"
	"strings"
	"testing"
	"testing/synctest"
	"time"

	"github.com/libp2p/go-libp2p/core/peer"

	"verifharness/internal/faultkv"
	"verifharness/internal/vh"
)

type mbtAct struct {
	Name string `json:"name"`
	N    int    `json:"n"`
	Part string `json:"part"`
	Peer string `json:"peer"`
	Ok   bool   `json:"ok"`
	C    string `json:"c"`
	H    int    `json:"h"`
	K    string `json:"k"` // Deliver: the abstract content the specification chose (AnsSet)
}

type blkID struct {
	C string `json:"c"`
	H int    `json:"h"`
}

type mbtProj struct {
	Stored  []blkID  `json:"stored"`
	Alive   []string `json:"alive"`
	Run     string   `json:"run"`
	Nopen   int      `json:"nopen"`
	Waiting []string `json:"waiting"`
	Hand    struct {
		K string `json:"k"`
		C string `json:"c"`
		H int    `json:"h"`
	} `json:"hand"`
	Leak bool `json:"leak"`
}

type mbtStep struct {
	A   mbtAct  `json:"a"`
	Pre mbtProj `json:"pre"`
}

type worldCfg struct {
	NewState bool       `json:"new_state"`
	ShapesA  []string   `json:"shapes_a"`
	ForkAt   int        `json:"fork_at"`
	ShapesB  []string   `json:"shapes_b"`
	Start    int        `json:"start"`
	Peers    []peerSpec `json:"peers"`
}

type replayInput struct {
	World      worldCfg    `json:"world"`
	Behaviours [][]mbtStep `json:"behaviours"`
	Seeds      []int64     `json:"seeds,omitempty"` // per behaviour (replay files)
}

func (c worldCfg) build(seed int64) (*world, error) {
	return newWorld(seed, c.NewState, c.ShapesA, c.ForkAt, c.ShapesB)
}

func ids(p []blkID) []string {
	out := make([]string, len(p))
	for i, b := range p {
		out[i] = fmt.Sprintf("%s%d", b.C, b.H)
	}
	return out
}

// observed projection of the real system at a quiescent point
type obsProj struct {
	Stored  []string
	Alive   []string
	Run     string
	Nopen   int
	Waiting []string
	Hand    string
}

func (s *sut) observe() obsProj {
	o := obsProj{Stored: s.storedIDs(), Alive: s.aliveNames(), Hand: "none"}
	if s.mailbox != nil {
		o.Hand = "good:" + s.w.blockID(s.mailbox.Block.Hash)
	}
	switch {
	case s.overflow != nil: // the specification's service is still blocked in its send on Listen()
		o.Run = "busy"
	case s.hasExited():
		o.Run = "exited"
	case s.store.height != nil && s.store.height.waiting():
		o.Run = "height"
	case s.peersGate != nil && s.peersGate.waiting():
		o.Run = "peers"
		o.Nopen = s.openedThisIter()
	default:
		o.Run = "busy"
		o.Waiting = s.unfedParts()
	}
	sort.Strings(o.Waiting)
	return o
}

func expect(p mbtProj) obsProj {
	o := obsProj{Stored: ids(p.Stored), Alive: append([]string{}, p.Alive...), Run: p.Run, Nopen: p.Nopen,
		Waiting: append([]string{}, p.Waiting...), Hand: "none"}
	sort.Strings(o.Alive)
	sort.Strings(o.Waiting)
	if p.Hand.K == "good" {
		o.Hand = fmt.Sprintf("good:%s%d", p.Hand.C, p.Hand.H)
	}
	if o.Run != "busy" {
		o.Waiting = nil
	}
	if len(o.Waiting) == 0 {
		o.Waiting = nil
	}
	if len(o.Alive) == 0 {
		o.Alive = nil
	}
	if len(o.Stored) == 0 {
		o.Stored = []string{}
	}
	return o
}

func normObs(o obsProj) obsProj {
	if len(o.Waiting) == 0 {
		o.Waiting = nil
	}
	if len(o.Alive) == 0 {
		o.Alive = nil
	}
	if len(o.Stored) == 0 {
		o.Stored = []string{}
	}
	return o
}

func TestP2PSyncReplay(t *testing.T) {
	if !vh.Enabled() {
		t.Skip("driver only")
	}
	var in replayInput
	if err := vh.Input(&in); err != nil {
		t.Fatal(err)
	}
	out := vh.NewResult()
	defer out.Write()
	w, err := in.World.build(vh.Seed())
	if err != nil {
		t.Fatal(err)
	}
	stats := map[string]int{}
	for bi, beh := range in.Behaviours {
		seed := vh.Seed()*1_000_003 + int64(bi)
		if bi < len(in.Seeds) {
			seed = in.Seeds[bi]
		}
		var dv *vh.Divergence
		dl := bubble(t, func(t *testing.T) { dv = replayOne(w, in.World, beh, seed, stats) })
		if dv == nil && dl != "" {
			dv = &vh.Divergence{Key: "p2psync:replay:goroutines-blocked-at-end", What: "goroutines of the service are still blocked after the behaviour ended: " + dl}
		}
		if dv != nil {
			dv.Input = vh.J{"world": in.World, "behaviours": [][]mbtStep{beh}, "seeds": []int64{seed}}
			out.Diverge(*dv)
			if dl != "" {
				break // a leaked bubble cannot be reused safely
			}
		}
		out.Done(1, len(beh))
	}
	for k, v := range stats {
		out.Count(k, v)
	}
	if len(in.Behaviours) > 0 {
		out.Sample(in.Behaviours[0])
	}
}

func replayOne(w *world, cfg worldCfg, beh []mbtStep, seed int64, stats map[string]int) (dv *vh.Divergence) {
	s, err := newSUT(w, cfg.Start, cfg.Peers, seed, true)
	if err != nil {
		return &vh.Divergence{Key: "p2psync:harness", What: "cannot build the system: " + err.Error()}
	}
	s.peersGate = newGate()
	s.net.pick = func(call int, alive []peer.ID) []peer.ID {
		v := s.peersGate.arrive(alive)
		if v == nil {
			return nil
		}
		return v.([]peer.ID)
	}
	s.net.onRequest = func(st *cliStream) {
		s.mu.Lock()
		s.streams[st.part] = st
		s.opened++
		s.mu.Unlock()
	}
	s.start()
	cancelled := false
	defer func() {
		// wind down whatever the behaviour left running so that the bubble can end
		if !cancelled {
			s.cancel()
		}
		for i := 0; i < 50 && !s.hasExited(); i++ {
			synctest.Wait()
			if s.store.height.waiting() {
				s.store.height.release(nil)
			}
			if s.peersGate.waiting() {
				s.peersGate.release([]peer.ID{})
			}
			select {
			case <-s.svc.Listen():
			default:
			}
		}
		time.Sleep(15 * time.Second) // read deadlines of streams that were never fed
		synctest.Wait()
		if dv == nil {
			if gs := junoGoroutines("p2p/sync", "utils/pipeline"); len(gs) > 0 {
				dv = &vh.Divergence{Key: "p2psync:leak:" + firstJunoFrame(gs[0]), What: fmt.Sprintf(
					"%d goroutine(s) of p2p sync are still alive after the context was cancelled, Run returned and every read deadline passed", len(gs)),
					Observed: shorten(gs, 14)}
			}
		}
		s.stopPeers()
	}()

	var stalled []*cliStream
	fail := func(i int, key, what string, exp, obs any) *vh.Divergence {
		return &vh.Divergence{Key: key, What: what, Step: i, Expected: exp, Observed: obs}
	}
	for i, st := range beh {
		s.poll()
		exp, obs := expect(st.Pre), normObs(s.observe())
		if !reflect.DeepEqual(exp, obs) {
			key := "p2psync:replay:state"
			switch {
			case !reflect.DeepEqual(exp.Stored, obs.Stored):
				key = "p2psync:replay:stored-chain"
			case exp.Hand != obs.Hand:
				key = "p2psync:replay:emitted:" + kindOf(exp.Hand) + "-vs-" + kindOf(obs.Hand)
			case !reflect.DeepEqual(exp.Alive, obs.Alive):
				key = "p2psync:replay:peerstore"
			case exp.Run != obs.Run:
				key = "p2psync:replay:run:" + exp.Run + "-vs-" + obs.Run
			}
			prev := "Init"
			if i > 0 {
				prev = beh[i-1].A.Name + " " + beh[i-1].A.Part + " " + beh[i-1].A.Peer
			}
			return fail(i, key, fmt.Sprintf("after step %d (%s) the real service is not where P2PSync.tla says (variants so far: %s; error bodies: %v)",
				i-1, strings.TrimSpace(prev), strings.Join(tail(s.variants, 6), ", "), tail(s.errTxt, 3)), exp, obs)
		}
		a := st.A
		stats["step:"+a.Name]++
		switch a.Name {
		case "End":
		case "ReadHeight":
			s.mu.Lock()
			s.streams = map[string]*cliStream{}
			s.opened = 0
			s.mu.Unlock()
			stalled = nil
			s.store.height.release(nil)
		case "Open", "DialFail", "OpenCancelled", "NoPeers":
			var pick []peer.ID
			if a.Name != "NoPeers" {
				p := s.peers[a.Peer]
				if p == nil {
					return fail(i, "p2psync:harness", "unknown peer "+a.Peer, nil, nil)
				}
				pick = []peer.ID{p.id}
			}
			s.failDial = a.Name == "DialFail"
			s.peersGate.release(pick)
			synctest.Wait()
			if a.Name == "Open" {
				s.mu.Lock()
				cs := s.streams[a.Part]
				s.mu.Unlock()
				if cs == nil {
					return fail(i, "p2psync:replay:no-request:"+a.Part, "the service did not send the "+a.Part+" request the specification expects at this point", a, s.observe())
				}
				it, err := iterationOf(a.Part, cs.request())
				if err != nil || it == nil {
					return fail(i, "p2psync:replay:bad-request", fmt.Sprintf("unreadable %s request: %v", a.Part, err), nil, nil)
				}
				wantN := uint64(len(exp.Stored)) // n was read when the height gate opened; see ReadHeight check below
				_ = wantN
				if it.GetLimit() != 1 || it.GetStep() != 1 || it.GetDirection().String() != "Forward" || cs.peer.name != a.Peer {
					return fail(i, "p2psync:replay:request-shape", "the request is not {start n, forward, limit 1, step 1} to the drawn peer", a, fmt.Sprintf("%v to %s", it, cs.peer.name))
				}
				s.mu.Lock()
				s.lastReq[a.Part] = it.GetBlockNumber()
				s.mu.Unlock()
				if a.Part == pHdr {
					stats["requests"]++
				}
			}
		case "Deliver":
			s.mu.Lock()
			cs := s.streams[a.Part]
			s.mu.Unlock()
			if cs == nil {
				return fail(i, "p2psync:harness", "Deliver without an open stream for "+a.Part, nil, nil)
			}
			n := s.lastReq[a.Part]
			if n != s.iterN {
				return fail(i, "p2psync:replay:requested-height", fmt.Sprintf("the %s request asks for block %d, the height read at the start of the iteration gives %d", a.Part, n, s.iterN), s.iterN, n)
			}
			plan := cs.peer.answer(a.Part, n, s.r, s.w, a.K)
			s.variants = append(s.variants, fmt.Sprintf("%s/%s:%s:%s", a.Part, cs.peer.name, cs.peer.class, plan.variant))
			stats["variant:"+cs.peer.class+":"+strings.SplitN(plan.variant, ".", 2)[0]]++
			// a silent peer is noticed at the read deadline, which is one clock for all five streams:
			// the silence is played out once the other parts of the iteration are in
			if plan.end == "stall" {
				stalled = append(stalled, cs)
				plan.end = ""
			}
			feed(cs, plan)
			delete(s.streams, a.Part)
			if len(s.streams) == 0 && len(stalled) > 0 {
				time.Sleep(11 * time.Second)
				synctest.Wait()
				stalled = nil
			}
		case "Store", "DropErr":
			before := s.dump()
			ok, id, err := s.consume()
			want := fmt.Sprintf("%s%d", a.C, a.H)
			if id != want {
				return fail(i, "p2psync:harness", "mailbox holds "+id+", the specification consumes "+want, nil, nil)
			}
			if ok != a.Ok {
				return fail(i, fmt.Sprintf("p2psync:replay:store:%v-vs-%v", a.Ok, ok), fmt.Sprintf("Blockchain.Store of the emitted body %s: specification says accepted=%v, the code says %v (%v)", id, a.Ok, ok, err), a.Ok, fmt.Sprint(err))
			}
			if !ok {
				if d := faultkv.Diff(before, s.dump(), nil, 5); len(d) > 0 {
					return fail(i, "p2psync:replay:rejected-store-changed-db", "a rejected body changed the database", nil, d)
				}
				stats["store-rejected"]++
			} else {
				stats["store-accepted"]++
				h := uint64(a.H)
				src := s.w.A
				if a.C == "B" {
					src = s.w.B
				}
				got, e1 := coreDigest(s.node, h)
				wantD, e2 := coreDigest(src.node, h)
				if e1 != nil || e2 != nil || got != wantD {
					return fail(i, "p2psync:replay:stored-block-differs", fmt.Sprintf("block %s read back from the node differs from the source's (%v %v)", id, e1, e2), wantD, got)
				}
			}
		case "Cancel":
			s.cancel()
			cancelled = true
		default:
			return fail(i, "p2psync:harness", "unknown step "+a.Name, nil, nil)
		}
		if a.Name == "ReadHeight" {
			synctest.Wait()
			s.iterN = uint64(a.N)
		}
	}
	stats["err-bodies"] += s.errs
	return nil
}

func kindOf(h string) string { return strings.SplitN(h, ":", 2)[0] }

func tail(s []string, n int) []string {
	if len(s) > n {
		return s[len(s)-n:]
	}
	return s
}

// feed hands a plan to the requesting side's stream (inside a bubble).
func feed(cs *cliStream, plan feedPlan) {
	for i, c := range plan.chunks {
		last := i == len(plan.chunks)-1
		end := ""
		if last && plan.end != "stall" {
			end = plan.end
		}
		cs.feed(c, end)
		if !last {
			time.Sleep(200 * time.Millisecond)
		}
	}
	if len(plan.chunks) == 0 && plan.end != "stall" && plan.end != "" {
		cs.feed(nil, plan.end)
	}
	if plan.end == "stall" {
		time.Sleep(11 * time.Second) // past the read deadline
	}
	synctest.Wait()
}

var _ = json.Marshal

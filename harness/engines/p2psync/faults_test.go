// faults_test.go: the fault stage between a peer's real p2p/server and the requesting node. A peer
// has a behaviour class (the alphabet of spec/p2psync/P2PSync.tla: honest benign fork mute trunc
// other corrupt malformed down flaky); a class has several concrete variants, drawn from a seeded generator
// and recorded, all with the same abstract effect (Ans in the specification).
package p2psync

import (
	"fmt"
	"math/rand"
	"regexp"
	"sort"

	syncclass "github.com/starknet-io/starknet-p2p-specs/p2p/proto/sync/class"
	synccommon "github.com/starknet-io/starknet-p2p-specs/p2p/proto/sync/common"
	"github.com/starknet-io/starknet-p2p-specs/p2p/proto/sync/event"
	"github.com/starknet-io/starknet-p2p-specs/p2p/proto/sync/header"
	"github.com/starknet-io/starknet-p2p-specs/p2p/proto/sync/state"
	synctransaction "github.com/starknet-io/starknet-p2p-specs/p2p/proto/sync/transaction"
	"google.golang.org/protobuf/proto"
	"google.golang.org/protobuf/reflect/protoreflect"
)

// feedPlan: what reaches the requesting side's stream.
type feedPlan struct {
	chunks  [][]byte // fed one after the other (a pause of fake time in between when more than one)
	end     string   // "eof" "reset" "stall" (nothing more until the read deadline)
	variant string
}

func newResponse(part string) proto.Message {
	switch part {
	case pHdr:
		return &header.BlockHeadersResponse{}
	case pTxs:
		return &synctransaction.TransactionsResponse{}
	case pEvs:
		return &event.EventsResponse{}
	case pCls:
		return &syncclass.ClassesResponse{}
	case pSd:
		return &state.StateDiffsResponse{}
	}
	panic("part " + part)
}

func newRequest(part string, it *synccommon.Iteration) proto.Message {
	switch part {
	case pHdr:
		return &header.BlockHeadersRequest{Iteration: it}
	case pTxs:
		return &synctransaction.TransactionsRequest{Iteration: it}
	case pEvs:
		return &event.EventsRequest{Iteration: it}
	case pCls:
		return &syncclass.ClassesRequest{Iteration: it}
	case pSd:
		return &state.StateDiffsRequest{Iteration: it}
	}
	panic("part " + part)
}

func iterationOf(part string, req []byte) (*synccommon.Iteration, error) {
	m := newRequest(part, nil)
	if err := proto.Unmarshal(req, m); err != nil {
		return nil, err
	}
	switch r := m.(type) {
	case *header.BlockHeadersRequest:
		return r.Iteration, nil
	case *synctransaction.TransactionsRequest:
		return r.Iteration, nil
	case *event.EventsRequest:
		return r.Iteration, nil
	case *syncclass.ClassesRequest:
		return r.Iteration, nil
	case *state.StateDiffsRequest:
		return r.Iteration, nil
	}
	return nil, fmt.Errorf("unknown request")
}

func oneBlock(n uint64) *synccommon.Iteration {
	return &synccommon.Iteration{Start: &synccommon.Iteration_BlockNumber{BlockNumber: n},
		Direction: synccommon.Iteration_Forward, Limit: 1, Step: 1}
}

func mustMarshal(m proto.Message) []byte {
	b, err := proto.Marshal(m)
	if err != nil {
		panic(err)
	}
	return b
}

// isFin reports whether a raw response message of that part is the Fin message.
func isFin(part string, raw []byte) bool {
	m := newResponse(part)
	if proto.Unmarshal(raw, m) != nil {
		return false
	}
	switch r := m.(type) {
	case *header.BlockHeadersResponse:
		_, ok := r.HeaderMessage.(*header.BlockHeadersResponse_Fin)
		return ok
	case *synctransaction.TransactionsResponse:
		_, ok := r.TransactionMessage.(*synctransaction.TransactionsResponse_Fin)
		return ok
	case *event.EventsResponse:
		_, ok := r.EventMessage.(*event.EventsResponse_Fin)
		return ok
	case *syncclass.ClassesResponse:
		_, ok := r.ClassMessage.(*syncclass.ClassesResponse_Fin)
		return ok
	case *state.StateDiffsResponse:
		_, ok := r.StateDiffMessage.(*state.StateDiffsResponse_Fin)
		return ok
	}
	return false
}

// items: the honest answer of peer p for (part, n) without its Fin; the state-diff answer is
// restricted to what the requesting side reads (contract diffs).
func (p *simPeer) items(part string, n uint64) (items [][]byte, fin []byte) {
	raw, _ := p.serve(pidOf(part), mustMarshal(newRequest(part, oneBlock(n))))
	msgs, _ := splitDelimited(raw)
	for _, m := range msgs {
		if isFin(part, m) {
			fin = m
			continue
		}
		items = append(items, m)
	}
	if fin == nil {
		fin = mustMarshal(finOf(part))
	}
	return items, fin
}

func finOf(part string) proto.Message {
	switch part {
	case pHdr:
		return &header.BlockHeadersResponse{HeaderMessage: &header.BlockHeadersResponse_Fin{}}
	case pTxs:
		return &synctransaction.TransactionsResponse{TransactionMessage: &synctransaction.TransactionsResponse_Fin{}}
	case pEvs:
		return &event.EventsResponse{EventMessage: &event.EventsResponse_Fin{}}
	case pCls:
		return &syncclass.ClassesResponse{ClassMessage: &syncclass.ClassesResponse_Fin{}}
	default:
		return &state.StateDiffsResponse{StateDiffMessage: &state.StateDiffsResponse_Fin{}}
	}
}

// essential: how many leading items of an answer the requesting side reads (a state-diff answer is
// its ContractDiff messages; the DeclaredClass messages after them are skipped with a warning).
func essential(part string, items [][]byte) int {
	if part != pSd {
		return len(items)
	}
	k := 0
	for k < len(items) && isContractDiff(items[k]) {
		k++
	}
	return k
}

func isContractDiff(raw []byte) bool {
	m := &state.StateDiffsResponse{}
	if proto.Unmarshal(raw, m) != nil {
		return false
	}
	_, ok := m.StateDiffMessage.(*state.StateDiffsResponse_ContractDiff)
	return ok
}

// ------------------------------------------------------------------ corruption by reflection

type leaf struct {
	path string
	flip func()
}

// leaves collects every scalar of a message that a one-step change can alter, with its path.
func leaves(m protoreflect.Message, path string, out *[]leaf) {
	m.Range(func(fd protoreflect.FieldDescriptor, v protoreflect.Value) bool {
		p := path + "." + string(fd.Name())
		one := func(get func() protoreflect.Value, set func(protoreflect.Value)) {
			switch fd.Kind() {
			case protoreflect.MessageKind:
				leaves(get().Message(), p, out)
			case protoreflect.BytesKind:
				*out = append(*out, leaf{p, func() {
					b := append([]byte(nil), get().Bytes()...)
					if len(b) == 0 {
						b = []byte{1}
					} else {
						b[len(b)-1] ^= 1
					}
					set(protoreflect.ValueOfBytes(b))
				}})
			case protoreflect.Uint64Kind, protoreflect.Fixed64Kind:
				*out = append(*out, leaf{p, func() { set(protoreflect.ValueOfUint64(get().Uint() + 1)) }})
			case protoreflect.Uint32Kind, protoreflect.Fixed32Kind:
				*out = append(*out, leaf{p, func() { set(protoreflect.ValueOfUint32(uint32(get().Uint()) + 1)) }})
			case protoreflect.StringKind:
				*out = append(*out, leaf{p, func() { set(protoreflect.ValueOfString(get().String() + "x")) }})
			case protoreflect.EnumKind:
				*out = append(*out, leaf{p, func() { set(protoreflect.ValueOfEnum(1 - get().Enum())) }})
			}
		}
		switch {
		case fd.IsList():
			l := v.List()
			for i := 0; i < l.Len(); i++ {
				i := i
				one(func() protoreflect.Value { return l.Get(i) }, func(x protoreflect.Value) { l.Set(i, x) })
			}
		case fd.IsMap():
		default:
			one(func() protoreflect.Value { return m.Get(fd) }, func(x protoreflect.Value) { m.Set(fd, x) })
		}
		return true
	})
}

// Fields a change of which the block hash does NOT notice (or that the requesting side does not
// read at all); a peer can plant them (see the "planted" observation) — not part of `corrupt`.
var uncommitted = map[string]*regexp.Regexp{
	// read from the header message but recomputed / not read: commitments, state diff commitment;
	// signatures are stored unverified; the number files the header under another block
	pHdr: regexp.MustCompile(`\.header\.(transactions\.root|events\.root|receipts|state_diff_commitment|signatures|number)`),
	// receipt fields outside the receipt hash or ignored; every field of a legacy DEPLOY (its hash is taken as given)
	pTxs: regexp.MustCompile(`receipt\.\w+\.(common\.(price_unit|execution_resources\.(builtins|steps|memory_holes|l1_gas|l2_gas))|msg_hash|contract_address)|transaction\.deploy\.`),
	pEvs: regexp.MustCompile(`^$`),
	pCls: regexp.MustCompile(`\.class\.(domain|class_hash)`),
	// the requesting side does not read the DeclaredClass messages of a state-diff answer at all
	pSd: regexp.MustCompile(`\.contract_diff\.domain|\.declared_class\.`),
}

// corruptItem changes one committed value of one message; "" when the message has none.
func corruptItem(part string, raw []byte, r *rand.Rand, extraSkip *regexp.Regexp) ([]byte, string) {
	m := newResponse(part)
	if err := proto.Unmarshal(raw, m); err != nil {
		return nil, ""
	}
	var ls []leaf
	leaves(m.ProtoReflect(), "", &ls)
	var ok []leaf
	for _, l := range ls {
		if uncommitted[part].MatchString(l.path) || (extraSkip != nil && extraSkip.MatchString(l.path)) {
			continue
		}
		ok = append(ok, l)
	}
	if len(ok) == 0 {
		return nil, ""
	}
	sort.Slice(ok, func(i, j int) bool { return ok[i].path < ok[j].path })
	l := ok[r.Intn(len(ok))]
	l.flip()
	return mustMarshal(m), l.path
}

// plantItem changes one UNcommitted value (for the observation about planted fields).
func plantItem(part string, raw []byte, pathRe *regexp.Regexp) ([]byte, string) {
	m := newResponse(part)
	if err := proto.Unmarshal(raw, m); err != nil {
		return nil, ""
	}
	var ls []leaf
	leaves(m.ProtoReflect(), "", &ls)
	sort.Slice(ls, func(i, j int) bool { return ls[i].path < ls[j].path })
	for _, l := range ls {
		if pathRe.MatchString(l.path) {
			l.flip()
			return mustMarshal(m), l.path
		}
	}
	return nil, ""
}

func eventTx(raw []byte) string {
	m := &event.EventsResponse{}
	if proto.Unmarshal(raw, m) != nil {
		return ""
	}
	return string(m.GetEvent().GetTransactionHash().GetElements())
}

// requiredPaths: sub-messages the requesting side (adapters/p2p2core, then the hash functions) reads
// through: an item lacking one can never be (part of) a verified block. The complete sweep over
// EVERY message-typed field, required or not, is TestP2PSyncRobust; this list only feeds the peer
// class `malformed`, whose abstract answer is "never verifies".
var requiredPaths = map[string]*regexp.Regexp{
	pHdr: regexp.MustCompile(`^\.header\.(block_hash|parent_hash|state_root|sequencer_address|transactions|events|l1_gas_price_(wei|fri)|l1_data_gas_price_(wei|fri)|l2_gas_price_(wei|fri))$`),
	pTxs: regexp.MustCompile(`^\.transaction_with_receipt\.(transaction|receipt)$` +
		`|\.transaction\.transaction_hash$` +
		`|\.transaction\.\w+\.(common\.)?(sender|signature|max_fee|class_hash|compiled_class_hash|address|entry_point_selector|address_salt|resource_bounds|resource_bounds\.(l1_gas|l2_gas|l1_data_gas)(\.max_amount)?|resource_bounds\.(l1_gas|l2_gas)\.max_price_per_unit)$` +
		`|\.transaction\.(declare_v\d|deploy_account_v\d|invoke_v\d)\.(common\.)?nonce$` +
		`|\.transaction\.declare_v3\.common$` +
		`|\.receipt\.\w+$|\.receipt\.\w+\.common$|\.common\.actual_fee$|\.messages_sent\[\d+\]\.(from_address|to_address)$`),
	pEvs: regexp.MustCompile(`^\.event\.(transaction_hash|from_address)$`),
	pCls: regexp.MustCompile(`^\.class\.cairo1\.entry_points$|\[\d+\]\.selector$`),
	pSd:  regexp.MustCompile(`^\.contract_diff\.(address|values\[\d+\]\.(key|value))$`),
}

// stripItem clears one required sub-message of a message; "" when it has none.
func stripItem(part string, raw []byte, r *rand.Rand) ([]byte, string) {
	m := newResponse(part)
	if err := proto.Unmarshal(raw, m); err != nil {
		return nil, ""
	}
	var msgs, oneofs []string
	messagePaths(m.ProtoReflect(), "", &msgs, &oneofs)
	sort.Strings(msgs)
	var ok []string
	for _, p := range msgs {
		if requiredPaths[part].MatchString(p) {
			ok = append(ok, p)
		}
	}
	if len(ok) == 0 {
		return nil, ""
	}
	path := ok[r.Intn(len(ok))]
	if !clearAt(m.ProtoReflect(), path) {
		return nil, ""
	}
	return mustMarshal(m), path
}

// ------------------------------------------------------------------ the classes

var l2PriceRe = regexp.MustCompile(`\.header\.l2_gas_price`)

// answer computes what peer p (of its class) lets the requesting side read for (part, n).
// want selects among the abstract answers of a class that has more than one (AnsSet in the
// specification; today only `trunc`: "empty" = cut before the first item, "bad" = some items but not
// all); "" = any (free-running rounds: TLC resolves the choice when it validates the trace).
func (p *simPeer) answer(part string, n uint64, r *rand.Rand, w *world, want string) feedPlan {
	items, fin := p.items(part, n)
	all := func(it [][]byte) []byte { return joinDelimited(append(append([][]byte{}, it...), fin)) }
	switch p.class {
	case "honest", "fork", "flaky":
		return feedPlan{chunks: [][]byte{all(items)}, end: "eof", variant: "plain"}

	case "benign":
		switch v := r.Intn(6); v {
		case 0:
			return feedPlan{chunks: [][]byte{joinDelimited(append(append([][]byte{}, items...), fin, fin))}, end: "eof", variant: "fin-twice"}
		case 1:
			return feedPlan{chunks: [][]byte{append(all(items), 0xff, 0xff, 0x07, 0x01)}, end: "eof", variant: "junk-after-fin"}
		case 2:
			b := all(items)
			k := len(b) / 2
			return feedPlan{chunks: [][]byte{b[:k], b[k:]}, end: "eof", variant: "two-chunks"}
		case 3:
			if part == pHdr && len(items) == 0 {
				break
			}
			return feedPlan{chunks: [][]byte{joinDelimited(items)}, end: "eof", variant: "no-fin"}
		case 4:
			// an order the block does not depend on: contract diffs, classes, events of DIFFERENT transactions
			it := append([][]byte{}, items...)
			switch part {
			case pSd, pCls:
				for i, j := 0, len(it)-1; i < j; i, j = i+1, j-1 {
					it[i], it[j] = it[j], it[i]
				}
			case pEvs:
				sort.SliceStable(it, func(i, j int) bool { return eventTx(it[i]) > eventTx(it[j]) })
			}
			return feedPlan{chunks: [][]byte{all(it)}, end: "eof", variant: "reordered-where-free"}
		case 5:
			// a value the requesting side does not read / that nothing commits to is NOT touched here
			// (that is the planted-fields observation); a Fin followed by another block's items
			o, _ := p.items(part, n+1)
			return feedPlan{chunks: [][]byte{joinDelimited(append(append(append([][]byte{}, items...), fin), o...))}, end: "eof", variant: "items-after-fin"}
		}
		return feedPlan{chunks: [][]byte{all(items)}, end: "eof", variant: "plain"}

	case "mute":
		switch r.Intn(5) {
		case 0:
			return feedPlan{chunks: [][]byte{joinDelimited([][]byte{fin})}, end: "eof", variant: "fin-only"}
		case 1:
			return feedPlan{end: "eof", variant: "eof-at-once"}
		case 2:
			return feedPlan{end: "reset", variant: "reset-at-once"}
		case 3:
			return feedPlan{end: "stall", variant: "silent-until-deadline"}
		default:
			none, f := p.items(part, n+1_000_000) // the real server's answer for a block it does not have
			return feedPlan{chunks: [][]byte{joinDelimited(append(none, f))}, end: "eof", variant: "behind"}
		}

	case "trunc":
		ne := essential(part, items)
		if ne == 0 {
			return feedPlan{end: []string{"eof", "reset"}[r.Intn(2)], variant: "nothing"}
		}
		if ne < 2 && part != pHdr { // (a header answer is one item: cut, it is no header at all)
			// the specification's {Empty, Bad} for a cut answer needs a non-empty proper prefix
			panic(fmt.Sprintf("harness: the %s answer for block %d has %d item(s); the worlds are built with at least two", part, n, ne))
		}
		k := r.Intn(ne) // a proper prefix of what the requesting side reads
		switch {
		case want == "empty":
			k = 0
		case want == "bad" && ne >= 2:
			k = 1 + r.Intn(ne-1)
		}
		b := joinDelimited(items[:k])
		variant := fmt.Sprintf("first-%d-of-%d", k, ne)
		switch r.Intn(3) {
		case 0:
			full := joinDelimited(items[:k+1])
			cut := len(b) + 1 + r.Intn(len(full)-len(b)-1)
			b = full[:cut]
			variant += "+fragment"
		case 1:
			return feedPlan{chunks: [][]byte{b}, end: "reset", variant: variant + "+reset"}
		case 2:
			return feedPlan{chunks: [][]byte{b}, end: "stall", variant: variant + "+stall"}
		}
		return feedPlan{chunks: [][]byte{b}, end: "eof", variant: variant}

	case "other":
		m := n + 1
		if n > 0 {
			m = n - 1
		}
		o, f := p.items(part, m)
		return feedPlan{chunks: [][]byte{joinDelimited(append(o, f))}, end: "eof", variant: fmt.Sprintf("block-%d-instead", m)}

	case "malformed":
		// one sub-message the requesting side reads through is left out of one item; an empty list gets
		// a foreign item first
		it := append([][]byte{}, items[:essential(part, items)]...)
		variant := "absent"
		if len(it) == 0 {
			if part == pHdr {
				return feedPlan{chunks: [][]byte{joinDelimited([][]byte{fin})}, end: "eof", variant: "no-header-to-strip"}
			}
			it = [][]byte{w.spurious(part, n)}
			variant = "foreign-item-absent"
		}
		for _, i := range r.Perm(len(it)) {
			if c, path := stripItem(part, it[i], r); c != nil {
				it[i] = c
				return feedPlan{chunks: [][]byte{all(it)}, end: "eof", variant: variant + path}
			}
		}
		panic(fmt.Sprintf("harness: no %s item of block %d has a required sub-message to leave out", part, n))

	case "corrupt":
		if essential(part, items) == 0 {
			if part == pHdr {
				return feedPlan{chunks: [][]byte{joinDelimited([][]byte{fin})}, end: "eof", variant: "no-header-to-corrupt"}
			}
			sp := w.spurious(part, n)
			return feedPlan{chunks: [][]byte{joinDelimited(append(append([][]byte{sp}, items...), fin))}, end: "eof", variant: "one-foreign-item"}
		}
		it := append([][]byte{}, items...)
		// structural corruptions of a list with at least two items
		if part == pTxs && len(it) >= 2 && r.Intn(4) == 0 {
			it[0], it[1] = it[1], it[0]
			return feedPlan{chunks: [][]byte{all(it)}, end: "eof", variant: "two-transactions-swapped"}
		}
		if part == pEvs && len(it) >= 2 && eventTx(it[0]) == eventTx(it[1]) && r.Intn(4) == 0 {
			it[0], it[1] = it[1], it[0]
			return feedPlan{chunks: [][]byte{all(it)}, end: "eof", variant: "two-events-of-one-transaction-swapped"}
		}
		if (part == pTxs || part == pEvs) && r.Intn(5) == 0 { // (a contract diff or a class sent twice changes nothing)
			it = append(it, it[r.Intn(len(it))])
			return feedPlan{chunks: [][]byte{all(it)}, end: "eof", variant: "one-item-twice"}
		}
		var skip *regexp.Regexp
		if part == pHdr && int(n) < len(w.A.built) && w.A.built[n].Block.ProtocolVersion < "0.13.4" {
			skip = l2PriceRe // not hashed before 0.13.4
		}
		order := r.Perm(len(it))
		for _, i := range order {
			if c, path := corruptItem(part, it[i], r, skip); c != nil {
				it[i] = c
				return feedPlan{chunks: [][]byte{all(it)}, end: "eof", variant: "changed" + path}
			}
		}
		sp := w.spurious(part, n)
		return feedPlan{chunks: [][]byte{joinDelimited(append(append([][]byte{sp}, it...), fin))}, end: "eof", variant: "one-foreign-item-more"}
	}
	panic("class " + p.class)
}

// spurious: an item of the same part taken from another block of A (built once per world).
func (w *world) spurious(part string, n uint64) []byte {
	for h := len(w.A.built) - 1; h >= 0; h-- {
		if uint64(h) == n || w.A.shapes[h].empty(part) {
			continue
		}
		it, _ := w.ref.items(part, uint64(h))
		if len(it) > 0 {
			return it[0]
		}
	}
	panic("no block of A has a non-empty " + part)
}

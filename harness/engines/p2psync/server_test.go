// server_test.go: the serving side's iteration contract (spec/p2psync/P2PServer.tla). Every request
// of the specification's domain (exported by TLC with the declared answer) is sent, on each of the
// five protocols, to the REAL p2p/server handlers over a chainkit chain; the answer must be the
// concatenation, over the declared block sequence, of that block's single-block answer (whose
// content the synchronisation replay checks end to end), then one Fin — or nothing for a refused
// request. Small model integers stand for machine integers: v >= M/2 means 2^64 - (M - v).
package p2psync

import (
	"bytes"
	"fmt"
	"sort"
	"strings"
	"testing"

	"github.com/NethermindEth/juno/adapters/core2p2p"
	"github.com/NethermindEth/juno/core/felt"
	"github.com/libp2p/go-libp2p/core/protocol"
	synccommon "github.com/starknet-io/starknet-p2p-specs/p2p/proto/sync/common"
	"github.com/starknet-io/starknet-p2p-specs/p2p/proto/sync/state"
	"google.golang.org/protobuf/proto"

	"verifharness/internal/vh"
)

type srvReq struct {
	Iter  bool   `json:"iter"`
	Kind  string `json:"kind"`
	Start int    `json:"start"`
	Limit int    `json:"limit"`
	Step  int    `json:"step"`
	Dir   string `json:"dir"`
}

type srvRes struct {
	Blocks []int  `json:"blocks"`
	End    string `json:"end"`
}

type srvCase struct {
	Req  srvReq `json:"req"`
	Res  srvRes `json:"res"`  // the iterator as coded (P2PServer.tla with the switches FALSE)
	Decl srvRes `json:"decl"` // the contract
}

type serverInput struct {
	World worldCfg  `json:"world"`
	M     int       `json:"m"`
	Cases []srvCase `json:"cases"`
	Parts []string  `json:"parts,omitempty"`
}

func machine(v, m int) uint64 {
	if v >= m/2 {
		return ^uint64(0) - uint64(m-v) + 1
	}
	return uint64(v)
}

func (c srvReq) iteration(w *world, m int) *synccommon.Iteration {
	if !c.Iter {
		return nil
	}
	it := &synccommon.Iteration{Limit: machine(c.Limit, m), Step: machine(c.Step, m)}
	switch c.Dir {
	case "fwd":
		it.Direction = synccommon.Iteration_Forward
	case "bwd":
		it.Direction = synccommon.Iteration_Backward
	default:
		it.Direction = synccommon.Iteration_Direction(7)
	}
	switch c.Kind {
	case "num":
		it.Start = &synccommon.Iteration_BlockNumber{BlockNumber: machine(c.Start, m)}
	case "hash":
		var h *felt.Felt
		if c.Start < w.A.height() {
			h = w.A.built[c.Start].Block.Hash
		} else {
			h = new(felt.Felt).SetUint64(0xdead0000 + uint64(c.Start))
		}
		it.Start = &synccommon.Iteration_Header{Header: core2p2p.AdaptHash(h)}
	case "unknownhash":
		it.Start = &synccommon.Iteration_Header{Header: core2p2p.AdaptHash(new(felt.Felt).SetUint64(0xbeef))}
	case "nilhash":
		it.Start = &synccommon.Iteration_Header{}
	case "nostart":
	}
	return it
}

// serveSafe: the handler run in this goroutine; a panic (which would kill a node: libp2p does not
// recover stream handlers) is returned as text.
func (p *simPeer) serveSafe(pid protocol.ID, req []byte) (out []byte, closed bool, panicked string) {
	defer func() {
		if r := recover(); r != nil {
			panicked = fmt.Sprint(r)
		}
	}()
	out, closed = p.serve(pid, req)
	return out, closed, ""
}

func sortedCopy(x [][]byte) [][]byte {
	y := append([][]byte{}, x...)
	sort.Slice(y, func(i, j int) bool { return bytes.Compare(y[i], y[j]) < 0 })
	return y
}

func sameMultiset(a, b [][]byte) bool {
	if len(a) != len(b) {
		return false
	}
	a, b = sortedCopy(a), sortedCopy(b)
	for i := range a {
		if !bytes.Equal(a[i], b[i]) {
			return false
		}
	}
	return true
}

// canonAll: a ContractDiff lists its storage values in Go map order; sort them before comparing.
func canonAll(part string, msgs [][]byte) [][]byte {
	if part != pSd {
		return msgs
	}
	out := make([][]byte, len(msgs))
	for i, raw := range msgs {
		m := &state.StateDiffsResponse{}
		out[i] = raw
		if proto.Unmarshal(raw, m) != nil || m.GetContractDiff() == nil {
			continue
		}
		vs := m.GetContractDiff().Values
		sort.Slice(vs, func(a, b int) bool { return bytes.Compare(vs[a].GetKey().GetElements(), vs[b].GetKey().GetElements()) < 0 })
		if b, err := (proto.MarshalOptions{Deterministic: true}).Marshal(m); err == nil {
			out[i] = b
		}
	}
	return out
}

// orderMatters: transactions and events are ordered; contract diffs, declared classes and class
// definitions come out of Go maps.
func orderMatters(part string) bool { return part == pHdr || part == pTxs || part == pEvs }

func TestP2PServerContract(t *testing.T) {
	if !vh.Enabled() {
		t.Skip("driver only")
	}
	var in serverInput
	if err := vh.Input(&in); err != nil {
		t.Fatal(err)
	}
	out := vh.NewResult()
	defer out.Write()
	w, err := in.World.build(vh.Seed())
	if err != nil {
		t.Fatal(err)
	}
	p := newSimPeer("srv", "honest", w.A.node)
	defer p.stop()
	parts := in.Parts
	if len(parts) == 0 {
		parts = partOrder
	}
	// the single-block answers
	single := map[string][][][]byte{}
	for _, part := range parts {
		for h := 0; h < w.A.height(); h++ {
			it, _ := p.items(part, uint64(h))
			single[part] = append(single[part], it)
		}
	}
	nreq := 0
	for _, c := range in.Cases {
		for _, part := range parts {
			nreq++
			req := mustMarshal(newRequest(part, c.Req.iteration(w, in.M)))
			raw, closed, panicked := p.serveSafe(pidOf(part), req)
			obs := srvRes{End: "refused"}
			var obsBlocks [][]byte
			msgs, rest := splitDelimited(raw)
			switch {
			case panicked != "":
				obs.End = "panic"
			case len(rest) > 0:
				obs.End = "garbled"
			case len(msgs) > 0 && isFin(part, msgs[len(msgs)-1]):
				obs.End = "fin"
				obsBlocks = msgs[:len(msgs)-1]
			case len(msgs) > 0:
				obs.End = "no-fin"
				obsBlocks = msgs
			}
			want := c.Decl
			if want.End == "refused-noiter" {
				want.End = "refused"
			}
			diverge := func(key, what string) {
				out.Diverge(vh.Divergence{Key: key, What: what,
					Input:    vh.J{"world": in.World, "m": in.M, "cases": []srvCase{c}, "parts": []string{part}},
					Expected: vh.J{"end": want.End, "blocks": want.Blocks},
					Observed: vh.J{"end": obs.End, "messages": len(msgs), "panic": panicked, "stream_closed": closed}})
			}
			if panicked == "" && !closed {
				diverge("p2pserver:stream-left-open", "the handler returned without closing the stream")
				continue
			}
			matches := func(blocks []int) bool {
				k := 0
				for _, b := range blocks {
					if b < 0 || b >= len(single[part]) {
						return false
					}
					seg := single[part][b]
					if k+len(seg) > len(obsBlocks) {
						return false
					}
					got := obsBlocks[k : k+len(seg)]
					if orderMatters(part) {
						for i := range seg {
							if !bytes.Equal(seg[i], got[i]) {
								return false
							}
						}
					} else if !sameMultiset(canonAll(part, seg), canonAll(part, got)) {
						return false
					}
					k += len(seg)
				}
				return k == len(obsBlocks)
			}
			if obs.End == want.End && (want.End != "fin" || matches(want.Blocks)) {
				continue
			}
			// which blocks did it serve? (for the key and the report)
			served := "?"
			if obs.End == "fin" {
				served = servedBlocks(part, obsBlocks, single[part])
			}
			switch {
			case obs.End == "panic" && !c.Req.Iter:
				diverge("p2pserver:crash:request-without-iteration", fmt.Sprintf(
					"a %s request without an iteration (an empty message) panics the stream handler: %s", part, panicked))
			case obs.End == "panic":
				diverge("p2pserver:crash:"+c.Req.Kind+":"+c.Req.Dir, "the stream handler panics: "+panicked)
			case obs.End == "fin" && c.Res.End == "fin" && fmt.Sprint(c.Res.Blocks) != fmt.Sprint(c.Decl.Blocks) && matches(c.Res.Blocks):
				served = fmt.Sprint(c.Res.Blocks)
				diverge("p2pserver:range:step-wraps-round:"+c.Req.Dir, fmt.Sprintf(
					"%s request {start %d, %s, limit %d, step %d}: the iterator adds the step modulo 2^64 and serves blocks %s; the requested progression is %v",
					part, machine(c.Req.Start, in.M), c.Req.Dir, machine(c.Req.Limit, in.M), machine(c.Req.Step, in.M), served, c.Decl.Blocks))
			default:
				diverge(fmt.Sprintf("p2pserver:range:%s:%s:%s-vs-%s", part, c.Req.Dir, want.End, obs.End), fmt.Sprintf(
					"%s request %+v: served %s (%s), the contract says blocks %v then %s", part, c.Req, served, obs.End, want.Blocks, want.End))
			}
		}
	}
	out.Done(nreq, nreq)
	out.Count("server_requests", nreq)
	if len(in.Cases) > 0 {
		out.Sample(in.Cases[len(in.Cases)/2])
	}
}

// servedBlocks recovers the block sequence of an answer by greedy matching of single-block answers
// (empty single answers are invisible; good enough for a report).
func servedBlocks(part string, got [][]byte, single [][][]byte) string {
	var seq []string
	k := 0
	for k < len(got) {
		found := false
		for b, seg := range single {
			if len(seg) == 0 || k+len(seg) > len(got) {
				continue
			}
			if (orderMatters(part) && bytes.Equal(seg[0], got[k])) || (!orderMatters(part) && sameMultiset(seg, got[k:k+len(seg)])) {
				seq = append(seq, fmt.Sprint(b))
				k += len(seg)
				found = true
				break
			}
		}
		if !found {
			seq = append(seq, "?")
			k++
		}
	}
	return "[" + strings.Join(seq, " ") + "]"
}

// TestP2PServerGarbage: requests that are not requests.
func TestP2PServerGarbage(t *testing.T) {
	if !vh.Enabled() {
		t.Skip("driver only")
	}
	var in serverInput
	if err := vh.Input(&in); err != nil {
		t.Fatal(err)
	}
	out := vh.NewResult()
	defer out.Write()
	w, err := in.World.build(vh.Seed())
	if err != nil {
		t.Fatal(err)
	}
	p := newSimPeer("srv", "honest", w.A.node)
	defer p.stop()
	honest := mustMarshal(newRequest(pHdr, oneBlock(1)))
	inputs := map[string][]byte{
		"ff-bytes":          bytes.Repeat([]byte{0xff}, 40),
		"truncated-request": honest[:len(honest)-1],
		"a-response":        mustMarshal(finOf(pTxs)),
		"wire-type-clash":   {0x08, 0x01, 0x0a, 0x7f},
		"huge-length":       {0x0a, 0xff, 0xff, 0xff, 0xff, 0x0f},
	}
	n := 0
	for name, req := range inputs {
		for _, part := range partOrder {
			n++
			raw, closed, panicked := p.serveSafe(pidOf(part), req)
			if it, err := iterationOf(part, req); panicked != "" && err == nil && it == nil {
				out.Diverge(vh.Divergence{Key: "p2pserver:crash:request-without-iteration", What: fmt.Sprintf(
					"bytes that decode to a %s request without an iteration (%s) panic the stream handler: %s", part, name, panicked), Input: vh.J{"world": in.World}})
				continue
			}
			if panicked != "" {
				out.Diverge(vh.Divergence{Key: "p2pserver:crash:garbage:" + name, What: "the stream handler panics on bytes that are not a request: " + panicked,
					Input: vh.J{"world": in.World}})
				continue
			}
			if !closed {
				out.Diverge(vh.Divergence{Key: "p2pserver:stream-left-open", What: "stream not closed after " + name, Input: vh.J{"world": in.World}})
			}
			msgs, rest := splitDelimited(raw)
			if len(rest) > 0 {
				out.Diverge(vh.Divergence{Key: "p2pserver:garbled-answer", What: "partial message written for " + name, Input: vh.J{"world": in.World}})
			}
			_ = msgs
		}
	}
	out.Done(n, n)
}

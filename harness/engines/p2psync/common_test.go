// common_test.go: bubbles, gates, the gated store, goroutine accounting.
package p2psync

import (
	"fmt"
	"runtime"
	"strings"
	"sync"
	"testing"
	"testing/synctest"

	"github.com/NethermindEth/juno/db"
)

const junoPkg = "github.com/NethermindEth/juno/"

// junoGoroutines: stacks of the goroutines of the caller's synctest bubble (other than the caller)
// that run juno code matching one of the needles (all juno code when none given).
func junoGoroutines(needles ...string) []string {
	buf := make([]byte, 8<<20)
	n := runtime.Stack(buf, true)
	var res []string
	mine := ""
	for i, g := range strings.Split(string(buf[:n]), "\n\n") {
		head := strings.SplitN(g, "\n", 2)[0]
		if i == 0 {
			if k := strings.Index(head, "synctest bubble "); k >= 0 {
				mine = strings.TrimRight(head[k:], "]:")
			}
			continue
		}
		if mine == "" || !strings.Contains(head, mine+"]") {
			continue
		}
		if !strings.Contains(g, junoPkg) {
			continue
		}
		if len(needles) == 0 {
			res = append(res, g)
			continue
		}
		for _, nd := range needles {
			if strings.Contains(g, nd) {
				res = append(res, g)
				break
			}
		}
	}
	return res
}

// bubble runs f in a synctest bubble; a "blocked goroutines remain" panic at its end is returned
// as text (f reports the leak itself as a divergence before returning).
func bubble(t *testing.T, f func(t *testing.T)) (deadlock string) {
	defer func() {
		if r := recover(); r != nil {
			deadlock = fmt.Sprint(r)
		}
	}()
	synctest.Test(t, f)
	return ""
}

func shorten(gs []string, maxLines int) []string {
	out := make([]string, 0, len(gs))
	for _, g := range gs {
		ls := strings.Split(g, "\n")
		if len(ls) > maxLines {
			ls = ls[:maxLines]
		}
		out = append(out, strings.Join(ls, "\n"))
	}
	return out
}

// firstJunoFrame: the innermost juno function of a goroutine dump (where it is blocked).
func firstJunoFrame(g string) string {
	for _, l := range strings.Split(g, "\n") {
		if strings.HasPrefix(l, junoPkg) {
			f := strings.TrimPrefix(l, junoPkg)
			if k := strings.LastIndex(f, "("); k > 0 {
				f = f[:k]
			}
			return f
		}
	}
	return "?"
}

// gate: a rendezvous between a goroutine of the code under test (arrive) and the harness (release).
type gate struct {
	mu     sync.Mutex
	parked int
	info   any
	ch     chan any
}

func newGate() *gate { return &gate{ch: make(chan any)} }

func (g *gate) arrive(info any) any {
	g.mu.Lock()
	g.parked++
	g.info = info
	g.mu.Unlock()
	v := <-g.ch
	return v
}

func (g *gate) waiting() bool {
	g.mu.Lock()
	defer g.mu.Unlock()
	return g.parked > 0
}

func (g *gate) release(v any) {
	g.mu.Lock()
	g.parked--
	g.mu.Unlock()
	g.ch <- v
}

// calledFrom reports whether the current goroutine's stack contains a function whose name has the
// given suffix (e.g. "p2p/sync.(*Service).getNextHeight").
func calledFrom(suffix string) bool {
	pcs := make([]uintptr, 48)
	n := runtime.Callers(2, pcs)
	frames := runtime.CallersFrames(pcs[:n])
	for {
		f, more := frames.Next()
		if strings.HasSuffix(f.Function, suffix) || strings.Contains(f.Function, suffix) {
			return true
		}
		if !more {
			return false
		}
	}
}

// gateStore wraps the synchronising node's database: a read of the chain height by
// Service.getNextHeight, and the read of the previous block's state root by
// processSpecBlockParts, can be held at a gate.
type gateStore struct {
	db.KeyValueStore
	mu       sync.Mutex
	height   *gate // getNextHeight's read
	prevRoot *gate // processSpecBlockParts' GlobalStateRootByBlockNumber
	onHeight func(found bool, h uint64)
	// lin, when set, is held across getNextHeight's read: the consumer of the free-running rounds holds
	// it across Blockchain.Store AND the logging of its Store event, so a height that already includes
	// the block is never read (and shown by the next request) before the event is in the trace
	lin *sync.Mutex
}

func (s *gateStore) Get(key []byte, cb func([]byte) error) error {
	s.mu.Lock()
	hg, pg, oh, lin := s.height, s.prevRoot, s.onHeight, s.lin
	s.mu.Unlock()
	if string(key) == string(db.ChainHeight.Key()) && calledFrom("p2p/sync.(*Service).getNextHeight") {
		if hg != nil {
			hg.arrive(nil)
		}
		if lin != nil {
			lin.Lock()
			defer lin.Unlock()
		}
		if oh != nil {
			found := false
			var hv uint64
			err := s.KeyValueStore.Get(key, func(b []byte) error {
				found = true
				for _, x := range b {
					hv = hv<<8 | uint64(x)
				}
				return cb(b)
			})
			oh(found, hv)
			return err
		}
	} else if pg != nil && calledFrom("p2p/sync.(*BlockFetcher).processSpecBlockParts") {
		pg.arrive(nil)
	}
	return s.KeyValueStore.Get(key, cb)
}

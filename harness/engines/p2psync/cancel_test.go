// cancel_test.go: the cancellation races TLC finds in the as-coded model (P2PSync_x_leak.cfg,
// P2PSync_x_cancel_live.cfg), reproduced on the real Service by holding the one goroutine that is
// between its context check and its send: (1) adaptAndSanityCheckBlock inside the Sierra compiler
// (a child process in production — it returns an error when the context is cancelled), (2)
// processSpecBlockParts inside the database read of the previous state root. The context is
// cancelled, Run returns (Bridge watches the context), the goroutine is let go: its send
// `bodyCh <- BlockBody{Err: ...}` / `orderedBlockBodiesCh <- ...` has no receiver any more.
// Property (CancelEndsAll): after cancellation every goroutine of p2p sync ends.
package p2psync

import (
	"context"
	"fmt"
	"testing"
	"testing/synctest"
	"time"

	"verifharness/internal/vh"
)

type cancelInput struct {
	World     worldCfg `json:"world"`
	Scenarios []string `json:"scenarios,omitempty"`
}

func TestP2PSyncCancel(t *testing.T) {
	if !vh.Enabled() {
		t.Skip("driver only")
	}
	var in cancelInput
	if err := vh.Input(&in); err != nil {
		t.Fatal(err)
	}
	out := vh.NewResult()
	defer out.Write()
	w, err := in.World.build(vh.Seed())
	if err != nil {
		t.Fatal(err)
	}
	scenarios := in.Scenarios
	if len(scenarios) == 0 {
		scenarios = []string{"cancel-during-compile", "cancel-during-prev-root-read", "cancel-while-consumer-away", "cancel-while-waiting-for-parts"}
	}
	// a block with a Sierra class, at a height > 0
	target := -1
	for h := 1; h < w.A.height(); h++ {
		if w.A.shapes[h].has('c') {
			target = h
		}
	}
	if target < 0 {
		t.Fatal("the world needs a block with classes above height 0")
	}
	for _, sc := range scenarios {
		var dv *vh.Divergence
		dl := bubble(t, func(t *testing.T) { dv = cancelScenario(w, in.World, sc, target) })
		if dv == nil && dl != "" {
			dv = &vh.Divergence{Key: "p2psync:leak:unknown", What: "goroutines remain blocked at the end of " + sc + ": " + dl}
		}
		if dv != nil {
			dv.Input = vh.J{"world": in.World, "scenarios": []string{sc}}
			out.Diverge(*dv)
		}
		out.Done(1, 1)
		out.Count("cancel:"+sc, 1)
	}
}

func cancelScenario(w *world, cfg worldCfg, sc string, target int) (dv *vh.Divergence) {
	s, err := newSUT(w, target, []peerSpec{{Name: "h1", Class: "honest"}}, 1, false)
	if err != nil {
		return &vh.Divergence{Key: "p2psync:harness", What: err.Error()}
	}
	defer s.stopPeers()
	hold := newGate()
	held := false
	withhold := sc == "cancel-while-waiting-for-parts"
	s.net.onRequest = func(cs *cliStream) {
		if withhold && cs.part == pSd {
			return // never answered: the part goroutine reads until its deadline
		}
		// a round trip takes (fake) time: without it a service that finds nothing to wait for
		// (e.g. at the tip of the chain, where Run asks again at once, without a pause) never blocks
		go func() {
			time.Sleep(time.Millisecond)
			o, _ := cs.peer.serve(cs.pid, cs.request())
			cs.feed(o, "eof")
		}()
	}
	switch sc {
	case "cancel-during-compile":
		s.comp.gate = func(ctx context.Context) error {
			if !held {
				held = true
				hold.arrive(nil)
				return ctx.Err() // what a compiler run under this context returns once it is cancelled
			}
			return nil
		}
	case "cancel-during-prev-root-read":
		s.store.prevRoot = hold
	}
	s.start()
	// The peers answer after a millisecond of FAKE time, and fake time passes only while this
	// goroutine is blocked as well (synctest.Wait alone returns as soon as the others sleep): sleep in
	// small steps until the held goroutine is at its gate. Everything here runs on the fake clock, so
	// the number of steps does not depend on the load of the machine.
	switch sc {
	case "cancel-during-compile", "cancel-during-prev-root-read":
		for i := 0; i < 20_000 && !hold.waiting(); i++ {
			time.Sleep(time.Millisecond)
			synctest.Wait()
		}
		if !hold.waiting() {
			return &vh.Divergence{Key: "p2psync:harness", What: sc + ": the goroutine never reached the gate (20 s of fake time)"}
		}
	case "cancel-while-consumer-away":
		// the verified body is waiting in Bridge's send on Listen(); nobody takes it
		time.Sleep(time.Second)
		synctest.Wait()
		if gs := junoGoroutines("utils/pipeline.Bridge"); len(gs) == 0 {
			return &vh.Divergence{Key: "p2psync:harness", What: sc + ": no body is being offered on Listen() after a second of fake time"}
		}
	case "cancel-while-waiting-for-parts":
		time.Sleep(time.Second) // well before the 10 s read deadline of the unanswered request
		synctest.Wait()
	}
	s.cancel()
	synctest.Wait()
	if !s.hasExited() {
		gs := junoGoroutines("p2p/sync.(*Service).Run")
		return &vh.Divergence{Key: "p2psync:cancel:run-does-not-return", What: sc + ": Service.Run did not return after the context was cancelled", Observed: shorten(gs, 14)}
	}
	if _, ok := <-s.svc.Listen(); ok {
		return &vh.Divergence{Key: "p2psync:cancel:listen-not-closed", What: sc + ": Listen() delivers after Run returned"}
	}
	if hold.waiting() {
		s.store.mu.Lock()
		s.store.prevRoot = nil
		s.store.mu.Unlock()
		hold.release(nil)
	}
	time.Sleep(15 * time.Second) // every read deadline
	synctest.Wait()
	if gs := junoGoroutines("p2p/sync", "utils/pipeline"); len(gs) > 0 {
		return &vh.Divergence{Key: "p2psync:leak:" + sc,
			What: fmt.Sprintf("%s: %d goroutine(s) of p2p sync are blocked for ever after the context was cancelled and Service.Run returned (first: %s)",
				sc, len(gs), firstJunoFrame(gs[0])), Observed: shorten(gs, 12)}
	}
	if n := s.net.openStreams(); n > 0 {
		return &vh.Divergence{Key: "p2psync:cancel:stream-not-closed", What: fmt.Sprintf("%s: %d stream(s) were never closed by the requesting side", sc, n)}
	}
	return nil
}

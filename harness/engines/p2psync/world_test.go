// Engine "p2psync" (specification growth G10): juno's peer-to-peer block synchronisation — the
// requesting side (p2p/sync: Service, BlockFetcher, Client, adapters/p2p2core) and the serving side
// (p2p/server, adapters/core2p2p) — bound to spec/p2psync/*.tla without a network.
//
// world_test.go: the source chains. An honest chain A and a fork B (sharing a prefix) are built with
// chainkit out of blocks whose content survives the p2p wire format exactly (see faithful*): the
// format does not carry every core field, so a block outside that domain cannot be synchronised from
// an honest peer at all (probed separately by TestP2PSyncLimits and printed as OBSERVATIONs).
package p2psync

import (
	"context"
	"encoding/hex"
	"fmt"
	"sort"
	"strings"

	"github.com/NethermindEth/juno/adapters/sn2core"
	"github.com/NethermindEth/juno/core"
	"github.com/NethermindEth/juno/core/crypto"
	"github.com/NethermindEth/juno/core/felt"
	"github.com/NethermindEth/juno/starknet"
	"github.com/NethermindEth/juno/utils/compression"

	"verifharness/internal/chainkit"
)

// Parts of a block as p2p sync requests them (the order is the order of ProcessBlock's requests).
const (
	pHdr = "hdr"
	pTxs = "txs"
	pEvs = "evs"
	pCls = "cls"
	pSd  = "sd"
)

var partOrder = []string{pHdr, pTxs, pEvs, pCls, pSd}

// fakeCompiler stands in for the Sierra→CASM compiler (a Rust FFI that is not linked offline): the
// CASM is a fixed function of the Sierra program, so a peer that alters a class gets a different
// compiled class hash exactly as with the real compiler. gate, when set, blocks inside Compile
// (the real compiler is a child process that takes seconds).
type fakeCompiler struct {
	gate func(ctx context.Context) error
}

func casmFor(program []felt.Felt) *starknet.CasmClass {
	c := &starknet.CasmClass{
		Prime:           "0x800000000000011000000000000000000000000000000000000000000000001",
		Hints:           []byte(`[]`),
		PythonicHints:   []byte(`[]`),
		CompilerVersion: "2.1.0",
	}
	h := crypto.PoseidonArray(program)
	c.Bytecode = []felt.Felt{h, *chainkit.F(uint64(len(program)))}
	c.EntryPoints.External = []starknet.CompiledEntryPoint{}
	c.EntryPoints.L1Handler = []starknet.CompiledEntryPoint{}
	c.EntryPoints.Constructor = []starknet.CompiledEntryPoint{}
	return c
}

func (f *fakeCompiler) Compile(ctx context.Context, s *starknet.SierraClass) (*starknet.CasmClass, error) {
	if f.gate != nil {
		if err := f.gate(ctx); err != nil {
			return nil, err
		}
	}
	return casmFor(s.Program), nil
}

// faithfulSierra: a Sierra class whose AbiHash / ProgramHash / Compiled are what the receiving
// side re-derives (chainkit's generator uses random felts for them).
func faithfulSierra(g *chainkit.Gen) (felt.Felt, felt.Felt, *core.SierraClass) {
	prog := []felt.Felt{*chainkit.F(1), *chainkit.F(6), *chainkit.F(0), *g.Felt()}
	abi := "[]"
	abiHash := crypto.StarknetKeccak([]byte(abi))
	progHash := crypto.PoseidonArray(prog)
	casm, err := sn2core.AdaptCompiledClass(casmFor(prog))
	if err != nil {
		panic(err)
	}
	cls := &core.SierraClass{
		Abi: abi, AbiHash: &abiHash, Program: prog, ProgramHash: &progHash, SemanticVersion: "0.1.0",
		EntryPoints: core.SierraEntryPointsByType{
			Constructor: []core.SierraEntryPoint{},
			External:    []core.SierraEntryPoint{{Index: 0, Selector: g.Felt()}},
			L1Handler:   []core.SierraEntryPoint{},
		},
		Compiled: casm,
	}
	h, err := cls.Hash()
	if err != nil {
		panic(err)
	}
	return h, casm.Hash(core.HashVersionV1), cls
}

// faithfulCairo0: a Cairo-0 class with a well-formed (gzip+base64 JSON) program, declared under its
// real hash — the receiving side computes the hash of a Cairo-0 class itself.
func faithfulCairo0(g *chainkit.Gen) (felt.Felt, *core.DeprecatedCairoClass) {
	prog := fmt.Sprintf(`{"builtins":["pedersen"],"data":["0x%x","0x2"],"debug_info":null,"hints":{},"identifiers":{},`+
		`"main_scope":"__main__","prime":"0x800000000000011000000000000000000000000000000000000000000000001",`+
		`"reference_manager":{"references":[]}}`, g.R.Int63())
	enc, err := compression.Gzip64Encode([]byte(prog))
	if err != nil {
		panic(err)
	}
	cls := &core.DeprecatedCairoClass{
		Abi:          []byte(`[]`),
		Externals:    []core.DeprecatedEntryPoint{{Selector: g.Felt(), Offset: chainkit.F(uint64(g.R.Intn(1000)))}},
		L1Handlers:   []core.DeprecatedEntryPoint{},
		Constructors: []core.DeprecatedEntryPoint{},
		Program:      enc,
	}
	h, err := cls.Hash()
	if err != nil {
		panic(err)
	}
	return h, cls
}

// faithfulTx: chainkit's transaction of that kind, restricted to what the wire format carries, with
// the hash recomputed.
func faithfulTx(g *chainkit.Gen, kind string) core.Transaction {
	tx := g.Tx(kind)
	rehash := true
	switch t := tx.(type) {
	case *core.InvokeTransaction:
		if t.Version.Is(3) {
			t.AccountDeploymentData = nil // p2p2core drops it ("todo recheck")
		}
	case *core.DeployAccountTransaction:
		a := core.ContractAddress(&felt.Zero, t.ClassHash, t.ContractAddressSalt, t.ConstructorCallData)
		t.ContractAddress = &a
	case *core.DeployTransaction:
		a := core.ContractAddress(&felt.Zero, t.ClassHash, t.ContractAddressSalt, t.ConstructorCallData)
		t.ContractAddress = &a
		rehash = false // legacy DEPLOY hashes are taken as given
	}
	if rehash {
		h, err := core.TransactionHash(tx, chainkit.Network)
		if err != nil {
			panic(err)
		}
		chainkit.SetTxHash(tx, &h)
	}
	return tx
}

// faithfulReceipt: total l1_data_gas = DA l1_data_gas (the wire format has one field for both).
func faithfulReceipt(g *chainkit.Gen, tx core.Transaction, events []*core.Event) *core.TransactionReceipt {
	r := g.Receipt(tx, events)
	r.ExecutionResources.TotalGasConsumed.L1DataGas = r.ExecutionResources.DataAvailability.L1DataGas
	return r
}

// shape: which parts of a block are non-empty: letters t(ransactions) e(vents) c(lasses) d(iffs).
type shape string

func (s shape) has(c byte) bool { return strings.IndexByte(string(s), c) >= 0 }

func (s shape) empty(part string) bool {
	switch part {
	case pTxs:
		return !s.has('t')
	case pEvs:
		return !s.has('e')
	case pCls:
		return !s.has('c')
	case pSd:
		return !s.has('d')
	}
	return false
}

type chain struct {
	name   string
	node   *chainkit.Node
	built  []*chainkit.Built
	shapes []shape
}

func (c *chain) height() int { return len(c.built) }

type world struct {
	seed     int64
	newState bool
	g        *chainkit.Gen
	A, B     *chain
	forkAt   int // B[h] == A[h] for h < forkAt (forkAt = number of shared blocks); B == nil when no fork
	contracts []felt.Felt
	baseC0   felt.Felt
	deployedAt int       // height of the block of A that deployed the contracts (-1: not yet)
	altC0      felt.Felt // a Cairo-0 class declared on A after the contracts were deployed
	replaced   bool      // contracts[0] had its class replaced by altC0 (once, on chain A)
	ref      *simPeer // an untampered server over A (the harness's own reference reader)
}

func (w *world) blockSpec(h int, sh shape, salt uint64) chainkit.BlockSpec {
	g := w.g
	d := chainkit.EmptyDiff()
	classes := map[felt.Felt]core.ClassDefinition{}
	if sh.has('c') {
		ch, c0 := faithfulCairo0(g)
		d.DeclaredV0Classes = append(d.DeclaredV0Classes, &ch)
		classes[ch] = c0
		sh1, casm, c1 := faithfulSierra(g)
		d.DeclaredV1Classes[sh1] = &casm
		classes[sh1] = c1
		if w.baseC0.IsZero() {
			w.baseC0 = ch
		} else if salt == 0 && len(w.contracts) > 0 && w.altC0.IsZero() {
			w.altC0 = ch
		}
	}
	if sh.has('d') {
		if len(w.contracts) == 0 && !w.baseC0.IsZero() {
			for i := 0; i < 2; i++ {
				a := *g.Felt()
				w.contracts = append(w.contracts, a)
				c := w.baseC0
				d.DeployedContracts[a] = &c
			}
			w.deployedAt = h
		} else if salt == 0 && !w.replaced && !w.altC0.IsZero() && len(w.contracts) > 0 && h > w.deployedAt {
			// a replaced class (chain A only: B need not hold the contract): the requesting side tells
			// "replaced" from "deployed" by looking the contract up in ITS state
			alt := w.altC0
			d.ReplacedClasses[w.contracts[0]] = &alt
			w.replaced = true
		}
		addrs := w.contracts
		if len(addrs) == 0 {
			addrs = []felt.Felt{*chainkit.F(0x100), *chainkit.F(0x101)}
		}
		for i, a := range addrs {
			d.StorageDiffs[a] = map[felt.Felt]*felt.Felt{
				*chainkit.F(uint64(1 + i)): chainkit.F(uint64(1000*h+i) + salt + 1),
				*g.Felt():                  g.Felt(),
			}
			d.Nonces[a] = chainkit.F(uint64(h) + salt + 1)
		}
	}
	var txs []core.Transaction
	var rcs []*core.TransactionReceipt
	if sh.has('t') {
		n := 2 + g.R.Intn(2)
		for i := 0; i < n; i++ {
			kind := chainkit.TxKinds[(h*3+i+int(salt))%len(chainkit.TxKinds)]
			tx := faithfulTx(g, kind)
			var evs []*core.Event
			if sh.has('e') && i < 2 {
				for k := 0; k < 2-i; k++ {
					evs = append(evs, &core.Event{From: g.Felt(), Keys: g.Felts(1 + g.R.Intn(2)), Data: g.Felts(g.R.Intn(3))})
				}
			}
			txs = append(txs, tx)
			rcs = append(rcs, faithfulReceipt(g, tx, evs))
		}
	}
	ver := []string{"0.14.0", "0.13.2", "0.13.4", "0.14.0"}[h%4]
	return chainkit.BlockSpec{Version: ver, Diff: d, Classes: classes, Txs: txs, Receipts: rcs,
		Timestamp: uint64(1_700_000_000 + 30*h + int(salt)), L1DAMode: core.L1DAMode(h % 2)}
}

func (w *world) appendTo(c *chain, sh shape, salt uint64) error {
	h := c.height()
	b, err := c.node.Build(w.blockSpec(h, sh, salt))
	if err != nil {
		return err
	}
	b.Block.Signatures = [][]*felt.Felt{{w.g.Felt(), w.g.Felt()}}
	if err := c.node.StoreBuilt(b); err != nil {
		return fmt.Errorf("store %s[%d]: %w", c.name, h, err)
	}
	c.built = append(c.built, b)
	c.shapes = append(c.shapes, sh)
	return nil
}

// newWorld builds A with the given shapes and, when forkAt >= 0, B = A[0..forkAt-1] ++ own blocks
// (shapesB for heights forkAt..).
func newWorld(seed int64, newState bool, shapesA []string, forkAt int, shapesB []string) (*world, error) {
	w := &world{seed: seed, newState: newState, g: chainkit.NewGen(seed), forkAt: forkAt, deployedAt: -1}
	w.A = &chain{name: "A", node: chainkit.NewNode(nil, newState)}
	for _, s := range shapesA {
		if err := w.appendTo(w.A, shape(s), 0); err != nil {
			return nil, err
		}
	}
	if forkAt >= 0 {
		w.B = &chain{name: "B", node: chainkit.NewNode(nil, newState)}
		for h := 0; h < forkAt; h++ {
			if err := w.B.node.StoreBuilt(w.A.built[h]); err != nil {
				return nil, fmt.Errorf("B shares A[%d]: %w", h, err)
			}
			w.B.built = append(w.B.built, w.A.built[h])
			w.B.shapes = append(w.B.shapes, w.A.shapes[h])
		}
		for _, s := range shapesB {
			if err := w.appendTo(w.B, shape(s), 7); err != nil {
				return nil, err
			}
		}
	}
	return w, nil
}

// blockID names a block as the specification does: "A3", "B2" (B's shared prefix is named A).
func (w *world) blockID(hash *felt.Felt) string {
	for h, b := range w.A.built {
		if b.Block.Hash.Equal(hash) {
			return fmt.Sprintf("A%d", h)
		}
	}
	if w.B != nil {
		for h, b := range w.B.built {
			if b.Block.Hash.Equal(hash) {
				return fmt.Sprintf("B%d", h)
			}
		}
	}
	return "?" + hash.String()
}

// newSyncNode: a fresh node holding A[0..start-1].
func (w *world) newSyncNode(start int, wrap func(*chainkit.Node) *chainkit.Node) (*chainkit.Node, error) {
	n := chainkit.NewNode(nil, w.newState)
	if wrap != nil {
		n = wrap(n)
	}
	for h := 0; h < start; h++ {
		if err := n.StoreBuilt(w.A.built[h]); err != nil {
			return nil, err
		}
	}
	return n, nil
}

// ------------------------------------------------------------------ digests

func fs(f *felt.Felt) string {
	if f == nil {
		return "nil"
	}
	return f.String()
}

// coreDigest: what a reader of the node's database sees of block n, restricted to the fields the
// wire format carries (see the list in the G10 report): header, transactions, receipts, events,
// state diff, commitments, declared classes.
func coreDigest(n *chainkit.Node, num uint64) (string, error) {
	var sb strings.Builder
	blk, err := n.BC.BlockByNumber(num)
	if err != nil {
		return "", fmt.Errorf("BlockByNumber: %w", err)
	}
	su, err := n.BC.StateUpdateByNumber(num)
	if err != nil {
		return "", fmt.Errorf("StateUpdateByNumber: %w", err)
	}
	cm, err := n.BC.BlockCommitmentsByNumber(num)
	if err != nil {
		return "", fmt.Errorf("BlockCommitmentsByNumber: %w", err)
	}
	h := blk.Header
	fmt.Fprintf(&sb, "hash=%s parent=%s num=%d root=%s seq=%s ntx=%d nev=%d ts=%d ver=%s da=%d gas=%s/%s dg=%s/%s l2=%s/%s\n",
		fs(h.Hash), fs(h.ParentHash), h.Number, fs(h.GlobalStateRoot), fs(h.SequencerAddress), h.TransactionCount, h.EventCount,
		h.Timestamp, h.ProtocolVersion, h.L1DAMode, fs(h.L1GasPriceETH), fs(h.L1GasPriceSTRK),
		fs(h.L1DataGasPrice.PriceInWei), fs(h.L1DataGasPrice.PriceInFri), fs(h.L2GasPrice.PriceInWei), fs(h.L2GasPrice.PriceInFri))
	for _, s := range h.Signatures {
		fmt.Fprintf(&sb, "sig=%s,%s\n", fs(s[0]), fs(s[1]))
	}
	if h.EventsBloom != nil {
		bb, _ := h.EventsBloom.MarshalBinary()
		bh := crypto.StarknetKeccak(bb)
		fmt.Fprintf(&sb, "bloom=%s\n", bh.String())
	}
	fmt.Fprintf(&sb, "cm tx=%s ev=%s rc=%s sd=%s\n", fs(cm.TransactionCommitment), fs(cm.EventCommitment), fs(cm.ReceiptCommitment), fs(cm.StateDiffCommitment))
	for i, tx := range blk.Transactions {
		r := blk.Receipts[i]
		fmt.Fprintf(&sb, "tx %T %s rcpt tx=%s fee=%s rev=%v/%q msgs=%d evs=%d\n", tx, fs(tx.Hash()), fs(r.TransactionHash), fs(r.Fee), r.Reverted, r.RevertReason, len(r.L2ToL1Message), len(r.Events))
		th, err := core.TransactionHash(tx, chainkit.Network)
		if _, legacy := tx.(*core.DeployTransaction); err == nil && !legacy && !th.Equal(tx.Hash()) {
			fmt.Fprintf(&sb, "  !! stored transaction does not hash to its hash (%s)\n", th.String())
		}
		for _, e := range r.Events {
			fmt.Fprintf(&sb, "  ev from=%s keys=%v data=%v\n", fs(e.From), e.Keys, e.Data)
		}
		for _, m := range r.L2ToL1Message {
			fmt.Fprintf(&sb, "  msg from=%s to=%s payload=%v\n", fs(m.From), hex.EncodeToString(m.To.Bytes()), m.Payload)
		}
		if er := r.ExecutionResources; er != nil {
			fmt.Fprintf(&sb, "  res steps=%d holes=%d ped=%d rc=%d", er.Steps, er.MemoryHoles, er.BuiltinInstanceCounter.Pedersen, er.BuiltinInstanceCounter.RangeCheck)
			if er.DataAvailability != nil {
				fmt.Fprintf(&sb, " da=%d/%d", er.DataAvailability.L1Gas, er.DataAvailability.L1DataGas)
			}
			if er.TotalGasConsumed != nil {
				fmt.Fprintf(&sb, " tot=%d/%d", er.TotalGasConsumed.L1Gas, er.TotalGasConsumed.L1DataGas)
			}
			sb.WriteString("\n")
		}
		// the by-hash accessors agree with the block
		if t2, err := n.BC.TransactionByHash(tx.Hash()); err != nil || !t2.Hash().Equal(tx.Hash()) {
			fmt.Fprintf(&sb, "  !! TransactionByHash: %v\n", err)
		}
	}
	d := su.StateDiff
	fmt.Fprintf(&sb, "su hash=%s new=%s old=%s len=%d dh=%s\n", fs(su.BlockHash), fs(su.NewRoot), fs(su.OldRoot), d.Length(), func() string { x := d.Hash(); return x.String() }())
	var lines []string
	for a, m := range d.StorageDiffs {
		for k, v := range m {
			lines = append(lines, fmt.Sprintf("st %s %s=%s", a.String(), k.String(), fs(v)))
		}
	}
	for a, v := range d.Nonces {
		lines = append(lines, fmt.Sprintf("nonce %s=%s", a.String(), fs(v)))
	}
	for a, v := range d.DeployedContracts {
		lines = append(lines, fmt.Sprintf("deployed %s=%s", a.String(), fs(v)))
	}
	for a, v := range d.ReplacedClasses {
		lines = append(lines, fmt.Sprintf("replaced %s=%s", a.String(), fs(v)))
	}
	for _, v := range d.DeclaredV0Classes {
		lines = append(lines, fmt.Sprintf("decl0 %s", fs(v)))
	}
	for a, v := range d.DeclaredV1Classes {
		lines = append(lines, fmt.Sprintf("decl1 %s=%s", a.String(), fs(v)))
	}
	// declared classes are readable at this block and hash to their key
	sr, closer, err := n.BC.StateAtBlockNumber(num)
	if err != nil {
		return "", fmt.Errorf("StateAtBlockNumber: %w", err)
	}
	check := func(hh *felt.Felt) {
		dc, err := sr.Class(hh)
		if err != nil {
			lines = append(lines, fmt.Sprintf("class %s unreadable: %v", hh.String(), err))
			return
		}
		ch, err := dc.Class.Hash()
		lines = append(lines, fmt.Sprintf("class %s at=%d hashes-to=%s %v", hh.String(), dc.At, ch.String(), err))
	}
	for _, v := range d.DeclaredV0Classes {
		check(v)
	}
	for a := range d.DeclaredV1Classes {
		check(&a)
	}
	_ = closer()
	sort.Strings(lines)
	sb.WriteString(strings.Join(lines, "\n"))
	return sb.String(), nil
}

func short(b []byte) string {
	if len(b) > 12 {
		return hex.EncodeToString(b[:12]) + "…"
	}
	return hex.EncodeToString(b)
}

// sut_test.go: the system under test — the real p2p/sync Service and BlockFetcher over a real
// Blockchain, the fake network with scripted peers (each a real p2p/server), the consumer.
package p2psync

import (
	"context"
	"fmt"
	"math/rand"
	"sort"
	"sync"
	"testing/synctest"
	"time"

	"github.com/NethermindEth/juno/db/memory"
	p2psync "github.com/NethermindEth/juno/p2p/sync"
	"github.com/NethermindEth/juno/utils/log"
	"github.com/libp2p/go-libp2p/core/peer"
	"go.uber.org/zap/zapcore"
	"go.uber.org/zap/zaptest/observer"

	"verifharness/internal/chainkit"
	"verifharness/internal/faultkv"
)

type peerSpec struct {
	Name  string `json:"name"`
	Class string `json:"class"`
}

type sut struct {
	w     *world
	node  *chainkit.Node
	store *gateStore
	net   *fakeNet
	peers map[string]*simPeer
	comp  *fakeCompiler
	logs  *observer.ObservedLogs
	svc   *p2psync.Service
	bf    *p2psync.BlockFetcher

	ctx     context.Context
	cancel  context.CancelFunc
	runDone chan struct{}
	exited  bool
	closed  bool // Listen() was closed

	r       *rand.Rand
	mailbox *p2psync.BlockBody
	overflow *p2psync.BlockBody // taken from Listen() while the mailbox was full: the service "is still blocked sending it"
	errs    int // error bodies dropped
	errTxt  []string

	peersGate *gate
	failDial  bool // replay: the next dial fails (DialFail step)
	iterN     uint64

	mu      sync.Mutex
	streams map[string]*cliStream // replay mode: the stream of each part of the current iteration
	lastReq map[string]uint64
	opened  int
	variants []string
}

// newSUT builds everything but does not start the service. Call inside a bubble.
func newSUT(w *world, start int, specs []peerSpec, seed int64, gated bool) (*sut, error) {
	s := &sut{w: w, peers: map[string]*simPeer{}, comp: &fakeCompiler{}, r: rand.New(rand.NewSource(seed)),
		streams: map[string]*cliStream{}, lastReq: map[string]uint64{}}
	s.store = &gateStore{KeyValueStore: memory.New()}
	node, err := w.newSyncNode(start, func(*chainkit.Node) *chainkit.Node { return chainkit.NewNode(s.store, w.newState) })
	if err != nil {
		return nil, err
	}
	s.node = node
	s.net = newFakeNet()
	w.ref = newSimPeer("ref", "honest", w.A.node)
	for _, ps := range specs {
		n := w.A.node
		if ps.Class == "fork" {
			if w.B == nil {
				return nil, fmt.Errorf("fork peer without chain B")
			}
			n = w.B.node
		}
		p := newSimPeer(ps.Name, ps.Class, n)
		s.peers[ps.Name] = p
		s.net.add(p)
	}
	s.net.dial = func(p *simPeer, part string) error {
		switch p.class {
		case "down":
			return fmt.Errorf("dial %s: connection refused", p.name)
		case "flaky":
			if (gated && s.failDial) || (!gated && s.r.Intn(3) == 0) {
				return fmt.Errorf("dial %s: timeout", p.name)
			}
		}
		return nil
	}
	core, logs := observer.New(zapcore.FatalLevel) // (nothing is kept: a spinning service must not fill the memory)
	s.logs = logs
	logger := log.NewZapLoggerWithCore(core)
	bf := p2psync.NewBlockFetcher(node.BC, s.comp, s.net, chainkit.Network, logger)
	s.bf = &bf
	s.svc = p2psync.New(node.BC, logger, s.bf)
	if gated {
		s.store.height = newGate()
	}
	return s, nil
}

func (s *sut) start() {
	s.ctx, s.cancel = context.WithCancel(context.Background())
	s.runDone = make(chan struct{})
	go func() {
		defer close(s.runDone)
		s.svc.Run(s.ctx)
	}()
}

func (s *sut) stopPeers() {
	for _, p := range s.peers {
		p.stop()
	}
	if s.w.ref != nil {
		s.w.ref.stop()
		s.w.ref = nil
	}
}

func (s *sut) hasExited() bool {
	if s.exited {
		return true
	}
	select {
	case <-s.runDone:
		s.exited = true
	default:
	}
	return s.exited
}

// poll: after synctest.Wait(): take what the service is blocked sending on Listen(), if the
// mailbox is free; error bodies are dropped (and counted) and the poll repeated.
func (s *sut) poll() {
	for !s.closed {
		if s.mailbox == nil && s.overflow != nil {
			s.mailbox, s.overflow = s.overflow, nil
		}
		if s.overflow != nil {
			break
		}
		synctest.Wait()
		select {
		case b, ok := <-s.svc.Listen():
			if !ok {
				s.closed = true
				return
			}
			if b.Err != nil {
				s.errs++
				if len(s.errTxt) < 50 {
					s.errTxt = append(s.errTxt, b.Err.Error())
				}
				continue
			}
			bb := b
			if s.mailbox == nil {
				s.mailbox = &bb
			} else {
				s.overflow = &bb
			}
			continue
		default:
		}
		break
	}
	synctest.Wait()
}

// storedIDs: the node's chain in the specification's names.
func (s *sut) storedIDs() []string {
	h, err := s.node.BC.Height()
	if err != nil {
		return []string{}
	}
	out := make([]string, 0, h+1)
	for i := uint64(0); i <= h; i++ {
		hd, err := s.node.BC.BlockHeaderByNumber(i)
		if err != nil {
			out = append(out, fmt.Sprintf("?%d:%v", i, err))
			continue
		}
		out = append(out, s.w.blockID(hd.Hash))
	}
	return out
}

func (s *sut) aliveNames() []string {
	a := s.net.aliveNames()
	sort.Strings(a)
	return a
}

func (s *sut) dump() []faultkv.KV {
	d, _ := faultkv.Dump(s.store.KeyValueStore)
	return d
}

// consume: Store what is in the mailbox, as the code's own consumer did.
func (s *sut) consume() (ok bool, id string, err error) {
	b := s.mailbox
	s.mailbox = nil
	if b == nil {
		return false, "", fmt.Errorf("empty mailbox")
	}
	id = s.w.blockID(b.Block.Hash)
	err = s.node.BC.Store(b.Block, b.Commitments, b.StateUpdate, b.NewClasses)
	return err == nil, id, err
}

// sleep lets fake time pass (read deadlines) and waits for the service to settle.
func sleepSettle(d time.Duration) {
	time.Sleep(d)
	synctest.Wait()
}

func peerName(id peer.ID) string { return string(id)[len("peer-"):] }

func (s *sut) openedThisIter() int {
	s.mu.Lock()
	defer s.mu.Unlock()
	return s.opened
}

func (s *sut) unfedParts() []string {
	s.mu.Lock()
	defer s.mu.Unlock()
	var out []string
	for p := range s.streams {
		out = append(out, p)
	}
	return out
}

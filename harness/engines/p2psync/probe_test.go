package p2psync

import (
	"context"
	"testing"
	"time"

	p2psync "github.com/NethermindEth/juno/p2p/sync"
	"github.com/NethermindEth/juno/utils/log"

	"verifharness/internal/chainkit"
)

// TestP2PProbe: development smoke test (not part of the check): an honest peer, the real Service,
// a consumer that stores what comes out of Listen().
func TestP2PProbe(t *testing.T) {
	w, err := newWorld(3, false, []string{"tecd", "", "te", "d", "tecd", "t"}, -1, nil)
	if err != nil {
		t.Fatal(err)
	}
	node, err := w.newSyncNode(0, nil)
	if err != nil {
		t.Fatal(err)
	}
	net := newFakeNet()
	hp := newSimPeer("h1", "honest", w.A.node)
	defer hp.stop()
	net.add(hp)
	net.onRequest = func(s *cliStream) {
		out, _ := s.peer.serve(s.pid, s.request())
		s.feed(out, "eof")
	}
	logger, _ := log.NewZapLogger(log.NewLevel(-1))
	_ = logger
	bf := p2psync.NewBlockFetcher(node.BC, &fakeCompiler{}, net, chainkit.Network, log.NewNopZapLogger())
	svc := p2psync.New(node.BC, log.NewNopZapLogger(), &bf)
	ctx, cancel := context.WithCancel(context.Background())
	done := make(chan struct{})
	go func() { defer close(done); svc.Run(ctx) }()
	deadline := time.After(20 * time.Second)
	stored := 0
loop:
	for stored < w.A.height() {
		select {
		case b, ok := <-svc.Listen():
			if !ok {
				t.Fatal("listen closed")
			}
			if b.Err != nil {
				t.Logf("err body: %v", b.Err)
				continue
			}
			if err := node.BC.Store(b.Block, b.Commitments, b.StateUpdate, b.NewClasses); err != nil {
				t.Logf("store %d: %v", b.Block.Number, err)
				continue
			}
			stored++
			t.Logf("stored %d (%s)", b.Block.Number, w.blockID(b.Block.Hash))
		case <-deadline:
			t.Errorf("timeout at %d", stored)
			break loop
		}
	}
	cancel()
	<-done
	for h := 0; h < stored; h++ {
		a, err1 := coreDigest(w.A.node, uint64(h))
		b, err2 := coreDigest(node, uint64(h))
		if err1 != nil || err2 != nil || a != b {
			t.Errorf("block %d differs: %v %v\nsource:\n%s\nnode:\n%s", h, err1, err2, a, b)
		}
	}
}

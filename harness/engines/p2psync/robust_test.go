// robust_test.go: answers that are well-formed protobuf but not well-formed blocks — a message
// with one of its sub-messages absent (every message-typed field of every answer message, one at a
// time), a message with no alternative of its oneof set. Whatever a peer sends, the requesting side
// must not crash (a panic in one of p2p sync's goroutines kills the node) and must not emit the
// block as verified unless it still is the source's block.
//
// A panic in a goroutine the code under test started cannot be recovered by the harness, so the
// variants run in a child process (this test binary re-executed); the parent restarts the child
// after every crash and reports each crash site once.
package p2psync

import (
	"bytes"
	"context"
	"encoding/json"
	"fmt"
	"os"
	"os/exec"
	"regexp"
	"sort"
	"strings"
	"testing"
	"time"

	p2psync "github.com/NethermindEth/juno/p2p/sync"
	"github.com/NethermindEth/juno/utils/log"
	"google.golang.org/protobuf/proto"
	"google.golang.org/protobuf/reflect/protoreflect"

	"verifharness/internal/chainkit"
	"verifharness/internal/vh"
)

type variant struct {
	Part  string `json:"part"`
	H     int    `json:"h"`
	Item  int    `json:"item"`
	Path  string `json:"path"` // the message-typed field that is cleared ("" with Oneof / Synth: nothing is cleared)
	Oneof bool   `json:"oneof,omitempty"`
	// Synth: the item is first replaced by a synthetic, fully populated message in which this oneof
	// alternative (full protobuf name) is chosen — for the message types the source chain does not
	// contain (e.g. a DECLARE v0)
	Synth string `json:"synth,omitempty"`
}

func (v variant) String() string {
	if v.Synth != "" {
		if v.Path == "" {
			return fmt.Sprintf("%s[%d]/block %d: a synthetic message with alternative %s", v.Part, v.Item, v.H, v.Synth)
		}
		return fmt.Sprintf("%s[%d]/block %d: a synthetic message with alternative %s, %s absent", v.Part, v.Item, v.H, v.Synth, v.Path)
	}
	if v.Oneof {
		return fmt.Sprintf("%s[%d]/block %d: message with no alternative set at %s", v.Part, v.Item, v.H, v.Path)
	}
	return fmt.Sprintf("%s[%d]/block %d: %s absent", v.Part, v.Item, v.H, v.Path)
}

// messagePaths lists every populated message-typed field (singular: the field; repeated: each
// element) and every populated oneof of m.
func messagePaths(m protoreflect.Message, path string, msgs, oneofs *[]string) {
	m.Range(func(fd protoreflect.FieldDescriptor, v protoreflect.Value) bool {
		if fd.Kind() != protoreflect.MessageKind || fd.IsMap() {
			return true
		}
		p := path + "." + string(fd.Name())
		if fd.IsList() {
			l := v.List()
			for i := 0; i < l.Len() && i < 2; i++ {
				pe := fmt.Sprintf("%s[%d]", p, i)
				messagePaths(l.Get(i).Message(), pe, msgs, oneofs)
				*msgs = append(*msgs, pe) // the element becomes an empty message
			}
			return true
		}
		*msgs = append(*msgs, p)
		if od := fd.ContainingOneof(); od != nil && !od.IsSynthetic() {
			*oneofs = append(*oneofs, p)
		}
		messagePaths(v.Message(), p, msgs, oneofs)
		return true
	})
}

var elemRe = regexp.MustCompile(`^(\w+)\[(\d+)\]$`)

// clearAt clears the message-typed field at path (a list element is replaced by an empty message).
func clearAt(m protoreflect.Message, path string) bool {
	segs := strings.Split(strings.TrimPrefix(path, "."), ".")
	for i, sg := range segs {
		name, idx := sg, -1
		if mm := elemRe.FindStringSubmatch(sg); mm != nil {
			name = mm[1]
			fmt.Sscan(mm[2], &idx)
		}
		fd := m.Descriptor().Fields().ByName(protoreflect.Name(name))
		if fd == nil || !m.Has(fd) {
			return false
		}
		last := i == len(segs)-1
		if idx >= 0 {
			l := m.Mutable(fd).List()
			if idx >= l.Len() {
				return false
			}
			if last {
				l.Set(idx, protoreflect.ValueOfMessage(l.Get(idx).Message().New()))
				return true
			}
			m = l.Get(idx).Message()
			continue
		}
		if last {
			m.Clear(fd)
			return true
		}
		m = m.Mutable(fd).Message()
	}
	return false
}

func (v variant) apply(raw []byte) []byte {
	m := newResponse(v.Part)
	if v.Synth != "" {
		populate(m.ProtoReflect(), protoreflect.FullName(v.Synth), 0)
		if v.Path == "" {
			return mustMarshal(m)
		}
	} else if proto.Unmarshal(raw, m) != nil {
		return nil
	}
	if !clearAt(m.ProtoReflect(), v.Path) {
		return nil
	}
	return mustMarshal(m)
}

// populate fills m completely: every message-typed field present (a repeated one with one element),
// every scalar non-default; of each oneof the alternative named alt when it is one of its members,
// the first one otherwise.
func populate(m protoreflect.Message, alt protoreflect.FullName, depth int) {
	if depth > 12 {
		return
	}
	fields := m.Descriptor().Fields()
	for i := 0; i < fields.Len(); i++ {
		fd := fields.Get(i)
		if od := fd.ContainingOneof(); od != nil && !od.IsSynthetic() {
			chosen := od.Fields().Get(0)
			if a := od.Fields().ByName(alt.Name()); a != nil && a.FullName() == alt {
				chosen = a
			}
			if chosen != fd {
				continue
			}
		}
		scalar := func() (protoreflect.Value, bool) {
			switch fd.Kind() {
			case protoreflect.BytesKind:
				b := make([]byte, 32)
				b[31] = byte(1 + i)
				return protoreflect.ValueOfBytes(b), true
			case protoreflect.StringKind:
				return protoreflect.ValueOfString("x"), true
			case protoreflect.Uint64Kind, protoreflect.Fixed64Kind:
				return protoreflect.ValueOfUint64(1), true
			case protoreflect.Uint32Kind, protoreflect.Fixed32Kind:
				return protoreflect.ValueOfUint32(1), true
			case protoreflect.BoolKind:
				return protoreflect.ValueOfBool(true), true
			}
			return protoreflect.Value{}, false
		}
		switch {
		case fd.IsMap():
		case fd.IsList():
			l := m.Mutable(fd).List()
			if fd.Kind() == protoreflect.MessageKind {
				populate(l.AppendMutable().Message(), alt, depth+1)
			} else if v, ok := scalar(); ok {
				l.Append(v)
			}
		case fd.Kind() == protoreflect.MessageKind:
			populate(m.Mutable(fd).Message(), alt, depth+1)
		default:
			if v, ok := scalar(); ok {
				m.Set(fd, v)
			}
		}
	}
}

// alternatives lists every member of every oneof reachable from md (full names).
func alternatives(md protoreflect.MessageDescriptor, seen map[protoreflect.FullName]bool, out *[]protoreflect.FullName) {
	if seen[md.FullName()] {
		return
	}
	seen[md.FullName()] = true
	fields := md.Fields()
	for i := 0; i < fields.Len(); i++ {
		fd := fields.Get(i)
		if od := fd.ContainingOneof(); od != nil && !od.IsSynthetic() {
			*out = append(*out, fd.FullName())
		}
		if fd.Kind() == protoreflect.MessageKind && !fd.IsMap() {
			alternatives(fd.Message(), seen, out)
		}
	}
}

// group: the kind of peer-supplied message the variant alters (the signature of a crash: one
// finding per kind of message, the field and the crash site are in the text).
func (v variant) group() string {
	path := v.Path
	if path == "" {
		return v.Part + ".synthetic"
	}
	segs := strings.Split(strings.TrimPrefix(regexp.MustCompile(`\[\d+\]`).ReplaceAllString(path, ""), "."), ".")
	if v.Part == pTxs && len(segs) > 1 {
		return v.Part + "." + segs[1] // transaction | receipt
	}
	return v.Part + "." + segs[0]
}

func (v variant) key() string {
	if v.Synth != "" && v.Path == "" {
		return v.Part + "<synthetic " + v.Synth + ">"
	}
	return shapeKey(v.Part, v.Path)
}

// shapeKey: the path without list indices — one variant per message shape is enough.
func shapeKey(part, path string) string {
	return part + regexp.MustCompile(`\[\d+\]`).ReplaceAllString(path, "[]")
}

func enumerateVariants(w *world, ref *simPeer) []variant {
	seen := map[string]bool{}
	var out []variant
	for _, part := range partOrder {
		for h := 0; h < w.A.height(); h++ {
			items, _ := ref.items(part, uint64(h))
			for i, raw := range items {
				m := newResponse(part)
				if proto.Unmarshal(raw, m) != nil {
					continue
				}
				var msgs, oneofs []string
				messagePaths(m.ProtoReflect(), "", &msgs, &oneofs)
				sort.Strings(msgs)
				for _, p := range msgs {
					k := shapeKey(part, p)
					if seen[k] {
						continue
					}
					seen[k] = true
					out = append(out, variant{Part: part, H: h, Item: i, Path: p})
				}
			}
		}
	}
	// what the source chain does not contain: a synthetic, fully populated message per oneof
	// alternative of the wire format, and its one-field-missing variants — only the shapes not
	// already covered with real data
	for _, part := range partOrder {
		at := -1
		for h := 0; h < w.A.height() && at < 0; h++ {
			if items, _ := ref.items(part, uint64(h)); len(items) > 0 {
				at = h
			}
		}
		if at < 0 {
			continue
		}
		var alts []protoreflect.FullName
		alternatives(newResponse(part).ProtoReflect().Descriptor(), map[protoreflect.FullName]bool{}, &alts)
		for _, alt := range alts {
			m := newResponse(part)
			populate(m.ProtoReflect(), alt, 0)
			var msgs, oneofs []string
			messagePaths(m.ProtoReflect(), "", &msgs, &oneofs)
			sort.Strings(msgs)
			fresh := false
			for _, p := range msgs {
				if k := shapeKey(part, p); !seen[k] {
					seen[k] = true
					fresh = true
					out = append(out, variant{Part: part, H: at, Item: 0, Path: p, Synth: string(alt)})
				}
			}
			if fresh {
				out = append(out, variant{Part: part, H: at, Item: 0, Synth: string(alt)})
			}
		}
	}
	return out
}

type robustInput struct {
	World    worldCfg  `json:"world"`
	Variants []variant `json:"variants,omitempty"` // child / replay: exactly these
	Progress string    `json:"progress,omitempty"` // child: file to append "i\n" to before variant i
	MaxQuick int       `json:"max_quick,omitempty"`
}

type robustOutcome struct {
	I      int    `json:"i"`
	Result string `json:"result"` // "err" "nothing" "good-same" "good-differs:<...>" "hang"
}

// runVariant: one ProcessBlock of the real BlockFetcher against a peer that answers honestly except
// for the one altered message.
func runVariant(w *world, ref *simPeer, v variant) string {
	res := runVariantOnce(w, ref, v, 60*time.Second)
	if res == "hang" {
		// wall-clock time on a shared machine: a real hang is there the second time as well
		res = runVariantOnce(w, ref, v, 300*time.Second)
	}
	return res
}

func runVariantOnce(w *world, ref *simPeer, v variant, limit time.Duration) string {
	node, err := w.newSyncNode(v.H, nil)
	if err != nil {
		return "harness:" + err.Error()
	}
	net := newFakeNet()
	net.add(ref)
	net.onRequest = func(s *cliStream) {
		out, _ := ref.serve(s.pid, s.request())
		if s.part == v.Part {
			msgs, _ := splitDelimited(out)
			if v.Item < len(msgs) {
				if alt := v.apply(msgs[v.Item]); alt != nil {
					msgs[v.Item] = alt
					out = joinDelimited(msgs)
				}
			}
		}
		s.feed(out, "eof")
	}
	bf := p2psync.NewBlockFetcher(node.BC, &fakeCompiler{}, net, chainkit.Network, log.NewNopZapLogger())
	ctx, cancel := context.WithTimeout(context.Background(), limit)
	defer cancel()
	outCh := make(chan p2psync.BlockBody, 8)
	done := make(chan error, 1)
	go func() { done <- bf.ProcessBlock(ctx, uint64(v.H), outCh) }()
	select {
	case <-done:
	case <-ctx.Done():
		return "hang"
	}
	res := "nothing"
	for {
		select {
		case b := <-outCh:
			if b.Err != nil {
				res = "err"
				continue
			}
			if err := node.BC.Store(b.Block, b.Commitments, b.StateUpdate, b.NewClasses); err != nil {
				res = "good-unstorable"
				continue
			}
			got, e1 := coreDigest(node, uint64(v.H))
			want, e2 := coreDigest(w.A.node, uint64(v.H))
			if e1 != nil || e2 != nil || got != want {
				return fmt.Sprintf("good-differs:%v %v", e1, e2)
			}
			res = "good-same"
		default:
			return res
		}
	}
}

// TestP2PRobustChild: runs the given variants in order, appending the index to the progress file
// before each one. Dies with the process when the code under test panics.
func TestP2PRobustChild(t *testing.T) {
	if !vh.Enabled() || os.Getenv("VH_ROBUST_CHILD") == "" {
		t.Skip("child of TestP2PSyncRobust only")
	}
	var in robustInput
	if err := vh.Input(&in); err != nil {
		t.Fatal(err)
	}
	w, err := in.World.build(vh.Seed())
	if err != nil {
		t.Fatal(err)
	}
	ref := newSimPeer("ref", "honest", w.A.node)
	w.ref = ref
	f, err := os.OpenFile(in.Progress, os.O_APPEND|os.O_CREATE|os.O_WRONLY, 0o644)
	if err != nil {
		t.Fatal(err)
	}
	defer f.Close()
	for i, v := range in.Variants {
		fmt.Fprintf(f, "start %d\n", i)
		res := runVariant(w, ref, v)
		fmt.Fprintf(f, "done %d %s\n", i, res)
	}
}

var panicHead = regexp.MustCompile(`(?m)^(panic: .*|fatal error: .*)$`)

// crashSite: the first juno frame of the crashing goroutine.
func crashSite(out string) (string, string) {
	m := panicHead.FindStringIndex(out)
	if m == nil {
		return "", ""
	}
	head := out[m[0]:m[1]]
	rest := out[m[1]:]
	g := regexp.MustCompile(`(?m)^goroutine \d+ .*:$`).FindStringIndex(rest)
	if g == nil {
		return head, "?"
	}
	block := strings.SplitN(rest[g[1]:], "\n\n", 2)[0]
	for _, l := range strings.Split(block, "\n") {
		l = strings.TrimSpace(l)
		if strings.HasPrefix(l, junoPkg) {
			fn := strings.TrimPrefix(l, junoPkg)
			if k := strings.LastIndex(fn, "("); k > 0 {
				fn = fn[:k]
			}
			return head, fn
		}
	}
	return head, "?"
}

func TestP2PSyncRobust(t *testing.T) {
	if !vh.Enabled() {
		t.Skip("driver only")
	}
	var in robustInput
	if err := vh.Input(&in); err != nil {
		t.Fatal(err)
	}
	out := vh.NewResult()
	defer out.Write()
	w, err := in.World.build(vh.Seed())
	if err != nil {
		t.Fatal(err)
	}
	vs := in.Variants
	if len(vs) == 0 {
		ref := newSimPeer("ref", "honest", w.A.node)
		vs = enumerateVariants(w, ref)
		ref.stop()
		if !vh.Thorough() && in.MaxQuick > 0 && len(vs) > in.MaxQuick {
			// a seeded sample in the quick tier
			r := chainkit.NewGen(vh.Seed()).R
			r.Shuffle(len(vs), func(i, j int) { vs[i], vs[j] = vs[j], vs[i] })
			vs = vs[:in.MaxQuick]
		}
	}
	out.Count("robust_variants", len(vs))
	results := map[string]int{}
	outcomes := map[string]string{} // per message shape: what the requesting side made of it
	next := 0
	for next < len(vs) {
		progress := fmt.Sprintf("%s/robust-progress-%d.txt", vh.Scratch(), next)
		childIn := fmt.Sprintf("%s/robust-in-%d.json", vh.Scratch(), next)
		b, _ := json.Marshal(robustInput{World: in.World, Variants: vs[next:], Progress: progress})
		if err := os.WriteFile(childIn, b, 0o644); err != nil {
			t.Fatal(err)
		}
		cmd := exec.Command(os.Args[0], "-test.run", "^TestP2PRobustChild$", "-test.count=1", "-test.timeout", "900s")
		cmd.Env = append(os.Environ(), "VH_IN="+childIn, "VH_OUT="+childIn+".out", "VH_ROBUST_CHILD=1")
		var buf bytes.Buffer
		cmd.Stdout, cmd.Stderr = &buf, &buf
		runErr := cmd.Run()
		pb, _ := os.ReadFile(progress)
		last, finished := -1, map[int]string{}
		for _, l := range strings.Split(string(pb), "\n") {
			var i int
			var r string
			if n, _ := fmt.Sscanf(l, "start %d", &i); n == 1 {
				last = i
			} else if n, _ := fmt.Sscanf(l, "done %d %s", &i, &r); n >= 1 {
				finished[i] = strings.TrimPrefix(l, fmt.Sprintf("done %d ", i))
			}
		}
		for i, r := range finished {
			v := vs[next+i]
			results[strings.SplitN(r, ":", 2)[0]]++
			outcomes[v.key()] = strings.SplitN(r, ":", 2)[0]
			switch {
			case strings.HasPrefix(r, "good-differs") && uncommitted[v.Part].MatchString(v.Path):
				// a field nothing commits to (see TestP2PSyncLimits): stored as the peer sent it
				results["planted"]++
				results["good-differs"]--
			case strings.HasPrefix(r, "good-differs"), r == "good-unstorable":
				out.Diverge(vh.Divergence{Key: "p2psync:malformed-accepted:" + v.key(),
					What:  "an answer with " + v.String() + " passed verification but is not the source's block: " + r,
					Input: vh.J{"world": in.World, "variants": []variant{v}}})
			case r == "hang":
				out.Diverge(vh.Divergence{Key: "p2psync:hang:" + v.key(),
					What:  "ProcessBlock did not return (60 s, then 300 s) for an answer with " + v.String(),
					Input: vh.J{"world": in.World, "variants": []variant{v}}})
			case strings.HasPrefix(r, "harness:"):
				t.Fatalf("harness: %s", r)
			}
		}
		if runErr == nil {
			next = len(vs)
			break
		}
		if last < 0 || finished[last] != "" {
			t.Fatalf("robust child failed outside a variant (%v):\n%s", runErr, tailStr(buf.String(), 3000))
		}
		v := vs[next+last]
		head, site := crashSite(buf.String())
		if site == "" {
			t.Fatalf("robust child died without a panic (%v):\n%s", runErr, tailStr(buf.String(), 3000))
		}
		results["crash"]++
		outcomes[v.key()] = "crash:" + site
		out.Diverge(vh.Divergence{Key: "p2psync:crash:absent-field:" + v.group(),
			What:     fmt.Sprintf("an answer with %s kills the process: %s in %s", v.String(), head, site),
			Input:    vh.J{"world": in.World, "variants": []variant{v}},
			Observed: tailStr(buf.String()[strings.Index(buf.String(), head):], 1500)})
		out.Sample(vh.J{"variant": v.String(), "crash": site})
		next += last + 1
	}
	for k, n := range results {
		out.Count("robust:"+k, n)
	}
	if os.Getenv("VH_ROBUST_OUTCOMES") != "" { // development aid
		b, _ := json.MarshalIndent(outcomes, "", " ")
		_ = os.WriteFile(os.Getenv("VH_ROBUST_OUTCOMES"), b, 0o644)
	}
	out.Done(len(vs), len(vs))
}

func tailStr(s string, n int) string {
	if len(s) > n {
		return s[:n]
	}
	return s
}

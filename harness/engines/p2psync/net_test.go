// net_test.go: the network without a network. p2p/sync reaches its peers through host.Host
// (Peerstore().Peers(), NewStream) and p2p/server is reached through host.SetStreamHandler; both get
// a fake host here. A scripted peer answers a request by running the REAL p2p/server handler of its
// own chain on the request bytes; the response bytes then pass a fault stage (faults_test.go) and
// are fed to the requesting side's stream as the script says (all at once, never, cut, reset).
package p2psync

import (
	"bytes"
	"context"
	"errors"
	"fmt"
	"io"
	"os"
	"sync"
	"time"

	"github.com/NethermindEth/juno/p2p/server"
	"github.com/NethermindEth/juno/p2p/starknetp2p"
	"github.com/NethermindEth/juno/utils/log"
	"github.com/libp2p/go-libp2p/core/host"
	"github.com/libp2p/go-libp2p/core/network"
	"github.com/libp2p/go-libp2p/core/peer"
	"github.com/libp2p/go-libp2p/core/peerstore"
	"github.com/libp2p/go-libp2p/core/protocol"
	"google.golang.org/protobuf/encoding/protowire"

	"verifharness/internal/chainkit"
)

var subProtocols = map[string]starknetp2p.SyncSubProtocol{
	pHdr: starknetp2p.HeadersSyncSubProtocol,
	pTxs: starknetp2p.TransactionsSyncSubProtocol,
	pEvs: starknetp2p.EventsSyncSubProtocol,
	pCls: starknetp2p.ClassesSyncSubProtocol,
	pSd:  starknetp2p.StateDiffSyncSubProtocol,
}

func pidOf(part string) protocol.ID { return starknetp2p.Sync(chainkit.Network, subProtocols[part]) }

func partOf(pid protocol.ID) string {
	for p := range subProtocols {
		if pidOf(p) == pid {
			return p
		}
	}
	return "?" + string(pid)
}

// ------------------------------------------------------------------ serving side

// srvHost records the handlers p2p/server registers.
type srvHost struct {
	host.Host
	id       peer.ID
	mu       sync.Mutex
	handlers map[protocol.ID]network.StreamHandler
}

func (h *srvHost) ID() peer.ID { return h.id }
func (h *srvHost) SetStreamHandler(pid protocol.ID, f network.StreamHandler) {
	h.mu.Lock()
	defer h.mu.Unlock()
	h.handlers[pid] = f
}

func (h *srvHost) handler(pid protocol.ID) network.StreamHandler {
	h.mu.Lock()
	defer h.mu.Unlock()
	return h.handlers[pid]
}

// srvStream is the serving side's end of one request: the request bytes, then EOF; everything the
// handler writes is collected.
type srvStream struct {
	network.Stream
	pid    protocol.ID
	in     *bytes.Reader
	out    bytes.Buffer
	writes int
	closed bool
	failAt int // fail the k-th Write (1-based) when > 0: the requesting side went away
}

func (s *srvStream) Read(p []byte) (int, error) { return s.in.Read(p) }
func (s *srvStream) Write(p []byte) (int, error) {
	s.writes++
	if s.failAt > 0 && s.writes >= s.failAt {
		return 0, errors.New("stream reset")
	}
	return s.out.Write(p)
}
func (s *srvStream) Close() error          { s.closed = true; return nil }
func (s *srvStream) CloseWrite() error     { return nil }
func (s *srvStream) CloseRead() error      { return nil }
func (s *srvStream) Reset() error          { return nil }
func (s *srvStream) ID() string            { return "srv" }
func (s *srvStream) Protocol() protocol.ID { return s.pid }

// simPeer: one peer = a real p2p/server over its own chain.
type simPeer struct {
	id     peer.ID
	name   string
	class  string
	node   *chainkit.Node
	host   *srvHost
	cancel context.CancelFunc
	done   chan struct{}
}

func newSimPeer(name, class string, node *chainkit.Node) *simPeer {
	p := &simPeer{id: peer.ID("peer-" + name), name: name, class: class, node: node,
		host: &srvHost{id: peer.ID("peer-" + name), handlers: map[protocol.ID]network.StreamHandler{}}, done: make(chan struct{})}
	srv := server.New(p.host, node.BC, log.NewNopZapLogger())
	ctx, cancel := context.WithCancel(context.Background())
	p.cancel = cancel
	go func() {
		defer close(p.done)
		_ = srv.Run(ctx)
	}()
	for i := 0; ; i++ { // Run registers the five handlers first, then parks on ctx
		p.host.mu.Lock()
		n := len(p.host.handlers)
		p.host.mu.Unlock()
		if n >= 5 {
			break
		}
		if i > 120_000 { // (wall clock outside a bubble: generous on a loaded machine)
			panic("p2p/server.Run did not register its handlers")
		}
		time.Sleep(time.Millisecond)
	}
	return p
}

func (p *simPeer) stop() {
	p.cancel()
	<-p.done
}

// serve runs the real handler on the request bytes and returns what it wrote.
func (p *simPeer) serve(pid protocol.ID, req []byte) (out []byte, closed bool) {
	h := p.host.handler(pid)
	if h == nil {
		return nil, false
	}
	st := &srvStream{pid: pid, in: bytes.NewReader(req)}
	h(st)
	return st.out.Bytes(), st.closed
}

// splitDelimited cuts a stream of varint-delimited protobuf messages; rest is a trailing fragment.
func splitDelimited(raw []byte) (msgs [][]byte, rest []byte) {
	for len(raw) > 0 {
		n, k := protowire.ConsumeVarint(raw)
		if k < 0 || uint64(len(raw)-k) < n {
			return msgs, raw
		}
		msgs = append(msgs, raw[k:k+int(n)])
		raw = raw[k+int(n):]
	}
	return msgs, nil
}

func joinDelimited(msgs [][]byte) []byte {
	var b []byte
	for _, m := range msgs {
		b = protowire.AppendVarint(b, uint64(len(m)))
		b = append(b, m...)
	}
	return b
}

// ------------------------------------------------------------------ requesting side

// cliStream is the requesting side's end: it collects the request, and reads what the script feeds.
type cliStream struct {
	network.Stream
	net  *fakeNet
	seq  int
	pid  protocol.ID
	part string
	peer *simPeer

	mu       sync.Mutex
	cond     *sync.Cond
	req      bytes.Buffer
	reqDone  bool
	resp     []byte
	eof      bool
	rerr     error
	deadline time.Time
	timer    *time.Timer
	closed   bool
	readAll  bool // the requesting side saw the end (EOF / error) of the response
}

func (s *cliStream) ID() string            { return fmt.Sprintf("cli-%d", s.seq) }
func (s *cliStream) Protocol() protocol.ID { return s.pid }

func (s *cliStream) Write(p []byte) (int, error) {
	s.mu.Lock()
	defer s.mu.Unlock()
	if s.reqDone || s.closed {
		return 0, errors.New("write on closed stream")
	}
	return s.req.Write(p)
}

func (s *cliStream) CloseWrite() error {
	s.mu.Lock()
	if s.reqDone {
		s.mu.Unlock()
		return nil
	}
	s.reqDone = true
	s.mu.Unlock()
	s.net.requested(s)
	return nil
}

func (s *cliStream) SetReadDeadline(t time.Time) error {
	s.mu.Lock()
	defer s.mu.Unlock()
	s.deadline = t
	if s.timer != nil {
		s.timer.Stop()
	}
	if !t.IsZero() {
		s.timer = time.AfterFunc(time.Until(t), func() {
			s.mu.Lock()
			s.cond.Broadcast()
			s.mu.Unlock()
		})
	}
	return nil
}
func (s *cliStream) SetDeadline(t time.Time) error      { return s.SetReadDeadline(t) }
func (s *cliStream) SetWriteDeadline(time.Time) error   { return nil }
func (s *cliStream) CloseRead() error                   { return nil }
func (s *cliStream) Reset() error                       { return s.Close() }
func (s *cliStream) ResetWithError(network.StreamErrorCode) error { return s.Close() }

func (s *cliStream) Read(p []byte) (int, error) {
	s.mu.Lock()
	defer s.mu.Unlock()
	for {
		switch {
		case s.closed:
			return 0, errors.New("read on closed stream")
		case len(s.resp) > 0:
			n := copy(p, s.resp)
			s.resp = s.resp[n:]
			return n, nil
		case s.rerr != nil:
			s.readAll = true
			return 0, s.rerr
		case s.eof:
			s.readAll = true
			return 0, io.EOF
		case !s.deadline.IsZero() && !time.Now().Before(s.deadline):
			s.readAll = true
			return 0, os.ErrDeadlineExceeded
		}
		s.cond.Wait()
	}
}

func (s *cliStream) Close() error {
	s.mu.Lock()
	defer s.mu.Unlock()
	s.closed = true
	if s.timer != nil {
		s.timer.Stop()
	}
	s.cond.Broadcast()
	s.net.streamClosed(s)
	return nil
}

// feed appends response bytes; end: "" keep open, "eof", "reset".
func (s *cliStream) feed(b []byte, end string) {
	s.mu.Lock()
	defer s.mu.Unlock()
	s.resp = append(s.resp, b...)
	switch end {
	case "eof":
		s.eof = true
	case "reset":
		s.rerr = errors.New("stream reset")
	}
	s.cond.Broadcast()
}

func (s *cliStream) request() []byte {
	s.mu.Lock()
	defer s.mu.Unlock()
	return append([]byte(nil), s.req.Bytes()...)
}

type fakePS struct {
	peerstore.Peerstore
	net *fakeNet
}

func (ps *fakePS) Peers() peer.IDSlice              { return ps.net.peersCall() }
func (ps *fakePS) PeerInfo(p peer.ID) peer.AddrInfo { return peer.AddrInfo{ID: p} }
func (ps *fakePS) RemovePeer(p peer.ID)             { ps.net.removePeer(p) }
func (ps *fakePS) ClearAddrs(peer.ID)               {}

// fakeNet is the requesting node's view of the network.
type fakeNet struct {
	host.Host
	self peer.ID

	mu      sync.Mutex
	peers   map[peer.ID]*simPeer
	alive   []peer.ID // the peerstore (besides self), in insertion order
	removed []peer.ID
	nOpen   int
	nPeers  int
	open    map[*cliStream]bool // streams the requesting side has not closed yet

	// script hooks (set before the service runs; all optional)
	pick      func(call int, alive []peer.ID) []peer.ID // what Peers() answers (besides self); may block
	dial      func(p *simPeer, part string) error      // NewStream failure
	onRequest func(s *cliStream)                        // the request is complete (CloseWrite)
	onDialFail func(p *simPeer)                         // NewStream is about to return an error
	onOpen    func(p *simPeer, part string)             // NewStream succeeded
	lin       *sync.Mutex                               // held across NewStream's context check and its event
	onNoPeers func()                                    // Peers() answers with nobody but self
}

func newFakeNet() *fakeNet {
	return &fakeNet{self: peer.ID("self"), peers: map[peer.ID]*simPeer{}, open: map[*cliStream]bool{}}
}

func (n *fakeNet) add(p *simPeer) {
	n.mu.Lock()
	defer n.mu.Unlock()
	n.peers[p.id] = p
	n.alive = append(n.alive, p.id)
}

func (n *fakeNet) ID() peer.ID                    { return n.self }
func (n *fakeNet) Peerstore() peerstore.Peerstore { return &fakePS{net: n} }
func (n *fakeNet) Close() error                   { return nil }

func (n *fakeNet) peersCall() peer.IDSlice {
	n.mu.Lock()
	call := n.nPeers
	n.nPeers++
	alive := append([]peer.ID(nil), n.alive...)
	pick := n.pick
	n.mu.Unlock()
	if pick != nil {
		alive = pick(call, alive)
	}
	if len(alive) == 0 {
		n.mu.Lock()
		f := n.onNoPeers
		n.mu.Unlock()
		if f != nil {
			f()
		}
	}
	return append(peer.IDSlice{n.self}, alive...)
}

func (n *fakeNet) removePeer(p peer.ID) {
	n.mu.Lock()
	defer n.mu.Unlock()
	for i, q := range n.alive {
		if q == p {
			n.alive = append(n.alive[:i:i], n.alive[i+1:]...)
			n.removed = append(n.removed, p)
			return
		}
	}
}

func (n *fakeNet) aliveNames() []string {
	n.mu.Lock()
	defer n.mu.Unlock()
	var out []string
	for _, p := range n.alive {
		out = append(out, n.peers[p].name)
	}
	return out
}

func (n *fakeNet) NewStream(ctx context.Context, p peer.ID, pids ...protocol.ID) (network.Stream, error) {
	n.mu.Lock()
	sp := n.peers[p]
	n.nOpen++
	seq := n.nOpen
	dial := n.dial
	odf := n.onDialFail
	oo, lin := n.onOpen, n.lin
	n.mu.Unlock()
	if lin != nil {
		lin.Lock()
		defer lin.Unlock()
	}
	if err := ctx.Err(); err != nil { // libp2p does not dial on a cancelled context
		if odf != nil && sp != nil {
			odf(sp)
		}
		return nil, err
	}
	if sp == nil {
		return nil, fmt.Errorf("unknown peer %q", string(p))
	}
	if len(pids) != 1 {
		return nil, fmt.Errorf("expected one protocol id, got %d", len(pids))
	}
	part := partOf(pids[0])
	if dial != nil {
		if err := dial(sp, part); err != nil {
			if odf != nil {
				odf(sp)
			}
			return nil, err
		}
	}
	s := &cliStream{net: n, seq: seq, pid: pids[0], part: part, peer: sp}
	s.cond = sync.NewCond(&s.mu)
	n.mu.Lock()
	n.open[s] = true
	n.mu.Unlock()
	if oo != nil {
		oo(sp, part)
	}
	return s, nil
}

func (n *fakeNet) requested(s *cliStream) {
	n.mu.Lock()
	f := n.onRequest
	n.mu.Unlock()
	if f != nil {
		f(s)
	}
}

func (n *fakeNet) streamClosed(s *cliStream) {
	n.mu.Lock()
	defer n.mu.Unlock()
	delete(n.open, s)
}

func (n *fakeNet) openStreams() int {
	n.mu.Lock()
	defer n.mu.Unlock()
	return len(n.open)
}

func (n *fakeNet) aliveHonest() []string {
	n.mu.Lock()
	defer n.mu.Unlock()
	var out []string
	for _, p := range n.alive {
		if c := n.peers[p].class; c == "honest" || c == "benign" {
			out = append(out, n.peers[p].name)
		}
	}
	return out
}

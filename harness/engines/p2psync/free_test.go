// free_test.go: free-running rounds. The real Service on real goroutines (inside a synctest bubble
// for the fake clock: a silent peer costs a 10 s read deadline), the real random peer choice over
// scripted peers of mixed classes, answers produced concurrently, a consumer that stores what comes
// out of Listen(). Judged twice: by monitors that are P2PSync.tla's invariants (and its liveness
// property with an iteration budget that an honest peer makes overwhelmingly sufficient), and by
// TLC, which must accept the recorded event trace as a behaviour of the specification.
package p2psync

import (
	"encoding/json"
	"fmt"
	"math/rand"
	"os"
	"strings"
	"sync"
	"testing"
	"testing/synctest"
	"time"

	"github.com/libp2p/go-libp2p/core/peer"

	"verifharness/internal/faultkv"
	"verifharness/internal/vh"
)

type freeInput struct {
	World    worldCfg `json:"world"`
	Rounds   int      `json:"rounds"`
	Seed0    int64    `json:"seed0"`
	Trace    string   `json:"trace,omitempty"`     // write the event trace here (all rounds, Reset between)
	RoundMap string   `json:"round_map,omitempty"` // first/last line of each round
	MaxIters int      `json:"max_iters"`
	Cancel   bool     `json:"cancel"` // cancel at a random moment in a share of the rounds
	Only     []int64  `json:"only,omitempty"`
}

type tracer struct {
	mu    sync.Mutex
	lines []string
}

func (t *tracer) add(ev vh.J) {
	b, _ := json.Marshal(ev)
	t.mu.Lock()
	t.lines = append(t.lines, string(b))
	t.mu.Unlock()
}

func TestP2PSyncFree(t *testing.T) {
	if !vh.Enabled() {
		t.Skip("driver only")
	}
	var in freeInput
	if err := vh.Input(&in); err != nil {
		t.Fatal(err)
	}
	out := vh.NewResult()
	defer out.Write()
	w, err := in.World.build(vh.Seed())
	if err != nil {
		t.Fatal(err)
	}
	var all []string
	var rmap []vh.J
	stats := map[string]int{}
	seeds := in.Only
	if len(seeds) == 0 {
		for i := 0; i < in.Rounds; i++ {
			seeds = append(seeds, in.Seed0+int64(i))
		}
	}
	for _, seed := range seeds {
		tr := &tracer{}
		var dv *vh.Divergence
		dl := bubble(t, func(t *testing.T) { dv = freeRound(w, in, seed, tr, stats) })
		if dv == nil && dl != "" {
			dv = &vh.Divergence{Key: "p2psync:free:goroutines-blocked-at-end", What: dl}
		}
		if dv != nil {
			one := in
			one.Only = []int64{seed}
			one.Trace, one.RoundMap = "", ""
			dv.Input = one
			out.Diverge(*dv)
			continue // a round the monitors reject is not handed to TLC as well
		}
		first := len(all) + 1
		all = append(all, tr.lines...)
		all = append(all, `{"ev":"Reset"}`)
		rmap = append(rmap, vh.J{"seed": seed, "first": first, "last": len(all)})
		out.Done(1, len(tr.lines))
	}
	if in.Trace != "" {
		if err := os.WriteFile(in.Trace, []byte(strings.Join(all, "\n")+"\n"), 0o644); err != nil {
			t.Fatal(err)
		}
		b, _ := json.Marshal(rmap)
		_ = os.WriteFile(in.RoundMap, b, 0o644)
	}
	for k, v := range stats {
		out.Count(k, v)
	}
	if len(all) > 0 {
		out.Sample(all[:min(len(all), 25)])
	}
}

func freeRound(w *world, in freeInput, seed int64, tr *tracer, stats0 map[string]int) (dv *vh.Divergence) {
	stats := map[string]int{}
	var smu sync.Mutex
	count := func(k string, n int) {
		smu.Lock()
		stats[k] += n
		smu.Unlock()
	}
	defer func() {
		smu.Lock()
		for k, v := range stats {
			stats0[k] += v
		}
		smu.Unlock()
	}()
	r := rand.New(rand.NewSource(seed))
	s, err := newSUT(w, in.World.Start, in.World.Peers, seed, false)
	if err != nil {
		return &vh.Divergence{Key: "p2psync:harness", What: err.Error()}
	}
	var amu sync.Mutex // answers draw from one generator
	var wg sync.WaitGroup
	s.net.onRequest = func(cs *cliStream) {
		it, err := iterationOf(cs.part, cs.request())
		if err != nil || it == nil {
			tr.add(vh.J{"ev": "BadRequest", "part": cs.part})
			cs.feed(nil, "eof")
			return
		}
		amu.Lock()
		plan := cs.peer.answer(cs.part, it.GetBlockNumber(), s.r, w, "")
		count("variant:"+cs.peer.class, 1)
		amu.Unlock()
		tr.add(vh.J{"ev": "Req", "part": cs.part, "peer": cs.peer.name, "n": it.GetBlockNumber(),
			"shape": fmt.Sprintf("%s/%d/%d", it.GetDirection(), it.GetLimit(), it.GetStep()), "variant": plan.variant})
		wg.Add(1)
		go func() { // the peer answers in its own time
			defer wg.Done()
			for i, c := range plan.chunks {
				if i > 0 {
					time.Sleep(150 * time.Millisecond)
				}
				end := ""
				if i == len(plan.chunks)-1 && plan.end != "stall" {
					end = plan.end
				}
				cs.feed(c, end)
			}
			if len(plan.chunks) == 0 && plan.end != "stall" {
				cs.feed(nil, plan.end)
			}
		}()
	}
	// lin orders the events of the two sides: NewStream's context check + event, the consumer's
	// receive + event, its Store + event against the service's height read, the cancellation + event
	// are each atomic under it
	var lin sync.Mutex
	// juno draws the peer with the global math/rand, which cannot be seeded: the peerstore hands
	// out ONE uniformly drawn peer instead (same distribution, reproducible rounds)
	pr := rand.New(rand.NewSource(seed ^ 0x5eed))
	var pmu sync.Mutex
	s.net.pick = func(call int, alive []peer.ID) []peer.ID {
		if len(alive) == 0 {
			return nil
		}
		pmu.Lock()
		defer pmu.Unlock()
		return []peer.ID{alive[pr.Intn(len(alive))]}
	}
	s.net.lin = &lin
	s.store.lin = &lin
	s.net.onOpen = func(p *simPeer, part string) { tr.add(vh.J{"ev": "Open", "part": part, "peer": p.name}) }
	doCancel := func() {
		lin.Lock()
		tr.add(vh.J{"ev": "Cancel"})
		s.cancel()
		lin.Unlock()
	}
	s.net.onDialFail = func(p *simPeer) { tr.add(vh.J{"ev": "DialFail", "peer": p.name}) }
	// with an empty peerstore Service.Run spins without ever blocking (errNoPeers, `continue`):
	// give the rest of the bubble a second of fake time per turn
	s.net.onNoPeers = func() {
		lin.Lock()
		tr.add(vh.J{"ev": "NoPeers"})
		lin.Unlock()
		count("no-peers-turns", 1)
		time.Sleep(time.Second)
	}
	iters := 0
	s.store.onHeight = func(found bool, h uint64) { iters++ }

	honest := 0
	for _, p := range in.World.Peers {
		if p.Class == "honest" || p.Class == "benign" {
			honest++
		}
	}
	cancelAt := -1
	if in.Cancel && r.Intn(3) == 0 {
		cancelAt = 1 + r.Intn(40)
	}
	s.start()
	defer func() {
		s.cancel()
		synctest.Wait()
		for !s.hasExited() {
			select {
			case <-s.svc.Listen():
			default:
			}
			synctest.Wait()
		}
		time.Sleep(15 * time.Second)
		synctest.Wait()
		wg.Wait()
		if dv == nil {
			if gs := junoGoroutines("p2p/sync", "utils/pipeline"); len(gs) > 0 {
				dv = &vh.Divergence{Key: "p2psync:leak:free-run:" + firstJunoFrame(gs[0]), What: fmt.Sprintf(
					"%d goroutine(s) of p2p sync alive after cancellation, Run's return and every read deadline", len(gs)), Observed: shorten(gs, 12)}
			} else if n := s.net.openStreams(); n > 0 {
				dv = &vh.Divergence{Key: "p2psync:cancel:stream-not-closed", What: fmt.Sprintf("%d stream(s) were never closed by the requesting side", n)}
			}
		}
		s.stopPeers()
	}()

	target := func() int { // the tip of the chain the node is on
		ids := s.storedIDs()
		if len(ids) > 0 && strings.HasPrefix(ids[len(ids)-1], "B") {
			return w.B.height()
		}
		return w.A.height()
	}
	events, afterCancel := 0, 0
	cancelled := false
	for {
		// the consumer: take a body, store it
		synctest.Wait()
		var got bool
		lin.Lock()
		select {
		case b, ok := <-s.svc.Listen():
			if !ok {
				lin.Unlock()
				tr.add(vh.J{"ev": "Exit"})
				if !cancelled {
					return &vh.Divergence{Key: "p2psync:free:exit-without-cancel", What: "Service.Run returned although the context was not cancelled"}
				}
				return nil
			}
			got = true
			events++
			if b.Err != nil {
				tr.add(vh.J{"ev": "Recv", "k": "err"})
				lin.Unlock()
				tr.add(vh.J{"ev": "Drop"})
				count("err-bodies", 1)
				break
			}
			id := w.blockID(b.Block.Hash)
			c, h := id[:1], int(b.Block.Number)
			tr.add(vh.J{"ev": "Recv", "k": "good", "c": c, "h": h})
			lin.Unlock()
			if strings.HasPrefix(id, "?") {
				return &vh.Divergence{Key: "p2psync:free:emitted-unknown-block", What: "a body that is no block of any peer's chain passed verification: " + id}
			}
			before := s.dump()
			heightBefore := len(s.storedIDs())
			// the Store and its event are one step for the other side (see gateStore.lin): the service reads
			// the height on its own goroutines, in parallel with this one
			lin.Lock()
			err := s.node.BC.Store(b.Block, b.Commitments, b.StateUpdate, b.NewClasses)
			tr.add(vh.J{"ev": "Store", "ok": err == nil, "c": c, "h": h})
			lin.Unlock()
			if err != nil {
				count("store-rejected", 1)
				if d := faultkv.Diff(before, s.dump(), nil, 5); len(d) > 0 {
					return &vh.Divergence{Key: "p2psync:free:rejected-store-changed-db", What: "a rejected body changed the database", Observed: d}
				}
				break
			}
			count("store-accepted", 1)
			// monitors = the specification's invariants on the real chain
			ids := s.storedIDs()
			if len(ids) != heightBefore+1 || h != heightBefore {
				return &vh.Divergence{Key: "p2psync:free:store-not-an-extension", What: fmt.Sprintf("Store of block %d accepted on a chain of %d blocks", h, heightBefore), Observed: ids}
			}
			src := w.A
			if c == "B" {
				src = w.B
			}
			gotD, e1 := coreDigest(s.node, uint64(h))
			wantD, e2 := coreDigest(src.node, uint64(h))
			if e1 != nil || e2 != nil || gotD != wantD {
				return &vh.Divergence{Key: "p2psync:free:stored-block-differs", What: fmt.Sprintf("block %s read back from the node differs from the source's (%v %v)", id, e1, e2), Expected: wantD, Observed: gotD}
			}
			for i, x := range ids {
				if x != fmt.Sprintf("A%d", i) && x != fmt.Sprintf("B%d", i) {
					return &vh.Divergence{Key: "p2psync:free:stored-chain", What: "the node's chain is not a chain of the peers' blocks in order", Observed: ids}
				}
			}
			if w.B == nil || in.World.Start > in.World.ForkAt {
				for i, x := range ids {
					if x != fmt.Sprintf("A%d", i) {
						return &vh.Divergence{Key: "p2psync:free:left-honest-chain", What: "without a fork at or above its head the node left the honest chain", Observed: ids}
					}
				}
			}
		default:
			lin.Unlock()
		}
		if cancelled {
			if afterCancel++; afterCancel > 2000 {
				return &vh.Divergence{Key: "p2psync:cancel:run-does-not-return", What: "Service.Run did not return after the context was cancelled",
					Observed: shorten(junoGoroutines("p2p/sync"), 12)}
			}
			if !got {
				time.Sleep(50 * time.Millisecond)
			}
			continue
		}
		if cancelAt >= 0 && events >= cancelAt {
			doCancel()
			cancelled = true
			count("rounds-cancelled", 1)
			continue
		}
		if len(s.storedIDs()) >= target() {
			count("rounds-converged", 1)
			count("iterations", iters)
			doCancel()
			cancelled = true
			continue
		}
		if !got {
			// nothing to take: let the service run (fake time passes only when everything is blocked)
			if iters > in.MaxIters {
				if honest > 0 && len(s.net.aliveHonest()) > 0 {
					return &vh.Divergence{Key: "p2psync:free:no-convergence", What: fmt.Sprintf(
						"after %d iterations with an honest peer in the peerstore the node is at height %d of %d", iters, len(s.storedIDs()), target()),
						Observed: vh.J{"stored": s.storedIDs(), "alive": s.aliveNames(), "errors": tail(s.errTxt, 5)}}
				}
				count("rounds-starved", 1) // every honest peer was removed after a failed dial: P2PSync_x_live_flaky
				doCancel()
				cancelled = true
				continue
			}
			time.Sleep(50 * time.Millisecond)
		}
	}
}

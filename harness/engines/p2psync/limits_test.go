// limits_test.go: what the p2p wire format and its adapters do not carry. Each probe builds a block
// that the feeder path stores, serves it through the real p2p/server and lets the real BlockFetcher
// fetch it from that honest peer. Outcomes are OBSERVATIONS (stated limits of the domain the
// properties are checked on), never verdicts:
//   unsyncable   the honest answer never verifies: a node syncing over p2p is stuck below that block
//   lossy        the block verifies and is stored, but fields the format does not carry differ
//   planted      a field nothing commits to is stored as a (dishonest) peer sent it
package p2psync

import (
	"context"
	"fmt"
	"regexp"
	"testing"
	"time"

	"github.com/NethermindEth/juno/core"
	"github.com/NethermindEth/juno/core/felt"
	p2psync "github.com/NethermindEth/juno/p2p/sync"
	"github.com/NethermindEth/juno/utils/log"

	"verifharness/internal/chainkit"
	"verifharness/internal/vh"
)

type limitProbe struct {
	name  string
	what  string
	build func(w *world, g *chainkit.Gen) chainkit.BlockSpec // block 1 on top of a plain block 0
	plant *regexp.Regexp                                      // instead: alter this field of the honest answer
	part  string
	lossy func(src, got *core.Block) string // "" = same
}

func oneTxBlock(g *chainkit.Gen, tx core.Transaction, r *core.TransactionReceipt, ver string) chainkit.BlockSpec {
	return chainkit.BlockSpec{Version: ver, Txs: []core.Transaction{tx}, Receipts: []*core.TransactionReceipt{r}, Timestamp: 1_700_000_100}
}

func limitProbes() []limitProbe {
	return []limitProbe{
		{name: "invoke-v3-account-deployment-data", what: "an INVOKE v3 with non-empty account_deployment_data: the server sends it, p2p2core drops it, the transaction hash no longer verifies",
			build: func(w *world, g *chainkit.Gen) chainkit.BlockSpec {
				tx := g.Tx("invoke3").(*core.InvokeTransaction)
				tx.AccountDeploymentData = g.Felts(2)
				h, _ := core.TransactionHash(tx, chainkit.Network)
				chainkit.SetTxHash(tx, &h)
				return oneTxBlock(g, tx, faithfulReceipt(g, tx, nil), "0.14.0")
			}},
		{name: "receipt-total-l1-data-gas", what: "a receipt whose total l1_data_gas differs from its data-availability l1_data_gas: one wire field stands for both, the receipt commitment no longer verifies",
			build: func(w *world, g *chainkit.Gen) chainkit.BlockSpec {
				tx := faithfulTx(g, "invoke1")
				r := faithfulReceipt(g, tx, nil)
				r.ExecutionResources.TotalGasConsumed.L1DataGas = r.ExecutionResources.DataAvailability.L1DataGas + 5
				return oneTxBlock(g, tx, r, "0.14.0")
			}},
		{name: "sierra-declare-0.14.1", what: "a Sierra class declared in a 0.14.1 block (compiled class hash v2, Blake): the requesting side always rebuilds the v1 (Poseidon) hash, the state diff commitment no longer verifies",
			build: func(w *world, g *chainkit.Gen) chainkit.BlockSpec {
				sh, _, cls := faithfulSierra(g)
				v2 := cls.Compiled.Hash(core.HashVersionV2)
				d := chainkit.EmptyDiff()
				d.DeclaredV1Classes[sh] = &v2
				return chainkit.BlockSpec{Version: "0.14.1", Diff: d, Classes: map[felt.Felt]core.ClassDefinition{sh: cls}, Timestamp: 1_700_000_100}
			}},
		{name: "fee-unit-and-l1-to-l2-message", what: "receipt fields the format does not carry: the fee unit (always stored as WEI) and the L1-to-L2 message of an L1 handler",
			build: func(w *world, g *chainkit.Gen) chainkit.BlockSpec {
				tx := faithfulTx(g, "l1handler")
				r := faithfulReceipt(g, tx, nil)
				r.FeeUnit = core.STRK
				return oneTxBlock(g, tx, r, "0.14.0")
			},
			lossy: func(src, got *core.Block) string {
				s, g := src.Receipts[0], got.Receipts[0]
				out := ""
				if s.FeeUnit != g.FeeUnit {
					out += fmt.Sprintf("fee unit %v stored as %v; ", s.FeeUnit, g.FeeUnit)
				}
				if (s.L1ToL2Message == nil) != (g.L1ToL2Message == nil) {
					out += "L1-to-L2 message dropped; "
				}
				if s.ExecutionResources.TotalGasConsumed.L2Gas != g.ExecutionResources.TotalGasConsumed.L2Gas {
					out += fmt.Sprintf("l2 gas %d stored as %d; ", s.ExecutionResources.TotalGasConsumed.L2Gas, g.ExecutionResources.TotalGasConsumed.L2Gas)
				}
				return out
			}},
		{name: "planted-signature", what: "block signatures are not verified (on either sync path); over p2p any peer chooses them", part: pHdr,
			plant: regexp.MustCompile(`\.header\.signatures\[?\d*\]?\.?r\.elements`)},
		{name: "planted-execution-resources", what: "execution resources (steps, builtin counters, memory holes, DA l1_gas) are outside the receipt commitment; over p2p any peer chooses them", part: pTxs,
			plant: regexp.MustCompile(`execution_resources\.steps`)},
		{name: "planted-legacy-deploy-fields", what: "the hash of a legacy DEPLOY transaction is taken as given: its class hash, salt and calldata are outside every commitment", part: pTxs,
			plant: regexp.MustCompile(`transaction\.deploy\.class_hash`)},
	}
}

func TestP2PSyncLimits(t *testing.T) {
	if !vh.Enabled() {
		t.Skip("driver only")
	}
	out := vh.NewResult()
	defer out.Write()
	for _, pr := range limitProbes() {
		res := runLimitProbe(pr, vh.Seed())
		out.Stats["limit:"+pr.name] = res + " — " + pr.what
		out.Done(1, 1)
	}
}

func runLimitProbe(pr limitProbe, seed int64) string {
	w := &world{seed: seed, g: chainkit.NewGen(seed + 77), forkAt: -1}
	w.A = &chain{name: "A", node: chainkit.NewNode(nil, false)}
	if err := w.appendTo(w.A, shape("tecd"), 0); err != nil {
		return "harness: " + err.Error()
	}
	target := 1
	if pr.build != nil {
		b, err := w.A.node.Build(pr.build(w, w.g))
		if err != nil {
			return "not-buildable: " + err.Error()
		}
		if err := w.A.node.StoreBuilt(b); err != nil {
			return "not-storable-by-feeder-path: " + err.Error()
		}
		w.A.built = append(w.A.built, b)
		w.A.shapes = append(w.A.shapes, "t")
	} else {
		// a block with a legacy deploy among its transactions
		g := w.g
		var txs []core.Transaction
		var rcs []*core.TransactionReceipt
		for _, k := range []string{"deploy", "invoke1"} {
			tx := faithfulTx(g, k)
			txs = append(txs, tx)
			rcs = append(rcs, faithfulReceipt(g, tx, nil))
		}
		b, err := w.A.node.Build(chainkit.BlockSpec{Version: "0.14.0", Txs: txs, Receipts: rcs, Timestamp: 1_700_000_100})
		if err != nil {
			return "harness: " + err.Error()
		}
		b.Block.Signatures = [][]*felt.Felt{{g.Felt(), g.Felt()}}
		if err := w.A.node.StoreBuilt(b); err != nil {
			return "harness: " + err.Error()
		}
		w.A.built = append(w.A.built, b)
		w.A.shapes = append(w.A.shapes, "t")
	}
	ref := newSimPeer("ref", "honest", w.A.node)
	defer ref.stop()
	node, err := w.newSyncNode(target, nil)
	if err != nil {
		return "harness: " + err.Error()
	}
	net := newFakeNet()
	net.add(ref)
	planted := ""
	net.onRequest = func(s *cliStream) {
		o, _ := ref.serve(s.pid, s.request())
		if pr.plant != nil && s.part == pr.part {
			msgs, _ := splitDelimited(o)
			for i := range msgs {
				if alt, path := plantItem(s.part, msgs[i], pr.plant); alt != nil {
					msgs[i] = alt
					planted = path
					break
				}
			}
			o = joinDelimited(msgs)
		}
		s.feed(o, "eof")
	}
	bf := p2psync.NewBlockFetcher(node.BC, &fakeCompiler{}, net, chainkit.Network, log.NewNopZapLogger())
	ctx, cancel := context.WithTimeout(context.Background(), 300*time.Second) // (wall clock on a shared machine; an observation, never a verdict)
	defer cancel()
	ch := make(chan p2psync.BlockBody, 4)
	if err := bf.ProcessBlock(ctx, uint64(target), ch); err != nil {
		return "harness: " + err.Error()
	}
	select {
	case b := <-ch:
		if b.Err != nil {
			return "unsyncable (" + b.Err.Error() + ")"
		}
		if err := node.BC.Store(b.Block, b.Commitments, b.StateUpdate, b.NewClasses); err != nil {
			return "unsyncable (store: " + err.Error() + ")"
		}
		src, _ := w.A.node.BC.BlockByNumber(uint64(target))
		got, _ := node.BC.BlockByNumber(uint64(target))
		if pr.plant != nil {
			if planted == "" {
				return "harness: nothing to plant"
			}
			a, _ := coreDigest(w.A.node, uint64(target))
			c, _ := coreDigest(node, uint64(target))
			if a != c || pr.part == pTxs {
				return "planted (" + planted + " altered by the peer; the block verifies and is stored with the peer's value)"
			}
			return "not-planted"
		}
		if pr.lossy != nil {
			if d := pr.lossy(src, got); d != "" {
				return "lossy (" + d + ")"
			}
		}
		return "synced"
	default:
		return "unsyncable (nothing emitted)"
	}
}

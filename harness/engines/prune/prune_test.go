// prune_test.go: entry points of engine "prune" (property C16).
//
//	TestPruneProbe   is the H12 defect (commitments only deleted by the final range delete) still
//	                 in the code?  -> value of the specification switch FixPruneAtomicFloor
//	TestPruneConform replays TLC-simulated Prune.tla behaviours (interruptions included): after
//	                 every step — and after every single durable mutation of a prune — the
//	                 projected durable state, the number of mutations, the handler's decision and
//	                 the in-memory floor must equal the specification's; and every monitor of the
//	                 property is evaluated against the unpruned twin
//	TestPruneEnum    takes interruption-free behaviours and re-runs each with a cancellation and
//	                 with a crash after EVERY batch write of EVERY prune, restarts, resumes the same
//	                 prune and requires the same final database as the uninterrupted run
package prune

import (
	"context"
	"errors"
	"fmt"
	"reflect"
	"strings"
	"sync"
	"testing"
	"time"

	"github.com/NethermindEth/juno/core"
	"github.com/NethermindEth/juno/db"
	"github.com/NethermindEth/juno/db/memory"
	"github.com/NethermindEth/juno/pruner"

	"verifharness/internal/faultkv"
	"verifharness/internal/vh"
)

type stepAct struct {
	Name    string `json:"name"`
	N       int    `json:"n"`
	Outcome string `json:"outcome"`
}

type stepRes struct {
	Kind string `json:"kind"`
	Muts int    `json:"muts"`
}

type step struct {
	A     stepAct `json:"a"`
	Res   stepRes `json:"res"`
	Post  post    `json:"post"`
	Floor int     `json:"floor"`
	Svc   string  `json:"svc"`
	// RfInit: the specification's running event filter exists after the step (nil: not recorded)
	RfInit *bool `json:"rfinit,omitempty"`
}

func (s step) lazy() bool { return s.RfInit != nil && !*s.RfInit }

type only struct {
	Step int    `json:"step"`
	K    int    `json:"k"`
	Mode string `json:"mode"`
}

type input struct {
	Consts     consts   `json:"consts"`
	Behaviours [][]step `json:"behaviours"`
	NewState   []bool   `json:"newState"`
	Backends   []string `json:"backends"`
	Only       *only    `json:"only,omitempty"`
	Seed       int64    `json:"seed,omitempty"`
	// DeadlineSec: write out what was recorded and end the process after that many seconds
	DeadlineSec int `json:"deadlineSec,omitempty"`
}

func (in input) seedFor(bi int) int64 {
	if in.Seed != 0 {
		return in.Seed
	}
	return vh.Seed()*1000 + int64(bi) + 1
}

func (in input) narrowed(b []step, ns bool, be string, o *only, seed int64) input {
	return input{Consts: in.Consts, Behaviours: [][]step{b}, NewState: []bool{ns}, Backends: []string{be}, Only: o, Seed: seed}
}

func modeOf(outcome string) faultkv.Mode {
	switch outcome {
	case "cancel":
		return faultkv.CancelAfter
	case "crash":
		return faultkv.CrashAfter
	case "fail":
		return faultkv.FailAt
	}
	return faultkv.Off
}

func opsString(b []step) string {
	var parts []string
	for _, s := range b {
		switch s.A.Name {
		case "PruneStep":
			if s.A.Outcome != "ok" {
				parts = append(parts, "prune-step:"+s.A.Outcome)
			}
		case "NewBlock":
			parts = append(parts, "block:"+s.A.Outcome)
		case "SetL1", "DeliverL1", "DeliverHead":
			parts = append(parts, fmt.Sprintf("%s(%d)", strings.ToLower(s.A.Name), s.A.N))
		default:
			parts = append(parts, strings.ToLower(s.A.Name))
		}
	}
	return strings.Join(parts, ";")
}

func eqInts(a, b []int) bool {
	if len(a) == 0 && len(b) == 0 {
		return true
	}
	return reflect.DeepEqual(a, b)
}

func diffDisk(exp, obs post, legacy bool) (string, any, any) {
	switch {
	case exp.Height != obs.Height:
		return "height", exp.Height, obs.Height
	case exp.L1 != obs.L1:
		return "l1-head", exp.L1, obs.L1
	case !eqInts(exp.Hdr, obs.Hdr):
		return "headers", exp.Hdr, obs.Hdr
	case !eqInts(exp.Com, obs.Com):
		return "commitments", exp.Com, obs.Com
	case !eqInts(exp.Su, obs.Su):
		return "state-updates", exp.Su, obs.Su
	case !eqInts(exp.Txs, obs.Txs):
		return "transactions", exp.Txs, obs.Txs
	case !eqInts(exp.H2n, obs.H2n):
		return "number-by-hash", exp.H2n, obs.H2n
	case !eqInts(exp.Txl, obs.Txl):
		return "tx-lookups", exp.Txl, obs.Txl
	case legacy && !eqInts(exp.Hist, obs.Hist):
		return "state-history", exp.Hist, obs.Hist
	case exp.Oldest != obs.Oldest:
		return "oldest-retained", exp.Oldest, obs.Oldest
	case exp.Win != nil && !eqInts(exp.Win, obs.Win):
		return "persisted-event-filter-windows", exp.Win, obs.Win
	}
	return "", nil, nil
}

// keyFor: the specific signature of a failed monitor.
func keyFor(w *world, v violation) string {
	if w.crashedInPrune {
		hurt := strings.HasPrefix(v.sym, "retained:") || strings.HasPrefix(v.sym, "state-by-number:wrong-value") ||
			strings.HasPrefix(v.sym, "retained:state-by-hash")
		if hurt {
			return "prune-crash:floor-reseed-below-deleted-history"
		}
	}
	return "prune-damage:" + v.sym
}

type runner struct {
	// replayInput (directed tests): what makes --replay reproduce a divergence, instead of the
	// narrowed behaviour
	replayInput any
	cur         *only
	in          input
	out         *vh.Result
	b           []step
	ns          bool
	be          string
	seed        int64
}

func (r *runner) newWorld() *world {
	if r.replayInput != nil {
		setCurrent(r.replayInput)
	} else {
		setCurrent(r.in.narrowed(r.b, r.ns, r.be, r.cur, r.seed))
	}
	w, err := newWorld(r.in.Consts, r.seed, r.ns, r.be)
	if errors.Is(err, errOnRealCode) {
		r.diverge("prune-fails-on-valid-chain", err.Error(), -1, nil, nil, nil)
		return nil
	}
	if err != nil {
		panic(fmt.Sprintf("prune engine: cannot build the initial world: %v", err))
	}
	return w
}

func (r *runner) diverge(key, what string, stepIx int, exp, obs any, o *only) {
	var in any = r.in.narrowed(r.b, r.ns, r.be, o, r.seed)
	if r.replayInput != nil {
		in = r.replayInput
	}
	r.out.Diverge(vh.Divergence{Key: key, What: what, Step: stepIx, Expected: exp, Observed: obs, Input: in})
}

func (r *runner) monitors(w *world, stepIx int, wantFloor int, o *only, phase string) bool {
	vs := w.evaluate(wantFloor, !strings.HasPrefix(phase, "after reverting"))
	for _, v := range vs {
		key := keyFor(w, v)
		r.diverge(key, fmt.Sprintf("[%s] newState=%v %s, [%s] %s (step %d): %s — %s", key, r.ns, r.be, opsString(r.b), phase, stepIx, v.sym, v.detail), stepIx, nil, nil, o)
	}
	return len(vs) == 0
}

// play executes the behaviour; interrupt (if not nil) overrides the outcomes of the prune that
// starts at step interrupt.Step: the interruption is placed at its K-th mutation.  Returns the
// dumps taken after every completed step group (for the enumerator) and whether all went well.
func (r *runner) play(w *world, conform bool, interrupt *only) (dumps map[int][]faultkv.KV, ok bool) {
	b := r.b
	dumps = map[int][]faultkv.KV{}
	div := func(i int, field string, exp, obs any) {
		r.diverge(fmt.Sprintf("conform:%s:%s", strings.ToLower(b[i].A.Name), field),
			fmt.Sprintf("real node (newState=%v, %s) departs from Prune.tla at step %d (%s %d) of [%s]: %s", r.ns, r.be, i, b[i].A.Name, b[i].A.N, opsString(b), field),
			i, exp, obs, interrupt)
	}
	alive := true
	for i := 0; i < len(b); i++ {
		s := b[i]
		last := i
		var res opResult
		switch s.A.Name {
		case "NewBlock":
			if err := w.newBlock(s.A.Outcome == "young"); err != nil {
				r.diverge("extend-fails", fmt.Sprintf("the chain cannot be extended at step %d of [%s]: %v", i, opsString(b), err), i, nil, nil, interrupt)
				return dumps, false
			}
			res = opResult{kind: "ok", muts: 1}
		case "Revert":
			if err := w.revert(); err != nil {
				r.diverge("revert-fails", fmt.Sprintf("the head cannot be reverted at step %d of [%s]: %v", i, opsString(b), err), i, nil, nil, interrupt)
				return dumps, false
			}
			res = opResult{kind: "ok", muts: 1}
		case "SetL1":
			if err := w.setL1(s.A.N); err != nil {
				panic(err)
			}
			res = opResult{kind: "ok", muts: 1}
		case "Sample":
			if err := w.sample(); err != nil {
				panic(err)
			}
			res = opResult{kind: "ok"}
		case "Restart":
			if err := w.restart(); err != nil {
				r.diverge("restart-fails", fmt.Sprintf("restart at step %d of [%s]: %v", i, opsString(b), err), i, nil, nil, interrupt)
				return dumps, false
			}
			alive = true
			res = opResult{kind: "ok"}
		case "InitFilter":
			// first use of the event index after a start: an event query over the head block
			h := uint64(w.height())
			if _, err := w.scan(w.node.BC, h, h, 100000); err != nil {
				r.diverge("events:first-use-fails", fmt.Sprintf("the first event query after a restart (step %d of [%s]) fails: %v", i, opsString(b), err), i, nil, nil, interrupt)
				return dumps, false
			}
			res = opResult{kind: "ok"}
		case "DeliverHead", "DeliverL1":
			j := i + 1
			for j < len(b) && b[j].A.Name == "PruneStep" {
				j++
			}
			ps := b[i+1 : j]
			mode, k, crashAt := faultkv.Off, 0, 0
			for x, p := range ps {
				if p.A.Outcome != "ok" && mode == faultkv.Off {
					mode, k = modeOf(p.A.Outcome), x+1
				} else if p.A.Outcome == "crash" && mode == faultkv.CancelAfter && crashAt == 0 {
					crashAt = x + 1
				}
			}
			if interrupt != nil && interrupt.Step == i {
				mode, k, crashAt = modeOf(interrupt.Mode), interrupt.K, 0
			}
			which := "head"
			if s.A.Name == "DeliverL1" {
				which = "l1"
			}
			res = w.deliver2(which, s.A.N, mode, k, crashAt, conform)
			if res.kind == "error" && res.err != nil && strings.Contains(res.err.Error(), "prune engine:") {
				panic(res.err)
			}
			if interrupt != nil && interrupt.Step == i {
				// the enumerator takes over from here
				return dumps, true
			}
			if conform {
				for x := range ps {
					if x < len(res.perMut) {
						if f, e, o := diffDisk(ps[x].Post, res.perMut[x], !r.ns); f != "" {
							div(i+1+x, fmt.Sprintf("after-mutation-%d:%s", x+1, f), e, o)
							return dumps, false
						}
						// readers between two batches: the floor must already be raised
						if fl := res.perFloor[x]; fl >= 0 && fl != ps[x].Floor {
							div(i+1+x, fmt.Sprintf("after-mutation-%d:retention-floor", x+1), ps[x].Floor, fl)
							return dumps, false
						}
					}
				}
			}
			if len(ps) > 0 {
				last = j - 1
			}
			i = j - 1
		default:
			panic("prune engine: unknown action " + s.A.Name)
		}
		w.lazyIndex = b[last].lazy()
		want := b[last].Res
		if conform {
			wk := want.Kind
			if res.kind != wk {
				div(last, "result-kind", wk, res.String())
				return dumps, false
			}
			if (s.A.Name == "DeliverHead" || s.A.Name == "DeliverL1") && res.muts != want.Muts {
				div(last, "mutation-count", want.Muts, fmt.Sprintf("%d %v", res.muts, w.fk.Trace))
				return dumps, false
			}
		}
		if res.kind == "crashed" {
			alive = false
		}
		if conform {
			if f, e, o := diffDisk(b[last].Post, w.project(), !r.ns); f != "" {
				div(last, f, e, o)
				return dumps, false
			}
			if alive {
				if fl := w.memFloor(); fl != b[last].Floor {
					div(last, "retention-floor", b[last].Floor, fl)
					return dumps, false
				}
			}
		}
		if alive {
			wf := -1
			if conform {
				wf = b[last].Floor
			}
			if !r.monitors(w, last, wf, interrupt, "after the step") {
				return dumps, false
			}
		}
		if !conform {
			d, _ := faultkv.Dump(w.raw)
			dumps[last] = d
		}
	}
	return dumps, true
}

// finale: the chain must still be extendable and revertible down to the oldest retained block.
func (r *runner) finale(w *world, o *only) {
	w.lazyIndex = false
	if w.height() < w.c.MaxH+1 {
		if err := w.newBlock(true); err != nil {
			r.diverge("extend-fails", fmt.Sprintf("after [%s] the chain cannot be extended: %v", opsString(r.b), err), len(r.b), nil, nil, o)
			return
		}
	}
	oldest, err := pruner.OldestRetainedBlock(w.raw)
	if err != nil {
		return
	}
	for w.height() > int(oldest) {
		if err := w.revert(); err != nil {
			r.diverge("revert-fails", fmt.Sprintf("after [%s] the chain cannot be reverted from %d down to the oldest retained block %d: %v", opsString(r.b), w.height(), oldest, err), len(r.b), nil, nil, o)
			return
		}
	}
	r.monitors(w, len(r.b), -1, o, "after reverting down to the oldest retained block")
}

func TestPruneConform(t *testing.T) {
	if !vh.Enabled() {
		t.Skip()
	}
	var in input
	if err := vh.Input(&in); err != nil {
		t.Fatal(err)
	}
	out := vh.NewResult()
	defer out.Write()
	defer machinery(out)
	startDeadline(out, in.DeadlineSec)
	// the worlds are independent: a few at a time (results in job order)
	type jb struct {
		bi int
		ns bool
		be string
	}
	var jobs []jb
	steps := 0
	for bi, b := range in.Behaviours {
		for _, ns := range in.NewState {
			for _, be := range in.Backends {
				jobs = append(jobs, jb{bi, ns, be})
				steps += len(b)
			}
		}
		if bi < 2 {
			out.Sample(vh.J{"conform": opsString(b)})
		}
	}
	parallel(out, len(jobs), workers,
		func(i int) any {
			j := jobs[i]
			return in.narrowed(in.Behaviours[j.bi], j.ns, j.be, nil, in.seedFor(j.bi))
		},
		func(i int, sub *vh.Result) {
			j := jobs[i]
			r := &runner{in: in, out: sub, b: in.Behaviours[j.bi], ns: j.ns, be: j.be, seed: in.seedFor(j.bi)}
			w := r.newWorld()
			if w == nil {
				return
			}
			defer w.close()
			if _, ok := r.play(w, true, nil); ok {
				r.finale(w, nil)
			}
		})
	imageStats(out)
	out.Count("conform_behaviours", len(jobs))
	out.Count("conform_steps", steps)
	out.Done(len(jobs), steps)
}

// workers: independent worlds run a few at a time (the machine is shared with other checks)
const workers = 4

var ignoreBuckets = map[byte]bool{byte(db.AggregatedBloomFilters): true, byte(db.RunningEventFilter): true}

func TestPruneEnum(t *testing.T) {
	if !vh.Enabled() {
		t.Skip()
	}
	var in input
	if err := vh.Input(&in); err != nil {
		t.Fatal(err)
	}
	out := vh.NewResult()
	defer out.Write()
	defer machinery(out)
	startDeadline(out, in.DeadlineSec)
	type pr struct{ at, last, muts int }
	type jb struct {
		bi     int
		ns     bool
		be     string
		prunes []pr // the prunes of the behaviour: delivery step -> number of mutations
		dumps  map[int][]faultkv.KV
		ok     bool
	}
	var jobs []*jb
	for bi, b := range in.Behaviours {
		var prunes []pr
		for i := 0; i < len(b); i++ {
			if b[i].A.Name == "DeliverHead" || b[i].A.Name == "DeliverL1" {
				j := i + 1
				for j < len(b) && b[j].A.Name == "PruneStep" {
					j++
				}
				if j > i+1 {
					prunes = append(prunes, pr{i, j - 1, b[j-1].Res.Muts})
				}
			}
		}
		for _, ns := range in.NewState {
			for _, be := range in.Backends {
				jobs = append(jobs, &jb{bi: bi, ns: ns, be: be, prunes: prunes})
			}
		}
	}
	mk := func(j *jb, sub *vh.Result) *runner {
		return &runner{in: in, out: sub, b: in.Behaviours[j.bi], ns: j.ns, be: j.be, seed: in.seedFor(j.bi)}
	}
	// phase 1: the uninterrupted runs (reference databases); independent worlds, a few at a time
	if in.Only == nil {
		parallel(out, len(jobs), workers,
			func(i int) any {
				j := jobs[i]
				return in.narrowed(in.Behaviours[j.bi], j.ns, j.be, nil, in.seedFor(j.bi))
			},
			func(i int, sub *vh.Result) {
				j := jobs[i]
				r := mk(j, sub)
				w := r.newWorld()
				if w == nil {
					return
				}
				j.dumps, j.ok = r.play(w, false, nil)
				w.close()
				sub.Count("enum_sequences", 1)
				if j.bi < 2 && j.ns == in.NewState[0] {
					sub.Sample(vh.J{"enum": opsString(r.b), "prunes": len(j.prunes)})
				}
			})
	}
	// phase 2: every interruption point of every prune
	type tr struct {
		j    *jb
		p    pr
		k    int
		mode string
	}
	var trials []tr
	for _, j := range jobs {
		for _, p := range j.prunes {
			if in.Only != nil {
				if p.at == in.Only.Step {
					trials = append(trials, tr{j, p, in.Only.K, in.Only.Mode})
				}
				continue
			}
			if !j.ok {
				continue
			}
			for k := 1; k <= p.muts; k++ {
				for _, mode := range []string{"cancel", "crash"} {
					trials = append(trials, tr{j, p, k, mode})
				}
			}
		}
	}
	parallel(out, len(trials), workers,
		func(i int) any {
			t := trials[i]
			return in.narrowed(in.Behaviours[t.j.bi], t.j.ns, t.j.be, &only{t.p.at, t.k, t.mode}, in.seedFor(t.j.bi))
		},
		func(i int, sub *vh.Result) {
			t := trials[i]
			var ref []faultkv.KV
			if t.j.dumps != nil {
				ref = t.j.dumps[t.p.last]
			}
			mk(t.j, sub).trial(t.p.at, t.p.last, t.k, t.mode, ref)
			sub.Count("interruption_trials", 1)
			if in.Only == nil {
				sub.Count(t.mode+"_points", 1)
			}
		})
	runs, _ := out.Stats["enum_sequences"].(int)
	ntr, _ := out.Stats["interruption_trials"].(int)
	out.Done(runs+ntr, ntr)
}

// trial: run up to the prune at step `at`, interrupt it at mutation k, restart, check, deliver the
// same event again (the resumed prune), and require the uninterrupted run's database.
func (r *runner) trial(at, last, k int, mode string, ref []faultkv.KV) {
	o := &only{at, k, mode}
	r.cur = o
	setCurrent(r.in.narrowed(r.b, r.ns, r.be, o, r.seed))
	defer func() { r.cur = nil }()
	w := r.newWorld()
	if w == nil {
		return
	}
	defer w.close()
	if _, ok := r.play(w, false, o); !ok {
		return
	}
	w.lazyIndex = false
	if err := w.restart(); err != nil {
		r.diverge("restart-fails", fmt.Sprintf("restart after %s at mutation %d of the prune at step %d of [%s]: %v", mode, k, at, opsString(r.b), err), at, nil, nil, o)
		return
	}
	if !r.monitors(w, at, -1, o, fmt.Sprintf("after %s at mutation %d of the prune and a restart", mode, k)) {
		return
	}
	which := "head"
	if r.b[at].A.Name == "DeliverL1" {
		which = "l1"
	}
	// resume: the same trigger again (pendingL2Heads was reset by the restart: repeat the head
	// event until the coalescing counter lets it through)
	var res opResult
	for x := 0; x < max(1, w.c.L2PerPrune); x++ {
		res = w.deliver(which, r.b[at].A.N, faultkv.Off, 0, false)
		if res.kind != "ignored" {
			break
		}
	}
	if res.kind != "ok" && res.kind != "noop" {
		r.diverge("resume-fails:"+mode, fmt.Sprintf("[%s]: after %s at mutation %d and a restart the same prune cannot be resumed: %s", opsString(r.b), mode, k, res.String()), at, nil, nil, o)
		return
	}
	if !r.monitors(w, at, -1, o, "after resuming the interrupted prune") {
		return
	}
	if ref != nil {
		got, _ := faultkv.Dump(w.raw)
		if d := faultkv.Diff(got, ref, ignoreBuckets, 6); len(d) > 0 {
			r.diverge("resume-differs:"+mode, fmt.Sprintf("[%s]: %s at mutation %d, restart, resumed prune: the final database differs from the uninterrupted run: %v", opsString(r.b), mode, k, d), at, nil, d, o)
		}
	}
}

// TestPruneProbe: does a crash after the first hash-keyed batch leave the oldest retained block
// where it was (the H12 defect)?
func TestPruneProbe(t *testing.T) {
	if !vh.Enabled() {
		t.Skip()
	}
	out := vh.NewResult()
	defer out.Write()
	defer machinery(out)
	setCurrent(vh.J{"probe": "all"})
	w, err := newWorld(consts{MaxH: 8, InitH: 6, MaxL1: 8, Retained: 0, PruneBatch: 1, L2PerPrune: 1}, vh.Seed(), false, "memory")
	if err != nil {
		panic(err)
	}
	defer w.close()
	if err := w.setL1(4); err != nil {
		panic(err)
	}
	res := w.deliver("l1", 4, faultkv.CrashAfter, 1, false)
	o, _ := pruner.OldestRetainedBlock(w.raw)
	out.Stats["FixPruneAtomicFloor"] = o > 0
	out.Stats["probe"] = res.String()
	if o == 0 {
		// the directed replay of H12: restart and read the state the re-seeded floor serves
		what := "chain 0..6, L1 head 4, Retained 0, one batch per block, crash after the first batch of the prune up to 4, restart"
		if err := w.restart(); err == nil {
			for _, v := range w.evaluate(-1, true) {
				if strings.HasPrefix(v.sym, "state-by-number:wrong-value") {
					what += ": " + v.detail
				}
			}
		}
		key := "prune-crash:floor-reseed-below-deleted-history"
		out.Diverge(vh.Divergence{Key: key, What: "[" + key + "] directed replay: " + what, Input: vh.J{"probe": "FixPruneAtomicFloor"}})
	}
	// the min-age sample after a reorg: chain 0..11 all old (the seed sample is 11 = "no young
	// block"), blocks 11 and 10 are replaced by young ones, two more young blocks, L1 head 12:
	// the prune keeps min(sample 11, 12-1) = 11 and deletes block 10', which is young
	{
		w, err := newWorld(consts{MaxH: 13, InitH: 11, MaxL1: 15, Retained: 1, PruneBatch: 1, L2PerPrune: 1, MinAge: true}, vh.Seed(), false, "memory")
		if err != nil {
			panic(err)
		}
		defer w.close()
		must := func(err error) {
			if err != nil {
				panic(err)
			}
		}
		must(w.revert())
		must(w.revert())
		for i := 0; i < 4; i++ {
			must(w.newBlock(true))
		}
		must(w.setL1(12))
		res := w.deliver("l1", 12, faultkv.Off, 0, false)
		o, _ := pruner.OldestRetainedBlock(w.raw)
		pruned := int(o) > 10 && w.young[10]
		out.Stats["FixSampleOnReorg"] = !pruned
		if pruned {
			key := "min-age:young-block-pruned-after-reorg-below-sample"
			out.Diverge(vh.Divergence{Key: key, Input: vh.J{"probe": "FixSampleOnReorg"},
				What: fmt.Sprintf("[%s] directed replay: chain 0..11 older than the minimum age (sample = 11), revert 11 and 10, store 10', 11', 12, 13 with young timestamps, L1 head 12, Retained 1: the prune (%s) keeps min(sample, 11) = 11 and deletes block 10' although it is younger than the minimum age (oldest retained now %d)", key, res.String(), o)})
		}
	}
	out.Done(2, 2)
}

var _ = memory.New
var _ = context.Background

// TestPruneConcurrent: readers (and a block writer) run CONCURRENTLY with an in-flight prune of the
// real service for its whole lifetime, judged by the specification's invariants: whatever
// StateAtBlockNumber serves equals the unpruned twin (StateReadsCorrect), blocks that stay
// retained are complete at every moment (RetainedIntact), reads of blocks being pruned answer
// "not found"/"pruned" or the twin's data, never other data (BelowFloorClean), and afterwards the
// database is the canonical one (Resumable).  Every goroutine runs under recover.
func TestPruneConcurrent(t *testing.T) {
	if !vh.Enabled() {
		t.Skip()
	}
	var in input
	if err := vh.Input(&in); err != nil {
		t.Fatal(err)
	}
	out := vh.NewResult()
	defer out.Write()
	defer machinery(out)
	startDeadline(out, in.DeadlineSec)
	rounds := 0
	if len(in.NewState) == 0 {
		in.NewState = []bool{false, true}
	}
	for _, ns := range in.NewState {
		for _, pb := range []int{1, 99} {
			c := consts{MaxH: 44, InitH: 36, MaxL1: 44, Retained: 1, PruneBatch: pb, L2PerPrune: 1}
			r := &runner{in: input{Consts: c, NewState: []bool{ns}, Backends: []string{"memory"}}, out: out, ns: ns, be: "memory", seed: in.seedFor(rounds)}
			setCurrent(vh.J{"concurrent": pb, "newState": ns})
			w := r.newWorld()
			if w == nil {
				continue
			}
			concurrentRound(r, w, out, pb)
			w.close()
			rounds++
		}
	}
	out.Count("concurrent_rounds", rounds)
	out.Done(rounds, rounds)
}

func concurrentRound(r *runner, w *world, out *vh.Result, pb int) {
	const l1, keep = 34, 33 // Retained 1: everything below 33 goes
	if err := w.setL1(l1); err != nil {
		panic(err)
	}
	var (
		mu    sync.Mutex
		found = map[string]string{}
		reads int
	)
	add := func(sym, detail string) {
		mu.Lock()
		if _, ok := found[sym]; !ok {
			found[sym] = detail
		}
		mu.Unlock()
	}
	stop := make(chan struct{})
	var wg sync.WaitGroup
	guard := func(name string, fn func()) {
		wg.Add(1)
		go func() {
			defer wg.Done()
			defer func() {
				if p := recover(); p != nil {
					add("concurrent:panic:"+name, fmt.Sprint(p))
				}
			}()
			fn()
		}()
	}
	w.noStateByHash = true
	// slow the prune down a little so that every reader sees many intermediate states
	w.fk.OnWrite = func(int, string) { time.Sleep(2 * time.Millisecond) }
	for g := 0; g < 3; g++ {
		g := g
		guard(fmt.Sprintf("reader-%d", g), func() {
			for i := g; ; i++ {
				select {
				case <-stop:
					return
				default:
				}
				n := uint64(i % 37)
				// A state reader is judged by where it stands when it has been READ: if the node
				// still admits the same request afterwards, the floor was at or below n during the
				// whole read and the answer must be the twin's.  A reader that outlived its
				// admission (the floor was raised / the hash unmapped meanwhile) is a different
				// matter: StateAt* promises a stable view, the legacy backend reads the live
				// database — reported under its own key.
				judge := func(how string, open func() (core.StateReader, func() error, error)) {
					st, closer, err := open()
					if err != nil {
						if !errors.Is(err, db.ErrKeyNotFound) && !errors.Is(err, pruner.ErrBlockPruned) {
							add("concurrent:"+how+":error", fmt.Sprintf("state at %d: %v", n, err))
						}
						return
					}
					defer closer()
					tst, tcl, terr := w.twin.BC.StateAtBlockNumber(n)
					if terr != nil {
						return
					}
					defer tcl()
					var bad []string
					w.cmpState(how, n, st, tst, func(sym, detail string) { bad = append(bad, sym+" — "+detail) })
					if len(bad) == 0 {
						return
					}
					if _, c2, err2 := open(); err2 == nil {
						_ = c2()
						add("concurrent:"+how+":wrong-value", bad[0])
					} else {
						add("concurrent:reader-outlives-floor-check:"+how, bad[0])
					}
				}
				judge("state-by-number", func() (core.StateReader, func() error, error) { return w.node.BC.StateAtBlockNumber(n) })
				if hd, err := w.twin.BC.BlockHeaderByNumber(n); err == nil {
					judge("state-by-hash", func() (core.StateReader, func() error, error) { return w.node.BC.StateAtBlockHash(hd.Hash) })
				}
				sub := func(sym, detail string) { add("concurrent:"+sym, detail) }
				w.sweepBlock(w.node.BC, w.raw, n, n >= keep, sub)
				mu.Lock()
				reads++
				mu.Unlock()
			}
		})
	}
	// a writer extends the chain while the prune runs (the twin first, so that readers always
	// find their oracle)
	var stored []int
	guard("writer", func() {
		for i := 0; i < 3; i++ {
			_, b, err := w.nextBlock(false)
			if err != nil {
				add("concurrent:extend-fails", err.Error())
				return
			}
			if err := w.twin.StoreBuilt(b); err != nil {
				add("concurrent:twin", err.Error())
				return
			}
			if err := w.node.StoreBuilt(b); err != nil {
				add("concurrent:extend-fails", fmt.Sprintf("store of block %d during a prune: %v", b.Block.Number, err))
				return
			}
			w.ver[int(b.Block.Number)]++
			stored = append(stored, int(b.Block.Number))
			time.Sleep(5 * time.Millisecond)
		}
	})
	res := w.deliver("l1", l1, faultkv.Off, 0, false)
	// readers keep going a little after the prune and the writer are done
	time.Sleep(10 * time.Millisecond)
	close(stop)
	wg.Wait()
	w.fk.OnWrite = nil
	w.noStateByHash = false
	if res.kind != "ok" {
		add("concurrent:prune-result", res.String())
	}
	for _, v := range w.evaluate(-1, true) {
		add("concurrent:after:"+v.sym, v.detail)
	}
	if p := w.project(); p.Oldest != keep || len(p.Com) == 0 || p.Com[0] != keep {
		add("concurrent:final-oldest", fmt.Sprintf("oldest retained %d after the prune, want %d", p.Oldest, keep))
	}
	out.Count("concurrent_reads", reads)
	if reads < 10 {
		panic(fmt.Sprintf("prune engine: the concurrent readers made only %d reads during the prune", reads))
	}
	for sym, detail := range found {
		key := "prune-damage:" + sym
		if strings.HasPrefix(sym, "concurrent:reader-outlives-floor-check") {
			key = "prune-concurrent:reader-outlives-floor-check:wrong-value"
		}
		out.Diverge(vh.Divergence{Key: key, What: fmt.Sprintf("[%s] newState=%v, batches of %d: reader concurrent with an in-flight prune of blocks 0..32 (chain 0..36 growing to 39): %s", key, r.ns, pb, detail),
			Input: vh.J{"concurrent": pb, "newState": r.ns}})
	}
}

// ------------------------------------------------------------------ directed boundary scenarios
// TestPruneWindow: the concretisation of the specification's residues of the oldest retained block
// modulo the window size on the code's real window (W = core.NumBlocksPerFilter): the real service
// prunes a chain that straddles block kW — k = 1: the first window, which the code treats apart
// (nothing to delete below W); k = 2: a window in the middle, whose predecessor is already gone — so
// that the oldest retained block becomes kW-2, kW-1, kW, kW+1 (in one batch and in one batch per
// block, i.e. with every intermediate bound on the way), with the event index
//
//	cold      never asked before the prune (the persisted window is not in the query cache)
//	warm      asked before the prune
//	lazy      not initialised when the prune runs (restart, prune, first use afterwards)
//	crash     rebuilt from the database after the prune (restart without a stored snapshot)
//	graceful  restored from the snapshot a graceful stop writes (no rebuild, cold cache)
//	step      the prune is preceded by one that stops one block earlier (the bound moves by one)
//
// and requires after every batch write that the set of persisted windows is the one the
// specification's Canonical / EventsCovered demand for the oldest retained block reached (none
// wholly below it, the window of every retained block below the head's window), and at the end
// every monitor of the property (event queries against a scan of the twin's receipts included),
// extension, and reverts back across the boundary down to the oldest retained block.
type winCase struct {
	K        int    `json:"k"` // the boundary is block K*W
	Keep     int    `json:"keep"`
	PB       int    `json:"pb"`
	Mode     string `json:"mode"`
	NewState bool   `json:"newState"`
	Seed     int64  `json:"seed"`
}

type winPlan struct {
	NewState bool     `json:"newState"`
	Modes    []string `json:"modes"` // empty: all
	K        []int    `json:"k"`     // empty: 1 and 2
}

type winInput struct {
	Plans       []winPlan `json:"plans,omitempty"` // empty: every mode on both state backends
	Only        *winCase  `json:"only,omitempty"`
	DeadlineSec int       `json:"deadlineSec,omitempty"`
}

// wantWindows: Prune.tla Canonical / EventsCovered in closed form.
func wantWindows(oldest, height int) []int {
	out := []int{}
	w := int(core.NumBlocksPerFilter)
	for f := 0; f+w-1 <= height; f += w {
		if f+w > oldest {
			out = append(out, f)
		}
	}
	return out
}

func TestPruneWindow(t *testing.T) {
	if !vh.Enabled() {
		t.Skip()
	}
	var in winInput
	if err := vh.Input(&in); err != nil {
		t.Fatal(err)
	}
	out := vh.NewResult()
	defer out.Write()
	defer machinery(out)
	startDeadline(out, in.DeadlineSec)
	var cases []winCase
	if in.Only != nil {
		cases = []winCase{*in.Only}
	} else {
		if len(in.Plans) == 0 {
			in.Plans = []winPlan{{NewState: false}, {NewState: true}}
		}
		i := 0
		for _, pl := range in.Plans {
			if len(pl.Modes) == 0 {
				pl.Modes = []string{"cold", "warm", "lazy", "crash", "graceful", "step"}
			}
			if len(pl.K) == 0 {
				pl.K = []int{1, 2}
			}
			for _, k := range pl.K {
				wb := k * int(core.NumBlocksPerFilter)
				for _, mode := range pl.Modes {
					for _, pb := range []int{99, 1} {
						for keep := wb - 2; keep <= wb+1; keep++ {
							i++
							cases = append(cases, winCase{k, keep, pb, mode, pl.NewState, vh.Seed()*1000 + int64(i)})
						}
					}
				}
			}
		}
	}
	// the cases are independent worlds: a few at a time, results merged in case order
	parallel(out, len(cases), workers, func(i int) any { return winInput{Only: &cases[i]} },
		func(i int, sub *vh.Result) { windowCase(sub, cases[i]) })
	imageStats(out)
	out.Count("window_cases", len(cases))
	out.Done(len(cases), len(cases))
}

func windowCase(out *vh.Result, c winCase) {
	wb := max(1, c.K) * int(core.NumBlocksPerFilter)
	k := consts{Base: wb - 8, InitH: wb + 5, MaxH: wb + 8, MaxL1: wb + 10, Retained: 1, PruneBatch: c.PB, L2PerPrune: 1,
		W: int(core.NumBlocksPerFilter)}
	r := &runner{replayInput: winInput{Only: &c}, in: input{Consts: k}, out: out, ns: c.NewState, be: "memory", seed: c.Seed}
	w := r.newWorld()
	if w == nil {
		return
	}
	defer w.close()
	where := fmt.Sprintf("chain %d..%d on the image of a node pruned up to %d, Retained 1, %s, event index %s, newState=%v: oldest retained block -> %d",
		k.Base, k.InitH, k.Base, map[bool]string{true: "one batch per block", false: "one batch"}[c.PB == 1], c.Mode, c.NewState, c.Keep)
	bad := func(key, what string, exp, obs any) {
		r.diverge(key, fmt.Sprintf("[%s] %s: %s", key, where, what), 0, exp, obs, nil)
	}
	// the persisted windows demanded for the state of the database a projection shows
	checkWin := func(p post, when string) bool {
		want := wantWindows(p.Oldest, p.Height)
		if eqInts(want, p.Win) {
			return true
		}
		key := "prune-window:persisted-windows-differ"
		for _, f := range want {
			found := false
			for _, g := range p.Win {
				found = found || g == f
			}
			if !found {
				key = "prune-window:filter-of-retained-blocks-deleted"
			}
		}
		if key == "prune-window:persisted-windows-differ" {
			for _, g := range p.Win {
				if g >= 0 && g+int(core.NumBlocksPerFilter) <= p.Oldest {
					key = "prune-window:filter-wholly-below-oldest-retained-kept"
				}
			}
		}
		bad(key, fmt.Sprintf("%s the oldest retained block is %d, the head %d, and the persisted aggregated bloom filter windows start at %v; the blocks %d..%d need %v",
			when, p.Oldest, p.Height, p.Win, p.Oldest, p.Height, want), want, p.Win)
		return false
	}
	monitors := func(phase string) bool { return r.monitors(w, 0, -1, nil, where+"; "+phase) }
	prune := func(keep int) bool {
		if err := w.setL1(keep + k.Retained); err != nil {
			panic(err)
		}
		res := w.deliver("l1", keep+k.Retained, faultkv.Off, 0, true)
		if res.kind != "ok" {
			if res.err != nil && strings.Contains(res.err.Error(), "prune engine:") {
				panic(res.err)
			}
			bad("prune-window:prune-fails", fmt.Sprintf("the prune up to %d ends with %s", keep, res.String()), "ok", res.String())
			return false
		}
		for x, p := range res.perMut {
			if !checkWin(p, fmt.Sprintf("after batch write %d of %d of the prune up to %d", x+1, len(res.perMut), keep)) {
				return false
			}
		}
		p := w.project()
		if p.Oldest != keep {
			bad("prune-window:oldest-retained", fmt.Sprintf("after the prune the oldest retained block is %d", p.Oldest), keep, p.Oldest)
			return false
		}
		return checkWin(p, "after the prune")
	}
	if !checkWin(w.project(), "before any prune") {
		return
	}
	switch c.Mode {
	case "warm":
		if !monitors("before the prune") {
			return
		}
	case "lazy":
		if err := w.restart(); err != nil {
			bad("restart-fails", err.Error(), nil, nil)
			return
		}
	case "step":
		if !prune(c.Keep - 1) {
			return
		}
	}
	if !prune(c.Keep) {
		return
	}
	switch c.Mode {
	case "crash":
		if err := w.restart(); err != nil {
			bad("restart-fails", err.Error(), nil, nil)
			return
		}
	case "graceful":
		if err := w.node.BC.WriteRunningEventFilter(); err != nil {
			bad("prune-window:graceful-stop-fails", err.Error(), nil, nil)
			return
		}
		if err := w.restart(); err != nil {
			bad("restart-fails", err.Error(), nil, nil)
			return
		}
	}
	if !monitors("after the prune") {
		return
	}
	if !checkWin(w.project(), "after the first event queries that follow the prune") {
		return
	}
	// extension, then reverts back across the window boundary down to the oldest retained block
	r.finale(w, nil)
	p := w.project()
	if p.Height == p.Oldest {
		checkWin(p, "after reverting down to the oldest retained block")
	}
}

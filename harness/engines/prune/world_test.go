// Engine "prune" (property C16): replays Prune.tla behaviours on a real pruning node — the real
// pruner.Pruner service fed through real feeds, the real shared RetentionFloor, pruner.PruneUpto
// interrupted (cancelled / crashed) after any batch write through the fault-injecting store — and
// evaluates every read against an UNPRUNED TWIN node holding the same chain.
//
// world_test.go: block content, the node/twin pair, the gated pruner service, the projection and
// the monitors.
package prune

import (
	"bytes"
	"context"
	"encoding/binary"
	"encoding/gob"
	"errors"
	"fmt"
	"os"
	"path/filepath"
	"reflect"
	"runtime"
	"sort"
	"strings"
	"sync"
	"time"

	"github.com/NethermindEth/juno/blockchain"
	"github.com/NethermindEth/juno/core"
	"github.com/NethermindEth/juno/core/felt"
	"github.com/NethermindEth/juno/db"
	"github.com/NethermindEth/juno/db/memory"
	"github.com/NethermindEth/juno/db/pebblev2"
	"github.com/NethermindEth/juno/encoder"
	_ "github.com/NethermindEth/juno/encoder/registry"
	"github.com/NethermindEth/juno/feed"
	"github.com/NethermindEth/juno/pruner"
	"github.com/NethermindEth/juno/utils/log"

	"verifharness/internal/chainkit"
	"verifharness/internal/faultkv"
	"verifharness/internal/vh"
)

var (
	contractAddr = *chainkit.F(0x100)
	otherAddr    = *chainkit.F(0x200)
	classA       felt.Felt
	classB       felt.Felt
	classADef    core.ClassDefinition
	classBDef    core.ClassDefinition
	classesOnce  sync.Once
	versions     = []string{"0.13.2", "0.13.4", "0.14.0", "0.14.1"}
	noPreConf    = func() (blockchain.PreConfirmedReader, error) { return nil, nil }
	errRejected  = errors.New("prune engine: handler invocation rejected by the scheduler")
	errTimeout   = errors.New("prune engine: timeout waiting for the pruner service")
	// a failure of the REAL code while the initial world is prepared: an observation, not a harness problem
	errOnRealCode = errors.New("real code failed on a valid chain")
	bigBatch      = 96 * 1024 * 1024
	minAge        = 50 * time.Hour
	runStart      = time.Now()
)

type bk struct{ N, V int }

type consts struct {
	MaxH       int  `json:"MaxH"`
	InitH      int  `json:"InitH"`
	MaxL1      int  `json:"MaxL1"`
	Retained   int  `json:"Retained"`
	PruneBatch int  `json:"PruneBatch"`
	L2PerPrune int  `json:"L2PerPrune"`
	MinAge     bool `json:"MinAge"`
	// Base > 0: block numbers are absolute and the world starts from the image of an earlier life —
	// chain 0..Base pruned up to Base — so that the dozen blocks of a behaviour lie across a boundary
	// of the REAL aggregated-bloom-filter window (W, which must be core.NumBlocksPerFilter)
	Base int `json:"Base"`
	W    int `json:"W"`
}

// lo: the lowest block number anything of the world can still exist for (header carve-out of the image)
func (c consts) lo() int { return max(0, c.Base-int(core.BlockHashLag)-2) }

func fixedClasses() {
	classesOnce.Do(func() {
		g := chainkit.NewGen(424242)
		classA, classADef = g.Cairo0Class()
		classB, classBDef = g.Cairo0Class()
	})
}

func eventKey(n, v int) felt.Felt { return *chainkit.F(uint64(100000 + 100*n + v)) }

// timestamps: hours away from now-minAge in either direction, so that wall-clock drift during the
// run cannot flip an age comparison
func timestamp(n int, young bool) uint64 {
	if young {
		return uint64(runStart.Add(-1*time.Hour).Unix()) + uint64(n)
	}
	return uint64(runStart.Add(-100*time.Hour).Unix()) + uint64(n)
}

// blockSpec: every block has the same SHAPE (same number and kinds of rows the pruner deletes), so
// that a byte threshold of 1.5 block-delete-sizes rotates the prune batch every two blocks.
// bare: a block without any transaction (no lookups to delete, empty bloom, empty receipts) — only
// where the batch threshold is not calibrated on uniform blocks.
func bare(n int, uniform bool) bool { return !uniform && n%7 == 5 }

func blockSpec(seed int64, n, v int, young, uniform bool) chainkit.BlockSpec {
	fixedClasses()
	g := chainkit.NewGen(seed*1_000_003 + int64(n)*101 + int64(v))
	d := chainkit.EmptyDiff()
	classes := map[felt.Felt]core.ClassDefinition{}
	if n == 0 {
		d.DeclaredV0Classes = append(d.DeclaredV0Classes, &classA, &classB)
		classes[classA] = classADef
		classes[classB] = classBDef
		d.DeployedContracts[contractAddr] = &classA
		d.DeployedContracts[otherAddr] = &classB
	}
	ch, cls := g.Cairo0Class()
	d.DeclaredV0Classes = append(d.DeclaredV0Classes, &ch)
	classes[ch] = cls
	d.StorageDiffs[contractAddr] = map[felt.Felt]*felt.Felt{
		*chainkit.F(1):               chainkit.F(uint64(1000*(n+1) + v)),
		*chainkit.F(uint64(2 + n%3)): chainkit.F(uint64(7 + n + v)),
	}
	d.Nonces[contractAddr] = chainkit.F(uint64(10*(n+1) + v))
	if n > 0 {
		if n%2 == 0 {
			d.ReplacedClasses[otherAddr] = &classB
		} else {
			d.ReplacedClasses[otherAddr] = &classA
		}
	}
	var txs []core.Transaction
	var rcs []*core.TransactionReceipt
	kinds := []string{"invoke3", "l1handler"}
	if bare(n, uniform) {
		kinds = nil
	}
	for i, k := range kinds {
		tx := g.Tx(k)
		txs = append(txs, tx)
		var evs []*core.Event
		if i == 0 {
			evs = []*core.Event{{From: &contractAddr, Keys: []felt.Felt{eventKey(n, v)}, Data: []felt.Felt{*chainkit.F(uint64(n))}}}
		}
		rcs = append(rcs, g.Receipt(tx, evs))
	}
	return chainkit.BlockSpec{Version: versions[n%len(versions)], Timestamp: timestamp(n, young),
		Diff: d, Classes: classes, Txs: txs, Receipts: rcs}
}

// ------------------------------------------------------------------ poisoning store
// poisonStore hands every Get callback a private copy of the value and scribbles over it when the
// callback returns: a reader that keeps (part of) the lent buffer instead of copying it ends up
// with garbage, which the comparison with the twin then sees.
type poisonStore struct{ db.KeyValueStore }

func (p poisonStore) Get(k []byte, cb func([]byte) error) error {
	return p.KeyValueStore.Get(k, func(v []byte) error {
		c := append([]byte(nil), v...)
		err := cb(c)
		for i := range c {
			c[i] = 0xA5
		}
		return err
	})
}

// ------------------------------------------------------------------ gated pruner service

// gateStore is what the pruner service sees as its database: every handler invocation announces
// itself at its first read (onNewBlock reads the L1 head first, onNewL1Head and sampleHeight the
// chain height) and waits for the scheduler to admit it or to reject it with a read error (a
// rejected handler returns without any effect).  The handler is identified from the call stack.
type gateStore struct {
	db.KeyValueStore
	arrivals chan *arrival
	off      bool
}

type arrival struct {
	handler string // head | l1 | sample | seed
	decide  chan error
}

var (
	chainHeightKey = db.ChainHeight.Key()
	l1HeightKey    = db.L1Height.Key()
)

func handlerOnStack() string {
	pcs := make([]uintptr, 32)
	n := runtime.Callers(3, pcs)
	frames := runtime.CallersFrames(pcs[:n])
	found := ""
	for {
		f, more := frames.Next()
		switch {
		case strings.HasSuffix(f.Function, "pruner.(*Pruner).seedFloor"):
			return "seed"
		case strings.HasSuffix(f.Function, "pruner.(*Pruner).sampleHeight"):
			found = "sample"
		case strings.HasSuffix(f.Function, "pruner.(*Pruner).onNewBlock"):
			return "head"
		case strings.HasSuffix(f.Function, "pruner.(*Pruner).onNewL1Head"):
			return "l1"
		}
		if !more {
			return found
		}
	}
}

func (g *gateStore) Get(k []byte, cb func([]byte) error) error {
	if !g.off && (string(k) == string(chainHeightKey) || string(k) == string(l1HeightKey)) {
		if h := handlerOnStack(); h != "" && ((h == "head") == (string(k) == string(l1HeightKey))) {
			a := &arrival{handler: h, decide: make(chan error, 1)}
			g.arrivals <- a
			if err := <-a.decide; err != nil {
				return err
			}
		}
	}
	return g.KeyValueStore.Get(k, cb)
}

type svc struct {
	p        *pruner.Pruner
	gate     *gateStore
	cancel   context.CancelFunc
	done     chan struct{}
	l1Feed   *feed.Feed[*core.L1Head]
	headFeed *feed.Feed[*core.Block]

	mu     sync.Mutex
	pruned []uint64
	errs   []error
}

func startSvc(store db.KeyValueStore, floor *pruner.RetentionFloor, c consts, batchBytes int) (*svc, error) {
	s := &svc{done: make(chan struct{}), l1Feed: feed.New[*core.L1Head](), headFeed: feed.New[*core.Block]()}
	s.gate = &gateStore{KeyValueStore: store, arrivals: make(chan *arrival)}
	lst := &pruner.SelectiveListener{
		OnPruneCb: func(_ uint64, n uint64, _ time.Duration) {
			s.mu.Lock()
			s.pruned = append(s.pruned, n)
			s.mu.Unlock()
		},
		OnPruneErrorCb: func(err error) {
			if errors.Is(err, errRejected) {
				return
			}
			s.mu.Lock()
			s.errs = append(s.errs, err)
			s.mu.Unlock()
		},
	}
	opts := []pruner.Option{pruner.WithTargetBatchByteSize(batchBytes), pruner.WithListener(lst),
		pruner.WithL2HeadsPerPrune(uint64(c.L2PerPrune))}
	if c.MinAge {
		opts = append(opts, pruner.WithMinAge(minAge), pruner.WithFloorTickInterval(2*time.Millisecond))
	}
	s.p = pruner.New(s.gate, floor, uint64(c.Retained), s.headFeed.Subscribe(), s.l1Feed.Subscribe(), log.NewNopZapLogger(), opts...)
	ctx, cancel := context.WithCancel(context.Background())
	s.cancel = cancel
	go func() {
		defer close(s.done)
		_ = s.p.Run(ctx)
	}()
	if c.MinAge {
		// Run seeds the min-age floor before entering its loop — unless the database has no
		// retained block, in which case seedFloor returns before its first gated read
		if _, err := pruner.OldestRetainedBlock(store); err == nil {
			if err := s.admit("seed"); err != nil {
				return nil, err
			}
		}
	}
	return s, nil
}

// admit waits for the next invocation of `handler` to arrive at the gate and lets it run;
// invocations of other handlers arriving meanwhile (timer-driven samples, barriers) are rejected.
func (s *svc) admit(handler string) error {
	deadline := time.After(40 * time.Second)
	for {
		select {
		case a := <-s.gate.arrivals:
			if a.handler == handler {
				a.decide <- nil
				return nil
			}
			a.decide <- errRejected
		case <-s.done:
			return errors.New("prune engine: the pruner service ended unexpectedly")
		case <-deadline:
			return timeoutErr("admit " + handler)
		}
	}
}

// settle returns once the previously admitted handler has returned: a head event sent now can
// only reach the gate after it (the service loop is a single goroutine); it is rejected there.
func (s *svc) settle() error {
	deadline := time.After(40 * time.Second)
	s.headFeed.Send(&core.Block{Header: &core.Header{Number: 0}})
	for {
		select {
		case a := <-s.gate.arrivals:
			a.decide <- errRejected
			if a.handler == "head" {
				return nil
			}
		case <-s.done:
			return nil
		case <-deadline:
			return timeoutErr("settle")
		}
	}
}

// stop cancels the service context and waits for Run to return, rejecting whatever still arrives.
func (s *svc) stop() error {
	s.cancel()
	return s.waitDone()
}

func (s *svc) waitDone() error {
	deadline := time.After(40 * time.Second)
	for {
		select {
		case a := <-s.gate.arrivals:
			a.decide <- errRejected
		case <-s.done:
			return nil
		case <-deadline:
			return timeoutErr("waitDone")
		}
	}
}

// ------------------------------------------------------------------ world

type world struct {
	c        consts
	seed     int64
	newState bool
	backend  string
	dir      string
	raw      db.KeyValueStore
	fk       *faultkv.Store
	node     *chainkit.Node
	floor    *pruner.RetentionFloor
	twin     *chainkit.Node
	built    map[bk]*chainkit.Built
	byHash   map[felt.Felt]bk
	ver      map[int]int
	young    map[int]bool // by number: the current block of that number is young
	svc      *svc
	batch    int
	retained []kept
	// noStateByHash: the concurrent round judges state readers itself (with re-validation)
	noStateByHash bool

	crashedInPrune bool
	// lazyIndex: the monitors must not touch the event index (see evaluate)
	lazyIndex bool
}

// ------------------------------------------------------------------ base images (Base > 0)
// The image of an earlier life of the node: genesis (the two fixed contracts), Base-1 empty blocks,
// the content block Base — stored through the real Finalise — and then pruned up to Base by the real
// PruneUpto.  What is left is small; it is built once per run (kept in the run's scratch directory
// for the engine's other processes) and copied into every world.

const (
	imageSeed = 7
	imageTime = 1_600_000_000 // far older than any minimum age; block n of the image carries imageTime+n
)

type image struct {
	kvs  []faultkv.KV
	took time.Duration
}

type imageSlot struct {
	once sync.Once
	im   *image
	err  error
}

var (
	imgMu  sync.Mutex
	images = map[string]*imageSlot{}
)

func imageBlock(base int) chainkit.BlockSpec {
	spec := blockSpec(imageSeed, base, 1, false, true)
	spec.Timestamp = imageTime + uint64(base)
	return spec
}

func fillerSpec(n int) chainkit.BlockSpec {
	fixedClasses()
	d := chainkit.EmptyDiff()
	classes := map[felt.Felt]core.ClassDefinition{}
	if n == 0 {
		d.DeclaredV0Classes = append(d.DeclaredV0Classes, &classA, &classB)
		classes[classA] = classADef
		classes[classB] = classBDef
		d.DeployedContracts[contractAddr] = &classA
		d.DeployedContracts[otherAddr] = &classB
	}
	return chainkit.BlockSpec{Version: "0.13.2", Timestamp: imageTime + uint64(n), Diff: d, Classes: classes}
}

// fastAppend stores an EMPTY block (no transactions) through the real Finalise: one state
// computation instead of chainkit's Simulate + SanityCheckNewHeight + Store.
func fastAppend(n *chainkit.Node, spec chainkit.BlockSpec) error {
	parent, oldRoot := &felt.Zero, &felt.Zero
	var number uint64
	if head, err := n.BC.HeadsHeader(); err == nil {
		parent, number, oldRoot = head.Hash, head.Number+1, head.GlobalStateRoot
	}
	g := func(a, b uint64) *core.GasPrice {
		return &core.GasPrice{PriceInWei: chainkit.F(a), PriceInFri: chainkit.F(b)}
	}
	block := &core.Block{
		Header: &core.Header{
			ParentHash: parent, Number: number, SequencerAddress: chainkit.F(0x5e9), Timestamp: spec.Timestamp,
			ProtocolVersion: spec.Version, EventsBloom: core.EventsBloom(nil), L1GasPriceETH: chainkit.F(10 + number),
			L1GasPriceSTRK: chainkit.F(20 + number), L1DataGasPrice: g(30+number, 40+number), L2GasPrice: g(50+number, 60+number),
		},
		Transactions: []core.Transaction{}, Receipts: []*core.TransactionReceipt{},
	}
	return n.BC.Finalise(block, &core.StateUpdate{StateDiff: spec.Diff, OldRoot: oldRoot}, spec.Classes, nil)
}

// getImage: built once per process and image (different images concurrently).
func getImage(base int, newState bool) (*image, error) {
	name := fmt.Sprintf("prune-image-%d-%v.gob", base, newState)
	imgMu.Lock()
	slot, ok := images[name]
	if !ok {
		slot = &imageSlot{}
		images[name] = slot
	}
	imgMu.Unlock()
	slot.once.Do(func() { slot.im, slot.err = buildImage(name, base, newState) })
	return slot.im, slot.err
}

func buildImage(name string, base int, newState bool) (*image, error) {
	path := filepath.Join(vh.Scratch(), name)
	if f, err := os.Open(path); err == nil {
		im := &image{}
		err = gob.NewDecoder(f).Decode(&im.kvs)
		f.Close()
		if err == nil && len(im.kvs) > 0 {
			return im, nil
		}
	}
	t := time.Now()
	mem := memory.New()
	n := chainkit.NewNode(mem, newState)
	for i := 0; i < base; i++ {
		if err := fastAppend(n, fillerSpec(i)); err != nil {
			return nil, fmt.Errorf("image filler %d: %w", i, err)
		}
	}
	if _, err := n.Append(imageBlock(base)); err != nil {
		return nil, fmt.Errorf("image block %d: %w", base, err)
	}
	if _, _, err := pruner.PruneUpto(context.Background(), mem, uint64(base), bigBatch); err != nil {
		return nil, fmt.Errorf("%w: PruneUpto(%d) of a freshly built chain: %v", errOnRealCode, base, err)
	}
	kvs, err := faultkv.Dump(mem)
	if err != nil {
		return nil, err
	}
	im := &image{kvs: kvs, took: time.Since(t)}
	if f, err := os.Create(path + ".tmp"); err == nil {
		if gob.NewEncoder(f).Encode(kvs) == nil && f.Close() == nil {
			_ = os.Rename(path+".tmp", path)
		}
	}
	return im, nil
}

// imageStats: how long the images built by this process took.
func imageStats(out *vh.Result) {
	imgMu.Lock()
	defer imgMu.Unlock()
	for name, slot := range images {
		if slot.im != nil && slot.im.took > 0 {
			out.Stats["built_"+strings.TrimSuffix(name, ".gob")+"_ms"] = int(slot.im.took.Milliseconds())
		}
	}
}

func load(store db.KeyValueStore, kvs []faultkv.KV) error {
	b := store.NewBatch()
	for _, kv := range kvs {
		if err := b.Put(kv.K, kv.V); err != nil {
			return err
		}
	}
	return b.Write()
}

// twinFilter: the twin (the oracle of block, transaction and state reads; its event index is never
// asked) starts from the pruned image as well; so that it does not depend on the initialiser under
// test it gets an empty running window at its head.
func twinFilter(database db.KeyValueStore) (*core.RunningEventFilter, error) {
	h, err := core.GetChainHeight(database)
	if err != nil {
		return nil, err
	}
	f := core.NewAggregatedFilter((h + 1) - (h+1)%core.NumBlocksPerFilter)
	return core.NewRunningEventFilterHot(database, &f, h+1), nil
}

func newWorld(c consts, seed int64, newState bool, backend string) (*world, error) {
	w := &world{c: c, seed: seed, newState: newState, backend: backend,
		built: map[bk]*chainkit.Built{}, byHash: map[felt.Felt]bk{}, ver: map[int]int{}, young: map[int]bool{}}
	if c.W != 0 && uint64(c.W) != core.NumBlocksPerFilter {
		return nil, fmt.Errorf("prune engine: the behaviours were generated for windows of %d blocks, the code has %d", c.W, core.NumBlocksPerFilter)
	}
	for n := c.Base; n <= c.MaxH+2; n++ {
		w.ver[n] = 1
	}
	if backend == "pebble" {
		dir, err := os.MkdirTemp(vh.Scratch(), "prune-pebble-")
		if err != nil {
			return nil, err
		}
		w.dir = dir
		p, err := pebblev2.New(dir)
		if err != nil {
			return nil, err
		}
		w.raw = p
	} else {
		w.raw = memory.New()
	}
	first := 0
	if c.Base > 0 {
		im, err := getImage(c.Base, newState)
		if err != nil {
			return nil, err
		}
		tm := memory.New()
		if err := load(tm, im.kvs); err != nil {
			return nil, err
		}
		if err := load(w.raw, im.kvs); err != nil {
			return nil, err
		}
		w.twin = chainkit.NewNode(tm, newState, blockchain.WithRunningEventFilterInitializer(twinFilter))
		tb, err := w.twin.BC.BlockByNumber(uint64(c.Base))
		if err != nil {
			return nil, fmt.Errorf("prune engine: image block %d: %w", c.Base, err)
		}
		w.note(bk{c.Base, 1}, &chainkit.Built{Block: tb})
		w.ver[c.Base] = 2
		first = c.Base + 1
	} else {
		w.twin = chainkit.NewNode(memory.New(), newState)
	}
	w.fk = faultkv.Wrap(poisonStore{w.raw})
	if err := w.bootNode(); err != nil {
		return nil, err
	}
	if c.Base > 0 {
		// the L1 head that allowed the earlier life to prune up to Base
		if err := w.setL1(c.Base + c.Retained); err != nil {
			return nil, err
		}
	}
	for n := first; n <= c.InitH; n++ {
		if err := w.newBlock(false); err != nil {
			return nil, fmt.Errorf("initial chain block %d: %w", n, err)
		}
	}
	if err := w.calibrate(); err != nil {
		return nil, err
	}
	return w, w.startService()
}

func timeoutErr(where string) error {
	buf := make([]byte, 1<<16)
	n := runtime.Stack(buf, true)
	return fmt.Errorf("%w (%s)\n%s", errTimeout, where, buf[:n])
}

func (w *world) close() {
	if w.svc != nil {
		if err := w.svc.stop(); err != nil {
			panic(err)
		}
	}
	if w.dir != "" {
		if c, ok := w.raw.(interface{ Close() error }); ok {
			_ = c.Close()
		}
		_ = os.RemoveAll(w.dir)
	}
}

// calibrate chooses the byte threshold that makes PruneUpto rotate its batch every PruneBatch
// blocks: measured on a copy of the database with one batch per block.
func (w *world) calibrate() error {
	switch {
	case w.c.PruneBatch <= 1:
		w.batch = 1
		return nil
	case w.c.PruneBatch >= 99:
		w.batch = bigBatch
		return nil
	}
	if w.c.InitH-w.c.Base < 4 {
		return errors.New("prune engine: cannot calibrate the batch threshold on fewer than 5 blocks")
	}
	kvs, err := faultkv.Dump(w.raw)
	if err != nil {
		return err
	}
	m := memory.New()
	var cp db.KeyValueStore = m
	if w.backend == "pebble" {
		dir, err := os.MkdirTemp(vh.Scratch(), "prune-calib-")
		if err != nil {
			return err
		}
		defer os.RemoveAll(dir)
		p, err := pebblev2.New(dir)
		if err != nil {
			return err
		}
		defer p.Close()
		cp = p
	}
	b := cp.NewBatch()
	for _, kv := range kvs {
		_ = b.Put(kv.K, kv.V)
	}
	if err := b.Write(); err != nil {
		return err
	}
	fk := faultkv.Wrap(cp)
	if _, _, err := pruner.PruneUpto(context.Background(), fk, uint64(w.c.Base+4), 1); err != nil {
		return fmt.Errorf("%w: PruneUpto(%d) of a freshly built chain: %v", errOnRealCode, w.c.Base+4, err)
	}
	// trace: batch(S0) batch(S1) batch(S2) batch(S3 without number-by-hash) batch(0) batch(range)
	var sizes []int
	for _, t := range fk.Trace {
		var n int
		if _, err := fmt.Sscanf(t, "batch(%d)", &n); err == nil {
			sizes = append(sizes, n)
		}
	}
	// block 0 is a little smaller (nothing replaced yet), the last one lacks the number-by-hash delete;
	// on an image the first batch also carries the delete of the carve-out mapping of block Base-1
	okFirst := sizes != nil && sizes[0] >= sizes[min(1, len(sizes)-1)]*3/4 && sizes[0] <= sizes[min(1, len(sizes)-1)]
	if w.c.Base > 0 {
		okFirst = sizes != nil && sizes[0] >= sizes[min(1, len(sizes)-1)] && sizes[0] < sizes[min(1, len(sizes)-1)]*5/4
	}
	if len(sizes) != 6 || sizes[1] != sizes[2] || sizes[1] == 0 || !okFirst {
		return fmt.Errorf("prune engine: blocks are not uniform, cannot calibrate: %v", fk.Trace)
	}
	w.batch = sizes[1]*(w.c.PruneBatch-1) + sizes[1]/3
	return nil
}

func (w *world) note(id bk, b *chainkit.Built) {
	w.built[id] = b
	w.byHash[*b.Block.Hash] = id
}

func (w *world) bootNode() error {
	floor, err := pruner.NewRetentionFloor(w.fk)
	if err != nil {
		return err
	}
	w.floor = floor
	w.node = chainkit.NewNode(w.fk, w.newState, blockchain.WithRetentionFloor(floor),
		blockchain.WithRunningEventFilterInitializer(pruner.InitializeRunningEventFilter))
	return nil
}

func (w *world) startService() error {
	s, err := startSvc(w.fk, w.floor, w.c, w.batch)
	if err != nil {
		return err
	}
	w.svc = s
	return nil
}

// restart = the process ends (service goroutine included) and a new one starts on the surviving
// store: new fault wrapper, re-seeded floor, new Blockchain, new pruner service.
func (w *world) restart() error {
	if w.svc != nil {
		if err := w.svc.stop(); err != nil {
			return err
		}
		w.svc = nil
	}
	w.fk = faultkv.Wrap(poisonStore{w.raw})
	if err := w.bootNode(); err != nil {
		return err
	}
	return w.startService()
}

func (w *world) height() int {
	h, err := w.twin.BC.Height()
	if err != nil {
		return -1
	}
	return int(h)
}

func (w *world) nextBlock(young bool) (bk, *chainkit.Built, error) {
	n := w.height() + 1
	parent := &felt.Zero
	if hd, err := w.twin.BC.HeadsHeader(); err == nil {
		parent = hd.Hash
	}
	for {
		id := bk{n, w.ver[n]}
		b, ok := w.built[id]
		if ok && b.Block.ParentHash.Equal(parent) && (b.Block.Timestamp == timestamp(n, young)) {
			return id, b, nil
		}
		if ok {
			w.ver[n]++
			continue
		}
		b, err := w.twin.Build(blockSpec(w.seed, id.N, id.V, young, w.c.PruneBatch == 2))
		if err != nil {
			return id, nil, fmt.Errorf("twin build %v: %w", id, err)
		}
		w.note(id, b)
		return id, b, nil
	}
}

func (w *world) newBlock(young bool) error {
	id, b, err := w.nextBlock(young)
	if err != nil {
		return err
	}
	if err := w.node.StoreBuilt(b); err != nil {
		return fmt.Errorf("node store %v: %w", id, err)
	}
	if err := w.twin.StoreBuilt(b); err != nil {
		return fmt.Errorf("twin store %v: %w", id, err)
	}
	w.ver[id.N]++
	w.young[id.N] = young
	return nil
}

func (w *world) revert() error {
	h := w.height()
	if err := w.node.BC.RevertHead(); err != nil {
		return fmt.Errorf("node revert: %w", err)
	}
	delete(w.young, h)
	return w.twin.BC.RevertHead()
}

func (w *world) setL1(n int) error {
	return w.node.BC.SetL1Head(&core.L1Head{BlockNumber: uint64(n), BlockHash: chainkit.F(uint64(7000 + n)), StateRoot: chainkit.F(uint64(8000 + n))})
}

type opResult struct {
	kind     string // ok | noop | ignored | cancelled | crashed | error | failed
	muts     int
	err      error
	fired    bool
	perMut   []post
	perFloor []int // the in-memory floor as readers see it after each mutation (-1: process dead)
}

func (r opResult) String() string { return fmt.Sprintf("%s(muts=%d, err=%v)", r.kind, r.muts, r.err) }

// deliver hands one event to the service and lets its handler run under the given interruption
// (mode at the k-th durable mutation).  which = "head" | "l1".
func (w *world) deliver(which string, n int, mode faultkv.Mode, k int, eachMut bool) opResult {
	return w.deliver2(which, n, mode, k, 0, eachMut)
}

// deliver2: as deliver, plus (crashAt > k > 0, mode = CancelAfter) a crash after mutation crashAt
// of a prune that was cancelled after mutation k.
func (w *world) deliver2(which string, n int, mode faultkv.Mode, k, crashAt int, eachMut bool) opResult {
	s := w.svc
	s.mu.Lock()
	before, errsBefore := len(s.pruned), len(s.errs)
	s.mu.Unlock()
	var per []post
	var perFloor []int
	base, cancelFired := 0, false
	w.fk.OnWrite = func(i int, _ string) {
		if eachMut {
			per = append(per, w.project())
			if w.fk.Dead() {
				perFloor = append(perFloor, -1)
			} else {
				perFloor = append(perFloor, w.memFloor())
			}
		}
		if crashAt > k && mode == faultkv.CancelAfter && base == 0 && i == k {
			// second stage: the counter restarts with the re-arm
			base = k
			cancelFired = true
			s.cancel() // re-arming drops the wrapper's own cancel hook: fire it here
			w.fk.Arm(faultkv.CrashAfter, crashAt-k, nil)
		}
	}
	w.fk.Arm(mode, k, s.cancel)
	var derr error
	if which == "l1" {
		s.l1Feed.Send(&core.L1Head{BlockNumber: uint64(n), BlockHash: chainkit.F(1), StateRoot: chainkit.F(2)})
	} else {
		hd, err := w.twin.BC.BlockHeaderByNumber(uint64(n))
		if err != nil {
			return opResult{kind: "error", err: err}
		}
		s.headFeed.Send(&core.Block{Header: hd})
	}
	if derr = s.admit(which); derr == nil {
		// settle also returns when the service ends by itself (a fired cancellation)
		if derr = s.settle(); derr == nil && mode == faultkv.CancelAfter && (w.fk.Fired() || cancelFired) {
			derr = s.waitDone()
		}
	}
	r := opResult{muts: base + w.fk.Count(), fired: w.fk.Fired() || cancelFired, perMut: per, perFloor: perFloor}
	dead := w.fk.Dead()
	w.fk.Disarm()
	w.fk.OnWrite = nil
	if derr != nil {
		return opResult{kind: "error", err: derr}
	}
	s.mu.Lock()
	defer s.mu.Unlock()
	switch {
	case dead:
		r.kind = "crashed"
		w.crashedInPrune = true
	case len(s.errs) > errsBefore:
		r.err = s.errs[errsBefore]
		r.kind = "error"
		if errors.Is(r.err, faultkv.ErrInjected) {
			r.kind = "failed"
		}
	case len(s.pruned) == before:
		r.kind = "ignored"
	case s.pruned[before] == 0:
		r.kind = "noop"
	default:
		r.kind = "ok"
	}
	return r
}

// sample lets exactly one timer-driven sampleHeight run.
func (w *world) sample() error {
	if err := w.svc.admit("sample"); err != nil {
		return err
	}
	return w.svc.settle()
}

// ------------------------------------------------------------------ projection

type post struct {
	Height int   `json:"height"`
	L1     int   `json:"l1"`
	Hdr    []int `json:"hdr"`
	Com    []int `json:"com"`
	Su     []int `json:"su"`
	Txs    []int `json:"txs"`
	H2n    []int `json:"h2n"`
	Txl    []int `json:"txl"`
	Hist   []int `json:"hist"`
	Oldest int   `json:"oldest"`
	// first blocks of the persisted aggregated bloom filter windows; a row whose key is not an
	// aligned window [from, from+W-1] appears as -from-1
	Win []int `json:"win"`
}

// windows lists the persisted aggregated bloom filters of a database.
func windows(r db.KeyValueReader) []int {
	out := []int{}
	prefix := db.AggregatedBloomFilters.Key()
	it, err := r.NewIterator(prefix, true)
	if err != nil {
		return []int{-1 << 40}
	}
	defer it.Close()
	for ok := it.First(); ok; ok = it.Next() {
		k := it.Key()
		if !bytes.HasPrefix(k, prefix) {
			continue
		}
		k = k[len(prefix):]
		if len(k) != 16 {
			out = append(out, -1<<41)
			continue
		}
		from, to := binary.BigEndian.Uint64(k[:8]), binary.BigEndian.Uint64(k[8:])
		if from%core.NumBlocksPerFilter != 0 || to != from+core.NumBlocksPerFilter-1 {
			out = append(out, -int(from)-1)
			continue
		}
		out = append(out, int(from))
	}
	sort.Ints(out)
	return out
}

// project reads the durable state from the surviving store in the specification's terms.
// A number appears negated-minus-one when a family holds it only partially.
func (w *world) project() post {
	r := w.raw
	p := post{Height: -1, L1: -1, Hdr: []int{}, Com: []int{}, Su: []int{}, Txs: []int{}, H2n: []int{}, Txl: []int{}, Hist: []int{},
		Win: windows(r)}
	if h, err := core.GetChainHeight(r); err == nil {
		p.Height = int(h)
	}
	if l1, err := core.GetL1Head(r); err == nil {
		p.L1 = int(l1.BlockNumber)
	}
	if o, err := pruner.OldestRetainedBlock(r); err == nil {
		p.Oldest = int(o)
	}
	for n := w.c.lo(); n <= w.c.MaxH; n++ {
		real := uint64(n)
		if _, err := core.GetBlockHeaderByNumber(r, real); err == nil {
			p.Hdr = append(p.Hdr, n)
		}
		if _, err := core.GetBlockCommitmentByBlockNum(r, real); err == nil {
			p.Com = append(p.Com, n)
		}
		if _, err := core.GetStateUpdateByBlockNum(r, real); err == nil {
			p.Su = append(p.Su, n)
		}
		if _, err := core.GetTransactionHashesByBlockNumber(r, real); err == nil {
			p.Txs = append(p.Txs, n)
		}
		// the block of this number on the expected chain (the twin never prunes)
		tb, err := w.twin.BC.BlockByNumber(real)
		if err != nil {
			// below the image's first block only the header (carve-out) is left on the twin
			if th, herr := w.twin.BC.BlockHeaderByNumber(real); herr == nil {
				if num, err := core.GetBlockHeaderNumberByHash(r, th.Hash); err == nil && num == real {
					p.H2n = append(p.H2n, n)
				}
			}
			continue
		}
		if num, err := core.GetBlockHeaderNumberByHash(r, tb.Hash); err == nil && num == real {
			p.H2n = append(p.H2n, n)
		}
		have, want := 0, 0
		for i, tx := range tb.Transactions {
			want++
			bi, err := core.TransactionBlockNumbersAndIndicesByHashBucket.Get(r, (*felt.TransactionHash)(tx.Hash()))
			if err == nil && bi.Number == real && bi.Index == uint64(i) {
				have++
			}
			if l1, ok := tx.(*core.L1HandlerTransaction); ok {
				want++
				if got, err := core.GetL1HandlerTxnHashByMsgHash(r, l1.MessageHash()); err == nil && got.Equal(tx.Hash()) {
					have++
				}
			}
		}
		switch {
		case want == 0:
			// a block without transactions has no lookup rows: the family follows the body row
			if len(p.Txs) > 0 && p.Txs[len(p.Txs)-1] == n {
				p.Txl = append(p.Txl, n)
			}
		case have == want:
			p.Txl = append(p.Txl, n)
		case have > 0:
			p.Txl = append(p.Txl, -n-1)
		}
		if !w.newState {
			hk := [][]byte{
				db.DeprecatedContractStorageHistoryAtBlockKey(&contractAddr, chainkit.F(1), real),
				db.DeprecatedContractStorageHistoryAtBlockKey(&contractAddr, chainkit.F(uint64(2+n%3)), real),
				db.DeprecatedContractNonceHistoryAtBlockKey(&contractAddr, real),
			}
			if n > 0 {
				hk = append(hk, db.DeprecatedContractClassHashHistoryAtBlockKey(&otherAddr, real))
			}
			got := 0
			for _, k := range hk {
				if ok, _ := r.Has(k); ok {
					got++
				}
			}
			switch {
			case got == len(hk):
				p.Hist = append(p.Hist, n)
			case got > 0:
				p.Hist = append(p.Hist, -n-1)
			}
		}
	}
	return p
}

// memFloor observes the shared in-memory retention floor through the reader it guards.
func (w *world) memFloor() int {
	h, err := w.node.BC.Height()
	if err != nil {
		return 0
	}
	for n := uint64(w.c.lo()); n <= h; n++ {
		_, closer, err := w.node.BC.StateAtBlockNumber(n)
		if err == nil {
			_ = closer()
			return int(n)
		}
	}
	return int(h) + 1
}

// ------------------------------------------------------------------ retained results
// Values handed out by the readers must not change afterwards (pooled objects, shared maps,
// aliased buffers): each is kept together with its encoding taken at return time and re-encoded
// after every later operation.
type kept struct {
	what string
	val  any
	enc  string
}

func encOf(v any) string { return fmt.Sprintf("%+v", reflectDeref(v)) }

// reflectDeref renders pointers by value, recursively (fmt prints nested pointers as addresses).
func reflectDeref(v any) any {
	b, err := encoder.Marshal(v)
	if err == nil {
		return b
	}
	return fmt.Sprintf("%#v", v)
}

func (w *world) keep(what string, v any, err error) {
	if err != nil || v == nil {
		return
	}
	w.retained = append(w.retained, kept{what, v, encOf(v)})
}

// retain reads the head and the oldest retained block through the node and keeps the results.
func (w *world) retain() {
	h, err := w.node.BC.Height()
	if err != nil || len(w.retained) > 60 {
		return
	}
	o, _ := pruner.OldestRetainedBlock(w.raw)
	for _, n := range []uint64{h, o} {
		hd, e1 := w.node.BC.BlockHeaderByNumber(n)
		w.keep(fmt.Sprintf("header(%d)", n), hd, e1)
		su, e2 := w.node.BC.StateUpdateByNumber(n)
		w.keep(fmt.Sprintf("state-update(%d)", n), su, e2)
		txs, rcs, e3 := w.node.BC.TransactionsAndReceiptsByBlockNumber(n)
		for i := range txs {
			w.keep(fmt.Sprintf("tx(%d,%d)", n, i), txs[i], e3)
			w.keep(fmt.Sprintf("receipt(%d,%d)", n, i), rcs[i], e3)
		}
		cm, e4 := w.node.BC.BlockCommitmentsByNumber(n)
		w.keep(fmt.Sprintf("commitments(%d)", n), cm, e4)
	}
}

func (w *world) checkRetained(add adder) {
	for _, k := range w.retained {
		if encOf(k.val) != k.enc {
			add("aliasing:"+strings.SplitN(k.what, "(", 2)[0], fmt.Sprintf("%s returned earlier changed after later calls", k.what))
		}
	}
}

// ------------------------------------------------------------------ monitors (twin = oracle)

type violation struct {
	sym    string
	detail string
}

type adder func(sym, detail string)

func errClass(err error) string {
	switch {
	case err == nil:
		return "ok"
	case errors.Is(err, db.ErrKeyNotFound):
		return "notfound"
	case errors.Is(err, pruner.ErrBlockPruned):
		return "pruned"
	default:
		return "error:" + err.Error()
	}
}

// cmpRead: retained = the answer must equal the twin's; otherwise (below the floor) it must be
// "not found"/"pruned" or equal the twin's — never an error of another kind, never other data.
func cmpRead(add adder, zone, fam string, n uint64, retained bool, got any, gerr error, want any, werr error) {
	if werr != nil {
		return // the oracle has no such row
	}
	if gerr == nil {
		if !reflect.DeepEqual(got, want) {
			add(zone+":"+fam+":wrong-data", fmt.Sprintf("block %d: %s answers with different data than the unpruned twin", n, fam))
		}
		return
	}
	cls := errClass(gerr)
	if retained {
		add(zone+":"+fam+":"+strings.SplitN(cls, ":", 2)[0], fmt.Sprintf("block %d: %s fails with %v on a retained block", n, fam, gerr))
		return
	}
	if cls != "notfound" && cls != "pruned" {
		add(zone+":"+fam+":error", fmt.Sprintf("block %d: %s fails with %v (neither pruned nor not found)", n, fam, gerr))
	}
}

func (w *world) sweepBlock(bc *blockchain.Blockchain, store db.KeyValueReader, n uint64, retained bool, add adder) {
	zone := "below-floor"
	if retained {
		zone = "retained"
	}
	tw := w.twin.BC
	th, terr := tw.BlockHeaderByNumber(n)
	if terr != nil {
		return
	}
	tb, berr := tw.BlockByNumber(n)
	if berr != nil {
		return // below the first block of an image the twin has the carved-out header only
	}
	tsu, _ := tw.StateUpdateByNumber(n)
	tc, _ := tw.BlockCommitmentsByNumber(n)
	a1, e1 := bc.BlockHeaderByNumber(n)
	cmpRead(add, zone, "header", n, retained, a1, e1, th, nil)
	a2, e2 := bc.BlockHeaderByHash(th.Hash)
	cmpRead(add, zone, "header-by-hash", n, retained, a2, e2, th, nil)
	a3, e3 := bc.BlockNumberByHash(th.Hash)
	cmpRead(add, zone, "number-by-hash", n, retained, a3, e3, n, nil)
	a4, e4 := bc.BlockByNumber(n)
	cmpRead(add, zone, "block", n, retained, a4, e4, tb, nil)
	a5, e5 := bc.BlockByHash(th.Hash)
	cmpRead(add, zone, "block-by-hash", n, retained, a5, e5, tb, nil)
	a6, e6 := bc.StateUpdateByNumber(n)
	cmpRead(add, zone, "state-update", n, retained, a6, e6, tsu, nil)
	a7, e7 := bc.StateUpdateByHash(th.Hash)
	cmpRead(add, zone, "state-update-by-hash", n, retained, a7, e7, tsu, nil)
	a8, e8 := bc.BlockCommitmentsByNumber(n)
	cmpRead(add, zone, "commitments", n, retained, a8, e8, tc, nil)
	a9, e9 := bc.TransactionHashesByBlockNumber(n)
	t9, _ := tw.TransactionHashesByBlockNumber(n)
	cmpRead(add, zone, "tx-hashes", n, retained, a9, e9, t9, nil)
	a10, e10 := bc.BlockTransactionCountByNumber(n)
	cmpRead(add, zone, "tx-count", n, retained, a10, e10, th.TransactionCount, nil)
	for i, tx := range tb.Transactions {
		b1, f1 := bc.TransactionByHash(tx.Hash())
		cmpRead(add, zone, "tx-by-hash", n, retained, b1, f1, tx, nil)
		bn, ix, f2 := bc.BlockNumberAndIndexByTxHash((*felt.TransactionHash)(tx.Hash()))
		cmpRead(add, zone, "tx-lookup", n, retained, []uint64{bn, ix}, f2, []uint64{n, uint64(i)}, nil)
		b3, f3 := bc.TransactionByBlockNumberAndIndex(n, uint64(i))
		cmpRead(add, zone, "tx-by-index", n, retained, b3, f3, tx, nil)
		rc, bh, rn, f4 := bc.Receipt(tx.Hash())
		type rcpt struct {
			R *core.TransactionReceipt
			H felt.Felt
			N uint64
		}
		var got rcpt
		if f4 == nil {
			got = rcpt{rc, *bh, rn}
		}
		cmpRead(add, zone, "receipt", n, retained, got, f4, rcpt{tb.Receipts[i], *th.Hash, n}, nil)
		st, f5 := bc.TransactionExecutionStatusByBlockNumberAndIndex(n, uint64(i))
		t5, _ := tw.TransactionExecutionStatusByBlockNumberAndIndex(n, uint64(i))
		cmpRead(add, zone, "tx-status", n, retained, st, f5, t5, nil)
		if l1, ok := tx.(*core.L1HandlerTransaction); ok {
			g, f6 := core.GetL1HandlerTxnHashByMsgHash(store, l1.MessageHash())
			cmpRead(add, zone, "l1-msg-lookup", n, retained, g, f6, *tx.Hash(), nil)
		}
	}
	// state by hash: retained blocks must answer; the block below the floor may or may not resolve
	if w.noStateByHash {
		return
	}
	if st, closer, err := bc.StateAtBlockHash(th.Hash); err == nil {
		if tst, tcl, terr := tw.StateAtBlockNumber(n); terr == nil && (w.c.Base == 0 || n+1 == w.oldestOr(n+1)) {
			w.cmpState(zone+":state-by-hash", n, st, tst, add)
			_ = tcl()
		}
		_ = closer()
	} else if retained {
		add("retained:state-by-hash:"+strings.SplitN(errClass(err), ":", 2)[0], fmt.Sprintf("state at the hash of block %d: %v", n, err))
	}
}

// deepState: on an image (Base > 0) the database holds 8 MB aggregated filters, and every read of
// the legacy state history copies the whole memory database (its batch iterator): there the VALUES
// of historical state are compared one block below and at the oldest retained block and at the head
// only, three of them each (that every other block's state is served or refused as it must is still
// checked, and the scenarios from genesis compare every value of every block).
func (w *world) deepState(n uint64) bool {
	if w.c.Base == 0 {
		return true
	}
	o, err := pruner.OldestRetainedBlock(w.raw)
	h, herr := core.GetChainHeight(w.raw)
	return err != nil || herr != nil || n+1 == o || n == o || n == h
}

func (w *world) oldestOr(d uint64) uint64 {
	if o, err := pruner.OldestRetainedBlock(w.raw); err == nil {
		return o
	}
	return d
}

func (w *world) cmpState(sym string, n uint64, a, b core.StateReader, add adder) {
	if !w.deepState(n) {
		return
	}
	chk := func(what string, va, vb felt.Felt, ea, eb error) {
		if (ea == nil) != (eb == nil) {
			add(sym+":error", fmt.Sprintf("state at %d, %s: node err %v, twin err %v", n, what, ea, eb))
		} else if !va.Equal(&vb) {
			add(sym+":wrong-value", fmt.Sprintf("state at %d, %s: node answers %s, the unpruned twin %s", n, what, va.String(), vb.String()))
		}
	}
	slots := []uint64{1, 2, 3, 4}
	if w.c.Base > 0 {
		slots = slots[:1]
	}
	for _, slot := range slots {
		va, ea := a.ContractStorage(&contractAddr, chainkit.F(slot))
		vb, eb := b.ContractStorage(&contractAddr, chainkit.F(slot))
		chk(fmt.Sprintf("storage slot %d", slot), va, vb, ea, eb)
	}
	na, ea := a.ContractNonce(&contractAddr)
	nb, eb := b.ContractNonce(&contractAddr)
	chk("nonce", na, nb, ea, eb)
	ca, ea := a.ContractClassHash(&otherAddr)
	cb, eb := b.ContractClassHash(&otherAddr)
	chk("class hash", ca, cb, ea, eb)
	if _, err := a.Class(&classA); err != nil {
		add(sym+":class", fmt.Sprintf("state at %d: class definition: %v", n, err))
	}
}

func (w *world) query(bc *blockchain.Blockchain, from, to uint64) ([]bk, error) {
	var ids []bk
	for id := range w.built {
		ids = append(ids, id)
	}
	sort.Slice(ids, func(i, j int) bool { return ids[i].N < ids[j].N || (ids[i].N == ids[j].N && ids[i].V < ids[j].V) })
	var out []bk
	for _, id := range ids {
		f, err := bc.EventFilter(nil, [][]felt.Felt{{eventKey(id.N, id.V)}}, noPreConf)
		if err != nil {
			return nil, err
		}
		_ = f.SetRangeEndBlockByNumber(blockchain.EventFilterFrom, from)
		_ = f.SetRangeEndBlockByNumber(blockchain.EventFilterTo, to)
		evs, _, err := f.Events(nil, 100000)
		_ = f.Close()
		if err != nil {
			return nil, err
		}
		for _, e := range evs {
			if int(e.BlockNumber) == id.N {
				out = append(out, id)
			} else {
				out = append(out, bk{id.N, -id.V})
			}
		}
	}
	return out, nil
}

// naive: the events of the blocks [from, to] as a scan of the twin's receipts yields them.
type evRef struct {
	Block, Tx, Ev int
	Key           string
}

func (w *world) naive(from, to uint64) []evRef {
	out := []evRef{}
	for n := from; n <= to; n++ {
		b, err := w.twin.BC.BlockByNumber(n)
		if err != nil {
			continue
		}
		for ti, rc := range b.Receipts {
			for ei, e := range rc.Events {
				out = append(out, evRef{int(n), ti, ei, e.Keys[0].String()})
			}
		}
	}
	return out
}

// scan: an UNFILTERED event query over [from, to] in chunks (continuation tokens), as references.
func (w *world) scan(bc *blockchain.Blockchain, from, to uint64, chunk uint64) ([]evRef, error) {
	out := []evRef{}
	var tok *blockchain.ContinuationToken
	for page := 0; page < 1000; page++ {
		f, err := bc.EventFilter(nil, nil, noPreConf)
		if err != nil {
			return nil, err
		}
		_ = f.SetRangeEndBlockByNumber(blockchain.EventFilterFrom, from)
		_ = f.SetRangeEndBlockByNumber(blockchain.EventFilterTo, to)
		evs, next, err := f.Events(tok, chunk)
		_ = f.Close()
		if err != nil {
			return nil, err
		}
		for _, e := range evs {
			k := ""
			if len(e.Keys) > 0 {
				k = e.Keys[0].String()
			}
			out = append(out, evRef{int(e.BlockNumber), int(e.TransactionIndex), int(e.EventIndex), k})
		}
		if next.IsEmpty() {
			return out, nil
		}
		n := next
		tok = &n
	}
	return nil, errors.New("event query does not terminate (1000 pages)")
}

// eventMonitors: the retained range answers exactly (filtered by every block's own key, and
// unfiltered in one piece and in chunks, over the whole range and over every range that starts or
// ends at the oldest retained block's neighbours); a range starting below is reported as pruned.
func (w *world) eventMonitors(bc *blockchain.Blockchain, oldest, th uint64, add adder) {
	found, qerr := w.query(bc, oldest, th)
	if qerr != nil {
		add("events:retained-range:"+strings.SplitN(errClass(qerr), ":", 2)[0], fmt.Sprintf("filtered event queries over the retained blocks [%d, %d] fail: %v", oldest, th, qerr))
	} else {
		want := []bk{}
		for n := oldest; n <= th; n++ {
			h, _ := w.twin.BC.BlockHeaderHashByNumber(n)
			if id := w.byHash[*h]; len(w.built[id].Block.Transactions) > 0 {
				want = append(want, id)
			}
		}
		if !reflect.DeepEqual(append([]bk{}, found...), want) {
			add("events:mismatch", fmt.Sprintf("got %v want %v", found, want))
		}
	}
	type rng struct{ from, to uint64 }
	ranges := []rng{{oldest, th}, {oldest, oldest}, {oldest, min(oldest+1, th)}, {min(oldest+1, th), th}, {th, th}}
	for i, r := range ranges {
		for _, chunk := range []uint64{100000, 1, 3} {
			if i > 0 && chunk == 3 {
				continue
			}
			got, err := w.scan(bc, r.from, r.to, chunk)
			if err != nil {
				add("events:retained-range:"+strings.SplitN(errClass(err), ":", 2)[0], fmt.Sprintf("unfiltered event query over the retained blocks [%d, %d] (oldest retained %d, head %d, chunks of %d) fails: %v", r.from, r.to, oldest, th, chunk, err))
				break
			}
			if want := w.naive(r.from, r.to); !reflect.DeepEqual(got, want) {
				add("events:scan-mismatch", fmt.Sprintf("unfiltered query over [%d, %d] (oldest retained %d, chunks of %d): got %v, a scan of the receipts gives %v", r.from, r.to, oldest, chunk, got, want))
				break
			}
		}
	}
	if oldest > 0 {
		if _, err := w.query(bc, oldest-1, th); !errors.Is(err, pruner.ErrBlockPruned) {
			add("events:below-floor-not-reported-pruned", fmt.Sprintf("query from block %d: %v", oldest-1, err))
		}
		if _, err := w.scan(bc, oldest-1, th, 100000); !errors.Is(err, pruner.ErrBlockPruned) {
			add("events:below-floor-not-reported-pruned", fmt.Sprintf("unfiltered query from block %d: %v", oldest-1, err))
		}
	}
}

// evaluate: every monitor of the property on the live node.  wantFloor is the floor the
// specification says the process serves state from (-1: do not check the lower bound).
// w.lazyIndex: the specification's running event filter is not initialised yet (a restart without
// a first use): nothing that would initialise it is asked.
func (w *world) evaluate(wantFloor int, floorBound bool) []violation {
	var out []violation
	add := func(sym, detail string) {
		for _, v := range out {
			if v.sym == sym {
				return
			}
		}
		out = append(out, violation{sym, detail})
	}
	bc, store := w.node.BC, w.raw
	th, terr := w.twin.BC.Height()
	nh, nerr := bc.Height()
	if (terr == nil) != (nerr == nil) || th != nh {
		add("height", fmt.Sprintf("node height %d (%v), twin %d (%v)", nh, nerr, th, terr))
		return out
	}
	if terr != nil {
		return out
	}
	oldest, err := pruner.OldestRetainedBlock(store)
	if err != nil {
		add("oldest", err.Error())
		return out
	}
	// the floor arithmetic, measured on the real database
	if oldest > 0 && floorBound {
		l1, err := core.GetL1Head(store)
		if err != nil || oldest+uint64(w.c.Retained) > min(l1.BlockNumber, th) {
			add("floor:above-min-l1-head-minus-retained", fmt.Sprintf("oldest retained %d, retained %d, L1 head %d (%v), head %d", oldest, w.c.Retained, l1.BlockNumber, err, th))
		}
		if w.c.MinAge {
			for n := uint64(w.c.lo()); n < oldest; n++ {
				if w.young[int(n)] {
					add("floor:younger-than-min-age", fmt.Sprintf("block %d is younger than the minimum age but was pruned (oldest retained %d)", n, oldest))
				}
			}
		}
	}
	for n := uint64(w.c.lo()); n <= th; n++ {
		w.sweepBlock(bc, store, n, n >= oldest, add)
	}
	// state by number: whatever is served must be right; from wantFloor up it must be served
	for n := uint64(w.c.lo()); n <= th; n++ {
		st, closer, err := bc.StateAtBlockNumber(n)
		if err != nil {
			if wantFloor >= 0 && int(n) >= wantFloor {
				add("state-by-number:refused-above-floor", fmt.Sprintf("state at %d refused (%v) although the floor is %d", n, err, wantFloor))
			} else if !errors.Is(err, db.ErrKeyNotFound) && !errors.Is(err, pruner.ErrBlockPruned) {
				add("state-by-number:error", fmt.Sprintf("state at %d: %v", n, err))
			}
			continue
		}
		if tst, tcl, terr := w.twin.BC.StateAtBlockNumber(n); terr == nil {
			w.cmpState("state-by-number", n, st, tst, add)
			_ = tcl()
		}
		_ = closer()
	}
	if st, closer, err := bc.HeadState(); err != nil {
		add("head-state", err.Error())
	} else {
		tst, tcl, _ := w.twin.BC.HeadState()
		w.cmpState("head-state", th, st, tst, add)
		_ = tcl()
		_ = closer()
	}
	if !w.lazyIndex {
		w.eventMonitors(bc, oldest, th, add)
	}
	w.checkRetained(add)
	w.retain()
	return out
}

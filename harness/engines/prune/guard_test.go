// guard_test.go: verdict hygiene shared by the tests of this engine.
//   - a panic raised INSIDE juno code while the test goroutine drives it is an observation on the
//     real code: keyed divergence crash:<function> (a panic of the harness itself stays a
//     machinery error = exit 2, unless divergences were already recorded);
//   - a deadline handed over by the driver: when it expires the result recorded so far is written
//     out — violations already observed are reported, a hang is never able to hide them.
package prune

import (
	"fmt"
	"os"
	"runtime"
	"strings"
	"sync"
	"time"

	"verifharness/internal/vh"
)

var (
	guardMu      sync.Mutex
	currentInput any // the narrowed input of the behaviour / trial being run (for a replay file)
)

func setCurrent(in any) {
	guardMu.Lock()
	currentInput = in
	guardMu.Unlock()
}

func getCurrent() any {
	guardMu.Lock()
	defer guardMu.Unlock()
	return currentInput
}

// junoPanicSite: called from a deferred function of a panicking goroutine; the first frame below
// the runtime's panic machinery tells whose code panicked.
func junoPanicSite() string {
	pcs := make([]uintptr, 96)
	n := runtime.Callers(2, pcs)
	frames := runtime.CallersFrames(pcs[:n])
	seenPanic := false
	for {
		f, more := frames.Next()
		fn := f.Function
		switch {
		case strings.HasPrefix(fn, "runtime."):
			if strings.Contains(fn, "panic") || strings.Contains(fn, "sigpanic") {
				seenPanic = true
			}
		case !seenPanic:
			// still inside the deferred functions
		case strings.Contains(fn, "verifharness/"):
			return ""
		case strings.Contains(fn, "github.com/NethermindEth/juno/"):
			return fn[strings.LastIndex(fn, "/")+1:]
		case fn != "":
			// a library called by juno or by the harness: keep looking for the owner
		}
		if !more {
			return ""
		}
	}
}

// machinery must be deferred AFTER out.Write (so that it runs before it).
func machinery(out *vh.Result) {
	if r := recover(); r != nil {
		if fn := junoPanicSite(); fn != "" {
			out.Diverge(vh.Divergence{Key: "crash:" + fn, Input: getCurrent(),
				What: fmt.Sprintf("the real code panicked while the engine drove it: %v in %s", r, fn)})
			return
		}
		out.Stats["machinery_error"] = fmt.Sprint(r)
		panic(r)
	}
}

// startDeadline: after sec seconds the result recorded so far is written and the process ends.
func startDeadline(out *vh.Result, sec int) {
	if sec <= 0 {
		return
	}
	go func() {
		time.Sleep(time.Duration(sec) * time.Second)
		out.Stats["machinery_error"] = fmt.Sprintf("deadline of %d s expired (a hang of the harness or of the real code)", sec)
		_ = out.Write()
		os.Exit(3)
	}()
}

// parallel runs job(0..n-1) on `workers` goroutines, each job recording into a Result of its own;
// these are folded into out in JOB ORDER as soon as all earlier jobs have ended (what the engine
// reports does not depend on the scheduling, and a deadline still finds the finished jobs' results
// in out).  A panic inside juno code becomes a keyed divergence of that job (replay input:
// input(i)); a panic of the harness itself is re-raised on the calling goroutine once all jobs
// have ended.
func parallel(out *vh.Result, n, workers int, input func(i int) any, job func(i int, sub *vh.Result)) {
	subs := make([]*vh.Result, n)
	done := make([]bool, n)
	var (
		wg       sync.WaitGroup
		mu       sync.Mutex
		next     int
		flushed  int
		harnessP any
	)
	for g := 0; g < min(workers, n); g++ {
		wg.Add(1)
		go func() {
			defer wg.Done()
			for {
				mu.Lock()
				i := next
				next++
				stop := harnessP != nil
				mu.Unlock()
				if i >= n || stop {
					return
				}
				sub := vh.NewResult()
				func() {
					defer func() {
						if r := recover(); r != nil {
							if fn := junoPanicSite(); fn != "" {
								sub.Diverge(vh.Divergence{Key: "crash:" + fn, Input: input(i),
									What: fmt.Sprintf("the real code panicked while the engine drove it: %v in %s", r, fn)})
								return
							}
							mu.Lock()
							if harnessP == nil {
								harnessP = r
							}
							mu.Unlock()
						}
					}()
					job(i, sub)
				}()
				mu.Lock()
				subs[i], done[i] = sub, true
				for flushed < n && done[flushed] {
					merge(out, subs[flushed])
					flushed++
				}
				mu.Unlock()
			}
		}()
	}
	wg.Wait()
	if harnessP != nil {
		panic(harnessP)
	}
}

func merge(out *vh.Result, s *vh.Result) {
	for _, d := range s.Divergences {
		out.Diverge(d)
	}
	for _, x := range s.Samples {
		out.Sample(x)
	}
	for k, v := range s.Stats {
		if n, ok := v.(int); ok {
			out.Count(k, n)
		}
	}
}

// Typed parameters (spec/jsonrpc/JsonRpc.tla, TypeClass): the Go parameter types jsonrpc/server.go
// treats differently in parseParam / validateParam - value struct with validate tags, pointer to it,
// pointer to a scalar, slice of structs, slice / map of struct pointers, types with their own
// UnmarshalJSON (the REAL rpc/v10 parameter types BlockID, SubscriptionBlockID, ResponseFlags,
// EventArgs) - on servers built with the production validator (rpcv10.Validator()) and without one.
//
// For every slot type this file has
//   - a generator: abstract token (p / inv / nin / bad / nul) -> JSON text + the canonical text of
//     the Go value the handler is owed (built by hand, not by decoding the text);
//   - canon(): Go value -> canonical text (what the recording handlers log and echo);
//   - the abstraction: JSON text -> token + canonical text, by encoding/json into the Go type (the
//     classification oracle of this engine is encoding/json, never jsonrpc/server.go) and
//     hand-written tag predicates (never the validator library).
package jsonrpc

import (
	"encoding/json"
	"fmt"
	"math"
	"math/big"
	"reflect"
	"sort"
	"strconv"
	"strings"

	"github.com/NethermindEth/juno/core/felt"
	rpcv10 "github.com/NethermindEth/juno/rpc/v10"
)

// the shape of rpcv10.ResourceBounds / MsgFromL1 / BroadcastedTransaction: required fields, a nested
// struct, an optional nested struct pointer, a list the validator dives into
type tInner struct {
	N int64 `json:"n" validate:"required"`
}

// tPlain has no tags of its own: a zero tPlain violates the `required` of the field holding it only under
// validator.WithRequiredStructEnabled() (rpc/v10/validator.go)
type tPlain struct {
	V int64 `json:"v"`
}

type tStruct struct {
	N     int64    `json:"n" validate:"required"`
	Tag   tPlain   `json:"tag" validate:"required"`
	S     string   `json:"s"`
	Inner tInner   `json:"inner" validate:"required"`
	Opt   *tInner  `json:"opt"`
	List  []tInner `json:"list" validate:"dive"`
}

// model method -> the concrete types of its two slots
var slotTypes = map[string][2]string{
	"ts": {"tstruct", "ptstruct"},
	"tp": {"psubid", "pint"},
	"tl": {"ltstruct", "mptstruct"},
	"tc": {"pblockid", "respflags"},
	"tq": {"lptstruct", "blockid"},
	"te": {"peventargs", "ptstruct"},
	"tr": {"rbmap", "prbounds"},
}

// which slots are optional (MCMethods in spec/jsonrpc/MCJsonRpc.tla)
var slotOptional = map[string][2]bool{
	"ts": {false, true}, "tp": {true, true}, "tl": {false, true}, "tc": {false, true}, "tq": {true, true},
	"te": {false, true}, "tr": {false, true},
}

var goTypes = map[string]reflect.Type{
	"tstruct":    reflect.TypeOf(tStruct{}),
	"ptstruct":   reflect.TypeOf((*tStruct)(nil)),
	"pint":       reflect.TypeOf((*int64)(nil)),
	"ltstruct":   reflect.TypeOf([]tStruct(nil)),
	"lptstruct":  reflect.TypeOf([]*tStruct(nil)),
	"mptstruct":  reflect.TypeOf(map[string]*tStruct(nil)),
	"blockid":    reflect.TypeOf(rpcv10.BlockID{}),
	"pblockid":   reflect.TypeOf((*rpcv10.BlockID)(nil)),
	"psubid":     reflect.TypeOf((*rpcv10.SubscriptionBlockID)(nil)),
	"respflags":  reflect.TypeOf(rpcv10.ResponseFlags{}),
	"peventargs": reflect.TypeOf((*rpcv10.EventArgs)(nil)),
	"rbmap":      reflect.TypeOf(rpcv10.ResourceBoundsMap{}),
	"prbounds":   reflect.TypeOf((*rpcv10.ResourceBounds)(nil)),
}

// concrete slot type -> type class of the specification (TypeClass in JsonRpc.tla)
var classOf = map[string]string{
	"tstruct": "struct", "ptstruct": "pstruct", "pint": "pint", "ltstruct": "slice", "lptstruct": "lsp",
	"mptstruct": "mapp", "blockid": "custom", "pblockid": "pcustom", "psubid": "pcustom", "respflags": "flags",
	"peventargs": "pstruct", "rbmap": "struct", "prbounds": "pstruct",
}

func isTyped(m string) bool { _, ok := slotTypes[m]; return ok }

// nullForRequiredPointer: the class of the first REQUIRED pointer slot the entry gives a JSON null for ("" if none)
func nullForRequiredPointer(e absEntry) string {
	st, ok := slotTypes[e.Meth]
	if !ok {
		return ""
	}
	toks := []string{"-", "-"}
	switch e.Params.K {
	case "pos":
		copy(toks, e.Params.Pos)
	case "named":
		toks[0], toks[1] = e.Params.A, e.Params.B
	}
	for j, t := range toks {
		if t == "nul" && !slotOptional[e.Meth][j] && goTypes[st[j]].Kind() == reflect.Pointer {
			return classOf[st[j]]
		}
	}
	return ""
}

// ---------------------------------------------------------------------------- canonical texts

func canonInner(p *tInner) string {
	if p == nil {
		return "nil"
	}
	return strconv.FormatInt(p.N, 10)
}

func canonTS(s *tStruct) string {
	if s == nil {
		return "nil"
	}
	l := make([]string, 0, len(s.List))
	for i := range s.List {
		l = append(l, strconv.FormatInt(s.List[i].N, 10))
	}
	return fmt.Sprintf("{n:%d tag:%d s:%q inner:%d opt:%s list:[%s]}", s.N, s.Tag.V, s.S, s.Inner.N, canonInner(s.Opt), strings.Join(l, " "))
}

func canonBlockID(b *rpcv10.BlockID) string {
	switch {
	case b == nil:
		return "nil"
	case b.IsLatest():
		return "latest"
	case b.IsPreConfirmed():
		return "pre_confirmed"
	case b.IsL1Accepted():
		return "l1_accepted"
	case b.IsNumber():
		return "num:" + strconv.FormatUint(b.Number(), 10)
	case b.IsHash():
		return "hash:" + b.Hash().String()
	default:
		return "blockid-zero"
	}
}

func canonEventArgs(e *rpcv10.EventArgs) string {
	if e == nil {
		return "nil"
	}
	addr := make([]string, 0, len(e.Address))
	for i := range e.Address {
		addr = append(addr, e.Address[i].String())
	}
	keys := make([]string, 0, len(e.Keys))
	for _, ks := range e.Keys {
		one := make([]string, 0, len(ks))
		for i := range ks {
			one = append(one, ks[i].String())
		}
		keys = append(keys, "["+strings.Join(one, " ")+"]")
	}
	return fmt.Sprintf("ev{from:%s to:%s addr:[%s] keys:[%s] chunk:%d tok:%q}", canonBlockID(e.FromBlock), canonBlockID(e.ToBlock),
		strings.Join(addr, " "), strings.Join(keys, " "), e.ChunkSize, e.ContinuationToken)
}

func canonFelt(f *felt.Felt) string {
	if f == nil {
		return "nil"
	}
	return f.String()
}

func canonRB(r *rpcv10.ResourceBounds) string {
	if r == nil {
		return "nil"
	}
	return "rb{amt:" + canonFelt(r.MaxAmount) + " price:" + canonFelt(r.MaxPricePerUnit) + "}"
}

// canonValue: the canonical text of a handler argument of concrete slot type cty.
func canonValue(cty string, v any) string {
	switch x := v.(type) {
	case tStruct:
		return canonTS(&x)
	case *tStruct:
		return canonTS(x)
	case *int64:
		if x == nil {
			return "nil"
		}
		return strconv.FormatInt(*x, 10)
	case []tStruct:
		if x == nil {
			return "nil"
		}
		l := make([]string, 0, len(x))
		for i := range x {
			l = append(l, canonTS(&x[i]))
		}
		return "[" + strings.Join(l, " ") + "]"
	case []*tStruct:
		if x == nil {
			return "nil"
		}
		l := make([]string, 0, len(x))
		for i := range x {
			l = append(l, canonTS(x[i]))
		}
		return "[" + strings.Join(l, " ") + "]"
	case map[string]*tStruct:
		if x == nil {
			return "nil"
		}
		ks := make([]string, 0, len(x))
		for k := range x {
			ks = append(ks, k)
		}
		sort.Strings(ks)
		l := make([]string, 0, len(x))
		for _, k := range ks {
			l = append(l, fmt.Sprintf("%q:%s", k, canonTS(x[k])))
		}
		return "map[" + strings.Join(l, " ") + "]"
	case rpcv10.BlockID:
		return canonBlockID(&x)
	case *rpcv10.BlockID:
		return canonBlockID(x)
	case *rpcv10.SubscriptionBlockID:
		return canonBlockID((*rpcv10.BlockID)(x))
	case rpcv10.ResponseFlags:
		return fmt.Sprintf("flags:%v", x.IncludeProofFacts)
	case *rpcv10.EventArgs:
		return canonEventArgs(x)
	case rpcv10.ResourceBoundsMap:
		return "rbm{l1:" + canonRB(&x.L1Gas) + " l2:" + canonRB(&x.L2Gas) + " l1d:" + canonRB(&x.L1DataGas) + "}"
	case *rpcv10.ResourceBounds:
		return canonRB(x)
	}
	return fmt.Sprintf("?%s:%T", cty, v)
}

func zeroCanon(cty string) string { return canonValue(cty, reflect.Zero(goTypes[cty]).Interface()) }

func typedArgs(m string, a, b any) string {
	st := slotTypes[m]
	return "a=" + canonValue(st[0], a) + " b=" + canonValue(st[1], b)
}

// argCanon: the canonical text the handler is owed for an argument token of the specification.
func argCanon(cty, tok, supplied string) string {
	switch tok {
	case "nil":
		return "nil"
	case "zero":
		return zeroCanon(cty)
	default:
		return supplied
	}
}

// typedPK: key material - how the params were given, with every slot whose token is not a plain value.
func typedPK(e absEntry) string {
	st, ok := slotTypes[e.Meth]
	if !ok {
		return e.Params.K
	}
	a, b := "-", "-"
	switch e.Params.K {
	case "pos":
		if len(e.Params.Pos) > 0 {
			a = e.Params.Pos[0]
		}
		if len(e.Params.Pos) > 1 {
			b = e.Params.Pos[1]
		}
	case "named":
		a, b = e.Params.A, e.Params.B
	default:
		return e.Params.K
	}
	var xs []string
	if a != "-" && a != "p" {
		xs = append(xs, "a:"+classOf[st[0]]+"="+a)
	}
	if b != "-" && b != "p" {
		xs = append(xs, "b:"+classOf[st[1]]+"="+b)
	}
	return e.Params.K + "(" + strings.Join(xs, ",") + ")"
}

// ---------------------------------------------------------------------------- tag predicates (by hand)

func tsOK(s *tStruct) bool {
	if s.N == 0 || s.Tag.V == 0 || s.Inner.N == 0 || (s.Opt != nil && s.Opt.N == 0) {
		return false
	}
	for i := range s.List {
		if s.List[i].N == 0 {
			return false
		}
	}
	return true
}

// rbOK: rpcv10.ResourceBounds' tags - both felts required, max_amount within 64 bits, max_price_per_unit within 128
func rbOK(r *rpcv10.ResourceBounds) bool {
	bits := func(f *felt.Felt) int { return f.BigInt(new(big.Int)).BitLen() }
	return r.MaxAmount != nil && r.MaxPricePerUnit != nil && bits(r.MaxAmount) <= 64 && bits(r.MaxPricePerUnit) <= 128
}

// inspectTyped: canonical text, do the validate tags hold, is there a nil pointer element.
func inspectTyped(cty string, v any) (canon string, tagsOK, nilElem bool) {
	canon, tagsOK = canonValue(cty, v), true
	switch x := v.(type) {
	case tStruct:
		tagsOK = tsOK(&x)
	case *tStruct:
		tagsOK = x == nil || tsOK(x)
	case []tStruct:
		for i := range x {
			tagsOK = tagsOK && tsOK(&x[i])
		}
	case []*tStruct:
		for _, p := range x {
			if p == nil {
				nilElem = true
			} else {
				tagsOK = tagsOK && tsOK(p)
			}
		}
	case map[string]*tStruct:
		for _, p := range x {
			if p == nil {
				nilElem = true
			} else {
				tagsOK = tagsOK && tsOK(p)
			}
		}
	case *rpcv10.EventArgs:
		tagsOK = x == nil || x.ChunkSize >= 1
	case rpcv10.ResourceBoundsMap:
		tagsOK = rbOK(&x.L1Gas) && rbOK(&x.L2Gas) && rbOK(&x.L1DataGas)
	case *rpcv10.ResourceBounds:
		tagsOK = x == nil || rbOK(x)
	}
	return canon, tagsOK, nilElem
}

// tokTyped: the abstraction for one typed slot. The raw text is first normalised the way any JSON
// consumer that decodes into `any` sees it (escapes resolved, duplicate keys collapsed), then decoded
// into the Go type by encoding/json.
func tokTyped(cty string, raw json.RawMessage) (tok, canon string, ok bool) {
	v, err := decodeNumber(raw)
	if err != nil {
		return "", "", false
	}
	if v == nil {
		return "nul", "", true
	}
	norm, err := json.Marshal(v)
	if err != nil {
		return "", "", false
	}
	ptr := reflect.New(goTypes[cty])
	if err := json.Unmarshal(norm, ptr.Interface()); err != nil {
		return "bad", "", true
	}
	canon, tagsOK, nilElem := inspectTyped(cty, ptr.Elem().Interface())
	switch {
	case !tagsOK:
		return "inv", canon, true
	case nilElem:
		return "nin", canon, true
	default:
		return "p", canon, true
	}
}

// ---------------------------------------------------------------------------- generators

// nz: a non-zero int64, often beyond 2^53 (a float64 round trip would change it)
func (r *renderer) nz() int64 {
	switch r.rng.Intn(6) {
	case 0:
		return []int64{math.MaxInt64, math.MinInt64, 1<<53 + 1, -(1<<53 + 1), 1, -1, math.MaxInt64 - 1}[r.rng.Intn(7)]
	case 1:
		return 1<<53 + 1 + int64(r.rng.Intn(1<<20))*2
	case 2:
		return -int64(1 + r.rng.Intn(1_000_000))
	default:
		return int64(1 + r.rng.Intn(1_000_000_000))
	}
}

func (r *renderer) innerText(n int64) string {
	return "{" + r.ws() + r.kv("n", strconv.FormatInt(n, 10)) + r.ws() + "}"
}

// brokenInner: an inner object whose required n is missing / zero / null
func (r *renderer) brokenInner() string {
	return r.pick("{}", `{"n":0}`, `{"n":null}`, `{ "n" : 0 }`, `{"m":5}`)
}

// genTS: a tStruct object; valid = all validate tags hold, otherwise exactly one of them is violated.
func (r *renderer) genTS(valid bool) (string, *tStruct) {
	s := &tStruct{N: r.nz(), Tag: tPlain{V: r.nz()}, Inner: tInner{N: r.nz()}}
	breakAt := -1
	if !valid {
		breakAt = r.rng.Intn(5)
	}
	var ms []string
	if breakAt == 4 {
		s.Tag.V = 0
		if t := r.pick("", "null", "{}", `{"v":0}`, `{"v":null}`); t != "" {
			ms = append(ms, r.kv("tag", t))
		}
	} else {
		ms = append(ms, r.kv("tag", "{"+r.ws()+r.kv("v", strconv.FormatInt(s.Tag.V, 10))+"}"))
	}
	if breakAt == 0 {
		s.N = 0
		switch r.rng.Intn(3) {
		case 0:
			ms = append(ms, r.kv("n", "0"))
		case 1:
			ms = append(ms, r.kv("n", "null"))
		}
	} else {
		ms = append(ms, r.kv("n", strconv.FormatInt(s.N, 10)))
	}
	if r.rng.Intn(2) == 0 || r.big > 0 {
		s.S = r.randString(0)
		if r.big > 0 {
			s.S = r.longString(r.big/2 + r.rng.Intn(r.big))
		}
		ms = append(ms, r.kv("s", r.str(s.S)))
	}
	if breakAt == 1 {
		s.Inner.N = 0
		switch r.rng.Intn(3) {
		case 0:
			ms = append(ms, r.kv("inner", r.brokenInner()))
		case 1:
			ms = append(ms, r.kv("inner", "null"))
		}
	} else {
		ms = append(ms, r.kv("inner", r.innerText(s.Inner.N)))
	}
	if breakAt == 2 {
		s.Opt = &tInner{}
		ms = append(ms, r.kv("opt", r.brokenInner()))
	} else {
		switch r.rng.Intn(3) {
		case 0:
			ms = append(ms, r.kv("opt", "null"))
		case 1:
			s.Opt = &tInner{N: r.nz()}
			ms = append(ms, r.kv("opt", r.innerText(s.Opt.N)))
		}
	}
	if breakAt == 3 {
		n := 1 + r.rng.Intn(3)
		at := r.rng.Intn(n)
		var xs []string
		for i := 0; i < n; i++ {
			if i == at {
				s.List = append(s.List, tInner{})
				xs = append(xs, r.pick("{}", `{"n":0}`, "null", `{"n":null}`))
			} else {
				k := r.nz()
				s.List = append(s.List, tInner{N: k})
				xs = append(xs, r.innerText(k))
			}
		}
		ms = append(ms, r.kv("list", "["+strings.Join(xs, r.ws()+","+r.ws())+"]"))
	} else {
		switch r.rng.Intn(4) {
		case 0:
			ms = append(ms, r.kv("list", "null"))
		case 1:
			ms = append(ms, r.kv("list", "["+r.ws()+"]"))
		case 2:
			var xs []string
			for i, n := 0, 1+r.rng.Intn(3); i < n; i++ {
				k := r.nz()
				s.List = append(s.List, tInner{N: k})
				xs = append(xs, r.innerText(k))
			}
			ms = append(ms, r.kv("list", "["+strings.Join(xs, ",")+"]"))
		}
	}
	if r.rng.Intn(6) == 0 { // a member the type does not declare: encoding/json ignores it
		ms = append(ms, r.kv(r.pick("extra", "m", "nn", "lists"), r.anyValue(1)))
	}
	return r.joinObject(ms), s
}

// badTS: not a tStruct for encoding/json (wrong JSON kind for the value or for one of its fields)
func (r *renderer) badTS() string {
	if r.rng.Intn(3) == 0 {
		return r.pick("5", `"x"`, "true", "[1]", "[]", `[{"n":1,"tag":{"v":1},"inner":{"n":1}}]`, "-1.5")
	}
	field := r.pick(`"n":"7"`, `"n":1.5`, `"n":true`, `"n":[1]`, `"n":9223372036854775808`, `"n":1e2`, `"s":5`, `"s":true`, `"s":["x"]`,
		`"inner":5`, `"inner":[{"n":1}]`, `"inner":"x"`, `"inner":{"n":"1"}`, `"opt":7`, `"opt":[]`, `"opt":{"n":{}}`,
		`"list":{}`, `"list":[5]`, `"list":"x"`, `"list":[{"n":1},"y"]`, `"list":[[]]`, `"tag":5`, `"tag":{"v":"1"}`, `"tag":[]`)
	ms := []string{field}
	for _, base := range []string{`"n":3`, `"inner":{"n":4}`, `"tag":{"v":2}`} {
		if !strings.HasPrefix(field, base[:strings.Index(base, ":")+1]) {
			ms = append(ms, base)
		}
	}
	return r.joinObject(ms)
}

func (r *renderer) hex() string {
	n := 1 + r.rng.Intn(15)
	var b strings.Builder
	b.WriteString("0x")
	for i := 0; i < n; i++ {
		d := r.rng.Intn(16)
		if i == 0 && d == 0 {
			d = 1 + r.rng.Intn(15)
		}
		b.WriteByte("0123456789abcdef"[d])
	}
	return b.String()
}

// genBlockID: a block id the type accepts; sub = rpcv10.SubscriptionBlockID (no pre_confirmed / l1_accepted)
func (r *renderer) genBlockID(sub bool) (string, string) {
	k := r.rng.Intn(5)
	if sub && k >= 3 {
		k = r.rng.Intn(3)
	}
	switch k {
	case 0:
		return r.str("latest"), "latest"
	case 1:
		n := uint64(r.rng.Intn(1_000_000))
		if r.rng.Intn(4) == 0 {
			n = []uint64{0, math.MaxUint64, 1<<53 + 1, math.MaxInt64, 1 << 63}[r.rng.Intn(5)]
		}
		t := strconv.FormatUint(n, 10)
		return "{" + r.ws() + r.kv("block_number", t) + r.ws() + "}", "num:" + t
	case 2:
		h := r.hex()
		return "{" + r.ws() + r.kv("block_hash", `"`+h+`"`) + r.ws() + "}", "hash:" + h
	case 3:
		return r.str("pre_confirmed"), "pre_confirmed"
	default:
		return r.str("l1_accepted"), "l1_accepted"
	}
}

func (r *renderer) badBlockID(sub bool) string {
	xs := []string{"5", "true", "[]", `["latest"]`, `"nope"`, `""`, `"LATEST"`, "{}", `{"block_number":"7"}`, `{"block_number":-1}`,
		`{"block_number":1.5}`, `{"block_number":18446744073709551616}`, `{"block_hash":"zz"}`, `{"block_hash":7}`, `{"block_hash":"0x"}`,
		`{"number":1}`, "1.5"}
	if sub {
		xs = append(xs, `"pre_confirmed"`, `"l1_accepted"`)
	}
	return xs[r.rng.Intn(len(xs))]
}

// genEventArgs: an rpcv10.EventArgs object; valid = chunk_size >= 1 (its only validate tag, min=1)
func (r *renderer) genEventArgs(valid bool) (string, string) {
	var ms []string
	from, to := "nil", "nil"
	for i, name := range []string{"from_block", "to_block"} {
		switch r.rng.Intn(3) {
		case 0:
			ms = append(ms, r.kv(name, "null"))
		case 1:
			t, c := r.genBlockID(false)
			ms = append(ms, r.kv(name, t))
			if i == 0 {
				from = c
			} else {
				to = c
			}
		}
	}
	var addr []string
	switch r.rng.Intn(5) {
	case 0:
		ms = append(ms, r.kv("address", r.pick("null", "[]")))
	case 1:
		addr = []string{r.hex()}
		ms = append(ms, r.kv("address", `"`+addr[0]+`"`)) // a single address instead of a list
	case 2:
		seen := map[string]bool{}
		var xs []string
		for i, n := 0, 1+r.rng.Intn(3); i < n; i++ {
			h := r.hex()
			if seen[h] {
				continue
			}
			seen[h] = true
			addr = append(addr, h)
			xs = append(xs, `"`+h+`"`)
		}
		ms = append(ms, r.kv("address", "["+strings.Join(xs, r.ws()+",")+"]"))
	}
	var keys []string
	switch r.rng.Intn(3) {
	case 0:
		ms = append(ms, r.kv("keys", r.pick("null", "[]")))
	case 1:
		var xs []string
		for i, n := 0, 1+r.rng.Intn(3); i < n; i++ {
			var one, oneText []string
			for j, m := 0, r.rng.Intn(3); j < m; j++ {
				h := r.hex()
				one = append(one, h)
				oneText = append(oneText, `"`+h+`"`)
			}
			keys = append(keys, "["+strings.Join(one, " ")+"]")
			xs = append(xs, "["+strings.Join(oneText, ",")+"]")
		}
		ms = append(ms, r.kv("keys", "["+strings.Join(xs, ",")+"]"))
	}
	tok := ""
	if r.rng.Intn(2) == 0 {
		tok = r.randString(0)
		if r.big > 0 {
			tok = r.longString(r.big/2 + r.rng.Intn(r.big))
		}
		ms = append(ms, r.kv("continuation_token", r.str(tok)))
	}
	chunk := uint64(1 + r.rng.Intn(2000))
	if r.rng.Intn(8) == 0 {
		chunk = []uint64{1, math.MaxUint64, 1<<53 + 1}[r.rng.Intn(3)]
	}
	if valid {
		ms = append(ms, r.kv("chunk_size", strconv.FormatUint(chunk, 10)))
	} else {
		chunk = 0
		switch r.rng.Intn(3) {
		case 0:
			ms = append(ms, r.kv("chunk_size", "0"))
		case 1:
			ms = append(ms, r.kv("chunk_size", "null"))
		}
	}
	canon := fmt.Sprintf("ev{from:%s to:%s addr:[%s] keys:[%s] chunk:%d tok:%q}", from, to, strings.Join(addr, " "), strings.Join(keys, " "), chunk, tok)
	return r.joinObject(ms), canon
}

func (r *renderer) badEventArgs() string {
	if r.rng.Intn(3) == 0 {
		return r.pick("5", `"x"`, "true", "[]", `[{"chunk_size":1}]`)
	}
	field := r.pick(`"chunk_size":"5"`, `"chunk_size":-1`, `"chunk_size":1.5`, `"chunk_size":[1]`, `"from_block":5`, `"from_block":"nope"`,
		`"to_block":{}`, `"to_block":{"block_number":"1"}`, `"address":5`, `"address":["zz"]`, `"address":{"a":1}`, `"keys":"x"`,
		`"keys":[5]`, `"keys":[["zz"]]`, `"keys":["0x1"]`, `"continuation_token":5`, `"continuation_token":true`)
	ms := []string{field}
	if !strings.HasPrefix(field, `"chunk_size"`) {
		ms = append(ms, `"chunk_size":10`)
	}
	return r.joinObject(ms)
}

// hexBits: a canonical hex literal of exactly n hex digits
func (r *renderer) hexDigits(n int) string {
	var b strings.Builder
	b.WriteString("0x")
	for i := 0; i < n; i++ {
		d := r.rng.Intn(16)
		if i == 0 {
			d = 1 + r.rng.Intn(15)
		}
		b.WriteByte("0123456789abcdef"[d])
	}
	return b.String()
}

// genRB: an rpcv10.ResourceBounds object; valid = both felts present, max_amount <= 64 bits,
// max_price_per_unit <= 128 bits (boundaries included); otherwise exactly one tag is violated.
func (r *renderer) genRB(valid bool) (string, string) {
	amt := r.hexDigits(1 + r.rng.Intn(16))
	if r.rng.Intn(5) == 0 {
		amt = r.pick("0xffffffffffffffff", "0x8000000000000000", "0x0", "0x1")
	}
	price := r.hexDigits(1 + r.rng.Intn(32))
	if r.rng.Intn(5) == 0 {
		price = r.pick("0xffffffffffffffffffffffffffffffff", "0x80000000000000000000000000000000", "0x0", "0x10000000000000000")
	}
	amtText, priceText := `"`+amt+`"`, `"`+price+`"`
	if !valid {
		switch r.rng.Intn(4) {
		case 0:
			amt, amtText = "nil", r.pick("", "null")
		case 1:
			price, priceText = "nil", r.pick("", "null")
		case 2:
			amt = r.pick("0x10000000000000000", "0x1ffffffffffffffff", r.hexDigits(17+r.rng.Intn(20)))
			amtText = `"` + amt + `"`
		default:
			price = r.pick("0x100000000000000000000000000000000", r.hexDigits(33+r.rng.Intn(20)))
			priceText = `"` + price + `"`
		}
	}
	var ms []string
	if amtText != "" {
		ms = append(ms, r.kv("max_amount", amtText))
	}
	if priceText != "" {
		ms = append(ms, r.kv("max_price_per_unit", priceText))
	}
	return r.joinObject(ms), "rb{amt:" + amt + " price:" + price + "}"
}

func (r *renderer) badRB() string {
	return r.pick("5", `"x"`, "[]", "true", `{"max_amount":5,"max_price_per_unit":"0x1"}`, `{"max_amount":"zz","max_price_per_unit":"0x1"}`,
		`{"max_amount":"0x1","max_price_per_unit":"0x"}`, `{"max_amount":"0x1","max_price_per_unit":["0x1"]}`, `{"max_amount":"1","max_price_per_unit":"0x1"}`,
		`{"max_amount":{},"max_price_per_unit":"0x1"}`)
}

// genRBM: an rpcv10.ResourceBoundsMap; invalid = one of the three bounds violates a tag, or is missing / null
// (a zero ResourceBounds violates `required` - the production validator has WithRequiredStructEnabled)
func (r *renderer) genRBM(valid bool) (string, string) {
	names := []string{"l1_gas", "l2_gas", "l1_data_gas"}
	breakAt := -1
	if !valid {
		breakAt = r.rng.Intn(3)
	}
	var ms []string
	cs := make([]string, 3)
	for i, n := range names {
		switch {
		case i == breakAt && r.rng.Intn(3) == 0:
			cs[i] = "rb{amt:nil price:nil}"
			if t := r.pick("", "null", "{}"); t != "" {
				ms = append(ms, r.kv(n, t))
			}
		default:
			t, c := r.genRB(i != breakAt)
			ms = append(ms, r.kv(n, t))
			cs[i] = c
		}
	}
	return r.joinObject(ms), "rbm{l1:" + cs[0] + " l2:" + cs[1] + " l1d:" + cs[2] + "}"
}

// elems renders n list elements for the container generators: mode p (all valid), inv (one violates a
// tag), nin (at least one null, the others valid). ptr: the elements are pointers (null = nil).
func (r *renderer) elems(mode string, ptr bool) ([]string, []*tStruct) {
	n := r.rng.Intn(4)
	if mode != "p" && n == 0 {
		n = 1 + r.rng.Intn(3)
	}
	at := -1
	if n > 0 {
		at = r.rng.Intn(n)
	}
	var xs []string
	var vs []*tStruct
	for i := 0; i < n; i++ {
		switch {
		case mode == "inv" && i == at:
			if !ptr && r.rng.Intn(4) == 0 { // a null element of a []struct is the zero struct: violates `required`
				xs, vs = append(xs, "null"), append(vs, &tStruct{})
				continue
			}
			t, v := r.genTS(false)
			xs, vs = append(xs, t), append(vs, v)
		case mode == "nin" && (i == at || r.rng.Intn(3) == 0):
			xs, vs = append(xs, "null"), append(vs, nil)
		case mode == "inv" && ptr && r.rng.Intn(4) == 0: // nil and invalid elements together: still invalid
			xs, vs = append(xs, "null"), append(vs, nil)
		default:
			t, v := r.genTS(true)
			xs, vs = append(xs, t), append(vs, v)
		}
	}
	return xs, vs
}

func (r *renderer) badElem() string {
	return r.pick("5", `"x"`, "true", "[]", r.badTS(), `{"n":"1"}`)
}

// typed renders a token for a slot of concrete type cty: the JSON text and the canonical text of the
// Go value the handler is owed ("" for bad / nul: the specification says what reaches the handler).
func (r *renderer) typed(cty, tok string) (string, string) {
	if tok == "nul" {
		return "null", ""
	}
	switch cty {
	case "tstruct", "ptstruct":
		if tok == "bad" {
			return r.badTS(), ""
		}
		t, v := r.genTS(tok != "inv")
		return t, canonTS(v)
	case "pint":
		if tok == "bad" {
			return r.pick(`"7"`, "1.5", "true", "[1]", `{"k":1}`, "9223372036854775808", "1e2", `""`, "-9223372036854775809", "[]"), ""
		}
		n := r.nz()
		if r.rng.Intn(5) == 0 {
			n = 0 // a pointer to zero is not a nil pointer
		}
		return strconv.FormatInt(n, 10), strconv.FormatInt(n, 10)
	case "ltstruct", "lptstruct":
		if tok == "bad" {
			if r.rng.Intn(2) == 0 {
				return r.pick("{}", `"x"`, "5", "true", `{"0":{"n":1,"tag":{"v":1},"inner":{"n":1}}}`), ""
			}
			t, _ := r.genTS(true)
			xs := []string{t, r.badElem()}
			r.rng.Shuffle(2, func(i, j int) { xs[i], xs[j] = xs[j], xs[i] })
			return "[" + strings.Join(xs, ",") + "]", ""
		}
		xs, vs := r.elems(tok, cty == "lptstruct")
		cs := make([]string, len(vs))
		for i, v := range vs {
			cs[i] = canonTS(v)
		}
		return "[" + r.ws() + strings.Join(xs, r.ws()+","+r.ws()) + r.ws() + "]", "[" + strings.Join(cs, " ") + "]"
	case "mptstruct":
		if tok == "bad" {
			if r.rng.Intn(2) == 0 {
				return r.pick("[]", `"x"`, "5", "true", `[{"n":1,"tag":{"v":1},"inner":{"n":1}}]`), ""
			}
			t, _ := r.genTS(true)
			return r.joinObject([]string{r.kv("k0", t), r.kv("k1", r.badElem())}), ""
		}
		xs, vs := r.elems(tok, true)
		type kv struct{ k, c string }
		var ms []string
		var kc []kv
		for i := range xs {
			k := fmt.Sprintf("k%d_%s", i, r.pick("a", "B", "é", " ", "0"))
			ms = append(ms, r.str(k)+r.ws()+":"+r.ws()+xs[i])
			kc = append(kc, kv{k, canonTS(vs[i])})
		}
		sort.Slice(kc, func(i, j int) bool { return kc[i].k < kc[j].k })
		cs := make([]string, len(kc))
		for i := range kc {
			cs[i] = fmt.Sprintf("%q:%s", kc[i].k, kc[i].c)
		}
		return r.joinObject(ms), "map[" + strings.Join(cs, " ") + "]"
	case "blockid", "pblockid", "psubid":
		if tok == "bad" {
			return r.badBlockID(cty == "psubid"), ""
		}
		return r.genBlockID(cty == "psubid")
	case "respflags":
		if tok == "bad" {
			return r.pick(`"INCLUDE_PROOF_FACTS"`, `["NOPE"]`, "[5]", "{}", "5", "true", "[null]", `["INCLUDE_PROOF_FACTS","x"]`, `[["INCLUDE_PROOF_FACTS"]]`), ""
		}
		switch r.rng.Intn(3) {
		case 0:
			return "[" + r.ws() + "]", "flags:false"
		case 1:
			return "[" + r.str("INCLUDE_PROOF_FACTS") + "]", "flags:true"
		default:
			return `["INCLUDE_PROOF_FACTS",` + r.ws() + `"INCLUDE_PROOF_FACTS"]`, "flags:true"
		}
	case "peventargs":
		if tok == "bad" {
			return r.badEventArgs(), ""
		}
		return r.genEventArgs(tok != "inv")
	case "prbounds":
		if tok == "bad" {
			return r.badRB(), ""
		}
		return r.genRB(tok != "inv")
	case "rbmap":
		if tok == "bad" {
			if r.rng.Intn(2) == 0 {
				return r.pick("5", `"x"`, "[]", "true"), ""
			}
			t, _ := r.genRB(true)
			return r.joinObject([]string{r.kv("l1_gas", t), r.kv("l2_gas", r.badRB()), r.kv("l1_data_gas", t)}), ""
		}
		return r.genRBM(tok != "inv")
	}
	panic("typed: unknown slot type " + cty)
}

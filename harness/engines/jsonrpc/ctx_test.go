// TestJsonRpcCtx (property C11, the CONTEXT dimension of spec/jsonrpc/JsonRpc.tla): deadlines and cancellation.
//
// Every exchange of the real server runs under a context.Context. The model says where the code looks at it (only
// the admission gate of the HTTP transport does, before the body is read) and what it promises past that point: every
// entry is dispatched, its handler invoked exactly once and its answer included, whatever the state of the context -
// expired before dispatch, expiring while an earlier entry of the batch occupies the only worker, cancelled.
//
//   - rows: every single request / batch of one over the class representatives x {live, expired, cancelled at arrival}
//     x {gate, no gate}, exported exhaustively by TLC; sent through HandleReader, HandleReadWriter (requestTimeout 0 /
//     1 h / 1 ns), the HTTP handler (WithRequestTimeout 0 / 1 h / 1 ns, with and without WithGate) under a context in
//     that state (std contexts: WithDeadline in the past, WithCancel + cancel; and a manually ended one);
//   - behaviours: TLC-simulated batches on a 1- and 2-worker pool with a schedule: the handlers of the real server
//     park at gates, the replayer lets them return ("add") and ends the context ("ctx") in the model's order; every
//     other step the server takes on its own and the replayer only waits for it (a handler has started). No sleeps:
//     the context is ended by the replayer (cancel() for a cancellation, a manually expired context for a deadline -
//     its AfterFunc hook makes the std contexts derived by the server end synchronously);
//   - timers: a few directed rounds with the REAL options (HTTP.WithRequestTimeout(d), HandleReadWriter(.., d, ..)):
//     the first entry's handler returns when it has SEEN its context end, the later entries are dispatched after the
//     real deadline. Only answers and invocation counts are judged there (they do not depend on when the timer fired).
//
// Compared: the answer bytes (shape, one response per owed entry, id, kind, code, payload) and the handler log with
// what the PROPERTY promises (expect / judge of the main engine), and what every context-taking handler SAW with
// what the model says (seen). A harness timeout is never a divergence.
package jsonrpc

import (
	"bytes"
	"context"
	"errors"
	"fmt"
	"io"
	"net/http"
	"net/http/httptest"
	"reflect"
	"sort"
	"strings"
	"sync"
	"testing"
	"time"

	jr "github.com/NethermindEth/juno/jsonrpc"
	"github.com/NethermindEth/juno/utils/log"

	"verifharness/internal/vh"
)

// ---------------------------------------------------------------------------- input

type ctxSeen struct {
	E  int    `json:"e"`
	Cs string `json:"cs"`
}

type ctxRow struct {
	row
	Cx0   string    `json:"cx0"`
	Cx    string    `json:"cx"`
	Gated bool      `json:"gated"`
	Seen  []ctxSeen `json:"seen"`
	Pool  int       `json:"pool"`
}

type ctxStep struct {
	A string `json:"a"` // dispatch | call | add | ctx
	I int    `json:"i"`
	S string `json:"s"`
}

type ctxBehaviour struct {
	Row   ctxRow    `json:"row"`
	Steps []ctxStep `json:"steps"`
}

// ctxOnly pins one variant (replay of a recorded divergence).
type ctxOnly struct {
	Via     string `json:"via"`
	Flavour string `json:"flavour"`
	V       int    `json:"v"`
}

type ctxInput struct {
	Rows       []ctxRow       `json:"rows"`
	Behaviours []ctxBehaviour `json:"behaviours"`
	Timers     int            `json:"timers"`
	Seed       int64          `json:"seed"`
	Only       *ctxOnly       `json:"only,omitempty"`
	SelfTest   bool           `json:"selftest"`
}

// ---------------------------------------------------------------------------- a context the replayer ends by hand

// manualCtx is a context.Context that ends when the replayer says so, with the error the replayer chooses
// (context.DeadlineExceeded: "the deadline has passed"). It implements the AfterFunc hook of package context, so the
// std contexts the server derives from it (WithTimeout in http.go / HandleReadWriter, WithCancel in
// handleBatchRequest) are cancelled INSIDE end(), before it returns - no goroutine hand-over, no race.
type manualCtx struct {
	mu       sync.Mutex
	done     chan struct{}
	err      error
	deadline time.Time
	funcs    map[int]func()
	next     int
}

func newManualCtx() *manualCtx {
	return &manualCtx{done: make(chan struct{}), deadline: time.Now().Add(time.Hour), funcs: map[int]func(){}}
}

func (c *manualCtx) Deadline() (time.Time, bool) {
	c.mu.Lock()
	defer c.mu.Unlock()
	return c.deadline, true
}
func (c *manualCtx) Done() <-chan struct{} { return c.done }
func (c *manualCtx) Err() error {
	c.mu.Lock()
	defer c.mu.Unlock()
	return c.err
}

func (c *manualCtx) Value(k any) any {
	if k == (markerKey{}) {
		return "marker"
	}
	return nil
}

func (c *manualCtx) AfterFunc(f func()) (stop func() bool) {
	c.mu.Lock()
	if c.err != nil {
		c.mu.Unlock()
		f()
		return func() bool { return false }
	}
	id := c.next
	c.next++
	c.funcs[id] = f
	c.mu.Unlock()
	return func() bool {
		c.mu.Lock()
		defer c.mu.Unlock()
		_, ok := c.funcs[id]
		delete(c.funcs, id)
		return ok
	}
}

func (c *manualCtx) end(err error) {
	c.mu.Lock()
	if c.err != nil {
		c.mu.Unlock()
		return
	}
	c.err = err
	if errors.Is(err, context.DeadlineExceeded) {
		c.deadline = time.Now().Add(-time.Millisecond) // a deadline that has passed
	}
	close(c.done)
	fs := c.funcs
	c.funcs = map[int]func(){}
	c.mu.Unlock()
	ids := make([]int, 0, len(fs))
	for id := range fs {
		ids = append(ids, id)
	}
	sort.Ints(ids)
	for _, id := range ids {
		fs[id]()
	}
}

// mkCtx builds a context in state cx0 and returns the function that ends it later (nil when it cannot end that way).
// flavour "std": contexts of package context only; "manual": manualCtx.
func mkCtx(cx0, flavour string) (context.Context, func(string), func()) {
	if flavour == "manual" {
		c := newManualCtx()
		end := func(s string) {
			if s == "expired" {
				c.end(context.DeadlineExceeded)
			} else {
				c.end(context.Canceled)
			}
		}
		if cx0 != "live" {
			end(cx0)
		}
		return c, end, func() { c.end(context.Canceled) }
	}
	base := context.WithValue(context.Background(), markerKey{}, "marker")
	switch cx0 {
	case "expired":
		c, cancel := context.WithDeadline(base, time.Now().Add(-time.Hour))
		return c, nil, cancel
	case "cancelled":
		c, cancel := context.WithCancel(base)
		cancel()
		return c, nil, cancel
	}
	c, cancel := context.WithCancel(base)
	return c, func(s string) {
		if s == "cancelled" {
			cancel()
		}
	}, cancel
}

func ctxStateOf(ctx context.Context) string {
	switch err := ctx.Err(); {
	case err == nil:
		return "live"
	case errors.Is(err, context.DeadlineExceeded):
		return "expired"
	default:
		return "cancelled"
	}
}

// ---------------------------------------------------------------------------- the real server with gated handlers

type cgate struct {
	started   chan struct{}
	release   chan struct{}
	untilDone bool // timer rounds: the handler returns once it has SEEN its context end
	sawDone   chan struct{}
	sOnce     sync.Once
	rOnce     sync.Once
}

func (g *cgate) open() { g.rOnce.Do(func() { close(g.release) }) }

type sawRec struct {
	M  string `json:"m"`
	A  int64  `json:"a"`
	Cs string `json:"cs"`
}

type ctxWorld struct {
	srv   *jr.Server
	mu    sync.Mutex
	calls []wantInv
	saw   []sawRec
	gates map[int64]*cgate
}

func (w *ctxWorld) gate(a int64, untilDone bool) *cgate {
	g := &cgate{started: make(chan struct{}), release: make(chan struct{}), sawDone: make(chan struct{}), untilDone: untilDone}
	w.mu.Lock()
	w.gates[a] = g
	w.mu.Unlock()
	return g
}

func (w *ctxWorld) openAll() {
	w.mu.Lock()
	defer w.mu.Unlock()
	for _, g := range w.gates {
		g.open()
	}
}

func (w *ctxWorld) rec(m string, a int, b string, ctx context.Context) (any, *jr.Error) {
	w.mu.Lock()
	w.calls = append(w.calls, wantInv{M: m, A: int64(a), B: b, Ctx: ctx != nil && ctx.Value(markerKey{}) == "marker"})
	if ctx != nil {
		w.saw = append(w.saw, sawRec{M: m, A: int64(a), Cs: ctxStateOf(ctx)})
	}
	g := w.gates[int64(a)]
	w.mu.Unlock()
	if g != nil {
		g.sOnce.Do(func() { close(g.started) })
		if g.untilDone && ctx != nil {
			select {
			case <-ctx.Done():
				close(g.sawDone)
			case <-g.release:
			}
		} else {
			<-g.release
		}
	}
	if a < 0 {
		return nil, &jr.Error{Code: 44, Message: "app", Data: b}
	}
	return map[string]any{"m": m, "a": a, "b": b}, nil
}

func newCtxWorld(pool int) *ctxWorld {
	w := &ctxWorld{gates: map[int64]*cgate{}}
	w.srv = jr.NewServer(pool, log.NewNopZapLogger())
	err := w.srv.RegisterMethods(
		jr.Method{Name: methodName["m0"], Handler: func() (any, *jr.Error) { return w.rec("m0", 0, "", nil) }},
		jr.Method{Name: methodName["m2"], Params: []jr.Parameter{{Name: "a"}, {Name: "b"}},
			Handler: func(a int, b string) (any, *jr.Error) { return w.rec("m2", a, b, nil) }},
		jr.Method{Name: methodName["m1o"], Params: []jr.Parameter{{Name: "a"}, {Name: "b", Optional: true}},
			Handler: func(a int, b string) (any, *jr.Error) { return w.rec("m1o", a, b, nil) }},
		jr.Method{Name: methodName["mctx"], Params: []jr.Parameter{{Name: "a", Optional: true}, {Name: "b", Optional: true}},
			Handler: func(ctx context.Context, a int, b string) (any, *jr.Error) { return w.rec("mctx", a, b, ctx) }},
	)
	if err != nil {
		panic(err)
	}
	return w
}

type ctxResult struct {
	exchangeResult
	status     int
	retryAfter string
}

// ctxVias: the transports and the options that derive the request's context from the caller's.
var ctxVias = []string{"reader", "readwriter", "readwriter-1h", "http", "http-1h"}

const ctxWait = 20 * time.Second // an awaited event of the real server, normally microseconds away

// start runs one exchange on its own goroutine (under recover) and returns the channel of its result.
func (w *ctxWorld) start(ctx context.Context, data []byte, via string) chan ctxResult {
	done := make(chan ctxResult, 1)
	go func() {
		var res ctxResult
		defer func() {
			if p := recover(); p != nil {
				res.panicked = fmt.Sprint(p)
			}
			res.raw = res.out
			res.out = append([]byte{}, res.raw...)
			done <- res
		}()
		timeout := time.Duration(0)
		switch {
		case strings.HasSuffix(via, "-1h"):
			timeout = time.Hour
		case strings.HasSuffix(via, "-1ns"):
			timeout = time.Nanosecond
		case strings.HasSuffix(via, "-timer"):
			timeout = timerD
		}
		switch strings.SplitN(via, "-", 2)[0] {
		case "readwriter":
			rw := &rwBuf{Reader: bytes.NewReader(data)}
			res.err = w.srv.HandleReadWriter(ctx, timeout, rw)
			res.out = rw.out.Bytes()
		case "http", "httpgate", "httpslow":
			h := jr.NewHTTP(w.srv, log.NewNopZapLogger()).WithRequestTimeout(timeout)
			if strings.HasPrefix(via, "httpgate") {
				h = h.WithGate(jr.NewGate(4, 16))
			}
			var body io.Reader = bytes.NewReader(data)
			if strings.HasPrefix(via, "httpslow") { // the body arrives when the request's time is over
				pr, pw := io.Pipe()
				go func() {
					time.Sleep(3 * timerD)
					_, _ = pw.Write(data)
					pw.Close()
				}()
				body = pr
			}
			req := httptest.NewRequest(http.MethodPost, "/", body).WithContext(ctx)
			rr := httptest.NewRecorder()
			h.ServeHTTP(rr, req)
			res.status = rr.Code
			res.retryAfter = rr.Header().Get("Retry-After")
			if rr.Code != http.StatusOK {
				res.err = fmt.Errorf("http status %d", rr.Code)
			}
			res.out = rr.Body.Bytes()
		default:
			res.out, _, res.err = w.srv.HandleReader(ctx, bytes.NewReader(data))
		}
	}()
	return done
}

func (w *ctxWorld) take() ([]wantInv, []sawRec) {
	w.mu.Lock()
	defer w.mu.Unlock()
	return w.calls, w.saw
}

// ---------------------------------------------------------------------------- judging

type ctxEngine struct {
	out   *vh.Result
	seed  int64
	in    *ctxInput
	mu    sync.Mutex
	stats map[string]int
	ndiv  int
}

func (g *ctxEngine) count(k string, n int) {
	g.mu.Lock()
	g.stats[k] += n
	g.mu.Unlock()
}

// situation names the context situation of a case: the middle part of every divergence key.
func situation(w *ctxRow, steps []ctxStep) string {
	if w.Cx0 != "live" {
		return w.Cx0 + "-at-arrival"
	}
	for k, s := range steps {
		if s.A == "ctx" {
			for _, t := range steps[k:] {
				if t.A == "call" {
					return s.S + "-during-batch"
				}
			}
			return s.S + "-after-dispatch"
		}
	}
	return "live"
}

func (g *ctxEngine) diverge(key, what string, input any, exp, obs any) {
	g.mu.Lock()
	if strings.HasPrefix(key, "jsonrpc:ctx-") { // (a known deviation of the code shows under its own key and does not end the run)
		g.ndiv++
	}
	g.mu.Unlock()
	g.out.Diverge(vh.Divergence{Key: key, What: what, Input: input, Expected: exp, Observed: obs})
}

func (g *ctxEngine) diverged() int {
	g.mu.Lock()
	defer g.mu.Unlock()
	return g.ndiv
}

// wantSaw: what the model says the context-taking handlers saw, keyed by the value of slot a.
func wantSaw(w *ctxRow, cs []concInfo) []sawRec {
	var out []sawRec
	for _, s := range w.Seen {
		if s.E >= 1 && s.E <= len(w.Entries) && w.Entries[s.E-1].Meth == "mctx" {
			out = append(out, sawRec{M: "mctx", A: cs[s.E-1].A, Cs: s.Cs})
		}
	}
	return out
}

// how strictly what the handlers saw is compared: exactly; live and expired interchangeable (real timers: whether a handler
// was entered before or after the timer fired is the machine's business); not at all (the schedule could not be enforced)
const (
	seenStrict = iota
	seenLoose
	seenSkip
)

func sawDiff(got, want []sawRec, mode int) string {
	if mode == seenSkip {
		return ""
	}
	loose := mode == seenLoose
	key := func(s sawRec) string { return fmt.Sprintf("%s|%d", s.M, s.A) }
	m := map[string][]string{}
	for _, s := range got {
		m[key(s)] = append(m[key(s)], s.Cs)
	}
	for _, s := range want {
		xs := m[key(s)]
		if len(xs) != 1 {
			return "" // the invocation log differs: judged (and keyed) by the log comparison
		}
		if xs[0] != s.Cs && !(loose && s.Cs != "cancelled" && xs[0] != "cancelled") {
			return "model-" + s.Cs + ":handler-" + xs[0]
		}
	}
	return ""
}

// judgeCtx compares one finished exchange with the model; returns true when it conforms.
func (g *ctxEngine) judgeCtx(w *ctxRow, steps []ctxStep, data []byte, cs []concInfo, via, flavour string, v int, res ctxResult,
	calls []wantInv, saw []sawRec, looseSeen int) bool {
	sit := situation(w, steps)
	text := clip(string(data))
	var input any
	switch {
	case flavour == "timer":
		input = vh.J{"timers": v + 1, "seed": g.seed, "only": ctxOnly{Via: via, Flavour: flavour, V: v}}
	case steps != nil:
		input = vh.J{"behaviours": []ctxBehaviour{{Row: *w, Steps: steps}}, "seed": g.seed, "only": ctxOnly{Via: via, Flavour: flavour, V: v}}
	default:
		input = vh.J{"rows": []ctxRow{*w}, "seed": g.seed, "only": ctxOnly{Via: via, Flavour: flavour, V: v}}
	}
	where := fmt.Sprintf("[context %s (%s), pool %d, via %s] request %q", sit, flavour, w.Pool, via, text)
	obs := vh.J{"status": res.status, "output": clip(string(res.out)), "invocations": calls, "contexts_seen": saw}
	if res.panicked != nil {
		g.diverge("jsonrpc:ctx-"+sit+":panic", fmt.Sprintf("the server panicked: %v %s", res.panicked, where), input, nil, obs)
		return false
	}
	// admission: the gate refuses a context that had ended when the exchange arrived - and nothing else does
	if w.Shape == "refused" || w.Shape == "dropped" {
		ok := len(calls) == 0
		if w.Shape == "refused" {
			ok = ok && res.status == http.StatusServiceUnavailable && res.retryAfter != ""
		} else {
			ok = ok && res.status == http.StatusOK && len(res.out) == 0
		}
		if !ok {
			g.diverge("jsonrpc:ctx-"+sit+":gate:"+w.Shape, "the gated HTTP handler did not refuse an exchange whose context had ended as the model says "+
				"(expired: 503 + Retry-After, cancelled: nothing written; no handler runs) "+where, input,
				vh.J{"shape": w.Shape, "invocations": 0}, obs)
			return false
		}
		g.count("ctx_refused_by_gate", 1)
		return true
	}
	x := expect(w.row, cs)
	res.calls = calls
	if vd := judge(x, res.exchangeResult); vd != nil {
		if len(x.Devs) > 0 && reflect.DeepEqual(vd.keys, x.Devs) { // a known deviation of the code, context or not: its own key
			for _, k := range vd.keys {
				g.diverge(k, vd.what+" "+where, input, vh.J{"shape": x.ExpShape, "responses": x.Exp}, obs)
			}
			return false
		}
		for _, k := range vd.keys {
			g.diverge("jsonrpc:ctx-"+sit+":"+strings.TrimPrefix(k, "jsonrpc:"),
				vd.what+" - every admitted entry is owed its answer and its handler call whatever the state of the request's context "+where,
				input, vh.J{"shape": x.ExpShape, "responses": x.Exp, "invocations": x.Log}, obs)
		}
		return false
	}
	if d := sawDiff(saw, wantSaw(w, cs), looseSeen); d != "" {
		g.diverge("jsonrpc:ctx-"+sit+":handler-saw:"+d, "a handler was handed a context in another state than the request's context was in "+
			"when it was called "+where, input, wantSaw(w, cs), obs)
		return false
	}
	for _, s := range saw {
		if s.Cs == "expired" {
			g.count("ctx_handlers_called_after_the_deadline", 1)
		}
		if s.Cs == "cancelled" {
			g.count("ctx_handlers_called_after_cancellation", 1)
		}
	}
	return true
}

// render with distinct values of slot a for the entries that reach a handler (the gates are found by them).
func renderDistinct(seed int64, w *ctxRow, v int) ([]byte, []concInfo) {
	for try := 0; ; try++ {
		r := &renderer{rng: rngFor(seed, "ctx", w.Top, w.Cx0, w.Gated, fmt.Sprint(w.Entries), v, try)}
		data, cs := r.render(w.row)
		seenA := map[int64]bool{}
		ok := true
		for i := range w.Entries {
			if invokedAsIs(w.row, i+1) {
				ok = ok && !seenA[cs[i].A] && cs[i].A != 0
				seenA[cs[i].A] = true
			}
		}
		if ok || try > 50 || w.Top != "batch" {
			return data, cs
		}
	}
}

// ---------------------------------------------------------------------------- rows: context state at arrival

func (g *ctxEngine) doCtxRow(w *ctxRow, idx int) {
	type variant struct{ via, flavour string }
	var vs []variant
	rng := rngFor(g.seed, "ctxrow", fmt.Sprint(w.Entries), w.Top, w.Cx0, w.Gated)
	switch {
	case w.Gated:
		vs = []variant{{"httpgate", "std"}, {"httpgate-1h", "manual"}}
	default:
		a := ctxVias[rng.Intn(len(ctxVias))]
		b := ctxVias[rng.Intn(len(ctxVias))]
		vs = []variant{{a, "std"}, {b, "manual"}}
		if w.Cx0 == "expired" { // the deadline set by the transport's own option, on a live parent: over (almost surely) at once
			vs = append(vs, variant{[]string{"readwriter-1ns", "http-1ns"}[rng.Intn(2)], "std-live-parent"})
		}
	}
	for v, vr := range vs {
		if g.in.Only != nil && (g.in.Only.Via != vr.via || g.in.Only.Flavour != vr.flavour) {
			continue
		}
		data, cs := renderDistinct(g.seed, w, v)
		cx0, loose := w.Cx0, seenStrict
		fl := vr.flavour
		if fl == "std-live-parent" {
			cx0, fl, loose = "live", "std", seenLoose
		}
		ctx, _, cleanup := mkCtx(cx0, fl)
		world := newCtxWorld(1)
		var res ctxResult
		select {
		case res = <-world.start(ctx, data, vr.via):
		case <-time.After(ctxWait):
			cleanup()
			g.count("harness_timeouts", 1)
			continue
		}
		cleanup()
		calls, saw := world.take()
		if g.judgeCtx(w, nil, data, cs, vr.via, vr.flavour, v, res, calls, saw, loose) {
			g.count("ctx_rows_conforming", 1)
			if w.Cx0 != "live" && len(calls) > 0 {
				g.count("ctx_ended_at_arrival_invoking_a_handler", 1)
			}
			if g.in.SelfTest && idx%7 == 0 && w.Shape != "refused" && w.Shape != "dropped" {
				g.selfTestCtx(w, data, cs, res, calls, saw)
			}
		}
		g.count("ctx_row_exchanges", 1)
		g.count("ctx_via_"+strings.SplitN(vr.via, "-", 2)[0], 1)
	}
}

// selfTestCtx: the binding must bite - the outcome the mutants produce (an owed entry silently dropped, a handler
// not called, a handler handed another context) must be rejected when fed to the judge.
func (g *ctxEngine) selfTestCtx(w *ctxRow, data []byte, cs []concInfo, res ctxResult, calls []wantInv, saw []sawRec) {
	probe := &ctxEngine{out: vh.NewResult(), seed: g.seed, in: g.in, stats: map[string]int{}}
	try := func(name string, r ctxResult, c []wantInv, s []sawRec) {
		if probe.judgeCtx(w, nil, data, cs, "reader", "selftest", 0, r, c, s, seenStrict) {
			g.count("selftest_missed", 1)
			g.out.Sample(vh.J{"ctx_selftest_missed": name, "row": shortRow(w)})
		} else {
			g.count("selftest_caught", 1)
		}
	}
	x := expect(w.row, cs)
	if len(x.Exp) > 0 && len(x.Devs) == 0 && w.Top == "single" {
		r := res
		r.out = nil // "treated like a notification": nothing is written
		try("silent", r, calls, saw)
	}
	if len(calls) > 0 {
		try("uncalled", res, calls[1:], saw)
	}
	if len(saw) > 0 {
		s2 := append([]sawRec{}, saw...)
		s2[0].Cs = map[string]string{"live": "expired", "expired": "live", "cancelled": "live"}[s2[0].Cs]
		try("saw", res, calls, s2)
	}
}

func shortRow(w *ctxRow) string {
	var ds []string
	for _, e := range w.Entries {
		ds = append(ds, shortEntry(e))
	}
	return fmt.Sprintf("top=%s cx0=%s gated=%v [%s]", w.Top, w.Cx0, w.Gated, strings.Join(ds, " "))
}

// ---------------------------------------------------------------------------- behaviours: the context ends mid-batch

func (g *ctxEngine) doBehaviour(b *ctxBehaviour, idx int) {
	w := &b.Row
	rng := rngFor(g.seed, "ctxbeh", fmt.Sprint(w.Entries), fmt.Sprint(b.Steps), w.Cx0)
	via := ctxVias[rng.Intn(len(ctxVias))]
	flavour := "manual"
	needsExpiry := false
	for _, s := range b.Steps {
		needsExpiry = needsExpiry || (s.A == "ctx" && s.S == "expired")
	}
	if !needsExpiry && rng.Intn(2) == 0 {
		flavour = "std" // cancellation and states at arrival need nothing but package context
	}
	if g.in.Only != nil {
		via, flavour = g.in.Only.Via, g.in.Only.Flavour
	}
	data, cs := renderDistinct(g.seed, w, 0)
	world := newCtxWorld(w.Pool)
	gates := map[int]*cgate{}
	for i := range w.Entries {
		if invokedAsIs(w.row, i+1) {
			gates[i+1] = world.gate(cs[i].A, false)
		}
	}
	ctx, end, cleanup := mkCtx(w.Cx0, flavour)
	defer cleanup()
	done := world.start(ctx, data, via)
	var res ctxResult
	finished, stalled := false, false
	for _, s := range b.Steps {
		gt := gates[s.I]
		switch {
		case s.A == "call" && gt != nil && !finished && !stalled:
			select {
			case <-gt.started:
			case res = <-done: // the exchange is over and this handler was never called: judged below
				finished = true
			case <-time.After(ctxWait):
				stalled = true
				world.openAll()
			}
		case s.A == "add" && gt != nil:
			gt.open()
		case s.A == "ctx" && end != nil:
			end(s.S)
		}
	}
	world.openAll()
	if !finished {
		select {
		case res = <-done:
		case <-time.After(ctxWait):
			g.count("harness_timeouts", 1)
			return
		}
	}
	calls, saw := world.take()
	mode := seenStrict
	if stalled {
		mode = seenSkip
	}
	ok := g.judgeCtx(w, b.Steps, data, cs, via, flavour, 0, res, calls, saw, mode)
	if ok && stalled {
		g.count("harness_timeouts", 1) // a handler did not start within the harness deadline, yet everything conforms: load, not a verdict
		return
	}
	g.count("ctx_behaviours_replayed", 1)
	if ok {
		g.count("ctx_behaviours_conforming", 1)
		sit := situation(w, b.Steps)
		g.count("ctx_situation_"+strings.ReplaceAll(sit, "-", "_"), 1)
		if strings.HasSuffix(sit, "-during-batch") {
			after := 0
			past := false
			for _, s := range b.Steps {
				past = past || s.A == "ctx"
				if past && s.A == "call" && gates[s.I] != nil {
					after++
				}
			}
			g.count("ctx_handlers_dispatched_after_the_context_ended_mid_batch", after)
		}
	}
}

// ---------------------------------------------------------------------------- timers: the real options, real time

var timerD = 25 * time.Millisecond

// doTimerRound: a batch on ONE worker whose first entry takes the context and returns when it has SEEN it end - by the
// deadline the transport's own option set. The entries behind it are dispatched after the real deadline.
func (g *ctxEngine) doTimerRound(k int) {
	O := func(m string, pos []string, id string) absEntry {
		return absEntry{K: "obj", Ver: "v2", Meth: m, Params: absParams{K: "pos", Pos: pos, A: "-", B: "-", X: "-"}, ID: id}
	}
	entries := []absEntry{O("mctx", []string{"p"}, "str"), O("m2", []string{"p", "p"}, "int"), O("mctx", []string{"p", "p"}, "int"),
		O("m1o", []string{"p"}, "absent")}
	via := []string{"http-timer", "readwriter-timer", "httpslow-timer"}[k%3]
	w := &ctxRow{Cx0: "live", Cx: "expired", Pool: 1}
	w.Top, w.Validator, w.Processed, w.Shape = "batch", true, true, "array"
	if via == "httpslow-timer" { // a single request whose body arrives after the deadline
		entries = entries[2:3]
		w.Top, w.Shape = "single", "object"
	}
	w.Entries = entries
	for i, e := range entries {
		var p perEntry
		args := []string{"p", "zero"}
		if len(e.Params.Pos) == 2 {
			args = []string{"p", "p"}
		}
		p.Inv = absInv{E: i + 1, M: e.Meth, Args: args, Ctx: e.Meth == "mctx"}
		p.Cls = "ok"
		if e.ID == "absent" {
			p.Notif = true
			p.Exp.Kind, p.Exp.ID = "none", "null"
		} else {
			p.Exp.Kind, p.Exp.ID = "result", "echo"
			w.Out = append(w.Out, absResp{E: i + 1, Kind: "result", ID: "echo"})
		}
		w.Per = append(w.Per, p)
		w.Log = append(w.Log, p.Inv)
		if e.Meth == "mctx" {
			cs := "expired"
			if i == 0 && w.Top == "batch" {
				cs = "live"
			}
			w.Seen = append(w.Seen, ctxSeen{E: i + 1, Cs: cs})
		}
	}
	data, cs := renderDistinct(g.seed, w, k)
	world := newCtxWorld(1)
	var first *cgate
	if w.Top == "batch" {
		first = world.gate(cs[0].A, true)
	}
	ctx := context.WithValue(context.Background(), markerKey{}, "marker")
	done := world.start(ctx, data, via)
	var res ctxResult
	if first != nil {
		select {
		case <-first.sawDone: // the real deadline has passed and the handler knows
		case res = <-done:
			done <- res // the first handler never saw the context end: judged below
		case <-time.After(ctxWait):
			world.openAll()
			g.count("harness_timeouts", 1)
			<-done
			return
		}
	}
	select {
	case res = <-done:
	case <-time.After(ctxWait):
		g.count("harness_timeouts", 1)
		return
	}
	calls, saw := world.take()
	// real time: whether the FIRST handler (and, for the slow body, the only one) was entered before or after the timer
	// fired is the machine's business - "live" and "expired" are both accepted there (loose); the answers and the
	// invocation counts do not depend on it
	if g.judgeCtx(w, []ctxStep{{A: "call", I: 1, S: "live"}, {A: "ctx", S: "expired"}, {A: "call", I: 2, S: "expired"}}, data, cs, via, "timer", k, res, calls, saw, seenLoose) {
		g.count("ctx_timer_rounds_conforming", 1)
		for _, s := range saw {
			if s.Cs == "expired" {
				g.count("ctx_timer_handlers_called_after_the_real_deadline", 1)
			}
		}
	}
	g.count("ctx_timer_rounds", 1)
}

func TestJsonRpcCtx(t *testing.T) {
	if !vh.Enabled() {
		t.Skip()
	}
	var in ctxInput
	if err := vh.Input(&in); err != nil {
		t.Fatal(err)
	}
	out := vh.NewResult()
	defer out.Write()
	seed := in.Seed
	if seed == 0 {
		seed = vh.Seed()
	}
	g := &ctxEngine{out: out, seed: seed, in: &in, stats: map[string]int{}}
	var wg sync.WaitGroup
	const par = 4
	for k := 0; k < par; k++ {
		wg.Add(1)
		go func(k int) {
			defer wg.Done()
			defer func() {
				if p := recover(); p != nil {
					g.count("engine_panics", 1)
					out.Sample(vh.J{"engine_panic": fmt.Sprint(p)})
				}
			}()
			for i := k; i < len(in.Rows) && g.diverged() < 12; i += par {
				g.doCtxRow(&in.Rows[i], i)
			}
			for i := k; i < len(in.Behaviours) && g.diverged() < 12; i += par {
				g.doBehaviour(&in.Behaviours[i], i)
			}
		}(k)
	}
	wg.Wait()
	for k := 0; k < in.Timers && g.diverged() < 12; k++ {
		if in.Only != nil && (in.Only.Flavour != "timer" || in.Only.V != k) {
			continue
		}
		g.doTimerRound(k)
	}
	out.Done(len(in.Rows)+len(in.Behaviours)+in.Timers, 0)
	for k, v := range g.stats {
		out.Count(k, v)
	}
}

// Engine "remotedb" (growth check G12): the REAL gRPC key-value service of juno (grpc.Handler
// registered on a real google.golang.org/grpc server over bufconn or a loopback TCP listener, on a
// real db/memory / db/pebblev2 / db/pebble store) and the REAL client db/remote connected to it.
//
// This file: the world every test builds - store, instrumented store wrapper, server, client.
package remotedb

import (
	"bytes"
	"context"
	"errors"
	"fmt"
	"net"
	"sync"
	"sync/atomic"
	"time"

	"github.com/NethermindEth/juno/db"
	"github.com/NethermindEth/juno/db/memory"
	pebblev1 "github.com/NethermindEth/juno/db/pebble"
	"github.com/NethermindEth/juno/db/pebblev2"
	"github.com/NethermindEth/juno/db/remote"
	junogrpc "github.com/NethermindEth/juno/grpc"
	"github.com/NethermindEth/juno/grpc/gen"
	"github.com/NethermindEth/juno/utils/log"
	pebv1 "github.com/cockroachdb/pebble"
	pebv2 "github.com/cockroachdb/pebble/v2"
	vfsv1 "github.com/cockroachdb/pebble/vfs"
	vfsv2 "github.com/cockroachdb/pebble/v2/vfs"
	"google.golang.org/grpc"
	"google.golang.org/grpc/credentials/insecure"
	"google.golang.org/grpc/test/bufconn"
)

// fixes is the model in force (FALSE = the code as it is), see spec/remotedb/RemoteDB.tla.
type fixes struct {
	First    bool `json:"first"`
	Bounds   bool `json:"bounds"`
	Snapshot bool `json:"snapshot"`
	Leak     bool `json:"leak"`
	Has      bool `json:"has"`
	EOF      bool `json:"eof"`
	Mutex    bool `json:"mutex"`
}

func openStore(backend string) (db.KeyValueStore, error) {
	switch backend {
	case "memory":
		return memory.New(), nil
	case "pebblev2":
		fs := vfsv2.NewMem()
		return pebblev2.New("verif-mem", func(o *pebv2.Options) error { o.FS = fs; return nil })
	case "pebble":
		fs := vfsv1.NewMem()
		return pebblev1.New("verif-mem", func(o *pebv1.Options) error { o.FS = fs; return nil })
	}
	return nil, fmt.Errorf("unknown backend %q", backend)
}

// gated wraps the store handed to the gRPC handler. It changes nothing of what the server reads;
// it (1) can hold a Tx handler at the point where it takes its view of the store (NewIndexedBatch
// as coded, NewSnapshot in the repaired server) until the replayer says Begin, and (2) counts the
// server-side resources: views taken, iterators and snapshots open.
type gated struct {
	db.KeyValueStore
	mu      sync.Mutex
	cond    *sync.Cond
	hold    bool // the next arrival waits for a token
	tokens  int
	arrived int // Tx handlers that reached the point where they take their view
	pinned  int // ... and took it
	iters   atomic.Int64
	snaps   atomic.Int64
	batches atomic.Int64
	closing bool
}

func newGated(inner db.KeyValueStore) *gated {
	g := &gated{KeyValueStore: inner}
	g.cond = sync.NewCond(&g.mu)
	return g
}

func (g *gated) enter() {
	g.mu.Lock()
	g.arrived++
	g.cond.Broadcast()
	if g.hold && !g.closing {
		g.hold = false // exactly one arrival is held per TxOpen / RawOpen
		for g.tokens == 0 && !g.closing {
			g.cond.Wait()
		}
		if g.tokens > 0 {
			g.tokens--
		}
	}
	g.mu.Unlock()
}

func (g *gated) done() {
	g.mu.Lock()
	g.pinned++
	g.cond.Broadcast()
	g.mu.Unlock()
}

// wait blocks until f() holds (checked under the lock, re-checked on every change) or the deadline.
func (g *gated) wait(d time.Duration, f func() bool) bool {
	deadline := time.Now().Add(d)
	g.mu.Lock()
	defer g.mu.Unlock()
	for !f() {
		if time.Now().After(deadline) {
			return false
		}
		g.mu.Unlock()
		time.Sleep(200 * time.Microsecond)
		g.mu.Lock()
	}
	return true
}

func (g *gated) release() {
	g.mu.Lock()
	g.tokens++
	g.cond.Broadcast()
	g.mu.Unlock()
}

func (g *gated) openAll() {
	g.mu.Lock()
	g.closing = true
	g.cond.Broadcast()
	g.mu.Unlock()
}

func (g *gated) NewIndexedBatch() db.IndexedBatch {
	g.enter()
	b := g.KeyValueStore.NewIndexedBatch()
	g.batches.Add(1)
	g.done()
	return &cbatch{IndexedBatch: b, g: g}
}

func (g *gated) NewSnapshot() db.Snapshot {
	g.enter()
	s := g.KeyValueStore.NewSnapshot()
	g.snaps.Add(1)
	g.done()
	return &csnap{Snapshot: s, g: g}
}

type cbatch struct {
	db.IndexedBatch
	g      *gated
	closed atomic.Bool
}

func (b *cbatch) NewIterator(p []byte, ub bool) (db.Iterator, error) {
	it, err := b.IndexedBatch.NewIterator(p, ub)
	if err != nil {
		return nil, err
	}
	b.g.iters.Add(1)
	return &citer{Iterator: it, g: b.g}, nil
}

func (b *cbatch) Close() error {
	if b.closed.CompareAndSwap(false, true) {
		b.g.batches.Add(-1)
	}
	return b.IndexedBatch.Close()
}

type csnap struct {
	db.Snapshot
	g      *gated
	closed atomic.Bool
}

func (s *csnap) NewIterator(p []byte, ub bool) (db.Iterator, error) {
	it, err := s.Snapshot.NewIterator(p, ub)
	if err != nil {
		return nil, err
	}
	s.g.iters.Add(1)
	return &citer{Iterator: it, g: s.g}, nil
}

func (s *csnap) Close() error {
	if s.closed.CompareAndSwap(false, true) {
		s.g.snaps.Add(-1)
	}
	return s.Snapshot.Close()
}

type citer struct {
	db.Iterator
	g      *gated
	closed atomic.Bool
}

func (i *citer) Close() error {
	if i.closed.CompareAndSwap(false, true) {
		i.g.iters.Add(-1)
	}
	return i.Iterator.Close()
}

// world = one store, one server, one client.
type world struct {
	backend   string
	transport string
	store     db.KeyValueStore
	g         *gated
	srv       *grpc.Server
	handlers  atomic.Int64 // Tx handlers running (stream interceptor)
	begun     atomic.Int64
	lastErr   atomic.Value // last non-nil handler return (string)
	rdb       *remote.DB
	raw       gen.KVClient
	ctx       context.Context
	cancel    context.CancelFunc
	lis       net.Listener
	served    chan struct{}
}

func newWorld(backend, transport, version string) (*world, error) {
	st, err := openStore(backend)
	if err != nil {
		return nil, err
	}
	w := &world{backend: backend, transport: transport, store: st, g: newGated(st), served: make(chan struct{})}
	w.srv = grpc.NewServer(grpc.StreamInterceptor(func(s any, ss grpc.ServerStream, info *grpc.StreamServerInfo, h grpc.StreamHandler) error {
		w.handlers.Add(1)
		w.begun.Add(1)
		err := h(s, ss)
		if err != nil {
			w.lastErr.Store(err.Error())
		}
		w.handlers.Add(-1)
		return err
	}))
	gen.RegisterKVServer(w.srv, junogrpc.New(w.g, version))
	var target string
	var opts []grpc.DialOption
	if transport == "tcp" {
		var lc net.ListenConfig
		l, err := lc.Listen(context.Background(), "tcp", "127.0.0.1:0")
		if err != nil {
			return nil, err
		}
		w.lis = l
		target = l.Addr().String()
	} else {
		bl := bufconn.Listen(1 << 20)
		w.lis = bl
		target = "passthrough:///bufnet"
		opts = append(opts, grpc.WithContextDialer(func(ctx context.Context, _ string) (net.Conn, error) { return bl.DialContext(ctx) }))
	}
	go func() { _ = w.srv.Serve(w.lis); close(w.served) }()
	opts = append(opts, grpc.WithTransportCredentials(insecure.NewCredentials()))
	w.ctx, w.cancel = context.WithCancel(context.Background())
	w.rdb, err = remote.New(target, w.ctx, log.NewNopZapLogger(), opts...)
	if err != nil {
		return nil, err
	}
	raw, ok := w.rdb.Impl().(gen.KVClient)
	if !ok {
		return nil, errors.New("remote.DB.Impl() is not a gen.KVClient")
	}
	w.raw = raw
	return w, nil
}

// settle waits until the server-side counters have the wanted values.
func (w *world) settle(d time.Duration, handlers, iters int) (int, int, bool) {
	deadline := time.Now().Add(d)
	for {
		h, i := int(w.handlers.Load()), int(w.g.iters.Load())
		if (handlers < 0 || h == handlers) && (iters < 0 || i == iters) {
			return h, i, true
		}
		if time.Now().After(deadline) {
			return h, i, false
		}
		time.Sleep(200 * time.Microsecond)
	}
}

// shutdown ends the world: the gate is opened, the server stopped, the store closed. It returns
// what was left behind. `how` is how the client side goes away first.
func (w *world) shutdown(how string) (left string) {
	w.g.openAll()
	switch how {
	case "cancel":
		w.cancel()
	case "connclose":
		_ = w.rdb.Close()
	case "serverstop":
		w.srv.Stop()
	}
	if _, _, ok := w.settle(3*time.Second, 0, 0); !ok {
		left = fmt.Sprintf("after %s: %d handlers running, %d server iterators open", how, w.handlers.Load(), w.g.iters.Load())
	}
	if left == "" && w.g.snaps.Load() != 0 {
		left = fmt.Sprintf("after %s: %d server snapshots open", how, w.g.snaps.Load())
	}
	w.cancel()
	_ = w.rdb.Close()
	w.srv.Stop()
	<-w.served
	func() {
		defer func() {
			if p := recover(); p != nil && left == "" {
				left = fmt.Sprintf("store.Close panicked: %v", p)
			}
		}()
		if err := w.store.Close(); err != nil && left == "" {
			left = fmt.Sprintf("store.Close: %v", err)
		}
	}()
	return left
}

func dump(st db.KeyValueReader) (map[string][]byte, error) {
	it, err := st.NewIterator(nil, false)
	if err != nil {
		return nil, err
	}
	defer it.Close()
	out := map[string][]byte{}
	for ok := it.First(); ok; ok = it.Next() {
		v, err := it.Value()
		if err != nil {
			return nil, err
		}
		out[string(it.Key())] = bytes.Clone(v)
	}
	return out, nil
}

// TestRemoteReplay: behaviours of spec/remotedb/RemoteDB.tla (TLC -simulate) stepped through the
// real server and the real client. After every step: the call's result against the
// specification's, the same read on a LOCAL snapshot / iterator of the store taken at the point
// the model in force pins (ground truth independent of the specification), the store content, the
// number of running Tx handlers, the number of open server-side iterators, every client iterator's
// cached pair. At the end of a behaviour: every cursor's position (CURRENT through the stream), then
// the client goes away in one of three ways and nothing may be left behind.
package remotedb

import (
	"bytes"
	"context"
	"errors"
	"fmt"
	"io"
	"reflect"
	"runtime"
	"sort"
	"strings"
	"testing"
	"time"

	"github.com/NethermindEth/juno/db"
	"github.com/NethermindEth/juno/db/dbutils"
	"github.com/NethermindEth/juno/grpc/gen"

	"verifharness/internal/vh"
)

const absent = "-"

type action struct {
	Name string `json:"name"`
	S    int    `json:"s"`
	C    int    `json:"c"`
	K    int    `json:"k"`
	V    string `json:"v"`
	P    []int  `json:"p"`
	Ub   bool   `json:"ub"`
	T    []int  `json:"t"`
	Op   string `json:"op"`
	W    string `json:"w"`
}

type result struct {
	Kind string `json:"kind"`
	V    string `json:"v,omitempty"`
	K    int    `json:"k,omitempty"`
	B    bool   `json:"b,omitempty"`
	C    int    `json:"c,omitempty"`
	ID   int    `json:"id,omitempty"`
}

type cacheEntry struct {
	S int    `json:"s"`
	C int    `json:"c"`
	K int    `json:"k"`
	V string `json:"v"`
}

type curEntry struct {
	S   int `json:"s"`
	C   int `json:"c"`
	Pos int `json:"pos"`
}

type projection struct {
	Handlers int          `json:"handlers"`
	CStreams int          `json:"cstreams"`
	Iters    int          `json:"iters"`
	Cache    []cacheEntry `json:"cache"`
	Curs     []curEntry   `json:"curs"`
}

type step struct {
	A     action     `json:"a"`
	Res   result     `json:"res"`
	Store []string   `json:"store"`
	Proj  projection `json:"proj"`
}

type replayInput struct {
	Keys       [][]int  `json:"keys"`
	Behaviours [][]step `json:"behaviours"`
	Backends   []string `json:"backends"`
	Fix        fixes    `json:"fix"`
	First      int      `json:"first"` // index of the first behaviour (keeps the variation of a replay)
}

func toBytes(a []int) []byte {
	b := make([]byte, len(a))
	for i, x := range a {
		b[i] = byte(x)
	}
	return b
}

type clientIter struct {
	it       db.Iterator
	lo       []byte
	ub       bool
	local    db.Iterator // the same iterator on a local snapshot (ground truth)
	localSn  db.Snapshot
	alt      db.Iterator // model pins at the transaction's beginning: the same iterator pinned at OPEN,
	altSn    db.Snapshot // only to NAME a divergence that is the known "cursor pins the content of its OPEN"
	lastOp   string
	lastOK   bool
	closed   bool
	cursorID int
}

type slot struct {
	kind      string
	tx        db.IndexedBatch
	raw       gen.KV_TxClient
	rawCancel context.CancelFunc
	rawDead   bool
	its       map[int]*clientIter
	localView db.Snapshot // the store when the handler began
	rawSnaps  map[int]db.Snapshot
	rawIts    map[int]db.Iterator
	rawAlt    map[int]db.Iterator
	rawAltSn  map[int]db.Snapshot
}

type replayer struct {
	w       *world
	keys    [][]byte
	fix     fixes
	slots   map[int]*slot
	arrived int
	variant int
	nstep   int
}

func (r *replayer) keyIndex(k []byte) int {
	for i, x := range r.keys {
		if bytes.Equal(x, k) {
			return i + 1
		}
	}
	return -1
}

func (r *replayer) closeLocal(sl *slot) {
	if sl == nil {
		return
	}
	for _, ci := range sl.its {
		if ci.local != nil {
			_ = ci.local.Close()
			ci.local = nil
		}
		if ci.localSn != nil {
			_ = ci.localSn.Close()
			ci.localSn = nil
		}
		ci.closeAlt()
	}
	for _, it := range sl.rawAlt {
		_ = it.Close()
	}
	for _, sn := range sl.rawAltSn {
		_ = sn.Close()
	}
	sl.rawAlt, sl.rawAltSn = map[int]db.Iterator{}, map[int]db.Snapshot{}
	for _, it := range sl.rawIts {
		_ = it.Close()
	}
	for _, sn := range sl.rawSnaps {
		_ = sn.Close()
	}
	sl.rawIts, sl.rawSnaps = map[int]db.Iterator{}, map[int]db.Snapshot{}
	if sl.localView != nil {
		_ = sl.localView.Close()
		sl.localView = nil
	}
}

func (ci *clientIter) closeAlt() {
	if ci.alt != nil {
		_ = ci.alt.Close()
		ci.alt = nil
	}
	if ci.altSn != nil {
		_ = ci.altSn.Close()
		ci.altSn = nil
	}
}

func newSlot(kind string) *slot {
	return &slot{kind: kind, its: map[int]*clientIter{}, rawSnaps: map[int]db.Snapshot{}, rawIts: map[int]db.Iterator{},
		rawAlt: map[int]db.Iterator{}, rawAltSn: map[int]db.Snapshot{}}
}

func (r *replayer) closeAllLocal() {
	for _, sl := range r.slots {
		r.closeLocal(sl)
		if sl.rawCancel != nil {
			sl.rawCancel()
		}
	}
}

// waitArrived: every stream opened so far has had its handler reach the point where it takes its view.
func (r *replayer) waitArrived() error {
	if !r.w.g.wait(3*time.Second, func() bool { return r.w.g.arrived >= r.arrived }) {
		return fmt.Errorf("handler of a new stream did not start (arrived %d, want %d)", r.w.g.arrived, r.arrived)
	}
	return nil
}

// the content a new cursor pins in the model in force
func (r *replayer) pinFor(sl *slot) db.Snapshot {
	if r.fix.Snapshot && sl.localView != nil {
		return nil // use the stream's view
	}
	return r.w.store.NewSnapshot()
}

func (r *replayer) localIter(sl *slot, lo []byte, ub bool) (db.Iterator, db.Snapshot, error) {
	var src db.KeyValueReader
	sn := r.pinFor(sl)
	if sn == nil {
		src = sl.localView
	} else {
		src = sn
	}
	var it db.Iterator
	var err error
	if r.fix.Bounds {
		it, err = src.NewIterator(lo, ub)
	} else {
		it, err = src.NewIterator(nil, false)
	}
	if err != nil {
		if sn != nil {
			_ = sn.Close()
		}
		return nil, nil, err
	}
	return it, sn, nil
}

func (r *replayer) itResult(it db.Iterator, ok bool) (result, string) {
	k := it.Key()
	v, err := it.Value()
	if err != nil {
		return result{Kind: "err"}, "Value() error: " + err.Error()
	}
	has := len(k) > 0
	note := ""
	if ok != has {
		note = fmt.Sprintf("returned %v but Key() is %x", ok, k)
	}
	if !has {
		return result{Kind: "invalid"}, note
	}
	return result{Kind: "at", K: r.keyIndex(k), V: string(v)}, note
}

func cursorIDOf(it db.Iterator) int {
	defer func() { _ = recover() }()
	v := reflect.ValueOf(it)
	for v.Kind() == reflect.Pointer || v.Kind() == reflect.Interface {
		v = v.Elem()
	}
	f := v.FieldByName("cursorID")
	if f.IsValid() {
		return int(f.Uint())
	}
	return 0
}

func getRes(rd db.KeyValueReader, key []byte) result {
	var val string
	err := rd.Get(key, func(v []byte) error { val = string(v); return nil })
	switch {
	case err == nil:
		return result{Kind: "value", V: val}
	case errors.Is(err, db.ErrKeyNotFound):
		return result{Kind: "notfound"}
	}
	return result{Kind: "err", V: ""}
}

func hasRes(rd db.KeyValueReader, key []byte) result {
	ok, err := rd.Has(key)
	switch {
	case err == nil:
		return result{Kind: "has", B: ok}
	case errors.Is(err, db.ErrKeyNotFound) && !ok:
		return result{Kind: "notfound-err"}
	}
	return result{Kind: "err"}
}

// what the local store says a Has must answer (backends disagree on the error, not on the boolean)
func localHas(rd db.KeyValueReader, key []byte) bool {
	err := rd.Get(key, func([]byte) error { return nil })
	return err == nil
}

type outcome struct {
	obs    result
	alt    *result // what the cursor answers when it pins the content of its OPEN (the code as it is)
	local  *result // ground truth from the local store, when the step is a read
	note   string
	errTxt string
}

func (r *replayer) rawExchange(sl *slot, c *gen.Cursor) (*gen.Pair, error) {
	if err := sl.raw.Send(c); err != nil {
		// the real status is delivered by Recv
		if _, rerr := sl.raw.Recv(); rerr != nil {
			return nil, rerr
		}
		return nil, err
	}
	return sl.raw.Recv()
}

func (r *replayer) pairRes(p *gen.Pair, isOpen bool) result {
	if isOpen {
		return result{Kind: "opened", ID: int(p.CursorId)}
	}
	if len(p.K) > 0 {
		return result{Kind: "pair", K: r.keyIndex(p.K), V: string(p.V), ID: int(p.CursorId)}
	}
	if len(p.V) > 0 {
		return result{Kind: "pair", K: -2, V: string(p.V), ID: int(p.CursorId)}
	}
	return result{Kind: "empty", ID: int(p.CursorId)}
}

var rawOps = map[string]gen.Op{"OPEN": gen.Op_OPEN, "GET": gen.Op_GET, "SEEK": gen.Op_SEEK, "SEEK_EXACT": gen.Op_SEEK_EXACT,
	"NEXT": gen.Op_NEXT, "CURRENT": gen.Op_CURRENT, "FIRST": gen.Op_FIRST, "CLOSE": gen.Op_CLOSE, "BAD": gen.Op(77)}

func (r *replayer) do(a action, exp result) (o outcome, fatal error) {
	w := r.w
	sl := r.slots[a.S]
	key := func() []byte { return r.keys[a.K-1] }
	switch a.Name {
	case "Write":
		var err error
		switch {
		case a.V == absent && r.nstep%2 == 0:
			err = w.store.Delete(key())
		case a.V == absent:
			err = w.store.Update(func(b db.IndexedBatch) error { return b.Delete(key()) })
		case r.nstep%3 == 0:
			err = w.store.Write(func(b db.Batch) error { return b.Put(key(), []byte(a.V)) })
		default:
			err = w.store.Put(key(), []byte(a.V))
		}
		if err != nil {
			return o, fmt.Errorf("local write failed: %w", err)
		}
		o.obs = result{Kind: "ok"}
	case "TxOpen", "RawOpen":
		r.closeLocal(sl)
		w.g.mu.Lock()
		w.g.hold = true
		w.g.mu.Unlock()
		ns := newSlot("")
		if a.Name == "TxOpen" {
			ns.kind = "tx"
			ns.tx = w.rdb.NewIndexedBatch()
		} else {
			ns.kind = "raw"
			ctx, cancel := context.WithCancel(w.ctx) // the raw streams belong to the same client: they go with it
			st, err := w.raw.Tx(ctx)
			if err != nil {
				cancel()
				return o, fmt.Errorf("raw Tx: %w", err)
			}
			ns.raw, ns.rawCancel = st, cancel
		}
		r.slots[a.S] = ns
		r.arrived++
		if err := r.waitArrived(); err != nil {
			return o, err
		}
		o.obs = result{Kind: "ok"}
	case "Begin":
		want := 0
		w.g.mu.Lock()
		want = w.g.pinned + 1
		w.g.mu.Unlock()
		sl.localView = w.store.NewSnapshot()
		w.g.release()
		if !w.g.wait(3*time.Second, func() bool { return w.g.pinned >= want }) {
			return o, errors.New("the held handler did not take its view after release")
		}
		o.obs = result{Kind: "ok"}
	case "TxGet":
		o.obs = getRes(sl.tx, key())
		var lr result
		if r.fix.Snapshot {
			lr = getRes(sl.localView, key())
		} else {
			lr = getRes(w.store, key())
		}
		o.local = &lr
	case "TxHas":
		o.obs = hasRes(sl.tx, key())
		src := db.KeyValueReader(w.store)
		if r.fix.Snapshot {
			src = sl.localView
		}
		lr := result{Kind: "has", B: localHas(src, key())}
		if !lr.B && !r.fix.Has {
			lr = result{Kind: "notfound-err"}
		}
		o.local = &lr
	case "TxNewIter", "DBNewIter":
		lo := toBytes(a.P)
		var it db.Iterator
		var err error
		if a.Name == "DBNewIter" {
			r.closeLocal(sl)
			sl = newSlot("dbiter")
			r.slots[a.S] = sl
			sl.localView = w.store.NewSnapshot()
			it, err = w.rdb.NewIterator(lo, a.Ub)
			r.arrived++
			if werr := r.waitArrived(); werr != nil {
				return o, werr
			}
		} else {
			it, err = sl.tx.NewIterator(lo, a.Ub)
		}
		if err != nil {
			o.obs = result{Kind: "err"}
			o.errTxt = err.Error()
			break
		}
		id := cursorIDOf(it)
		o.obs = result{Kind: "iter", C: id}
		ci := &clientIter{it: it, lo: lo, ub: a.Ub, cursorID: id, lastOp: "new"}
		ci.local, ci.localSn, err = r.localIter(sl, lo, a.Ub)
		if err != nil {
			return o, fmt.Errorf("local iterator: %w", err)
		}
		if r.fix.Snapshot && a.Name == "TxNewIter" {
			ci.altSn = r.w.store.NewSnapshot()
			if r.fix.Bounds {
				ci.alt, _ = ci.altSn.NewIterator(lo, a.Ub)
			} else {
				ci.alt, _ = ci.altSn.NewIterator(nil, false)
			}
		}
		if id == 0 {
			id = exp.C // this tree's client does not expose the cursor id
		}
		sl.its[id] = ci
	case "ItFirst", "ItNext", "ItSeek", "ItValid":
		ci := sl.its[a.C]
		if ci == nil {
			return o, fmt.Errorf("behaviour names iterator %d/%d the replayer does not have", a.S, a.C)
		}
		var ok, lok bool
		switch a.Name {
		case "ItFirst":
			ok = ci.it.First()
		case "ItNext":
			ok = ci.it.Next()
		case "ItSeek":
			ok = ci.it.Seek(toBytes(a.T))
		case "ItValid":
			ok = ci.it.Valid()
		}
		o.obs, o.note = r.itResult(ci.it, ok)
		// ground truth: the same call on the local iterator, as long as both are usable
		if ci.local != nil && !ci.closed {
			switch a.Name {
			case "ItFirst":
				lok = ci.local.First()
			case "ItNext":
				lok = ci.local.Next()
			case "ItSeek":
				lok = ci.local.Seek(toBytes(a.T))
			case "ItValid":
				lok = ci.local.Valid()
			}
			lr := result{Kind: "invalid"}
			if lok {
				v, _ := ci.local.Value()
				lr = result{Kind: "at", K: r.keyIndex(ci.local.Key()), V: string(v)}
			}
			o.local = &lr
		}
		if ci.alt != nil && !ci.closed {
			var aok bool
			switch a.Name {
			case "ItFirst":
				aok = ci.alt.First()
			case "ItNext":
				aok = ci.alt.Next()
			case "ItSeek":
				aok = ci.alt.Seek(toBytes(a.T))
			case "ItValid":
				aok = ci.alt.Valid()
			}
			ar := result{Kind: "invalid"}
			if aok {
				v, _ := ci.alt.Value()
				ar = result{Kind: "at", K: r.keyIndex(ci.alt.Key()), V: string(v)}
			}
			o.alt = &ar
		}
	case "ItClose":
		ci := sl.its[a.C]
		if ci == nil {
			return o, fmt.Errorf("behaviour names iterator %d/%d the replayer does not have", a.S, a.C)
		}
		err := ci.it.Close()
		ci.closed = true
		if ci.local != nil {
			_ = ci.local.Close()
			ci.local = nil
		}
		if ci.localSn != nil {
			_ = ci.localSn.Close()
			ci.localSn = nil
		}
		ci.closeAlt()
		if err != nil {
			o.obs = result{Kind: "err"}
			o.errTxt = err.Error()
		} else {
			o.obs = result{Kind: "ok"}
		}
	case "TxDiscard":
		var err error
		if d, ok := sl.tx.(interface{ Discard() error }); ok && r.nstep%2 == 0 {
			err = d.Discard()
		} else {
			err = sl.tx.Close()
		}
		if err != nil {
			o.obs = result{Kind: "err"}
			o.errTxt = err.Error()
		} else {
			o.obs = result{Kind: "ok"}
		}
	case "WriteAttempt":
		var err error
		k := r.keys[a.K-1]
		switch a.W {
		case "TxPut":
			err = sl.tx.Put(k, []byte("x"))
		case "TxDelete":
			err = sl.tx.Delete(k)
		case "TxDeleteRange":
			err = sl.tx.DeleteRange(k, append(bytes.Clone(k), 0xff))
		case "TxCommit":
			if c, ok := sl.tx.(interface{ Commit() error }); ok {
				err = c.Commit()
			} else {
				return o, errors.New("transaction has no Commit")
			}
		case "DBPut":
			err = w.rdb.Put(k, []byte("x"))
		case "DBDelete":
			err = w.rdb.Delete(k)
		case "DBDeleteRange":
			err = w.rdb.DeleteRange(k, append(bytes.Clone(k), 0xff))
		case "DBUpdate":
			err = w.rdb.Update(func(b db.IndexedBatch) error { return b.Put(k, []byte("x")) })
			r.arrived++
			if werr := r.waitArrived(); werr != nil {
				return o, werr
			}
		}
		switch {
		case err == nil:
			o.obs = result{Kind: "accepted"}
		case strings.Contains(err.Error(), "read only"):
			o.obs = result{Kind: "readonly"}
		case strings.Contains(err.Error(), "not supported"):
			o.obs = result{Kind: "notsupported"}
		default:
			o.obs = result{Kind: "err"}
			o.errTxt = err.Error()
		}
	case "DBGet":
		o.obs = getRes(w.rdb, key())
		lr := getRes(w.store, key())
		o.local = &lr
		r.arrived++
		if werr := r.waitArrived(); werr != nil {
			return o, werr
		}
	case "DBHas":
		o.obs = hasRes(w.rdb, key())
		lr := result{Kind: "has", B: localHas(w.store, key())}
		if !lr.B && !r.fix.Has {
			lr = result{Kind: "notfound-err"}
		}
		o.local = &lr
		r.arrived++
		if werr := r.waitArrived(); werr != nil {
			return o, werr
		}
	case "DBWrite":
		err := w.rdb.Write(func(b db.Batch) error { return b.Put(r.keys[0], []byte("x")) })
		r.arrived++
		if werr := r.waitArrived(); werr != nil {
			return o, werr
		}
		switch {
		case err == nil:
			o.obs = result{Kind: "accepted"}
		case strings.Contains(err.Error(), "read only"):
			o.obs = result{Kind: "readonly"}
		default:
			o.obs = result{Kind: "err"}
			o.errTxt = err.Error()
		}
	case "ConnClose":
		if r.variant%2 == 0 {
			w.cancel()
		} else {
			_ = w.rdb.Close()
		}
		o.obs = result{Kind: "ok"}
	case "RawReq":
		c := &gen.Cursor{Op: rawOps[a.Op], Cursor: uint32(a.C)}
		switch a.Op {
		case "GET":
			c.K = key()
		case "SEEK", "SEEK_EXACT":
			t := toBytes(a.T)
			cut := 0
			if len(t) > 0 {
				cut = r.nstep % (len(t) + 1) // the server concatenates bucket_name and k
			}
			c.BucketName, c.K = t[:cut], t[cut:]
		}
		if sl.rawDead {
			// the stream has ended (Recv returned an error): the stub refuses / fails again
			_, err := r.rawExchange(sl, c)
			if err == nil {
				o.obs = result{Kind: "answered-after-end"}
			} else {
				o.obs = result{Kind: "err"}
			}
			break
		}
		p, err := r.rawExchange(sl, c)
		if err != nil {
			sl.rawDead = true
			o.obs = result{Kind: "err"}
			o.errTxt = err.Error()
			break
		}
		o.obs = r.pairRes(p, a.Op == "OPEN")
		// ground truth on a local iterator pinned like the cursor
		switch a.Op {
		case "OPEN":
			id := int(p.CursorId)
			var src db.KeyValueReader = sl.localView
			if !r.fix.Snapshot {
				sn := w.store.NewSnapshot()
				sl.rawSnaps[id] = sn
				src = sn
			}
			it, err := src.NewIterator(nil, false)
			if err != nil {
				return o, err
			}
			sl.rawIts[id] = it
			if r.fix.Snapshot {
				sn := w.store.NewSnapshot()
				sl.rawAltSn[id] = sn
				sl.rawAlt[id], _ = sn.NewIterator(nil, false)
			}
		case "GET":
			var lr result
			if r.fix.Snapshot {
				lr = getRes(sl.localView, key())
			} else {
				lr = getRes(w.store, key())
			}
			if lr.Kind == "value" {
				lr = result{Kind: "pair", K: a.K, V: lr.V}
			} else {
				lr = result{Kind: "empty"}
			}
			o.local = &lr
		case "CLOSE":
			if it := sl.rawIts[a.C]; it != nil {
				_ = it.Close()
				delete(sl.rawIts, a.C)
			}
			if sn := sl.rawSnaps[a.C]; sn != nil {
				_ = sn.Close()
				delete(sl.rawSnaps, a.C)
			}
			if it := sl.rawAlt[a.C]; it != nil {
				_ = it.Close()
				delete(sl.rawAlt, a.C)
			}
			if sn := sl.rawAltSn[a.C]; sn != nil {
				_ = sn.Close()
				delete(sl.rawAltSn, a.C)
			}
		default:
			it := sl.rawIts[a.C]
			if it == nil {
				break
			}
			var ok bool
			switch a.Op {
			case "SEEK":
				ok = it.Seek(toBytes(a.T))
			case "SEEK_EXACT":
				ok = it.Seek(toBytes(a.T)) && bytes.Equal(it.Key(), toBytes(a.T))
			case "NEXT":
				ok = it.Next()
			case "FIRST":
				ok = it.First()
			case "CURRENT":
				ok = it.Valid()
			}
			lr := result{Kind: "empty", ID: a.C}
			if ok {
				v, _ := it.Value()
				lr = result{Kind: "pair", K: r.keyIndex(it.Key()), V: string(v), ID: a.C}
			}
			o.local = &lr
			if ait := sl.rawAlt[a.C]; ait != nil {
				var aok bool
				switch a.Op {
				case "SEEK":
					aok = ait.Seek(toBytes(a.T))
				case "SEEK_EXACT":
					aok = ait.Seek(toBytes(a.T)) && bytes.Equal(ait.Key(), toBytes(a.T))
				case "NEXT":
					aok = ait.Next()
				case "FIRST":
					aok = ait.First()
				case "CURRENT":
					aok = ait.Valid()
				}
				ar := result{Kind: "empty", ID: a.C}
				if aok {
					v, _ := ait.Value()
					ar = result{Kind: "pair", K: r.keyIndex(ait.Key()), V: string(v), ID: a.C}
				}
				o.alt = &ar
			}
		}
	case "RawCloseSend":
		_ = sl.raw.CloseSend()
		deadline := time.AfterFunc(3*time.Second, sl.rawCancel)
		_, err := sl.raw.Recv()
		deadline.Stop()
		switch {
		case err == io.EOF:
			o.obs = result{Kind: "eof"}
		case err != nil:
			o.obs = result{Kind: "err"}
			o.errTxt = err.Error()
		default:
			o.obs = result{Kind: "message-after-close"}
		}
		sl.rawDead = true
	case "RawCancel":
		sl.rawCancel()
		sl.rawDead = true
		o.obs = result{Kind: "ok"}
	default:
		return o, fmt.Errorf("unknown action %q", a.Name)
	}
	return o, nil
}

func sameRes(a, b result) bool { return a == b }

func resText(r result) string {
	switch r.Kind {
	case "at", "pair":
		return fmt.Sprintf("%s(k=%d,v=%q,id=%d)", r.Kind, r.K, r.V, r.ID)
	case "value":
		return fmt.Sprintf("value(%q)", r.V)
	case "has":
		return fmt.Sprintf("has(%v)", r.B)
	case "iter":
		return fmt.Sprintf("iter(%d)", r.C)
	case "opened", "empty":
		return fmt.Sprintf("%s(id=%d)", r.Kind, r.ID)
	}
	return r.Kind
}

func diffKind(exp, obs result) string {
	if exp.Kind != obs.Kind {
		return exp.Kind + "-vs-" + obs.Kind
	}
	switch {
	case exp.K != obs.K:
		return "wrong-key"
	case exp.V != obs.V:
		return "wrong-value"
	case exp.ID != obs.ID || exp.C != obs.C:
		return "wrong-cursor-id"
	case exp.B != obs.B:
		return "wrong-boolean"
	}
	return "differs"
}

func inBounds(k, lo []byte, ub bool) string {
	if bytes.Compare(k, lo) < 0 {
		return "below-prefix"
	}
	if ub {
		if hi := dbutils.UpperBound(lo); hi != nil && bytes.Compare(k, hi) >= 0 {
			return "beyond-upper-bound"
		}
	}
	return ""
}

// classify names the divergence: the signature of a confirmed defect when the shape is its, else a
// key built from the call, its context and the kind of difference.
func (r *replayer) classify(a action, exp, obs result, alt *result, sl *slot, against string) string {
	lower := strings.ToLower
	if alt != nil && sameRes(*alt, obs) && !sameRes(*alt, exp) {
		// exactly what a cursor pinned at its own OPEN answers, not what the transaction's view holds
		return "remotedb:tx:not-point-in-time:cursor-pins-open-time"
	}
	switch a.Name {
	case "ItFirst":
		if obs.Kind == "invalid" && against == "spec" {
			if !r.streamAlive(sl) {
				return "remotedb:first-unsupported:iterator-kills-stream"
			}
		}
	case "TxHas", "DBHas":
		if exp.Kind == "has" && !exp.B && obs.Kind == "notfound-err" {
			return "remotedb:has:missing-key:error-instead-of-false"
		}
	case "RawCloseSend":
		if exp.Kind == "eof" && obs.Kind == "err" {
			return "remotedb:stream-end:clean-close-status-error"
		}
	case "RawReq":
		if a.Op == "FIRST" && obs.Kind == "err" && exp.Kind != "err" {
			return "remotedb:first-unsupported:raw-request-refused"
		}
	case "TxGet":
		if exp.Kind != "err" && obs.Kind != "err" {
			live := getRes(r.w.store, r.keys[a.K-1])
			if sameRes(live, obs) {
				return "remotedb:tx:not-point-in-time:get-sees-later-write"
			}
		}
	}
	// a Has / a raw GET that answers from the live store instead of the transaction's view
	if (a.Name == "TxHas" && exp.Kind == "has" && obs.Kind == "has") ||
		(a.Name == "RawReq" && a.Op == "GET" && exp.Kind != "err" && obs.Kind != "err") {
		live := localHas(r.w.store, r.keys[a.K-1])
		if (a.Name == "TxHas" && obs.B == live && exp.B != live) || (a.Name == "RawReq" && (obs.Kind == "pair") == live && (exp.Kind == "pair") != live) {
			return "remotedb:tx:not-point-in-time:get-sees-later-write"
		}
		if a.Name == "RawReq" && live && obs.Kind == "pair" && exp.Kind == "pair" && obs.V != exp.V {
			if lv := getRes(r.w.store, r.keys[a.K-1]); lv.V == obs.V {
				return "remotedb:tx:not-point-in-time:get-sees-later-write"
			}
		}
	}
	if a.Name == "RawReq" {
		return fmt.Sprintf("remotedb:raw:%s:%s", lower(a.Op), diffKind(exp, obs))
	}
	if strings.HasPrefix(a.Name, "It") && a.Name != "ItClose" {
		ci := sl.its[a.C]
		ctx := "new"
		if ci != nil {
			ctx = ci.lastOp
			if ci.lastOp != "new" && !ci.lastOK {
				ctx += "-miss"
			}
			if obs.Kind == "at" && obs.K > 0 {
				if where := inBounds(r.keys[obs.K-1], ci.lo, ci.ub); where != "" {
					return "remotedb:iterator:bounds-ignored:" + where
				}
			}
		}
		return fmt.Sprintf("remotedb:iterator:%s-after-%s:%s", lower(a.Name[2:]), ctx, diffKind(exp, obs))
	}
	return fmt.Sprintf("remotedb:%s:%s", lower(a.Name), diffKind(exp, obs))
}

func (r *replayer) streamAlive(sl *slot) bool {
	if sl == nil || sl.tx == nil {
		return true
	}
	// a Get on the transaction tells: a dead stream answers with an error that is not "not found"
	err := sl.tx.Get([]byte{0xfe, 0xfe, 0xfe}, func([]byte) error { return nil })
	return err == nil || errors.Is(err, db.ErrKeyNotFound)
}

func (r *replayer) storeDiff(spec []string) string {
	got, err := dump(r.w.store)
	if err != nil {
		return "dump failed: " + err.Error()
	}
	n := 0
	for i, v := range spec {
		g, ok := got[string(r.keys[i])]
		if v == absent {
			if ok {
				return fmt.Sprintf("key %x present (%q), the specification has it absent", r.keys[i], g)
			}
			continue
		}
		n++
		if !ok || string(g) != v {
			return fmt.Sprintf("key %x = %q (present %v), the specification has %q", r.keys[i], g, ok, v)
		}
	}
	if n != len(got) {
		return fmt.Sprintf("%d keys in the store, the specification has %d", len(got), n)
	}
	return ""
}

func TestRemoteReplay(t *testing.T) {
	if !vh.Enabled() {
		t.Skip()
	}
	var in replayInput
	if err := vh.Input(&in); err != nil {
		t.Fatal(err)
	}
	out := vh.NewResult()
	defer out.Write()
	keys := make([][]byte, len(in.Keys))
	for i, k := range in.Keys {
		keys[i] = toBytes(k)
	}
	backends := in.Backends
	if len(backends) == 0 {
		backends = []string{"memory", "pebblev2", "pebble"}
	}
	actions := map[string]int{}
	nsteps := 0
	ndiverged := 0
	for bi, beh := range in.Behaviours {
		if ndiverged >= 6 {
			break // enough evidence; every further divergence costs the settle timeouts
		}
		idx := in.First + bi
		backend := backends[idx%len(backends)]
		transport := "bufconn"
		if idx%5 == 4 {
			transport = "tcp"
		}
		w, err := newWorld(backend, transport, "0.1.0")
		if err != nil {
			t.Fatalf("world: %v", err)
		}
		r := &replayer{w: w, keys: keys, fix: in.Fix, slots: map[int]*slot{}, variant: idx + int(vh.Seed())}
		input := vh.J{"keys": in.Keys, "behaviours": [][]step{beh}, "backends": []string{backend}, "fix": in.Fix, "first": idx}
		diverged := false
		report := func(i int, key, what string, exp, obs any) {
			diverged = true
			out.Diverge(vh.Divergence{Key: key, What: fmt.Sprintf("[%s/%s] step %d %s: %s", backend, transport, i, describe(beh[i].A), what),
				Input: input, Step: i, Expected: exp, Observed: obs})
		}
		for i, st := range beh {
			r.nstep = i
			sl := r.slots[st.A.S]
			o, fatal := r.do(st.A, st.Res)
			if fatal != nil {
				// the replayer could not perform the step: when a handler that should run does not, the
				// real code is at fault (a stream that died); anything else is broken machinery
				if strings.Contains(fatal.Error(), "did not start") || strings.Contains(fatal.Error(), "did not take its view") {
					report(i, "remotedb:"+strings.ToLower(st.A.Name)+":handler-missing", fatal.Error(), nil, nil)
					break
				}
				w.g.openAll()
				r.closeAllLocal()
				w.shutdown("cancel")
				t.Fatalf("behaviour %d step %d (%s): %v", idx, i, st.A.Name, fatal)
			}
			if st.A.Name == "TxOpen" || st.A.Name == "RawOpen" || st.A.Name == "DBNewIter" {
				sl = r.slots[st.A.S]
			}
			nsteps++
			actions[st.A.Name]++
			exp := st.Res
			if exp.Kind == "iter" && o.obs.Kind == "iter" && o.obs.C == 0 {
				o.obs.C = exp.C // the client does not expose the cursor id on this tree
			}
			if !sameRes(exp, o.obs) {
				report(i, r.classify(st.A, exp, o.obs, o.alt, sl, "spec"),
					fmt.Sprintf("the specification says %s, the real code answered %s %s %s", resText(exp), resText(o.obs), o.errTxt, o.note), exp, o.obs)
				break
			}
			if o.note != "" {
				report(i, "remotedb:iterator:"+strings.ToLower(st.A.Name[2:])+":return-value-vs-key", o.note, exp, o.obs)
				break
			}
			// ground truth from the local store: only where the specification has the stream and the
			// cursor alive after the call (a dead stream answers errors / invalid, the comparison above judges that)
			healthy := exp.Kind != "err"
			if healthy && st.A.C != 0 && (strings.HasPrefix(st.A.Name, "It") || st.A.Name == "RawReq") {
				healthy = false
				for _, ce := range st.Proj.Curs {
					if ce.S == st.A.S && ce.C == st.A.C {
						healthy = true
					}
				}
			}
			if o.local != nil && healthy && !sameRes(*o.local, o.obs) {
				report(i, r.classify(st.A, *o.local, o.obs, o.alt, sl, "local")+":differs-from-local-snapshot",
					fmt.Sprintf("the same call on a local snapshot of the store answers %s, the remote database %s", resText(*o.local), resText(o.obs)), *o.local, o.obs)
				break
			}
			// projection
			h, its, ok := w.settle(2*time.Second, st.Proj.Handlers, st.Proj.Iters)
			if ok {
				// the client side: streams whose RPC is not finished (each keeps a watcher goroutine)
				if cs, cok := settleClientStreams(2*time.Second, st.Proj.CStreams); !cok {
					key := "remotedb:stream-leak:client-side:" + st.A.Name
					if cs < st.Proj.CStreams {
						key = "remotedb:client-stream-finished-early:" + st.A.Name
					}
					report(i, key, fmt.Sprintf("client side after the call: %d streams whose RPC is not finished, the specification has %d", cs, st.Proj.CStreams),
						st.Proj.CStreams, cs)
					break
				}
			}
			if !ok {
				key := ""
				switch {
				case h > st.Proj.Handlers:
					key = "remotedb:stream-leak:server-side:" + st.A.Name
				case h < st.Proj.Handlers:
					key = "remotedb:stream-died:" + st.A.Name
				case its > st.Proj.Iters:
					key = "remotedb:iterator-leak:" + st.A.Name
				default:
					key = "remotedb:iterator-closed-early:" + st.A.Name
				}
				if st.A.Name == "ItFirst" && h < st.Proj.Handlers {
					key = "remotedb:first-unsupported:iterator-kills-stream"
				}
				if st.A.Name == "RawReq" && st.A.Op == "FIRST" && h < st.Proj.Handlers {
					key = "remotedb:first-unsupported:raw-request-refused"
				}
				last, _ := w.lastErr.Load().(string)
				report(i, key, fmt.Sprintf("server side after the call: %d Tx handlers running and %d iterators open, the specification has %d and %d (last handler error: %q)",
					h, its, st.Proj.Handlers, st.Proj.Iters, last), st.Proj, vh.J{"handlers": h, "iters": its})
				break
			}
			if d := r.storeDiff(st.Store); d != "" {
				key := "remotedb:store-changed:" + st.A.Name
				if st.A.Name == "WriteAttempt" {
					key = "remotedb:write-attempt:" + strings.ToLower(st.A.W) + ":store-changed"
				}
				report(i, key, d, st.Store, nil)
				break
			}
			bad := false
			for _, ce := range st.Proj.Cache {
				s2 := r.slots[ce.S]
				if s2 == nil || s2.its[ce.C] == nil {
					continue
				}
				ci := s2.its[ce.C]
				k := ci.it.Key()
				v, _ := ci.it.Value()
				wantK := []byte(nil)
				wantV := ""
				if ce.K > 0 {
					wantK, wantV = keys[ce.K-1], ce.V
				}
				if !bytes.Equal(k, wantK) || string(v) != wantV {
					what := "cached-pair"
					if ce.S != st.A.S || ce.C != st.A.C {
						what = "cached-pair-of-another-iterator"
					}
					report(i, fmt.Sprintf("remotedb:iterator:%s:%s", what, strings.ToLower(st.A.Name)),
						fmt.Sprintf("iterator %d/%d holds Key()=%x Value()=%q, the specification has %x %q", ce.S, ce.C, k, v, wantK, wantV), ce, vh.J{"k": k, "v": string(v)})
					bad = true
					break
				}
			}
			if bad {
				break
			}
			// bookkeeping for the keys
			if strings.HasPrefix(st.A.Name, "It") && sl != nil && sl.its[st.A.C] != nil && st.A.Name != "ItValid" {
				ci := sl.its[st.A.C]
				ci.lastOp = strings.ToLower(st.A.Name[2:])
				ci.lastOK = o.obs.Kind == "at"
			}
		}
		// end of the behaviour: where does every cursor stand?
		if !diverged && len(beh) > 0 {
			last := beh[len(beh)-1]
			for _, ce := range last.Proj.Curs {
				sl := r.slots[ce.S]
				if sl == nil {
					continue
				}
				var stream gen.KV_TxClient
				if sl.kind == "raw" {
					stream = sl.raw
				} else if sl.tx != nil {
					stream, _ = sl.tx.(interface{ Impl() any }).Impl().(gen.KV_TxClient)
				} else if ci := sl.its[ce.C]; ci != nil {
					stream = streamOf(ci.it)
				}
				if stream == nil {
					continue
				}
				if err := stream.Send(&gen.Cursor{Op: gen.Op_CURRENT, Cursor: uint32(ce.C)}); err != nil {
					report(len(beh)-1, "remotedb:final-cursor-position:send-failed", fmt.Sprintf("cursor %d/%d: %v", ce.S, ce.C, err), ce, nil)
					break
				}
				p, err := stream.Recv()
				if err != nil {
					report(len(beh)-1, "remotedb:final-cursor-position:stream-dead", fmt.Sprintf("cursor %d/%d: %v", ce.S, ce.C, err), ce, nil)
					break
				}
				got := 0
				if len(p.K) > 0 {
					got = r.keyIndex(p.K)
				}
				want := 0
				if ce.Pos >= 1 && ce.Pos <= len(keys) {
					want = ce.Pos
				}
				if got != want || int(p.CursorId) != ce.C {
					report(len(beh)-1, "remotedb:final-cursor-position:wrong", fmt.Sprintf("cursor %d/%d stands at key %d (reply names cursor %d), the specification has it at %d", ce.S, ce.C, got, p.CursorId, want), ce, got)
					break
				}
			}
		}
		// the client goes away, whatever it had open
		how := []string{"cancel", "connclose", "serverstop"}[r.variant%3]
		r.closeAllLocal()
		left := w.shutdown(how)
		if left != "" && !diverged {
			what := "handlers"
			switch {
			case strings.Contains(left, "store.Close"):
				what = "store-close"
			case strings.Contains(left, "snapshots"):
				what = "snapshots"
			case strings.Contains(left, " 0 handlers"):
				what = "iterators"
			}
			report(len(beh)-1, "remotedb:release:"+how+":"+what+"-left", left, nil, nil)
		}
		if !diverged {
			out.Done(1, 0)
		} else {
			ndiverged++
		}
		if bi == 0 {
			out.Sample(vh.J{"backend": backend, "transport": transport, "first_steps": beh[:min(6, len(beh))]})
		}
	}
	out.Done(0, nsteps)
	names := make([]string, 0, len(actions))
	for n := range actions {
		names = append(names, n)
	}
	sort.Strings(names)
	for _, n := range names {
		out.Count("replayed_"+n, actions[n])
	}
}

func describe(a action) string {
	switch a.Name {
	case "RawReq":
		return fmt.Sprintf("RawReq(stream %d, %s, cursor %d, target %v, key %d)", a.S, a.Op, a.C, a.T, a.K)
	case "ItSeek":
		return fmt.Sprintf("ItSeek(%d/%d, %v)", a.S, a.C, a.T)
	case "TxNewIter", "DBNewIter":
		return fmt.Sprintf("%s(stream %d, prefix %v, upper bound %v)", a.Name, a.S, a.P, a.Ub)
	case "Write":
		return fmt.Sprintf("Write(key %d, %q)", a.K, a.V)
	case "WriteAttempt":
		return fmt.Sprintf("WriteAttempt(%s)", a.W)
	}
	if a.C != 0 {
		return fmt.Sprintf("%s(%d/%d)", a.Name, a.S, a.C)
	}
	if a.K != 0 {
		return fmt.Sprintf("%s(stream %d, key %d)", a.Name, a.S, a.K)
	}
	return fmt.Sprintf("%s(%d)", a.Name, a.S)
}

func streamOf(it db.Iterator) gen.KV_TxClient {
	defer func() { _ = recover() }()
	v := reflect.ValueOf(it)
	for v.Kind() == reflect.Pointer || v.Kind() == reflect.Interface {
		v = v.Elem()
	}
	f := v.FieldByName("client")
	if !f.IsValid() {
		// the repaired client reaches the stream through its transaction
		if tx := v.FieldByName("tx"); tx.IsValid() {
			f = tx.Elem().FieldByName("client")
		}
	}
	if !f.IsValid() {
		return nil
	}
	f = reflect.NewAt(f.Type(), f.Addr().UnsafePointer()).Elem()
	c, _ := f.Interface().(gen.KV_TxClient)
	return c
}

// clientStreams counts the client sides of gRPC streams whose RPC has not finished: each keeps the
// goroutine grpc.newClientStreamWithParams starts to watch the contexts until the stream finishes.
func clientStreams() int {
	buf := make([]byte, 1<<20)
	for {
		n := runtime.Stack(buf, true)
		if n < len(buf) {
			return strings.Count(string(buf[:n]), "grpc.newClientStreamWithParams.func")
		}
		buf = make([]byte, 2*len(buf))
	}
}

func settleClientStreams(d time.Duration, want int) (int, bool) {
	deadline := time.Now().Add(d)
	for {
		n := clientStreams()
		if n == want {
			return n, true
		}
		if time.Now().After(deadline) {
			return n, false
		}
		time.Sleep(300 * time.Microsecond)
	}
}

// TestRemoteProbes: the shortest scripts that reproduce the confirmed defects of the remote
// database on the real server and client (one key per defect, the same key families the replay
// uses), plus stated limits recorded as observations. The probes decide nothing about the model
// (checks/G12.py follows known_findings.json); they tell whether a listed finding still reproduces.
package remotedb

import (
	"context"
	"errors"
	"fmt"
	"io"
	"testing"
	"time"

	"github.com/NethermindEth/juno/db"
	"github.com/NethermindEth/juno/grpc/gen"
	"google.golang.org/protobuf/types/known/emptypb"

	"verifharness/internal/vh"
)

type probeInput struct {
	Only string `json:"only"`
}

type probe struct {
	name string
	run  func(w *world) (key, what string)
}

func mustPut(w *world, k, v string) { _ = w.store.Put([]byte(k), []byte(v)) }

func getStr(rd db.KeyValueReader, k string) (string, error) {
	var out string
	err := rd.Get([]byte(k), func(v []byte) error { out = string(v); return nil })
	return out, err
}

func probes() []probe {
	return []probe{
		{"first", func(w *world) (string, string) {
			mustPut(w, "\x01a", "1")
			tx := w.rdb.NewSnapshot()
			defer tx.Close()
			it, err := tx.NewIterator(nil, false)
			if err != nil {
				return "", ""
			}
			if !it.Seek([]byte("\x01a")) {
				return "remotedb:probe:seek-existing-key-failed", "Seek of an existing key failed"
			}
			ok := it.First()
			_, gerr := getStr(tx, "\x01a")
			if !ok && gerr != nil && !errors.Is(gerr, db.ErrKeyNotFound) {
				return "remotedb:first-unsupported:iterator-kills-stream", fmt.Sprintf("store {01 61}; NewSnapshot; NewIterator(nil,false); Seek(01 61)=true; First()=false and the transaction is dead: Get(01 61) = %v", gerr)
			}
			if !ok {
				return "remotedb:iterator:first:false-on-nonempty-store", "First() = false on a non-empty store"
			}
			return "", ""
		}},
		{"bounds", func(w *world) (string, string) {
			mustPut(w, "\x01a", "A")
			mustPut(w, "\x02a", "B")
			mustPut(w, "\x03a", "C")
			tx := w.rdb.NewSnapshot()
			defer tx.Close()
			it, err := tx.NewIterator([]byte{2}, true)
			if err != nil {
				return "", ""
			}
			defer it.Close()
			if it.Next() && it.Key()[0] != 2 {
				return "remotedb:iterator:bounds-ignored:below-prefix", fmt.Sprintf("store {01 61, 02 61, 03 61}; NewIterator(prefix 02, upper bound); Next() stands on %x", it.Key())
			}
			if it.Seek([]byte{2}) && it.Next() {
				return "remotedb:iterator:bounds-ignored:beyond-upper-bound", fmt.Sprintf("store {01 61, 02 61, 03 61}; NewIterator(prefix 02, upper bound); Seek(02); Next() stands on %x", it.Key())
			}
			return "", ""
		}},
		{"snapshot", func(w *world) (string, string) {
			mustPut(w, "\x01a", "old")
			tx := w.rdb.NewSnapshot()
			defer tx.Close()
			v0, err := getStr(tx, "\x01a")
			if err != nil || v0 != "old" {
				return "remotedb:probe:get-failed", fmt.Sprintf("Get = %q, %v", v0, err)
			}
			mustPut(w, "\x01a", "new")
			if v1, _ := getStr(tx, "\x01a"); v1 != "old" {
				return "remotedb:tx:not-point-in-time:get-sees-later-write", fmt.Sprintf("NewSnapshot; Get(k)=%q; the node writes k=new; Get(k) through the same snapshot = %q", v0, v1)
			}
			it, err := tx.NewIterator(nil, false)
			if err == nil {
				defer it.Close()
				if it.Seek([]byte("\x01a")) {
					if v, _ := it.Value(); string(v) != "old" {
						return "remotedb:tx:not-point-in-time:cursor-pins-open-time", fmt.Sprintf("an iterator opened after the write shows %q", v)
					}
				}
			}
			return "", ""
		}},
		{"snapshot-cursor", func(w *world) (string, string) {
			mustPut(w, "\x01a", "old")
			tx := w.rdb.NewSnapshot()
			defer tx.Close()
			if _, err := getStr(tx, "\x01a"); err != nil {
				return "", ""
			}
			mustPut(w, "\x01a", "new")
			it, err := tx.NewIterator(nil, false)
			if err != nil {
				return "", ""
			}
			defer it.Close()
			if it.Seek([]byte("\x01a")) {
				if v, _ := it.Value(); string(v) != "old" {
					return "remotedb:tx:not-point-in-time:cursor-pins-open-time", fmt.Sprintf("NewSnapshot; Get; the node writes k=new; NewIterator; Seek(k): value %q", v)
				}
			}
			return "", ""
		}},
		{"leak-get", func(w *world) (string, string) { return leakProbe(w, "DBGet") }},
		{"leak-has", func(w *world) (string, string) { return leakProbe(w, "DBHas") }},
		{"leak-write", func(w *world) (string, string) { return leakProbe(w, "DBWrite") }},
		{"leak-iter", func(w *world) (string, string) { return leakProbe(w, "ItClose") }},
		{"leak-client", func(w *world) (string, string) {
			mustPut(w, "\x01a", "1")
			before := clientStreams()
			for i := 0; i < 5; i++ {
				tx := w.rdb.NewSnapshot()
				_, _ = getStr(tx, "\x01a")
				_ = tx.Close()
			}
			w.settle(2*time.Second, 0, 0)
			if n, ok := settleClientStreams(time.Second, before); !ok {
				return "remotedb:stream-leak:client-side:TxDiscard", fmt.Sprintf("5 x (NewSnapshot; Get; Close): %d client streams (and their watcher goroutines) are still alive; they live until the DB context ends", n-before)
			}
			return "", ""
		}},
		{"has", func(w *world) (string, string) {
			tx := w.rdb.NewSnapshot()
			defer tx.Close()
			ok, err := tx.Has([]byte("\x01missing"))
			lok, lerr := w.store.Has([]byte("\x01missing"))
			if err != nil && lerr == nil {
				return "remotedb:has:missing-key:error-instead-of-false", fmt.Sprintf("Has(missing key) through the remote database = (%v, %v); on the store itself (%v, %v)", ok, err, lok, lerr)
			}
			return "", ""
		}},
		{"eof", func(w *world) (string, string) {
			st, err := w.raw.Tx(context.Background())
			if err != nil {
				return "", ""
			}
			_ = st.Send(&gen.Cursor{Op: gen.Op_OPEN})
			if _, err := st.Recv(); err != nil {
				return "remotedb:probe:open-failed", err.Error()
			}
			_ = st.CloseSend()
			_, err = st.Recv()
			if err != io.EOF {
				return "remotedb:stream-end:clean-close-status-error", fmt.Sprintf("OPEN; CloseSend; the RPC ends with %v instead of status OK", err)
			}
			return "", ""
		}},
		{"nil-value", func(w *world) (string, string) {
			_ = w.store.Put([]byte("\x01n"), nil)
			if _, err := getStr(w.store, "\x01n"); err != nil {
				return "", ""
			}
			tx := w.rdb.NewSnapshot()
			defer tx.Close()
			if _, err := getStr(tx, "\x01n"); errors.Is(err, db.ErrKeyNotFound) {
				return "remotedb:get:nil-value:reported-missing:" + w.backend, "store.Put(k, nil); Get(k) on the store finds it; through the remote database: key not found"
			}
			return "", ""
		}},
		{"version", func(w *world) (string, string) {
			v, err := w.raw.Version(context.Background(), &emptypb.Empty{})
			if err != nil || v.Major != 1 || v.Minor != 2 || v.Patch != 3 {
				return "remotedb:version:wrong", fmt.Sprintf("server version 1.2.3-rc1: Version() = %v, %v", v, err)
			}
			return "", ""
		}},
	}
}

func leakProbe(w *world, what string) (string, string) {
	mustPut(w, "\x01a", "1")
	const n = 4
	for i := 0; i < n; i++ {
		switch what {
		case "DBGet":
			_, _ = getStr(w.rdb, "\x01a")
		case "DBHas":
			_, _ = w.rdb.Has([]byte("\x01a"))
		case "DBWrite":
			_ = w.rdb.Write(func(b db.Batch) error { return b.Put([]byte("\x01a"), nil) })
		case "ItClose":
			it, err := w.rdb.NewIterator(nil, false)
			if err != nil {
				return "", ""
			}
			it.Next()
			_ = it.Close()
		}
	}
	call := map[string]string{"DBGet": "DB.Get", "DBHas": "DB.Has", "DBWrite": "DB.Write", "ItClose": "DB.NewIterator + Next + Close"}[what]
	// every call opened a stream: let the handlers start, then see whether they end
	for dl := time.Now().Add(2 * time.Second); w.begun.Load() < n && time.Now().Before(dl); {
		time.Sleep(time.Millisecond)
	}
	if h, _, ok := w.settle(1500*time.Millisecond, 0, -1); !ok {
		return "remotedb:stream-leak:server-side:" + what, fmt.Sprintf("%d x %s: %d Tx handlers are still running on the server (each with its view of the database); they run until the connection goes away", n, call, h)
	}
	return "", ""
}

func TestRemoteProbes(t *testing.T) {
	if !vh.Enabled() {
		t.Skip()
	}
	var in probeInput
	_ = vh.Input(&in)
	out := vh.NewResult()
	defer out.Write()
	obs := map[string]string{}
	n := 0
	for _, backend := range []string{"pebblev2", "memory"} {
		for _, p := range probes() {
			if in.Only != "" && in.Only != p.name {
				continue
			}
			w, err := newWorld(backend, "bufconn", "1.2.3-rc1")
			if err != nil {
				t.Fatal(err)
			}
			key, what := p.run(w)
			w.shutdown("cancel")
			n++
			if key != "" {
				out.Diverge(vh.Divergence{Key: key, What: "[" + backend + "] " + what, Input: vh.J{"only": p.name}})
			}
		}
	}
	if in.Only == "" {
		// stated limits: recorded, not verdicts
		w, err := newWorld("memory", "bufconn", "not-a-version")
		if err != nil {
			t.Fatal(err)
		}
		mustPut(w, "\x01a", "1")
		tx := w.rdb.NewSnapshot()
		it, _ := tx.NewIterator(nil, false)
		func() {
			defer func() {
				if p := recover(); p != nil {
					obs["prev"] = fmt.Sprintf("db/remote iterator.Prev() panics (%v): the protocol has no PREV; core/state's and core/deprecatedstate's history readers call Prev after a Seek that misses", p)
				}
			}()
			it.Seek([]byte("\x01a"))
			it.Prev()
		}()
		if v, err := getStr(tx, ""); err == nil {
			obs["empty-key"] = fmt.Sprintf("Get(empty key) through the remote database answers found with value %q (the store: key not found): an empty reply key is the protocol's 'not found' and equals the empty key; juno's keys start with a bucket byte", v)
		}
		it2, _ := tx.NewIterator(nil, false)
		_ = it2.Close()
		it2.Next()
		if _, err := getStr(tx, "\x01a"); err != nil {
			obs["use-after-close"] = "any request naming a closed or unknown cursor ends the whole transaction (all its cursors, later Gets fail): by design of the handler"
		}
		_ = tx.Close()
		if _, err := w.raw.Version(context.Background(), &emptypb.Empty{}); err == nil {
			out.Diverge(vh.Divergence{Key: "remotedb:version:invalid-accepted", What: "a server created with version 'not-a-version' answers Version() without an error"})
		}
		w.shutdown("cancel")
	}
	out.Stats["observations"] = obs
	out.Done(n, n)
}

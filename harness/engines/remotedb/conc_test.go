// TestRemoteConcurrent: free-running rounds. A local writer commits versioned atomic batches to
// the store the server serves (every batch rewrites ALL keys with the version number and deletes a
// version-dependent subset), remote readers use transactions of their own (Gets, several cursors,
// full and prefix scans, interleaved cursors, DB-level reads; some abandon their transaction
// mid-scan). Judged by the specification's invariants, with windows instead of imposed orders:
//   - a cursor shows exactly ONE version (all values equal, the key set is exactly that
//     version's, ascending, inside the bounds in force), and that version lies in the window of
//     the point the model pins (its OPEN as coded, the transaction's beginning when repaired);
//   - a Get returns a value some version of its window has; repaired: all reads of one
//     transaction agree on one version;
//   - interleaved cursors of one transaction do not disturb one another;
//   - at the end: the handlers that still run are exactly those the model leaves running, and
//     when the client goes away nothing is left and the store closes cleanly.
// TestRemoteSharedTx: several goroutines on the cursors of ONE transaction.
package remotedb

import (
	"bytes"
	"encoding/binary"
	"errors"
	"fmt"
	"math/rand"
	"sort"
	"sync"
	"sync/atomic"
	"testing"
	"time"

	"github.com/NethermindEth/juno/db"

	"verifharness/internal/vh"
)

type concInput struct {
	Fix          fixes `json:"fix"`
	Rounds       int   `json:"rounds"`
	Readers      int   `json:"readers"`
	RoundMs      int   `json:"round_ms"`
	SharedRounds int   `json:"shared_rounds"`
	Goroutines   int   `json:"goroutines"`
	Seed         int64 `json:"seed"`
}

const (
	concBuckets   = 3
	concPerBucket = 4
)

func concKeys() [][]byte {
	var ks [][]byte
	for b := 1; b <= concBuckets; b++ {
		for i := 0; i < concPerBucket; i++ {
			ks = append(ks, []byte{byte(b), byte('a' + i)})
		}
	}
	return ks
}

func absentAt(i int, v uint64) bool { return (uint64(i)+v)%5 == 0 }

func verBytes(v uint64) []byte { return binary.BigEndian.AppendUint64(nil, v) }

func writeVersion(st db.KeyValueStore, keys [][]byte, v uint64) error {
	return st.Update(func(b db.IndexedBatch) error {
		for i, k := range keys {
			if absentAt(i, v) {
				if err := b.Delete(k); err != nil {
					return err
				}
			} else if err := b.Put(k, verBytes(v)); err != nil {
				return err
			}
		}
		return nil
	})
}

type txJudge struct {
	lo, hi uint64
	only   map[uint64]bool // nil = all of lo..hi
}

func (j *txJudge) narrow(ok func(v uint64) bool) bool {
	n := map[uint64]bool{}
	for v := j.lo; v <= j.hi; v++ {
		if (j.only == nil || j.only[v]) && ok(v) {
			n[v] = true
		}
	}
	j.only = n
	return len(n) > 0
}

func TestRemoteConcurrent(t *testing.T) {
	if !vh.Enabled() {
		t.Skip()
	}
	var in concInput
	if err := vh.Input(&in); err != nil {
		t.Fatal(err)
	}
	out := vh.NewResult()
	defer out.Write()
	keys := concKeys()
	seed := in.Seed
	if seed == 0 {
		seed = vh.Seed()
	}
	backends := []string{"pebblev2", "memory", "pebble"}
	for round := 0; round < in.Rounds; round++ {
		backend := backends[(round+int(seed))%len(backends)]
		transport := "bufconn"
		if round%3 == 2 {
			transport = "tcp"
		}
		w, err := newWorld(backend, transport, "0.1.0")
		if err != nil {
			t.Fatal(err)
		}
		input := vh.J{"fix": in.Fix, "rounds": 1, "readers": in.Readers, "round_ms": in.RoundMs, "seed": seed + int64(round)}
		var mu sync.Mutex
		reported := map[string]bool{}
		report := func(key, what string) {
			mu.Lock()
			defer mu.Unlock()
			if reported[key] {
				return
			}
			reported[key] = true
			out.Diverge(vh.Divergence{Key: key, What: fmt.Sprintf("[%s/%s] %s", backend, transport, what), Input: input})
		}
		var started, committed atomic.Uint64
		started.Store(1)
		if err := writeVersion(w.store, keys, 1); err != nil {
			t.Fatal(err)
		}
		committed.Store(1)
		deadline := time.Now().Add(time.Duration(in.RoundMs) * time.Millisecond)
		var wg sync.WaitGroup
		wg.Add(1)
		go func() { // the node
			defer wg.Done()
			for v := uint64(2); time.Now().Before(deadline); v++ {
				started.Store(v)
				if err := writeVersion(w.store, keys, v); err != nil {
					report("remotedb:concurrent:local-write-failed", err.Error())
					return
				}
				committed.Store(v)
				if v%7 == 0 {
					time.Sleep(time.Duration(v%3) * 100 * time.Microsecond)
				}
			}
		}()
		var abandoned, oneshots, txs, scans, gets atomic.Int64
		for r := 0; r < in.Readers; r++ {
			wg.Add(1)
			go func(r int) {
				defer wg.Done()
				rng := rand.New(rand.NewSource(seed*1000 + int64(round)*100 + int64(r)))
				for time.Now().Before(deadline) {
					txs.Add(1)
					j := &txJudge{lo: committed.Load()}
					tx := w.rdb.NewSnapshot()
					first := true
					// after the first reply the transaction's beginning lies behind us
					seen := func() {
						if first {
							j.hi = started.Load()
							first = false
						}
					}
					one := func(what string, ok func(v uint64) bool) bool {
						if in.Fix.Snapshot && !j.narrow(ok) {
							report("remotedb:concurrent:tx:reads-from-several-versions", fmt.Sprintf("%s: no single version of the window %d..%d of the transaction's beginning explains all its reads", what, j.lo, j.hi))
							return false
						}
						return true
					}
					nops := 1 + rng.Intn(4)
					alive := true
					for op := 0; op < nops && alive; op++ {
						switch rng.Intn(4) {
						case 0: // Get
							i := rng.Intn(len(keys))
							lo := committed.Load()
							var val []byte
							err := tx.Get(keys[i], func(v []byte) error { val = bytes.Clone(v); return nil })
							hi := started.Load()
							seen()
							gets.Add(1)
							if !in.Fix.Snapshot {
								j.lo, j.hi = lo, hi
							}
							switch {
							case err == nil && len(val) == 8:
								v := binary.BigEndian.Uint64(val)
								if v < j.lo || v > j.hi || absentAt(i, v) {
									report("remotedb:concurrent:get:version-outside-window", fmt.Sprintf("Get(key %d) = version %d, window %d..%d", i, v, j.lo, j.hi))
									alive = false
								} else {
									alive = one("Get", func(x uint64) bool { return x == v })
								}
							case errors.Is(err, db.ErrKeyNotFound):
								found := false
								for v := j.lo; v <= j.hi; v++ {
									found = found || absentAt(i, v)
								}
								if !found {
									report("remotedb:concurrent:get:missing-key-outside-window", fmt.Sprintf("Get(key %d) = not found, no version in %d..%d lacks it", i, j.lo, j.hi))
									alive = false
								} else {
									alive = one("Get", func(x uint64) bool { return absentAt(i, x) })
								}
							default:
								report("remotedb:concurrent:get:error", fmt.Sprintf("Get(key %d): %v %x", i, err, val))
								alive = false
							}
						case 1, 2: // scan through a cursor, whole store or one bucket
							var prefix []byte
							ub := false
							if rng.Intn(2) == 0 {
								prefix, ub = []byte{byte(1 + rng.Intn(concBuckets))}, true
							}
							lo := committed.Load()
							it, err := tx.NewIterator(prefix, ub)
							hi := started.Load()
							seen()
							if err != nil {
								report("remotedb:concurrent:cursor:open-failed", err.Error())
								alive = false
								break
							}
							if !in.Fix.Snapshot {
								j.lo, j.hi = lo, hi
							}
							scans.Add(1)
							stopAt := -1
							if rng.Intn(6) == 0 {
								stopAt = rng.Intn(4) // abandon mid-scan
							}
							var gotK [][]byte
							var gotV []uint64
							n := 0
							for ok := it.Next(); ok; ok = it.Next() {
								v, _ := it.Value()
								if len(v) != 8 {
									report("remotedb:concurrent:cursor:bad-value", fmt.Sprintf("key %x value %x", it.Key(), v))
									alive = false
									break
								}
								gotK = append(gotK, bytes.Clone(it.Key()))
								gotV = append(gotV, binary.BigEndian.Uint64(v))
								if n == stopAt {
									break
								}
								n++
							}
							if stopAt >= 0 && n == stopAt {
								abandoned.Add(1)
								return // the reader walks away: transaction and cursor stay open
							}
							if !alive {
								break
							}
							alive = judgeScan(report, one, keys, prefix, ub, in.Fix.Bounds, gotK, gotV, j.lo, j.hi)
							if rng.Intn(3) > 0 {
								if err := it.Close(); err != nil {
									report("remotedb:concurrent:cursor:close-failed", err.Error())
									alive = false
								}
							}
						case 3: // two cursors stepped in turns: neither disturbs the other
							a, err1 := tx.NewIterator(nil, false)
							b, err2 := tx.NewIterator(nil, false)
							seen()
							if err1 != nil || err2 != nil {
								alive = false
								break
							}
							a.Seek([]byte{1})
							b.Seek([]byte{2})
							ka, kb := bytes.Clone(a.Key()), bytes.Clone(b.Key())
							for s := 0; s < 6; s++ {
								okA := a.Next()
								if okA && bytes.Compare(a.Key(), ka) <= 0 {
									report("remotedb:concurrent:cursor-isolation:cursor-moved-by-another", fmt.Sprintf("cursor A went from %x to %x while B was stepped", ka, a.Key()))
									alive = false
									break
								}
								ka = bytes.Clone(a.Key())
								okB := b.Next()
								if okB && bytes.Compare(b.Key(), kb) <= 0 {
									report("remotedb:concurrent:cursor-isolation:cursor-moved-by-another", fmt.Sprintf("cursor B went from %x to %x while A was stepped", kb, b.Key()))
									alive = false
									break
								}
								kb = bytes.Clone(b.Key())
							}
							_ = a.Close()
							_ = b.Close()
						}
					}
					if err := tx.Close(); err != nil {
						report("remotedb:concurrent:tx:close-failed", err.Error())
					}
					if rng.Intn(4) == 0 { // a read on the DB itself
						i := rng.Intn(len(keys))
						lo := committed.Load()
						var val []byte
						err := w.rdb.Get(keys[i], func(v []byte) error { val = bytes.Clone(v); return nil })
						hi := started.Load()
						oneshots.Add(1)
						if err == nil && len(val) == 8 {
							if v := binary.BigEndian.Uint64(val); v < lo || v > hi || absentAt(i, v) {
								report("remotedb:concurrent:dbget:version-outside-window", fmt.Sprintf("DB.Get(key %d) = version %d, window %d..%d", i, v, lo, hi))
							}
						} else if !errors.Is(err, db.ErrKeyNotFound) {
							report("remotedb:concurrent:dbget:error", fmt.Sprintf("%v %x", err, val))
						}
					}
				}
			}(r)
		}
		wg.Wait()
		// what still runs on the server is what the model leaves running
		want := int(abandoned.Load())
		if !in.Fix.Leak {
			want += int(oneshots.Load())
		}
		if h, _, ok := w.settle(3*time.Second, want, -1); !ok {
			key := "remotedb:concurrent:handlers-left"
			if h < want {
				key = "remotedb:concurrent:handlers-gone"
			}
			report(key, fmt.Sprintf("after all readers returned: %d Tx handlers running, %d expected (%d abandoned transactions, %d DB-level reads)", h, want, abandoned.Load(), oneshots.Load()))
		}
		how := []string{"cancel", "connclose", "serverstop"}[(round+int(seed))%3]
		if left := w.shutdown(how); left != "" {
			report("remotedb:release:"+how+":left-behind", left)
		}
		out.Count("conc_transactions", int(txs.Load()))
		out.Count("conc_scans", int(scans.Load()))
		out.Count("conc_gets", int(gets.Load()))
		out.Count("conc_abandoned", int(abandoned.Load()))
		out.Count("conc_versions_written", int(committed.Load()))
		if len(reported) == 0 {
			out.Done(1, int(txs.Load()))
		}
	}
}

// judgeScan: the keys and values a cursor produced against the versions lo..hi.
func judgeScan(report func(string, string), one func(string, func(uint64) bool) bool, keys [][]byte, prefix []byte, ub, bounds bool,
	gotK [][]byte, gotV []uint64, lo, hi uint64,
) bool {
	if !sort.SliceIsSorted(gotK, func(a, b int) bool { return bytes.Compare(gotK[a], gotK[b]) < 0 }) {
		report("remotedb:concurrent:cursor:not-ascending", fmt.Sprintf("keys %x", gotK))
		return false
	}
	for i := 1; i < len(gotK); i++ {
		if bytes.Equal(gotK[i], gotK[i-1]) {
			report("remotedb:concurrent:cursor:duplicate-key", fmt.Sprintf("keys %x", gotK))
			return false
		}
	}
	inRange := func(k []byte) bool {
		if !bounds || prefix == nil {
			return true
		}
		return bytes.HasPrefix(k, prefix) || (!ub && bytes.Compare(k, prefix) >= 0)
	}
	for _, k := range gotK {
		if !inRange(k) {
			report("remotedb:iterator:bounds-ignored:scan", fmt.Sprintf("scan with prefix %x returned key %x", prefix, k))
			return false
		}
	}
	if len(gotV) == 0 {
		report("remotedb:concurrent:cursor:empty-scan", "a scan returned nothing although every version has keys in every bucket")
		return false
	}
	v := gotV[0]
	for _, x := range gotV {
		if x != v {
			report("remotedb:concurrent:cursor:mixed-versions", fmt.Sprintf("one cursor shows values of several versions: %v", gotV))
			return false
		}
	}
	if v < lo || v > hi {
		report("remotedb:concurrent:cursor:version-outside-window", fmt.Sprintf("cursor shows version %d, the window of its pinned point is %d..%d", v, lo, hi))
		return false
	}
	var want [][]byte
	for i, k := range keys {
		if !absentAt(i, v) && inRange(k) {
			want = append(want, k)
		}
	}
	if len(want) != len(gotK) {
		report("remotedb:concurrent:cursor:wrong-key-set", fmt.Sprintf("version %d has keys %x in range, the cursor returned %x", v, want, gotK))
		return false
	}
	for i := range want {
		if !bytes.Equal(want[i], gotK[i]) {
			report("remotedb:concurrent:cursor:wrong-key-set", fmt.Sprintf("version %d has keys %x in range, the cursor returned %x", v, want, gotK))
			return false
		}
	}
	return one("scan", func(x uint64) bool { return x == v })
}

// TestRemoteSharedTx: db.Iterator promises "multiple iterators can be used concurrently". Several
// goroutines each scan with a cursor of their own on ONE remote transaction, another one Gets.
func TestRemoteSharedTx(t *testing.T) {
	if !vh.Enabled() {
		t.Skip()
	}
	var in concInput
	if err := vh.Input(&in); err != nil {
		t.Fatal(err)
	}
	out := vh.NewResult()
	defer out.Write()
	keys := concKeys()
	g := in.Goroutines
	if g == 0 {
		g = 4
	}
	for round := 0; round < in.SharedRounds; round++ {
		backend := []string{"pebblev2", "memory"}[round%2]
		w, err := newWorld(backend, "bufconn", "0.1.0")
		if err != nil {
			t.Fatal(err)
		}
		if err := writeVersion(w.store, keys, 1); err != nil {
			t.Fatal(err)
		}
		input := vh.J{"fix": in.Fix, "shared_rounds": 1, "goroutines": g}
		tx := w.rdb.NewSnapshot()
		type verdict struct{ key, what string }
		done := make(chan verdict, g+1)
		for i := 0; i < g; i++ {
			bucket := byte(1 + i%concBuckets)
			it, err := tx.NewIterator(nil, false)
			if err != nil {
				t.Fatal(err)
			}
			go func() {
				for rep := 0; rep < 60; rep++ {
					if !it.Seek([]byte{bucket}) {
						done <- verdict{"remotedb:concurrent:iterators-of-one-tx:seek-failed", fmt.Sprintf("Seek(%x) = false", bucket)}
						return
					}
					var got [][]byte
					for ok := true; ok && it.Key()[0] == bucket; ok = it.Next() {
						got = append(got, bytes.Clone(it.Key()))
					}
					n := 0
					for j, k := range keys {
						if k[0] == bucket && !absentAt(j, 1) {
							if n >= len(got) || !bytes.Equal(got[n], k) {
								done <- verdict{"remotedb:concurrent:iterators-of-one-tx:cross-talk",
									fmt.Sprintf("a goroutine scanning bucket %x with its own cursor saw %x", bucket, got)}
								return
							}
							n++
						}
					}
					if n != len(got) {
						done <- verdict{"remotedb:concurrent:iterators-of-one-tx:cross-talk", fmt.Sprintf("a goroutine scanning bucket %x with its own cursor saw %x", bucket, got)}
						return
					}
				}
				done <- verdict{}
			}()
		}
		go func() {
			for rep := 0; rep < 300; rep++ {
				var val []byte
				err := tx.Get(keys[1], func(v []byte) error { val = bytes.Clone(v); return nil })
				if err != nil || !bytes.Equal(val, verBytes(1)) {
					done <- verdict{"remotedb:concurrent:iterators-of-one-tx:get-wrong", fmt.Sprintf("Get beside the iterators: %x %v", val, err)}
					return
				}
			}
			done <- verdict{}
		}()
		timeout := time.After(8 * time.Second)
		finished := 0
		var bad *verdict
	wait:
		for finished < g+1 {
			select {
			case v := <-done:
				finished++
				if v.key != "" && bad == nil {
					bad = &v
				}
			case <-timeout:
				bad = &verdict{"remotedb:concurrent:iterators-of-one-tx:caller-blocked-for-ever",
					fmt.Sprintf("%d of %d goroutines using cursors of one transaction never returned from a call (a reply was lost or taken by another caller)", g+1-finished, g+1)}
				break wait
			}
		}
		if bad != nil {
			out.Diverge(vh.Divergence{Key: bad.key, What: "[" + backend + "] " + bad.what, Input: input})
			w.shutdown("cancel")
			break // reproduced: more rounds add nothing and each costs the timeout
		} else {
			_ = tx.Close()
			out.Done(1, g*60)
		}
		w.shutdown("cancel")
	}
}

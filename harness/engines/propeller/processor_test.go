// TestProcessorReplay steps behaviours that TLC generates from spec/consensus/Processor.tla
// (ProcessorMBT.tla) through the REAL propeller.Processor: ProcessMessage for every unit, the real
// Processor.Run loop (finalize), real subprocessor goroutines with their real UnitValidator, real
// schedulers (one per committee id, same members), real libp2p keys and signatures.
//
// What is observable from outside the package: the error ProcessMessage returns, and what
// Processor.Run logs ("unit validation failed", "subprocessor finalized[ with error]").  On the
// pinned commit nobody sets Processor.logger, so the engine installs a recording logger in that
// (unexported) field by reflection - the only thing injected; everything else is the code as it
// runs.  The logger is also the gate of the scripted environment: a "finalized" record blocks Run
// until the behaviour's Finalize step releases it, so that the window between a subprocessor's
// return and finalize(key) is a state like any other.  Sizes of Processor.subProcessors,
// Processor.tasks and the finalized time cache are read by reflection while Run is quiescent.
//
// An accepted unit is acknowledged by nothing, therefore every unit is followed by two probes:
// copies of it with a shard index that no committee has.  A probe is always rejected at the origin
// check (its index is in the report and identifies it), a rejection is reported synchronously and a
// subprocessor handles one unit at a time: a rejection of the unit itself precedes the report of
// the first probe; the second probe being taken proves that the first was completely processed,
// and a zero `invalidUnit` pushed through Processor.invalidUnits is the barrier that proves Run
// logged everything it received before.  Probes of a unit that the finalized cache dropped vanish.  No verdict depends on the absence of an event within some time, except
// where the specification itself predicts that a subprocessor will never take a unit again.
package propeller

import (
	"bytes"
	"context"
	"fmt"
	"reflect"
	"sort"
	"strings"
	"sync"
	"sync/atomic"
	"testing"
	"time"
	"unsafe"

	"github.com/NethermindEth/juno/consensus/propeller"
	"github.com/NethermindEth/juno/consensus/propeller/merkle"
	"github.com/NethermindEth/juno/consensus/propeller/reedsolomon"
	"github.com/libp2p/go-libp2p/core/crypto"
	"github.com/libp2p/go-libp2p/core/peer"
	"go.uber.org/zap"
	"go.uber.org/zap/zapcore"

	"verifharness/internal/vh"
)

// ---------------------------------------------------------------- behaviours (ProcessorMBT.tla)

type pInst struct {
	C string `json:"c"`
	P int    `json:"p"`
	R string `json:"r"`
	N string `json:"n"`
}

func (i pInst) String() string { return fmt.Sprintf("(%s,p%d,%s,%s)", i.C, i.P, i.R, i.N) }

type pUnit struct {
	F   pInst `json:"f"`
	Sig pInst `json:"sig"`
	I   int   `json:"i"`
	Sh  bool  `json:"sh"`
	Snd bool  `json:"snd"`
}

type pAct struct {
	Kind string `json:"kind"`
	U    *pUnit `json:"u,omitempty"`
	Gen  bool   `json:"gen,omitempty"`
	Sit  *struct {
		Warm   bool `json:"warm"`
		SibFin bool `json:"sibfin"`
	} `json:"sit,omitempty"`
	Inst *pInst `json:"inst,omitempty"`
	Err  string `json:"err,omitempty"`
}

type pCounts struct {
	Live int `json:"live"`
	Fin  int `json:"fin"`
}

type pRes struct {
	Ret   string  `json:"ret"`
	Route string  `json:"route"`
	V     string  `json:"v"`
	After string  `json:"after"`
	Tag   string  `json:"tag"`
	Judge pInst   `json:"judge"`
	Bc    int     `json:"bc"` // the step publishes the local shard on the processor's event channel
	N     pCounts `json:"n"`
}

type pStep struct {
	A pAct `json:"a"`
	R pRes `json:"r"`
}

type pBehaviour struct {
	Focus []pInst `json:"focus"`
	Steps []pStep `json:"steps"`
}

type procGroup struct {
	NP         int          `json:"np"`
	Loc        int          `json:"loc"`
	Behaviours []pBehaviour `json:"behaviours"`
}

type procInput struct {
	Groups []procGroup `json:"groups"`
	Seed   int64       `json:"seed"`
	Leaf   string      `json:"leaf"` // leaf encoding the validator of this tree verifies against (see input.Leaf)
	// Defects: tag of the specification (a Fix switch that is FALSE in the generating model) -> key
	// under which the real code exhibiting exactly the modelled behaviour is reported.
	Defects map[string]string `json:"defects"`
	Workers int               `json:"workers"`
}

// ---------------------------------------------------------------- the recording, gating logger

type logEvent struct {
	kind  string // invalid | exit | barrier | other
	class string
	text  string
}

type recLogger struct {
	ch      chan logEvent
	gate    chan struct{}
	pending atomic.Bool // an "exit" record is holding Run
}

func fieldErr(fields []zap.Field) (error, bool) {
	for _, f := range fields {
		if f.Type == zapcore.ErrorType {
			if e, ok := f.Interface.(error); ok {
				return e, true
			}
		}
	}
	return nil, false
}

func exitClass(err error) string {
	if err == nil {
		return "ok"
	}
	m := err.Error()
	switch {
	case strings.HasPrefix(m, "couldn't validate first unit received"):
		return "first"
	case strings.Contains(m, "context canceled"), strings.Contains(m, "deadline exceeded"):
		return "ctx"
	case strings.HasPrefix(m, "wrong message root hash"), strings.HasPrefix(m, "recovering shards data"),
		strings.HasPrefix(m, "missmatch on shard size"), strings.HasPrefix(m, "unpadding reconstructed message"),
		strings.HasPrefix(m, "no propeller units"):
		return "construct"
	}
	return "other:" + m
}

func (l *recLogger) record(msg string, fields []zap.Field) {
	switch msg {
	case "unit validation failed":
		err, ok := fieldErr(fields)
		if !ok {
			l.ch <- logEvent{kind: "barrier"}
			return
		}
		l.ch <- logEvent{kind: "invalid", class: strings.SplitN(validateClass(err), ":", 2)[0], text: err.Error()}
	case "subprocessor finalized with error", "subprocessor finalized":
		err, _ := fieldErr(fields)
		l.pending.Store(true)
		ev := logEvent{kind: "exit", class: exitClass(err)}
		if err != nil {
			ev.text = err.Error()
		}
		l.ch <- ev
		<-l.gate
	default:
		l.ch <- logEvent{kind: "other", text: msg}
	}
}

func (l *recLogger) Debug(msg string, fields ...zap.Field) { l.record(msg, fields) }
func (l *recLogger) Info(msg string, fields ...zap.Field)  { l.record(msg, fields) }
func (l *recLogger) Warn(msg string, fields ...zap.Field)  { l.record(msg, fields) }
func (l *recLogger) Error(msg string, fields ...zap.Field) { l.record(msg, fields) }
func (l *recLogger) Trace(msg string, fields ...zap.Field) { l.record(msg, fields) }

// ---------------------------------------------------------------- reflection on the real Processor

func unexported(v reflect.Value, name string) reflect.Value {
	f := v.FieldByName(name)
	if !f.IsValid() {
		panic("propeller engine: the real type " + v.Type().String() + " has no field " + name)
	}
	return reflect.NewAt(f.Type(), unsafe.Pointer(f.UnsafeAddr())).Elem()
}

type procHandle struct {
	p       *propeller.Processor
	log     *recLogger
	subs    reflect.Value // map[messageKey]chan<- unitWithSender
	tasks   reflect.Value // uint64
	finVals reflect.Value // timecache values map
	invalid reflect.Value // chan invalidUnit
	events  atomic.Int64
	cancel  context.CancelFunc
	ctx     context.Context
}

func newProc(local peer.ID) *procHandle {
	cfg := propeller.DefaultConfig()
	cfg.StaleMessageTimeout = 30 * time.Minute // no expiry inside a behaviour; timeouts are the Cancel steps
	p, events := propeller.NewProcessor(local, &cfg)
	h := &procHandle{p: p, log: &recLogger{ch: make(chan logEvent, 4096), gate: make(chan struct{})}}
	pv := reflect.ValueOf(p).Elem()
	unexported(pv, "logger").Set(reflect.ValueOf(h.log))
	h.subs = unexported(pv, "subProcessors")
	h.tasks = unexported(pv, "tasks")
	h.invalid = unexported(pv, "invalidUnits")
	fin := unexported(pv, "finalized")
	h.finVals = unexported(fin.Elem(), "values")
	h.ctx, h.cancel = context.WithCancel(context.Background())
	go p.Run(h.ctx)
	go func() { // whatever the processor publishes is consumed at once
		for {
			select {
			case <-h.ctx.Done():
				return
			case <-events:
				h.events.Add(1)
			}
		}
	}()
	return h
}

func (h *procHandle) close() {
	h.cancel()
	if h.log.pending.Load() {
		select {
		case h.log.gate <- struct{}{}:
		case <-time.After(time.Second):
		}
	}
}

// barrier: everything Run received before has been logged when this returns.
func (h *procHandle) barrier() ([]logEvent, bool) {
	zero := reflect.Zero(h.invalid.Type().Elem())
	timeout := time.After(20 * time.Second)
	chosen, _, _ := reflect.Select([]reflect.SelectCase{
		{Dir: reflect.SelectSend, Chan: h.invalid, Send: zero},
		{Dir: reflect.SelectRecv, Chan: reflect.ValueOf(timeout)},
	})
	if chosen != 0 {
		return nil, false
	}
	var evs []logEvent
	for {
		select {
		case ev := <-h.log.ch:
			if ev.kind == "barrier" {
				return evs, true
			}
			evs = append(evs, ev)
		case <-time.After(20 * time.Second):
			return evs, false
		}
	}
}

func (h *procHandle) drain() []logEvent {
	var evs []logEvent
	for {
		select {
		case ev := <-h.log.ch:
			evs = append(evs, ev)
		default:
			return evs
		}
	}
}

func (h *procHandle) waitEvent(d time.Duration) (logEvent, bool) {
	select {
	case ev := <-h.log.ch:
		return ev, true
	case <-time.After(d):
		return logEvent{}, false
	}
}

// ---------------------------------------------------------------- material of one committee size

type procWorld struct {
	e      *engine
	np     int
	loc    int
	leaf   string
	keys   []crypto.PrivKey
	peers  []propeller.PeerCommittee
	d, p   int
	cids   map[string]propeller.CommitteeID
	nonces map[string]propeller.Nonce
	shards map[string][][]byte
	proofs map[string][]merkle.Proof
	roots  map[string]propeller.MessageRoot
	mu     sync.Mutex
	sigs   map[pInst][]byte
}

func newProcWorld(e *engine, np, loc int, leaf string) *procWorld {
	w := &procWorld{e: e, np: np, loc: loc, leaf: leaf, keys: e.w.committee(np), sigs: map[pInst][]byte{},
		cids: map[string]propeller.CommitteeID{}, nonces: map[string]propeller.Nonce{},
		shards: map[string][][]byte{}, proofs: map[string][]merkle.Proof{}, roots: map[string]propeller.MessageRoot{}}
	w.peers = make([]propeller.PeerCommittee, np)
	for i, k := range w.keys {
		w.peers[i] = propeller.PeerCommittee{ID: pid(k), Stake: 1}
	}
	sch, err := propeller.NewScheduler(w.peers[loc].ID, append([]propeller.PeerCommittee(nil), w.peers...))
	if err != nil {
		panic("propeller engine: " + err.Error())
	}
	w.d, w.p = sch.NumDataShards(), sch.NumCodingShards()
	for _, c := range []string{"c1", "c2"} {
		var id propeller.CommitteeID
		e.w.rng("processor-committee", c).Read(id[:])
		w.cids[c] = id
	}
	w.nonces["n1"] = 1_700_000_000_123_456_789
	w.nonces["n2"] = 1_700_000_000_123_456_790
	for ri, r := range []string{"r1", "r2"} {
		msg := make([]byte, 90+37*ri)
		e.w.rng("processor-payload", r).Read(msg)
		shards, err := reedsolomon.EncodeData(propeller.PadMessage(msg, w.d), w.d, w.p)
		if err != nil {
			panic("propeller engine: " + err.Error())
		}
		leaves := make([][]byte, len(shards))
		for i, s := range shards {
			if leaf == "proto" {
				leaves[i] = propeller.ShardData{s}.MarshalProto()
			} else {
				leaves[i] = s
			}
		}
		root, tree := merkle.New(leaves)
		w.shards[r], w.proofs[r], w.roots[r] = shards, tree, propeller.MessageRoot(root)
	}
	return w
}

func (w *procWorld) who(pos int) peer.ID {
	if pos < 0 || pos >= w.np {
		return pid(w.e.w.key("outsider"))
	}
	return w.peers[pos].ID
}

// sig: the signature bytes of instance s (what its publisher signs), or junk
func (w *procWorld) sig(s pInst) []byte {
	w.mu.Lock()
	defer w.mu.Unlock()
	if b, ok := w.sigs[s]; ok {
		return bytes.Clone(b)
	}
	var b []byte
	if s.P < 0 || s.P >= w.np {
		b = make([]byte, 64)
		w.e.w.rng("processor-junk-signature").Read(b)
	} else {
		root, cid := w.roots[s.R], w.cids[s.C]
		var err error
		if b, err = propeller.SignMessage(w.keys[s.P], &root, &cid, w.nonces[s.N]); err != nil {
			panic("propeller engine: " + err.Error())
		}
	}
	w.sigs[s] = b
	return bytes.Clone(b)
}

// build: the real unit and the sender the model's unit stands for
func (w *procWorld) build(u *pUnit, sch *propeller.Scheduler, salt int) (*propeller.Unit, peer.ID) {
	pub := w.who(u.F.P)
	unit := &propeller.Unit{
		CommitteeID: w.cids[u.F.C], Publisher: pub, MessageRoot: w.roots[u.F.R], Nonce: w.nonces[u.F.N],
		Signature: w.sig(u.Sig), ShardIndex: propeller.ShardIndex(u.I),
		ShardData:   propeller.ShardData{bytes.Clone(w.shards[u.F.R][u.I])},
		MerkleProof: merkle.Proof{Siblings: append([]merkle.Hash(nil), w.proofs[u.F.R][u.I].Siblings...)},
	}
	rng := w.e.w.rng("processor-unit", w.np, salt, u.I)
	if !u.Sh {
		if rng.Intn(2) == 0 || len(unit.MerkleProof.Siblings) == 0 {
			s := unit.ShardData[0]
			s[rng.Intn(len(s))] ^= byte(1 << rng.Intn(8))
		} else {
			k := rng.Intn(len(unit.MerkleProof.Siblings))
			unit.MerkleProof.Siblings[k][rng.Intn(32)] ^= byte(1 << rng.Intn(8))
		}
	}
	local := w.peers[w.loc].ID
	honest := peer.ID("")
	if exp, err := sch.PeerForShardIndex(pub, unit.ShardIndex); err == nil {
		honest = exp
		if exp == local {
			honest = pub
		}
	}
	if u.Snd && honest != "" && honest != local {
		return unit, honest
	}
	// a member that is neither the expected sender nor the local peer (for a unit that names the local
	// peer as publisher there is no expected sender: any other member)
	var others []peer.ID
	for _, pc := range w.peers {
		if pc.ID != honest && pc.ID != local {
			others = append(others, pc.ID)
		}
	}
	return unit, others[rng.Intn(len(others))]
}

func diffLetters(a, b pInst) string {
	s := ""
	if a.C != b.C {
		s += "c"
	}
	if a.P != b.P {
		s += "p"
	}
	if a.R != b.R {
		s += "r"
	}
	if a.N != b.N {
		s += "n"
	}
	return s
}

// unitKind: how the unit relates to what was signed (part of a divergence key)
func unitKind(a *pAct) string {
	u := a.U
	if a.Gen {
		return "genuine"
	}
	k := "own-signature"
	switch {
	case u.Sig.P < 0:
		k = "junk-signature"
	case u.Sig != u.F:
		k = "signature-of-sibling-differing-in-" + diffLetters(u.Sig, u.F)
	}
	if !u.Sh {
		k += "+bad-shard"
	}
	if !u.Snd {
		k += "+wrong-sender"
	}
	return k
}

// ---------------------------------------------------------------- one behaviour on one real Processor

type procRun struct {
	w       *procWorld
	h       *procHandle
	scheds  map[string]*propeller.Scheduler
	ctxs    map[pInst]context.CancelFunc
	exit    *logEvent // a returned subprocessor holds Run (gated)
	seq     int
	wantEvs int64 // events the specification says were published so far
}

type procObs struct {
	Ret   string `json:"ret"`
	Route string `json:"route"`
	V     string `json:"v"`
	After string `json:"after"`
	Live  int    `json:"live"`
	Fin   int    `json:"fin"`
	Tasks uint64 `json:"tasks"`
	Evs   int64  `json:"events"` // events published by the processor so far
	Note  string `json:"note,omitempty"`
}

const (
	fullText   = "dropping shard, processor channel full"
	neverTakes = 80 * time.Millisecond // only where the specification predicts "never"
	mustTake   = 8 * time.Second
)

// handoff: ProcessMessage until the unit is taken.  "full" = it was not taken within the limit
// (or a subprocessor returned meanwhile: nothing will take it before finalize).
func (r *procRun) handoff(ctx context.Context, unit *propeller.Unit, sender peer.ID, sch *propeller.Scheduler, expectFull bool) string {
	limit := mustTake
	if expectFull {
		limit = neverTakes
	}
	start := time.Now()
	for n := 0; ; n++ {
		var err error
		if c, d := guard(func() string {
			err = r.h.p.ProcessMessage(ctx, cloneUnit(unit), sender, sch)
			return ""
		}); c == "panic" {
			return "panic:" + d
		}
		if err == nil {
			return "nil"
		}
		if !strings.Contains(err.Error(), fullText) {
			return "err"
		}
		if r.h.log.pending.Load() && n > 20 {
			// Run is held by a returned subprocessor: its map entry is dead until the Finalize step (and
			// the specification sends units nowhere else meanwhile)
			return "full"
		}
		if time.Since(start) > limit {
			return "full"
		}
		if n < 50 {
			time.Sleep(20 * time.Microsecond)
		} else {
			time.Sleep(200 * time.Microsecond)
		}
	}
}

func (r *procRun) counts(o *procObs) {
	o.Live, o.Fin, o.Tasks = r.h.subs.Len(), r.h.finVals.Len(), r.h.tasks.Uint()
	// the consumer goroutine counts an event right after taking it: give it a moment if it is behind
	for i := 0; i < 2000 && r.h.events.Load() < r.wantEvs; i++ {
		time.Sleep(500 * time.Microsecond)
	}
	o.Evs = r.h.events.Load()
}

func (r *procRun) process(st *pStep, salt int) procObs {
	u := st.A.U
	sch := r.scheds[u.F.C]
	unit, sender := r.w.build(u, sch, salt)
	ctx, cancel := context.WithCancel(r.h.ctx)
	var o procObs
	o.Route, o.V, o.After = "-", "-", "-"
	live0 := r.h.subs.Len()
	stops := st.R.After == "stuck" || strings.HasPrefix(st.R.After, "exit:")
	o.Ret = r.handoff(ctx, unit, sender, sch, st.R.Ret == "full")
	if o.Ret != "nil" {
		cancel()
		if r.exit == nil {
			if evs, ok := r.h.barrier(); !ok {
				o.Note = "Processor.Run does not take reports any more"
			} else if len(evs) > 0 {
				o.Note = fmt.Sprintf("%d unexpected records: %s %s", len(evs), evs[0].kind, evs[0].text)
			}
		}
		r.counts(&o)
		return o
	}
	if r.h.subs.Len() > live0 {
		o.Route = "new"
		r.ctxs[u.F] = cancel
	} else {
		cancel()
	}
	// two probes behind it: copies of the unit with an index no committee has (always rejected at the
	// origin check, whatever the validator holds; the index is in the error text and identifies the probe)
	r.seq++
	mark := [2]int{1_000_000 + 2*r.seq, 1_000_001 + 2*r.seq}
	probe := func(k int) *propeller.Unit {
		c := cloneUnit(unit)
		c.ShardIndex = propeller.ShardIndex(mark[k])
		return c
	}
	isMark := func(ev *logEvent) int {
		for k := range mark {
			if ev.kind == "invalid" && strings.Contains(ev.text, fmt.Sprintf("with shard %d:", mark[k])) {
				return k
			}
		}
		return -1
	}
	p1 := r.handoff(ctx, probe(0), sender, sch, stops)
	p2 := "-"
	if p1 == "nil" {
		p2 = r.handoff(ctx, probe(1), sender, sch, stops)
	}
	var evs []logEvent
	if r.h.log.pending.Load() {
		// a subprocessor returned: Run logged everything before that record and now waits at the gate
		deadline := time.Now().Add(mustTake)
		for {
			ev, ok := r.h.waitEvent(time.Until(deadline))
			if !ok {
				break
			}
			evs = append(evs, ev)
			if ev.kind == "exit" {
				break
			}
		}
	} else {
		var ok bool
		if evs, ok = r.h.barrier(); !ok {
			o.Note = "Processor.Run does not take reports any more"
		}
		if r.h.log.pending.Load() { // returned while the barrier was under way
			evs = append(evs, r.h.drain()...)
		}
	}
	var own []logEvent // rejections that are not probes: the unit's
	seen := [2]bool{}
	for i := range evs {
		switch evs[i].kind {
		case "invalid":
			if k := isMark(&evs[i]); k >= 0 {
				seen[k] = true
			} else {
				if seen[0] {
					o.Note += " a rejection was reported after the first probe: " + evs[i].text
				}
				own = append(own, evs[i])
			}
		case "exit":
			ev := evs[i]
			r.exit = &ev
		default:
			o.Note += " record:" + evs[i].text
		}
	}
	switch len(own) {
	case 0:
		o.V = "ok"
	case 1:
		o.V = own[0].class
	default:
		o.V = fmt.Sprintf("%d-rejections", len(own))
	}
	switch {
	case r.exit != nil:
		o.After = "exit:" + r.exit.class
	case p1 != "nil":
		o.After = "stuck"
	case p2 != "nil":
		o.After = "stuck"
		o.Note += " the subprocessor took one probe and then nothing"
	case !seen[0] && len(own) == 0:
		// the second probe was taken (or dropped) after the first, Run has logged all it received:
		// nothing ever reached a subprocessor
		o.V = "dropped"
	case !seen[0]:
		o.Note += " the unit was rejected but the probe behind it vanished"
	default:
		o.After = "collect"
		if !seen[1] { // the record of the second probe is still on its way
			ev, ok := r.h.waitEvent(mustTake)
			if !ok || isMark(&ev) != 1 {
				o.Note += " the second probe was never reported"
				if ok && ev.kind == "exit" {
					r.exit = &ev
					o.After = "exit:" + ev.class
				}
			}
		}
	}
	if o.Route == "-" && o.V != "dropped" {
		o.Route = "old"
	}
	r.counts(&o)
	return o
}

func (r *procRun) finalize() procObs {
	var o procObs
	o.Ret, o.Route, o.V, o.After = "-", "-", "-", "-"
	if r.exit == nil {
		o.Note = "no subprocessor has returned"
		r.counts(&o)
		return o
	}
	r.exit = nil
	r.h.log.pending.Store(false)
	r.h.log.gate <- struct{}{}
	if evs, ok := r.h.barrier(); !ok {
		o.Note = "Processor.Run does not take reports any more"
	} else if len(evs) > 0 {
		o.Note = fmt.Sprintf("%d unexpected records after finalize: %s %s", len(evs), evs[0].kind, evs[0].text)
	}
	r.counts(&o)
	return o
}

func (r *procRun) cancelStep(inst pInst) procObs {
	var o procObs
	o.Ret, o.Route, o.V, o.After = "-", "-", "-", "none"
	c, ok := r.ctxs[inst]
	if !ok {
		o.Note = "no subprocessor was started for this instance"
		r.counts(&o)
		return o
	}
	c()
	delete(r.ctxs, inst)
	deadline := time.Now().Add(mustTake)
	for {
		ev, ok := r.h.waitEvent(time.Until(deadline))
		if !ok {
			break
		}
		if ev.kind == "exit" {
			r.exit = &ev
			o.After = "exit:" + ev.class
			break
		}
		o.Note += " record:" + ev.kind + ":" + ev.text
	}
	r.counts(&o)
	return o
}

// ---------------------------------------------------------------- replay and verdicts

type procFinding struct {
	order int // position of the behaviour in the input: what is reported does not depend on the worker schedule
	tag   string
	d     vh.Divergence
}

type procReplayer struct {
	e        *engine
	in       *procInput
	worlds   map[int]*procWorld
	mu       sync.Mutex
	findings []procFinding
}

func (pr *procReplayer) found(order int, tag string, d vh.Divergence) {
	pr.mu.Lock()
	defer pr.mu.Unlock()
	pr.findings = append(pr.findings, procFinding{order, tag, d})
}

// report: the first modelled-defect hit per defect and the first few case divergences, in input order
func (pr *procReplayer) report() {
	sort.SliceStable(pr.findings, func(a, b int) bool { return pr.findings[a].order < pr.findings[b].order })
	seen := map[string]bool{}
	cases := 0
	for _, f := range pr.findings {
		if f.tag != "" {
			if !seen[f.tag] {
				seen[f.tag] = true
				pr.e.out.Diverge(f.d)
			}
			continue
		}
		pr.e.out.Count("processor_divergent_behaviours", 1)
		if cases < 6 {
			cases++
			pr.e.out.Diverge(f.d)
		}
	}
}

func (pr *procReplayer) world(g *procGroup) *procWorld {
	pr.mu.Lock()
	defer pr.mu.Unlock()
	if w, ok := pr.worlds[g.NP]; ok {
		return w
	}
	w := newProcWorld(pr.e, g.NP, g.Loc, pr.in.Leaf)
	pr.worlds[g.NP] = w
	return w
}

func (pr *procReplayer) replayInput(g *procGroup, b *pBehaviour) any {
	return vh.J{"groups": []procGroup{{NP: g.NP, Loc: g.Loc, Behaviours: []pBehaviour{*b}}}, "seed": pr.e.w.seed,
		"leaf": pr.in.Leaf, "defects": pr.in.Defects, "workers": 1}
}

func (pr *procReplayer) runBehaviour(g *procGroup, order, bi int, b *pBehaviour) int {
	w := pr.world(g)
	local := w.peers[w.loc].ID
	r := &procRun{w: w, h: newProc(local), scheds: map[string]*propeller.Scheduler{}, ctxs: map[pInst]context.CancelFunc{}}
	defer r.h.close()
	for c := range w.cids { // what Engine.registerCommittee keeps per committee id
		sch, err := propeller.NewScheduler(local, append([]propeller.PeerCommittee(nil), w.peers...))
		if err != nil {
			panic("propeller engine: " + err.Error())
		}
		r.scheds[c] = sch
	}
	out := pr.e.out
	tagged := map[string]bool{}
	for si := range b.Steps {
		st := &b.Steps[si]
		var o procObs
		what := ""
		switch st.A.Kind {
		case "process":
			r.wantEvs += int64(st.R.Bc)
			o = r.process(st, bi*1000+si)
			what = unitKind(&st.A)
		case "finalize":
			o = r.finalize()
			what = "after-" + st.A.Err
		case "cancel":
			o = r.cancelStep(*st.A.Inst)
			what = "context-ends"
		default:
			panic("propeller engine: unknown processor step " + st.A.Kind)
		}
		out.Count("processor_steps:"+st.A.Kind, 1)
		type cmp struct{ field, want, got string }
		cs := []cmp{{"return", st.R.Ret, o.Ret}, {"route", st.R.Route, o.Route}, {"verdict", st.R.V, o.V},
			{"subprocessor", st.R.After, o.After},
			{"live-subprocessors", fmt.Sprint(st.R.N.Live), fmt.Sprint(o.Live)},
			{"open-tasks", fmt.Sprint(st.R.N.Live), fmt.Sprint(o.Tasks)},
			{"finalized-cache-entries", fmt.Sprint(st.R.N.Fin), fmt.Sprint(o.Fin)},
			{"published-events", fmt.Sprint(r.wantEvs), fmt.Sprint(o.Evs)}}
		if st.A.Kind != "process" {
			cs = cs[3:]
		}
		if st.A.Kind == "finalize" {
			cs = cs[1:]
		}
		bad := -1
		for i, c := range cs {
			if c.want != c.got {
				bad = i
				break
			}
		}
		if bad < 0 && o.Note != "" {
			cs = append(cs, cmp{"protocol", "quiet", strings.TrimSpace(o.Note)})
			bad = len(cs) - 1
		}
		if bad >= 0 {
			c := cs[bad]
			got := strings.SplitN(c.got, ":", 3)
			gk := got[0]
			if len(got) > 1 && (gk == "exit" || gk == "other") {
				gk += "-" + got[1]
			}
			if c.field == "protocol" {
				gk = "anomaly"
			}
			wk := strings.ReplaceAll(c.want, ":", "-")
			hist := []string{}
			for j := 0; j <= si; j++ {
				hist = append(hist, describeStep(&b.Steps[j]))
			}
			pr.found(order, "", vh.Divergence{
				Key: fmt.Sprintf("propeller-processor:%s:%s:%s:want-%s-got-%s", st.A.Kind, what, c.field, wk, gk),
				What: fmt.Sprintf("real Processor, committee of %d, step %d (%s): %s: the specification says %q, the code gives %q; observed %+v; history: %s",
					g.NP, si, describeStep(st), c.field, c.want, c.got, o, strings.Join(hist, " ; ")),
				Input: pr.replayInput(g, b), Step: si, Expected: st.R, Observed: o})
			return si + 1
		}
		// the code does exactly what the model of the code as it is says; where that model differs from
		// the repaired design, this is the modelled defect
		if key := pr.in.Defects[st.R.Tag]; key != "" && (st.A.Kind != "process" || st.R.Tag != "poison" || st.A.Gen) && st.A.Kind != "finalize" {
			out.Count("processor_defect:"+st.R.Tag, 1)
			if !tagged[st.R.Tag] {
				tagged[st.R.Tag] = true
				hist := []string{}
				for j := 0; j <= si; j++ {
					hist = append(hist, describeStep(&b.Steps[j]))
				}
				pr.found(order, st.R.Tag, vh.Divergence{Key: key,
					What:  fmt.Sprintf("real Processor, committee of %d, step %d: %s; history: %s", g.NP, si, defectText(st.R.Tag), strings.Join(hist, " ; ")),
					Input: pr.replayInput(g, b), Step: si, Expected: defectWant(st.R.Tag), Observed: o})
			}
		}
		countClasses(out, st, &o)
	}
	return len(b.Steps)
}

func defectText(tag string) string {
	switch tag {
	case "events":
		return "the subprocessor accepted a unit and had to broadcast the local shard: it blocks for ever in `s.processingEvents <- ...` (newSubprocessor never sets the channel; the context is not honoured), its map entry and task slot are never released and every later unit of the message is refused with 'processor channel full'"
	case "poison":
		return "a genuine unit of a message is dropped by the finalized cache although the message neither completed nor timed out: an earlier junk unit with the same key fields was the first one the subprocessor saw, the subprocessor returned and Processor.finalize put the key into the cache for StaleMessageTimeout"
	case "leaf":
		return "units that pass the validator reached the build threshold and ConstructMessageFromUnits failed with 'wrong message root hash' (validator and sharding disagree on the Merkle leaf encoding)"
	}
	return tag
}

func defectWant(tag string) string {
	switch tag {
	case "events":
		return "the local shard is published and the subprocessor goes on"
	case "poison":
		return "the genuine unit is taken by a subprocessor of its message"
	case "leaf":
		return "the message is rebuilt"
	}
	return ""
}

func describeStep(st *pStep) string {
	switch st.A.Kind {
	case "process":
		u := st.A.U
		return fmt.Sprintf("unit[fields %s, signature of %s, index %d, %s] -> %s/%s/%s/%s", u.F, sigName(u.Sig), u.I, unitKind(&st.A), st.R.Ret, st.R.Route, st.R.V, st.R.After)
	case "finalize":
		return fmt.Sprintf("finalize %s (%s) -> live %d, cache %d", st.A.Inst, st.A.Err, st.R.N.Live, st.R.N.Fin)
	case "cancel":
		return fmt.Sprintf("context of %s ends", st.A.Inst)
	}
	return st.A.Kind
}

func sigName(s pInst) string {
	if s.P < 0 {
		return "nobody"
	}
	return s.String()
}

// countClasses: vacuity counters (which situations the replay actually went through)
func countClasses(out *vh.Result, st *pStep, o *procObs) {
	if st.A.Kind == "cancel" && strings.HasPrefix(o.After, "exit:") {
		out.Count("processor_"+strings.ReplaceAll(o.After, ":", "_"), 1)
	}
	if st.A.Kind != "process" {
		return
	}
	u := st.A.U
	out.Count("processor_verdict:"+o.V, 1)
	if o.Ret != "nil" {
		out.Count("processor_return:"+o.Ret, 1)
	}
	if st.A.Sit != nil && st.A.Sit.Warm && u.Sh && u.Snd && o.Ret == "nil" {
		// valid shard, right relay, signature bytes of a message whose validator is warm, other key fields
		out.Count("processor_signature_of_warm_sibling:"+diffLetters(u.Sig, u.F), 1)
	}
	if st.A.Sit != nil && st.A.Sit.SibFin && st.A.Gen && st.R.V == "ok" {
		out.Count("processor_genuine_accepted_while_sibling_finalized", 1)
	}
	if strings.HasPrefix(o.After, "exit:") {
		out.Count("processor_"+strings.ReplaceAll(o.After, ":", "_"), 1)
	}
}

func TestProcessorReplay(t *testing.T) {
	if !vh.Enabled() {
		t.Skip()
	}
	var in procInput
	if err := vh.Input(&in); err != nil {
		t.Fatal(err)
	}
	out := vh.NewResult()
	defer out.Write()
	if in.Seed == 0 {
		in.Seed = vh.Seed()
	}
	if in.Leaf == "" {
		in.Leaf = "proto"
	}
	e := &engine{w: &world{seed: in.Seed, keys: map[string]crypto.PrivKey{}}, out: out}
	e.w.key("outsider")
	pr := &procReplayer{e: e, in: &in, worlds: map[int]*procWorld{}}
	type job struct {
		g  *procGroup
		bi int
	}
	var jobs []job
	for gi := range in.Groups {
		g := &in.Groups[gi]
		pr.world(g)
		for bi := range g.Behaviours {
			jobs = append(jobs, job{g, bi})
		}
	}
	sort.SliceStable(jobs, func(a, b int) bool { return jobs[a].bi < jobs[b].bi })
	workers := in.Workers
	if workers <= 0 {
		workers = 4
	}
	var next atomic.Int64
	var steps atomic.Int64
	var wg sync.WaitGroup
	for wk := 0; wk < workers; wk++ {
		wg.Add(1)
		go func() {
			defer wg.Done()
			for {
				i := int(next.Add(1)) - 1
				if i >= len(jobs) {
					return
				}
				j := jobs[i]
				func() {
					defer func() {
						if p := recover(); p != nil {
							msg := fmt.Sprint(p)
							if strings.HasPrefix(msg, "propeller engine:") {
								panic(p)
							}
							pr.found(i, "", vh.Divergence{Key: "propeller-processor:panic",
								What:  fmt.Sprintf("panic while driving the real Processor: %v", p),
								Input: pr.replayInput(j.g, &j.g.Behaviours[j.bi]), Expected: "no failure", Observed: "panic"})
						}
					}()
					steps.Add(int64(pr.runBehaviour(j.g, i, j.bi, &j.g.Behaviours[j.bi])))
				}()
			}
		}()
	}
	wg.Wait()
	pr.report()
	out.Count("processor_behaviours", len(jobs))
	out.Done(len(jobs), int(steps.Load()))
}

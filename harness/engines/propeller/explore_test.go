package propeller

import (
	"bytes"
	"fmt"
	"math/rand"
	"testing"

	"github.com/NethermindEth/juno/consensus/propeller"
	"github.com/NethermindEth/juno/consensus/propeller/merkle"
	pb "github.com/NethermindEth/juno/consensus/propeller/proto"
	"github.com/libp2p/go-libp2p/core/crypto"
	"github.com/libp2p/go-libp2p/core/peer"
	"github.com/starknet-io/starknet-p2p-specs/p2p/proto/common"
)

func try(f func()) (p any) {
	defer func() { p = recover() }()
	f()
	return nil
}

func TestExplore(t *testing.T) {
	rng := rand.New(rand.NewSource(1))
	priv, _, err := crypto.GenerateEd25519Key(rng)
	if err != nil {
		t.Fatal(err)
	}
	var cid propeller.CommitteeID
	cid[0] = 7
	for _, cfg := range [][2]int{{1, 0}, {1, 1}, {2, 2}, {3, 6}} {
		for _, l := range []int{0, 1, 127, 128, 300} {
			msg := make([]byte, l)
			rng.Read(msg)
			var units []propeller.Unit
			var err error
			p := try(func() { units, err = propeller.CreatePropellerUnits(priv, &cid, 5, msg, cfg[0], cfg[1]) })
			fmt.Println("create", cfg, l, "panic", p, "err", err, "n", len(units))
			if err != nil || p != nil {
				continue
			}
			root := merkle.Hash(units[0].MessageRoot)
			okp := 0
			for i := range units {
				if units[i].MerkleProof.Verify(&root, units[i].ShardData[0], uint32(i)) {
					okp++
				}
			}
			fmt.Println("  proofs ok", okp, "nonce", units[0].Nonce, "shardlen", len(units[0].ShardData[0]))
			n := len(units)
			res := map[string]int{}
			for m := 0; m < 1<<n; m++ {
				us := make([]*propeller.Unit, n)
				c := 0
				for i := 0; i < n; i++ {
					if m&(1<<i) != 0 {
						u := units[i]
						us[i] = &u
						c++
					}
				}
				var got []byte
				var err error
				p := try(func() { got, _, _, err = propeller.ConstructMessageFromUnits(us, 0, cfg[0], cfg[1]) })
				k := ""
				switch {
				case p != nil:
					k = "panic"
				case err != nil:
					k = "err"
				case bytes.Equal(got, msg):
					k = "msg"
				default:
					k = "other"
				}
				res[fmt.Sprintf("have0=%v,enough=%v:%s", m&1 != 0, c >= cfg[0], k)]++
			}
			fmt.Println("  construct", res)
		}
	}
	// unpad
	for _, padded := range [][]byte{{0xff, 0xff, 0xff, 0xff, 0xff, 0xff, 0xff, 0xff, 0xff, 0x01, 0, 0}, {0x80, 0x80}, {5, 1, 2}, {}} {
		var out []byte
		var err error
		p := try(func() { out, err = propeller.UnpadMessage(padded) })
		fmt.Println("unpad", padded, "->", out, err, "panic", p)
	}
	// UnitFromProto
	pid, _ := peer.IDFromPrivateKey(priv)
	for name, pu := range map[string]*pb.PropellerUnit{
		"empty":      {},
		"noshards":   {Shards: &pb.ShardsOfPeer{}, MerkleRoot: &common.Hash256{Elements: make([]byte, 32)}},
		"shortroot":  {Shards: &pb.ShardsOfPeer{Shards: []*pb.Shard{{Data: []byte{1, 2}}}}, MerkleRoot: &common.Hash256{Elements: make([]byte, 31)}},
		"nilroot":    {Shards: &pb.ShardsOfPeer{Shards: []*pb.Shard{{Data: []byte{1, 2}}}}},
		"longroot":   {Shards: &pb.ShardsOfPeer{Shards: []*pb.Shard{{Data: []byte{1, 2}}}}, MerkleRoot: &common.Hash256{Elements: make([]byte, 33)}},
		"ok":         {Shards: &pb.ShardsOfPeer{Shards: []*pb.Shard{{Data: []byte{1, 2}}}}, MerkleRoot: &common.Hash256{Elements: make([]byte, 32)}, Publisher: &common.PeerID{Id: []byte(pid)}},
		"difflen":    {Shards: &pb.ShardsOfPeer{Shards: []*pb.Shard{{Data: []byte{1, 2}}, {Data: []byte{1, 2}}, {Data: []byte{1}}}}, MerkleRoot: &common.Hash256{Elements: make([]byte, 32)}},
		"nilshard":   {Shards: &pb.ShardsOfPeer{Shards: []*pb.Shard{nil}}, MerkleRoot: &common.Hash256{Elements: make([]byte, 32)}},
		"nilsibling": {Shards: &pb.ShardsOfPeer{Shards: []*pb.Shard{{Data: []byte{1}}}}, MerkleRoot: &common.Hash256{Elements: make([]byte, 32)}, MerkleProof: &pb.MerkleProof{Siblings: []*common.Hash256{nil}}},
	} {
		var err error
		p := try(func() { _, err = propeller.UnitFromProto(pu) })
		fmt.Println("fromproto", name, "err", err, "panic", p)
	}
	// validator on honest units
	privs := []crypto.PrivKey{}
	peers := []propeller.PeerCommittee{}
	for i := 0; i < 4; i++ {
		k, _, _ := crypto.GenerateEd25519Key(rng)
		id, _ := peer.IDFromPrivateKey(k)
		privs = append(privs, k)
		peers = append(peers, propeller.PeerCommittee{ID: id, Stake: 1})
	}
	local := peers[0].ID
	sch, err := propeller.NewScheduler(local, peers)
	fmt.Println("sched", err, sch.NumDataShards(), sch.NumCodingShards(), sch.BuildThreshold(), sch.ReceiveThreshold())
	var pubk crypto.PrivKey
	var pub peer.ID
	for i, k := range privs {
		id, _ := peer.IDFromPrivateKey(k)
		if id != local {
			pubk, pub = privs[i], id
			break
		}
	}
	for _, nonce := range []propeller.Nonce{0, 9} {
		units, _ := propeller.CreatePropellerUnits(pubk, &cid, nonce, []byte("hello world"), sch.NumDataShards(), sch.NumCodingShards())
		v := propeller.NewValidator(pub, sch)
		for i := range units {
			exp, _ := sch.PeerForShardIndex(pub, propeller.ShardIndex(i))
			sender := exp
			if exp == local {
				sender = pub
			}
			fmt.Println("validate nonce", nonce, "unit", i, v.Validate(&units[i], sender))
		}
	}
}

// Package propeller replays the outcome tables that TLC computes from spec/consensus/Propeller.tla
// on the REAL consensus/propeller code (property C19): CreatePropellerUnits (libp2p ed25519 keys,
// seeded), ConstructMessageFromUnits for EVERY subset of present units, every single-field
// corruption of every unit in every subset, Byzantine length prefixes, UnitValidator.Validate,
// UnitFromProto, merkle proofs, PadMessage/UnpadMessage and the scheduler's thresholds.
//
// Two tables arrive per configuration: "fix" (the repaired design, which TLC proved to satisfy the
// property) and "cur" (the code as it is, Fix* switches FALSE).  An observation equal to "fix" is
// fine; one that differs from "fix" but equals "cur" is a divergence keyed by the defect the
// switch stands for; anything else is a divergence keyed by the case.  Panics are recovered and
// are an outcome class ("panic") like any other.
package propeller

import (
	"bytes"
	"crypto/sha256"
	"encoding/binary"
	"fmt"
	"math"
	"math/rand"
	"os"
	"reflect"
	"runtime/debug"
	"sort"
	"strings"
	"sync"
	"sync/atomic"
	"testing"
	"time"

	"github.com/NethermindEth/juno/consensus/propeller"
	"github.com/NethermindEth/juno/consensus/propeller/merkle"
	pb "github.com/NethermindEth/juno/consensus/propeller/proto"
	"github.com/NethermindEth/juno/consensus/propeller/reedsolomon"
	"github.com/libp2p/go-libp2p/core/crypto"
	"github.com/libp2p/go-libp2p/core/peer"
	"github.com/starknet-io/starknet-p2p-specs/p2p/proto/common"

	"verifharness/internal/vh"
)

// ---------------------------------------------------------------- tables (PropellerMBT.tla)

type valRec struct {
	Loc    int    `json:"loc"`
	Pub    int    `json:"pub"`
	U      int    `json:"u"`
	F      string `json:"f"`
	J      int    `json:"j"`
	Seen   bool   `json:"seen"`
	Cached bool   `json:"cached"`
	NZ     bool   `json:"nz"`
	Q      int    `json:"q"`
	Sender int    `json:"sender"`
	V      string `json:"v"`
}

type schedRec struct {
	D     int `json:"d"`
	P     int `json:"p"`
	Build int `json:"build"`
	Recv  int `json:"recv"`
}

// sessionStep / sessionPlan: a sequence of deliveries to ONE validator instance with the verdict the
// specification gives each delivery in the state the earlier ones left behind.
type sessionStep struct {
	U      int    `json:"u"`
	F      string `json:"f"`
	J      int    `json:"j"`
	I      int    `json:"i"`
	Sender int    `json:"sender"`
	V      string `json:"v"`
}

type sessionPlan struct {
	Name  string        `json:"name"`
	Loc   int           `json:"loc"`
	Pub   int           `json:"pub"`
	F     string        `json:"f"`
	T     int           `json:"t"`
	Steps []sessionStep `json:"steps"`
}

type table struct {
	D         int                          `json:"d"`
	P         int                          `json:"p"`
	Honest    []string                     `json:"honest"`
	Byz       map[string][]string          `json:"byz"`
	Cor       map[string][][]string        `json:"cor"`
	FieldWhat map[string]map[string]string `json:"fieldwhat"`
	Val       []valRec                     `json:"val"`
	Sessions  []sessionPlan                `json:"sessions"`
	Proto     map[string]string            `json:"proto"`
	Lens      map[string]int               `json:"lens"`
	PeerOf    [][]int                      `json:"peerof"`
	NewSched  map[string]string            `json:"newsched"`
	Sched     map[string]schedRec          `json:"sched"`
}

// kase is one experiment with what both models say about it; it is also the replay input.
type kase struct {
	Kind   string       `json:"kind"` // create | honest | corrupt | byz | validate | proto | sched | pad
	D      int          `json:"d"`
	P      int          `json:"p"`
	Len    int          `json:"len"`
	NZ     bool         `json:"nz"`
	Mask   int          `json:"mask"` // slots that hold a unit
	F      string       `json:"f,omitempty"`
	U      int          `json:"u"`
	J      int          `json:"j"`
	Pad    string       `json:"pad,omitempty"`
	Loc    int          `json:"loc"`
	Pub    int          `json:"pub"`
	Q      int          `json:"q"`
	Sender int          `json:"sender"`
	Seen   bool         `json:"seen"`
	Cached bool         `json:"cached"`
	NP     int          `json:"np"`
	What   string       `json:"what,omitempty"` // sub-check of a create / sched / pad case
	Fix    string       `json:"fix"`
	Cur    string       `json:"cur"`
	Plan   *sessionPlan `json:"plan,omitempty"`  // session cases
	Plan2  *sessionPlan `json:"plan2,omitempty"` // second message (other publisher) on the SAME scheduler
	Leaf   string       `json:"leaf,omitempty"`  // leaf encoding of hand-built units: proto | raw
	ret    *retainer    // per-goroutine store of every value the package handed back (not serialised)
	// for index corruptions both alternatives (the bytes decide which applies)
	FixBenign string `json:"fix_benign,omitempty"`
	CurBenign string `json:"cur_benign,omitempty"`
}

type input struct {
	Fix   []table `json:"fix"`
	Cur   []table `json:"cur"`
	Cases []kase  `json:"cases"` // replay mode: exactly these
	Seed  int64   `json:"seed"`
	// Leaf: which Merkle leaf encoding the validator of this tree verifies against.  It is NOT found
	// out by trying: the driver derives it from known_findings.json (H17 listed as known: the
	// validator hashes the protobuf encoding of ShardData; fixed / unlisted: the raw shard).
	Leaf string `json:"leaf"`
	Full bool   `json:"full"` // thorough: every corruption in every subset also for long messages
	// Concurrent round: Goroutines x Rounds honest round trips on distinct messages at the same time.
	Concurrent *concSpec `json:"concurrent,omitempty"`
}

type concSpec struct {
	Goroutines int  `json:"goroutines"`
	Rounds     int  `json:"rounds"`
	Only       bool `json:"only"` // replay of a concurrent divergence: run nothing else
}

// ---------------------------------------------------------------- results are values

// retainer keeps every value the package handed back to this goroutine (rebuilt messages, local
// shards and proofs, the shards / proofs / signatures of created units, padded and unpadded
// buffers, decoded units) together with a private copy taken at that moment, and compares the
// two again after many later calls (Propeller.tla, ResultsAreValues): a result that shares
// memory with something the package reuses is correct when returned and silently changes later.
type keptValue struct {
	api  string
	same func() bool
	at   int // index into cases of the case that obtained it
}

type retainer struct {
	e      *engine
	items  []keptValue
	cases  []kase
	bytes  int
	replay any // replay input when the cases are not table cases (the concurrent round)
}

func (r *retainer) begin(k *kase) {
	if r == nil {
		return
	}
	if len(r.cases) >= 2500 || r.bytes > 40<<20 {
		r.flush()
	}
	c := *k
	c.ret = nil
	r.cases = append(r.cases, c)
}

func (r *retainer) keepBytes(api string, got []byte) {
	if r == nil || len(got) == 0 {
		return
	}
	want := bytes.Clone(got)
	r.bytes += len(got)
	r.items = append(r.items, keptValue{api: api, same: func() bool { return bytes.Equal(got, want) }, at: len(r.cases) - 1})
}

func (r *retainer) keepProof(api string, got merkle.Proof) {
	if r == nil {
		return
	}
	want := append([]merkle.Hash(nil), got.Siblings...)
	r.bytes += 32 * len(want)
	r.items = append(r.items, keptValue{api: api, same: func() bool {
		if len(got.Siblings) != len(want) {
			return false
		}
		for i := range want {
			if got.Siblings[i] != want[i] {
				return false
			}
		}
		return true
	}, at: len(r.cases) - 1})
}

func (r *retainer) keepUnits(api string, units []propeller.Unit) {
	for i := range units {
		for _, sh := range units[i].ShardData {
			r.keepBytes(api+":shard", sh)
		}
		r.keepBytes(api+":signature", units[i].Signature)
		r.keepProof(api+":proof", units[i].MerkleProof)
	}
}

func (r *retainer) replayInput(from, to int) any {
	if r.replay != nil {
		return r.replay
	}
	return vh.J{"cases": r.cases[from:to], "seed": r.e.w.seed}
}

// flush re-examines everything kept; the replay input of a changed value is the case that obtained
// it followed by the cases this goroutine ran afterwards (the later calls are what changes it).
func (r *retainer) flush() {
	if r == nil {
		return
	}
	r.e.out.Count("retained_values_rechecked", len(r.items))
	for _, it := range r.items {
		if it.same() {
			continue
		}
		from := max(it.at, 0)
		to := min(len(r.cases), from+400)
		k := kase{Kind: "retained"}
		if from < len(r.cases) {
			k = r.cases[from]
		}
		r.e.out.Diverge(vh.Divergence{
			Key: "propeller-retained:" + it.api + ":changed-after-later-calls",
			What: fmt.Sprintf("a value handed back by %s (case %s %s d=%d p=%d len=%d) was correct when returned and is different after later calls into the package: results must be values",
				it.api, k.Kind, caseTag(&k), k.D, k.P, k.Len),
			Input:    r.replayInput(from, to),
			Expected: "unchanged", Observed: "changed",
		})
	}
	r.items, r.cases, r.bytes = nil, nil, 0
}

// ---------------------------------------------------------------- deterministic material

type world struct {
	seed int64
	mu   sync.Mutex
	keys map[string]crypto.PrivKey
}

func (w *world) rng(parts ...any) *rand.Rand {
	h := sha256.Sum256([]byte(fmt.Sprint(append([]any{w.seed}, parts...)...)))
	return rand.New(rand.NewSource(int64(binary.LittleEndian.Uint64(h[:8]))))
}

func (w *world) key(name string) crypto.PrivKey {
	w.mu.Lock()
	defer w.mu.Unlock()
	if k, ok := w.keys[name]; ok {
		return k
	}
	k, _, err := crypto.GenerateEd25519Key(w.rng("key", name))
	if err != nil {
		panic("propeller engine: " + err.Error())
	}
	w.keys[name] = k
	return k
}

func pid(k crypto.PrivKey) peer.ID {
	id, err := peer.IDFromPrivateKey(k)
	if err != nil {
		panic("propeller engine: " + err.Error())
	}
	return id
}

func (w *world) committeeID() propeller.CommitteeID {
	var c propeller.CommitteeID
	w.rng("committee").Read(c[:])
	return c
}

func (w *world) message(d, p, l int) []byte {
	if l == 0 && d%2 == 1 {
		return nil // nil and empty are both "no bytes"
	}
	m := make([]byte, l)
	w.rng("msg", d, p, l).Read(m)
	return m
}

func nonceOf(nz bool) propeller.Nonce {
	if nz {
		return 0
	}
	return 1_700_000_000_123_456_789
}

// nonceFor varies the non-zero nonce with the length: a large one and the largest one
func nonceFor(nz bool, l int) propeller.Nonce {
	if !nz && l%2 == 1 {
		return propeller.Nonce(math.MaxInt64)
	}
	return nonceOf(nz)
}

// committee of np peers in the scheduler's order (sorted by ID); position -> key
func (w *world) committee(np int) []crypto.PrivKey {
	ks := make([]crypto.PrivKey, np)
	for i := range ks {
		ks[i] = w.key(fmt.Sprintf("peer-%d-%d", np, i))
	}
	sort.Slice(ks, func(a, b int) bool { return pid(ks[a]) < pid(ks[b]) })
	return ks
}

// ---------------------------------------------------------------- outcome classes

func guard(f func() string) (class string, detail string) {
	defer func() {
		if p := recover(); p != nil {
			class, detail = "panic", fmt.Sprintf("%v\n%s", p, firstFrames(string(debug.Stack())))
		}
	}()
	return f(), ""
}

func firstFrames(stack string) string {
	var keep []string
	for _, l := range strings.Split(stack, "\n") {
		if strings.Contains(l, "juno/consensus/propeller") {
			keep = append(keep, strings.TrimSpace(l))
			if len(keep) >= 4 {
				break
			}
		}
	}
	return strings.Join(keep, " | ")
}

func cloneUnit(u *propeller.Unit) *propeller.Unit {
	c := *u
	c.ShardData = make(propeller.ShardData, len(u.ShardData))
	for i, s := range u.ShardData {
		c.ShardData[i] = bytes.Clone(s)
	}
	c.MerkleProof.Siblings = append([]merkle.Hash(nil), u.MerkleProof.Siblings...)
	c.Signature = bytes.Clone(u.Signature)
	return &c
}

func validateClass(err error) string {
	if err == nil {
		return "ok"
	}
	m := err.Error()
	switch {
	case strings.HasPrefix(m, "duplicated shard"):
		return "dup"
	case strings.HasPrefix(m, "self sending"), strings.HasPrefix(m, "self published"),
		strings.HasPrefix(m, "couldn't validate publisher"), strings.HasPrefix(m, "received shard index"):
		return "origin"
	case strings.HasPrefix(m, "unexpected amount of shards"), strings.HasPrefix(m, "data shards verification failed"):
		return "shards"
	case strings.HasPrefix(m, "signature missmatch"), strings.HasPrefix(m, "failed message signature verification"):
		return "sig"
	}
	return "other:" + m
}

// ---------------------------------------------------------------- the engine

type engine struct {
	w   *world
	out *vh.Result
}

// defectKey names the modelled defect behind a (fix, cur) disagreement that the code exhibits.
func defectKey(k *kase, obs string) string {
	switch k.Kind {
	case "honest", "corrupt":
		if obs == "panic" {
			return "propeller-construct:panic:slot0-missing"
		}
	case "byz":
		if obs == "panic" && k.Pad == "overflow" && k.Mask&1 == 1 {
			return "propeller-unpad:panic:length-overflow"
		}
		if obs == "panic" {
			return "propeller-construct:panic:slot0-missing"
		}
	case "proto":
		if obs == "panic" {
			return "propeller-unitfromproto:panic:" + k.F
		}
		if obs == "unit" {
			return "propeller-unitfromproto:accepted:" + k.F
		}
	case "validate":
		if k.F == "none" && obs == "shards" {
			return "propeller-validator:honest-unit-rejected:proof-checked-against-marshalled-shards"
		}
		if k.F == "none" && obs == "sig" {
			return "propeller-validator:honest-unit-rejected:nonce-not-in-unit"
		}
	case "create":
		if k.What == "signature-verifies-with-unit-nonce" {
			return "propeller-create:nonce-not-stored-in-units"
		}
	}
	return ""
}

func (e *engine) judge(k *kase, obs, detail string, fix, cur string) {
	e.out.Count("cases:"+k.Kind, 1)
	if obs == fix {
		return
	}
	key := ""
	if obs == cur && cur != "" {
		key = defectKey(k, obs)
	}
	if k.Kind == "validate" && (obs == "ok") == (fix == "ok") && (cur == "" || obs == cur) {
		// rejected, as the property demands, only at an earlier stage than in the repaired design
		// (everything stops at the shard check today); the honest-unit cases report that defect
		e.out.Count("validate_rejected_at_other_stage", 1)
		return
	}
	if key == "" {
		key = fmt.Sprintf("propeller-%s:%s:want-%s-got-%s:d%d-p%d", k.Kind, caseTag(k), fix, strings.SplitN(obs, ":", 2)[0], k.D, k.P)
	}
	rk := *k
	e.out.Diverge(vh.Divergence{
		Key:      key,
		What:     fmt.Sprintf("%s %s: the specification (repaired design) says %q, the code as modelled says %q, the real code gives %q %s", k.Kind, caseTag(k), fix, cur, obs, detail),
		Input:    vh.J{"cases": []kase{rk}, "seed": e.w.seed},
		Expected: fix, Observed: obs,
	})
}

func caseTag(k *kase) string {
	switch k.Kind {
	case "corrupt":
		return k.F
	case "byz":
		return k.Pad
	case "validate":
		return fmt.Sprintf("%s/seen=%v/cached=%v", k.F, k.Seen, k.Cached)
	case "proto":
		return k.F
	case "create", "sched", "pad":
		return k.What
	case "session", "large", "newsched":
		return k.What
	}
	return "subset"
}

func (e *engine) create(d, p, l int, nz bool) (units []propeller.Unit, msg []byte, class, detail string) {
	msg = e.w.message(d, p, l)
	cid := e.w.committeeID()
	mine := bytes.Clone(msg) // the caller's buffer: reused by the caller right after the call
	class, detail = guard(func() string {
		var err error
		units, err = propeller.CreatePropellerUnits(e.w.key("publisher"), &cid, nonceFor(nz, l), mine, d, p)
		if err != nil {
			return "err:" + err.Error()
		}
		return "units"
	})
	for i := range mine {
		mine[i] ^= 0xa5
	}
	cid[0] ^= 0xff
	return
}

func place(units []propeller.Unit, mask int) []*propeller.Unit {
	us := make([]*propeller.Unit, len(units))
	for i := range units {
		if mask&(1<<i) != 0 {
			us[i] = cloneUnit(&units[i])
		}
	}
	return us
}

// construct runs ConstructMessageFromUnits and classifies: msg (bit-for-bit) | err | panic | other.
// For "msg" it also checks the returned local shard and proof against the signed root.
func construct(ret *retainer, us []*propeller.Unit, orig []propeller.Unit, msg []byte, d, p int) (string, string) {
	local := 0
	for i, u := range us {
		if u == nil {
			local = i // the interesting case: the local shard itself had to be recovered
			break
		}
	}
	return guard(func() string {
		got, shard, proof, err := propeller.ConstructMessageFromUnits(us, propeller.ShardIndex(local), d, p)
		if err != nil {
			return "err"
		}
		ret.keepBytes("ConstructMessageFromUnits:message", got)
		for _, sh := range shard {
			ret.keepBytes("ConstructMessageFromUnits:local-shard", sh)
		}
		ret.keepProof("ConstructMessageFromUnits:local-proof", proof)
		if !bytes.Equal(got, msg) {
			return "other"
		}
		if orig != nil {
			root := merkle.Hash(orig[0].MessageRoot)
			if len(shard) != 1 || !bytes.Equal(shard[0], orig[local].ShardData[0]) || !proof.Verify(&root, shard[0], uint32(local)) {
				return "other:local-shard-or-proof"
			}
		}
		return "msg"
	})
}

func corrupt(u *propeller.Unit, f string, j int, rng *rand.Rand, other peer.ID) {
	switch f {
	case "shard":
		s := u.ShardData[0]
		s[rng.Intn(len(s))] ^= byte(1 << rng.Intn(8))
	case "shardlen":
		u.ShardData[0] = append(u.ShardData[0], byte(rng.Intn(256)))
	case "noshards":
		u.ShardData = propeller.ShardData{}
	case "twoshards":
		u.ShardData = append(u.ShardData, bytes.Clone(u.ShardData[0]))
	case "index", "indexoob":
		u.ShardIndex = propeller.ShardIndex(j)
	case "indexmax":
		u.ShardIndex = propeller.ShardIndex(math.MaxUint32)
	case "proof":
		k := rng.Intn(len(u.MerkleProof.Siblings))
		u.MerkleProof.Siblings[k][rng.Intn(32)] ^= byte(1 << rng.Intn(8))
	case "proofshort":
		u.MerkleProof.Siblings = u.MerkleProof.Siblings[:len(u.MerkleProof.Siblings)-1]
	case "root":
		u.MessageRoot[rng.Intn(32)] ^= byte(1 << rng.Intn(8))
	case "sig":
		u.Signature[rng.Intn(len(u.Signature))] ^= byte(1 << rng.Intn(8))
	case "sigempty":
		u.Signature = nil
	case "committee":
		u.CommitteeID[rng.Intn(32)] ^= byte(1 << rng.Intn(8))
	case "publisher", "publisherself", "publisherout":
		u.Publisher = other
	case "nonce":
		u.Nonce++
	case "none", "sender", "senderself":
	default:
		panic("propeller engine: unknown field " + f)
	}
}

// runCase executes one experiment on the real code and judges it.
func (e *engine) runCase(k *kase) {
	n := k.D + k.P
	k.ret.begin(k)
	switch k.Kind {
	case "honest", "corrupt":
		units, msg, class, detail := e.create(k.D, k.P, k.Len, k.NZ)
		if class != "units" {
			e.judge(k, "create-"+class, detail, k.Fix, k.Cur)
			return
		}
		if k.Mask%16 == 3 {
			k.ret.keepUnits("CreatePropellerUnits", units)
		}
		us := place(units, k.Mask)
		fix, cur := k.Fix, k.Cur
		if k.Kind == "corrupt" {
			rng := e.w.rng("corrupt", k.D, k.P, k.Len, k.Mask, k.F, k.U, k.J)
			c := cloneUnit(&units[k.U])
			corrupt(c, k.F, k.J, rng, pid(e.w.key("somebody-else")))
			slot := k.U
			if k.F == "index" {
				slot = k.J
				us[k.U] = nil
				if bytes.Equal(units[k.U].ShardData[0], units[k.J].ShardData[0]) {
					fix, cur = k.FixBenign, k.CurBenign
				}
			}
			us[slot] = c
		}
		obs, detail := construct(k.ret, us, units, msg, k.D, k.P)
		e.judge(k, obs, detail, fix, cur)
		if k.Kind == "honest" && obs != "panic" {
			for i := range us {
				if us[i] != nil && !reflect.DeepEqual(*us[i], units[i]) {
					kk := *k
					kk.What = fmt.Sprintf("unit-%d", i)
					e.out.Diverge(vh.Divergence{Key: "propeller-retained:ConstructMessageFromUnits:input-units-modified",
						What:  fmt.Sprintf("ConstructMessageFromUnits changed the unit in slot %d that the caller passed in (d=%d p=%d subset=%b)", i, k.D, k.P, k.Mask),
						Input: vh.J{"cases": []kase{kk}, "seed": e.w.seed}, Expected: "unchanged", Observed: "changed"})
					break
				}
			}
		}
	case "byz":
		units, class, detail := e.byzantine(k.D, k.P, k.Pad)
		if class != "units" {
			e.judge(k, "create-"+class, detail, k.Fix, k.Cur)
			return
		}
		obs, detail := construct(k.ret, place(units, k.Mask), nil, []byte("\x00no message can come out of this\x00"), k.D, k.P)
		e.judge(k, obs, detail, k.Fix, k.Cur)
	case "proto":
		e.protoCase(k)
	case "validate":
		e.validateCase(k, n)
	case "create":
		e.createCase(k)
	case "session":
		e.sessionCase(k)
	case "large":
		e.largeCase(k)
	case "newsched":
		e.newSchedCase(k)
	case "sched":
		e.schedCase(k)
	default:
		panic("propeller engine: unknown case kind " + k.Kind)
	}
}

// byzantine builds correctly signed, mutually consistent units over a padded message whose length
// prefix is malformed: only the publisher can do this.
func (e *engine) byzantine(d, p int, kind string) (units []propeller.Unit, class, detail string) {
	var prefix []byte
	switch kind {
	case "big":
		prefix = binary.AppendUvarint(nil, 1<<40)
	case "overflow":
		prefix = binary.AppendUvarint(nil, ^uint64(0))
	case "badvarint":
		prefix = bytes.Repeat([]byte{0x80}, 12)
	default:
		panic("propeller engine: unknown pad kind " + kind)
	}
	padded := append(prefix, []byte("payload of a byzantine publisher")...)
	for len(padded)%(2*d) != 0 {
		padded = append(padded, 0)
	}
	cid := e.w.committeeID()
	priv := e.w.key("publisher")
	class, detail = guard(func() string {
		shards, err := reedsolomon.EncodeData(padded, d, p)
		if err != nil {
			return "err:" + err.Error()
		}
		root, tree := merkle.New(shards)
		mr := propeller.MessageRoot(root)
		sig, err := propeller.SignMessage(priv, &mr, &cid, 7)
		if err != nil {
			return "err:" + err.Error()
		}
		for i, s := range shards {
			units = append(units, propeller.Unit{CommitteeID: cid, Publisher: pid(priv), MessageRoot: mr,
				MerkleProof: tree[i], Signature: sig, ShardIndex: propeller.ShardIndex(i),
				ShardData: propeller.ShardData{s}, Nonce: 7})
		}
		return "units"
	})
	return
}

func (e *engine) protoCase(k *kase) {
	units, _, class, detail := e.create(k.D, k.P, 40, true)
	if class != "units" {
		e.judge(k, "create-"+class, detail, k.Fix, k.Cur)
		return
	}
	u := units[len(units)-1]
	pu := u.ToProto()
	switch k.F {
	case "ok":
	case "noshards":
		if k.Mask == 1 {
			pu.Shards = nil
		} else {
			pu.Shards = &pb.ShardsOfPeer{}
		}
	case "noroot":
		pu.MerkleRoot = nil
	case "shortroot":
		pu.MerkleRoot = &common.Hash256{Elements: pu.MerkleRoot.Elements[:31]}
	case "longroot":
		pu.MerkleRoot = &common.Hash256{Elements: append(bytes.Clone(pu.MerkleRoot.Elements), 0xab)}
	case "difflen":
		pu.Shards.Shards = append(pu.Shards.Shards, &pb.Shard{Data: append(bytes.Clone(pu.Shards.Shards[0].Data), 1)})
	default:
		panic("propeller engine: unknown proto kind " + k.F)
	}
	obs, detail := guard(func() string {
		got, err := propeller.UnitFromProto(pu)
		if err != nil {
			return "err"
		}
		if k.F == "ok" && !reflect.DeepEqual(got, u) {
			return "other:round-trip-differs"
		}
		return "unit"
	})
	e.judge(k, obs, detail, k.Fix, k.Cur)
}

func (e *engine) validateCase(k *kase, n int) {
	np := n + 1
	ks := e.w.committee(np)
	peers := make([]propeller.PeerCommittee, np)
	for i, key := range ks {
		peers[i] = propeller.PeerCommittee{ID: pid(key), Stake: 1}
	}
	// hand the scheduler the peers in another order: it must sort them itself
	shuffled := append([]propeller.PeerCommittee(nil), peers...)
	e.w.rng("shuffle", np).Shuffle(len(shuffled), func(a, b int) { shuffled[a], shuffled[b] = shuffled[b], shuffled[a] })
	local := peers[k.Loc].ID
	who := func(pos int) peer.ID {
		if pos >= np {
			return pid(e.w.key("outsider"))
		}
		return peers[pos].ID
	}
	obs, detail := guard(func() string {
		sch, err := propeller.NewScheduler(local, shuffled)
		if err != nil {
			return "other:scheduler:" + err.Error()
		}
		cid := e.w.committeeID()
		units, err := propeller.CreatePropellerUnits(ks[k.Pub], &cid, nonceOf(k.NZ), e.w.message(k.D, k.P, 33), k.D, k.P)
		if err != nil {
			return "other:create:" + err.Error()
		}
		honestSender := func(u int) peer.ID {
			exp, err := sch.PeerForShardIndex(peers[k.Pub].ID, propeller.ShardIndex(u))
			if err != nil {
				panic("propeller engine: " + err.Error())
			}
			if exp == local {
				return peers[k.Pub].ID
			}
			return exp
		}
		c := cloneUnit(&units[k.U])
		corrupt(c, k.F, map[bool]int{true: np - 1, false: k.J}[k.F == "indexoob"], e.w.rng("vcorrupt", k.D, k.P, k.U, k.F), who(k.Q))
		// the processor creates the validator for the unit's key, i.e. for the publisher the unit names
		if _, err := sch.ShardIndexForPublisher(c.Publisher); err != nil {
			return "route"
		}
		v := propeller.NewValidator(c.Publisher, sch)
		if k.Seen {
			if err := v.Validate(cloneUnit(&units[k.U]), honestSender(k.U)); err != nil {
				return "setup:honest-unit-rejected"
			}
		}
		if k.Cached {
			o := (k.U + 1) % n
			if o == k.U || (k.F == "index" && o == k.J) {
				o = (k.U + 2) % n
			}
			if o == k.U {
				return "setup:no-other-unit"
			}
			if err := v.Validate(cloneUnit(&units[o]), honestSender(o)); err != nil {
				return "setup:honest-unit-rejected"
			}
		}
		sender := who(k.Sender)
		if hs := honestSender(k.U); k.F != "sender" && k.F != "senderself" && sender != hs {
			return fmt.Sprintf("other:model-and-scheduler-disagree-on-the-sender-of-unit-%d", k.U)
		}
		return validateClass(v.Validate(c, sender))
	})
	if strings.HasPrefix(obs, "setup:") {
		e.out.Count("validate_setup_impossible", 1) // the honest-unit cases report why
		return
	}
	e.judge(k, obs, detail, k.Fix, k.Cur)
}

// handBuilt makes the units of a message the way CreatePropellerUnits does, but with the Merkle
// tree over the leaf encoding the validator under test verifies against ("proto": the protobuf
// encoding of the unit's ShardData, what the validator does today; "raw": the shard bytes, what
// CreatePropellerUnits does).  The stateful behaviour of the validator is thereby observable
// whichever way the leaf-encoding disagreement (known finding H17) stands or gets resolved.
func (e *engine) handBuilt(priv crypto.PrivKey, msg []byte, d, p int, leaf string) ([]propeller.Unit, error) {
	cid := e.w.committeeID()
	nonce := nonceOf(false)
	shards, err := reedsolomon.EncodeData(propeller.PadMessage(msg, d), d, p)
	if err != nil {
		return nil, err
	}
	leaves := make([][]byte, len(shards))
	for i, s := range shards {
		if leaf == "proto" {
			leaves[i] = propeller.ShardData{s}.MarshalProto()
		} else {
			leaves[i] = s
		}
	}
	root, tree := merkle.New(leaves)
	mr := propeller.MessageRoot(root)
	sig, err := propeller.SignMessage(priv, &mr, &cid, nonce)
	if err != nil {
		return nil, err
	}
	units := make([]propeller.Unit, len(shards))
	for i, s := range shards {
		units[i] = propeller.Unit{CommitteeID: cid, Publisher: pid(priv), MessageRoot: mr, MerkleProof: tree[i],
			Signature: sig, ShardIndex: propeller.ShardIndex(i), ShardData: propeller.ShardData{s}, Nonce: nonce}
	}
	return units, nil
}

// sessionCase drives one plan on ONE real UnitValidator: genuine and junk units in the plan's
// order; every verdict is compared with the specification's, which depends on what the validator
// accepted before - and on nothing it rejected.  After a "poison-all" plan the accepted shards
// must reach the build threshold and rebuild the exact message.  With Plan2, a second message of
// ANOTHER publisher is then validated by a new validator on the SAME scheduler object (the
// scheduler lives as long as the committee; nothing of the first message may stick to it).
func (e *engine) sessionCase(k *kase) {
	n := k.D + k.P
	np := n + 1
	ks := e.w.committee(np)
	peers := make([]propeller.PeerCommittee, np)
	for i, key := range ks {
		peers[i] = propeller.PeerCommittee{ID: pid(key), Stake: 1}
	}
	leaf := k.Leaf
	if leaf == "" {
		leaf = "proto"
	}
	local := peers[k.Plan.Loc].ID
	var sch *propeller.Scheduler
	if c, d := guard(func() string {
		var err error
		if sch, err = propeller.NewScheduler(local, append([]propeller.PeerCommittee(nil), peers...)); err != nil {
			return "err:" + err.Error()
		}
		return "scheduler"
	}); c != "scheduler" {
		kk := *k
		kk.What = "scheduler-for-the-committee"
		e.judge(&kk, c, d, "scheduler", "")
		return
	}
	for epoch, pl := range []*sessionPlan{k.Plan, k.Plan2} {
		if pl == nil {
			continue
		}
		tag := ""
		if epoch == 1 {
			tag = "second-message-on-the-same-scheduler/"
		}
		msg := e.w.message(k.D, k.P, 57+epoch)
		var units []propeller.Unit
		accepted := make([][]byte, n)
		step, want := -1, ""
		obs, detail := guard(func() string {
			var err error
			if units, err = e.handBuilt(ks[pl.Pub], msg, k.D, k.P, leaf); err != nil {
				return "other:build:" + err.Error()
			}
			if pl.T == 0 {
				k.ret.keepUnits("reedsolomon.EncodeData+merkle.New+SignMessage", units)
			}
			v := propeller.NewValidator(peers[pl.Pub].ID, sch)
			for si, st := range pl.Steps {
				c := cloneUnit(&units[st.U])
				corrupt(c, st.F, map[bool]int{true: np - 1, false: st.J}[st.F == "indexoob"],
					e.w.rng("session", k.D, k.P, pl.Name, pl.F, pl.T, si), "")
				sender := local
				if st.Sender < np {
					sender = peers[st.Sender].ID
				}
				got := validateClass(v.Validate(c, sender))
				if got != st.V {
					step, want = si, st.V
					return got
				}
				if got == "ok" {
					accepted[int(c.ShardIndex)] = bytes.Clone(c.ShardData[0])
				}
			}
			return "conforms"
		})
		e.out.Count("session_leaf_"+leaf, 1)
		kk := *k
		if obs != "conforms" {
			st := pl.Steps[max(step, 0)]
			kk.What = fmt.Sprintf("%s%s/junk=%s/step%d(%s)", tag, pl.Name, pl.F, step, st.F)
			switch {
			case step < 0:
				kk.What = fmt.Sprintf("%s%s/junk=%s/%s", tag, pl.Name, pl.F, strings.SplitN(obs, ":", 2)[0])
				want = "conforms"
			case st.F == "none" && want == "ok" && obs == "dup":
				kk.What = tag + "genuine-unit-rejected-as-duplicate-after-a-rejected-unit/junk=" + pl.F
			case st.F == "none" && want == "ok" && step >= 0 && obs != "panic":
				// a genuine unit, built with the leaf encoding this tree's validator is recorded to use
				kk.What = tag + "genuine-unit-rejected/" + obs
			}
			if step >= 0 {
				detail += fmt.Sprintf(" plan %s aimed at index %d, step %d delivers unit %d (%s) as index %d; leaves: %s", pl.Name, pl.T, step, st.U, st.F, st.I, leaf)
			}
			e.judge(&kk, obs, detail, want, "")
			return
		}
		kk.What = tag + pl.Name + "/junk=" + pl.F
		e.judge(&kk, "conforms", "", "conforms", "")
		if pl.Name == "poison-all" {
			kk.What = tag + "poison-all/threshold-and-rebuild/junk=" + pl.F
			got, detail := guard(func() string {
				have := 0
				for _, s := range accepted {
					if s != nil {
						have++
					}
				}
				if have < k.D {
					return fmt.Sprintf("only-%d-validated-shards", have)
				}
				rec, err := reedsolomon.RecoverData(accepted, k.D, k.P)
				if err != nil {
					return "err:" + err.Error()
				}
				for _, sh := range rec {
					k.ret.keepBytes("reedsolomon.RecoverData", sh)
				}
				var padded []byte
				for i := 0; i < k.D; i++ {
					padded = append(padded, rec[i]...)
				}
				back, err := propeller.UnpadMessage(padded)
				if err != nil || !bytes.Equal(back, msg) {
					return "other"
				}
				return "msg"
			})
			e.judge(&kk, got, detail, "msg", "")
		}
	}
}

// largeCase: committees far beyond the exhaustively enumerated ones (31 and 100 peers: 10+20 and
// 33+66 shards): create, every proof, and rebuild from sampled subsets of exactly data, data+1, all,
// and data-1 units; the expectation is the specification's Reconstructs.
func (e *engine) largeCase(k *kase) {
	units, msg, class, detail := e.create(k.D, k.P, k.Len, true)
	if class != "units" {
		e.judge(k, "create-"+class, detail, k.Fix, k.Cur)
		return
	}
	n := k.D + k.P
	rng := e.w.rng("large", k.D, k.P, k.Mask)
	size := []int{k.D, k.D + 1, n, k.D - 1, k.D, n - 1}[k.Mask%6]
	us := make([]*propeller.Unit, n)
	for _, i := range rng.Perm(n)[:size] {
		us[i] = cloneUnit(&units[i])
	}
	obs, detail := guard(func() string {
		root := merkle.Hash(units[0].MessageRoot)
		for i := range units {
			if !units[i].MerkleProof.Verify(&root, units[i].ShardData[0], uint32(i)) {
				return fmt.Sprintf("other:proof-%d-does-not-verify", i)
			}
		}
		return ""
	})
	if obs == "" {
		obs, detail = construct(k.ret, us, nil, msg, k.D, k.P)
	}
	e.judge(k, obs, detail, k.Fix, k.Cur)
}

// newSchedCase: the committees NewScheduler must refuse.
func (e *engine) newSchedCase(k *kase) {
	ks := e.w.committee(4)
	peers := make([]propeller.PeerCommittee, len(ks))
	for i, key := range ks {
		peers[i] = propeller.PeerCommittee{ID: pid(key), Stake: 1}
	}
	local := peers[1].ID
	switch k.F {
	case "ok":
	case "single":
		peers = peers[1:2]
	case "empty":
		peers = nil
	case "duplicate": // every position: the duplicates end up first, in the middle or last after sorting
		peers = append(peers, peers[k.Mask%len(peers)])
	case "localmissing":
		local = pid(e.w.key("outsider"))
	default:
		panic("propeller engine: unknown scheduler kind " + k.F)
	}
	obs, detail := guard(func() string {
		sch, err := propeller.NewScheduler(local, peers)
		if err != nil {
			return "err"
		}
		if sch == nil {
			return "other:nil-scheduler-without-error"
		}
		return "scheduler"
	})
	e.judge(k, obs, detail, k.Fix, k.Cur)
}

// createCase: the publisher side: shape of the units, every proof verifies against the signed
// root (and not at another index / for another leaf), the signature verifies with the fields the
// unit itself carries, padding round trip and sizes.
func (e *engine) createCase(k *kase) {
	units, msg, class, detail := e.create(k.D, k.P, k.Len, k.NZ)
	sub := func(what, fix, cur, obs, det string) {
		kk := *k
		kk.What = what
		kk.Fix, kk.Cur = fix, cur
		e.judge(&kk, obs, det, fix, cur)
	}
	if class != "units" {
		sub("units-created", "units", "units", class, detail)
		return
	}
	k.ret.keepUnits("CreatePropellerUnits", units)
	n := k.D + k.P
	b := func(ok bool) string { return map[bool]string{true: "yes", false: "no"}[ok] }
	shape := len(units) == n
	for i := range units {
		u := &units[i]
		shape = shape && int(u.ShardIndex) == i && len(u.ShardData) == 1 && len(u.ShardData[0]) == k.U &&
			u.MessageRoot == units[0].MessageRoot && u.Publisher == pid(e.w.key("publisher")) &&
			u.CommitteeID == e.w.committeeID() && bytes.Equal(u.Signature, units[0].Signature)
	}
	sub("unit-shape-and-shard-size", "yes", "yes", b(shape), fmt.Sprintf("n=%d want shard size %d", len(units), k.U))
	if !shape {
		return
	}
	root := merkle.Hash(units[0].MessageRoot)
	proofs, wrongIdx, wrongLeaf := true, false, false
	for i := range units {
		s := units[i].ShardData[0]
		proofs = proofs && units[i].MerkleProof.Verify(&root, s, uint32(i))
		for j := range units {
			if j != i && !bytes.Equal(units[j].ShardData[0], s) && units[i].MerkleProof.Verify(&root, s, uint32(j)) {
				wrongIdx = true
			}
		}
		t := bytes.Clone(s)
		t[len(t)-1] ^= 1
		wrongLeaf = wrongLeaf || units[i].MerkleProof.Verify(&root, t, uint32(i))
	}
	sub("every-proof-verifies-against-the-signed-root", "yes", "yes", b(proofs), "")
	sub("proof-verifies-at-another-index", "no", "no", b(wrongIdx), "")
	sub("proof-verifies-for-another-leaf", "no", "no", b(wrongLeaf), "")
	pub := e.w.key("publisher").GetPublic()
	cid := e.w.committeeID()
	sigTrue := propeller.VerifyMessageSignature(pub, &units[0].MessageRoot, &cid, nonceFor(k.NZ, k.Len), units[0].Signature) == nil
	sub("signature-covers-root-committee-nonce", "yes", "yes", b(sigTrue), "")
	sigUnit := true
	for i := range units {
		sigUnit = sigUnit && propeller.VerifyMessageSignature(pub, &units[i].MessageRoot, &units[i].CommitteeID, units[i].Nonce, units[i].Signature) == nil
	}
	sub("signature-verifies-with-unit-nonce", k.Fix, k.Cur, b(sigUnit), fmt.Sprintf("unit nonce %d, signed nonce %d", units[0].Nonce, nonceFor(k.NZ, k.Len)))
	pad, detail := guard(func() string {
		p := propeller.PadMessage(msg, k.D)
		back, err := propeller.UnpadMessage(p)
		k.ret.keepBytes("PadMessage", p)
		k.ret.keepBytes("UnpadMessage", back)
		return b(len(p) == k.U*k.D && err == nil && bytes.Equal(back, msg))
	})
	sub("pad-size-and-unpad-round-trip", "yes", "yes", pad, detail)
	for i := range units {
		i := i
		rt, detail := guard(func() string {
			got, err := propeller.UnitFromProto(units[i].ToProto())
			if err == nil {
				k.ret.keepUnits("UnitFromProto", []propeller.Unit{got})
			}
			return b(err == nil && reflect.DeepEqual(got, units[i]))
		})
		if rt != "yes" {
			sub("proto-round-trip", "yes", "yes", rt, detail)
			break
		}
	}
}

func (e *engine) schedCase(k *kase) {
	ks := e.w.committee(k.NP)
	peers := make([]propeller.PeerCommittee, k.NP)
	for i, key := range ks {
		peers[i] = propeller.PeerCommittee{ID: pid(key), Stake: 1}
	}
	obs, detail := guard(func() string {
		sch, err := propeller.NewScheduler(peers[k.Loc].ID, append([]propeller.PeerCommittee(nil), peers...))
		if err != nil {
			return "err:" + err.Error()
		}
		return fmt.Sprintf("d%d-p%d-build%d-recv%d", sch.NumDataShards(), sch.NumCodingShards(), sch.BuildThreshold(), sch.ReceiveThreshold())
	})
	e.judge(k, obs, detail, k.Fix, k.Cur)
	if k.Pub == k.Loc {
		return
	}
	// shard -> peer map and its inverse
	kk := *k
	kk.What = "peer-of-shard"
	obs, detail = guard(func() string {
		sch, _ := propeller.NewScheduler(peers[k.Loc].ID, append([]propeller.PeerCommittee(nil), peers...))
		parts := []string{}
		for i := 0; i < k.NP-1; i++ {
			id, err := sch.PeerForShardIndex(peers[k.Pub].ID, propeller.ShardIndex(i))
			pos := -1
			for x := range peers {
				if err == nil && peers[x].ID == id {
					pos = x
				}
			}
			parts = append(parts, fmt.Sprint(pos))
		}
		mine, err := sch.ShardIndexForPublisher(peers[k.Pub].ID)
		if err != nil {
			return "err:" + err.Error()
		}
		return strings.Join(parts, ",") + fmt.Sprintf("/mine=%d", mine)
	})
	kk.Fix, kk.Cur = k.FixBenign, k.CurBenign
	e.judge(&kk, obs, detail, kk.Fix, kk.Cur)
}

// ---------------------------------------------------------------- case enumeration from the tables

func tableFor(ts []table, d, p int) *table {
	for i := range ts {
		if ts[i].D == d && ts[i].P == p {
			return &ts[i]
		}
	}
	return nil
}

func valKey(r *valRec) string {
	return fmt.Sprint(r.Loc, r.Pub, r.U, r.F, r.J, r.Seen, r.Cached, r.NZ)
}

func (e *engine) enumerate(in *input, emit func(kase)) {
	for ti := range in.Fix {
		fix := &in.Fix[ti]
		cur := tableFor(in.Cur, fix.D, fix.P)
		if cur == nil {
			panic("propeller engine: no as-is table for a configuration")
		}
		d, p := fix.D, fix.P
		n := d + p
		full := 1 << n
		lens := []int{}
		for ls := range fix.Lens {
			var l int
			fmt.Sscan(ls, &l)
			lens = append(lens, l)
		}
		sort.Ints(lens)
		rng := e.w.rng("enumerate", d, p)
		for _, l := range lens {
			long := l > 200
			if l > 100000 { // 1 MiB and the 3->4 byte varint boundary: create, and a few subsets
				emit(kase{Kind: "create", D: d, P: p, Len: l, NZ: true, U: fix.Lens[fmt.Sprint(l)], Fix: "yes", Cur: "yes"})
				if in.Full || (d+p)%3 == 1 {
					for _, m := range []int{full - 1, rng.Intn(full), rng.Intn(full)} {
						emit(kase{Kind: "honest", D: d, P: p, Len: l, NZ: true, Mask: m, Fix: fix.Honest[m], Cur: cur.Honest[m]})
					}
				}
				continue
			}
			for _, nz := range []bool{true, false} {
				if !nz && l%5 != 0 {
					continue
				}
				emit(kase{Kind: "create", D: d, P: p, Len: l, NZ: nz, U: fix.Lens[fmt.Sprint(l)],
					Fix: "yes", Cur: map[bool]string{true: "yes", false: "no"}[nz]})
			}
			// every subset of present units
			for m := 0; m < full; m++ {
				if long && n > 6 && !in.Full && rng.Intn(8) != 0 {
					continue
				}
				emit(kase{Kind: "honest", D: d, P: p, Len: l, NZ: true, Mask: m, Fix: fix.Honest[m], Cur: cur.Honest[m]})
			}
			// every single-field corruption of every unit in every subset holding it
			if long && !in.Full && l%3 != 0 {
				continue
			}
			fields := make([]string, 0, len(fix.FieldWhat))
			for f := range fix.FieldWhat {
				fields = append(fields, f)
			}
			sort.Strings(fields)
			for _, f := range fields {
				for u := 0; u < n; u++ {
					if f != "index" {
						what := fix.FieldWhat[f]["f"]
						for m := 0; m < full; m++ {
							if m&(1<<u) == 0 {
								continue
							}
							if (long || (what == "none" && !in.Full)) && rng.Intn(6) != 0 {
								continue
							}
							k := kase{Kind: "corrupt", D: d, P: p, Len: l, NZ: true, Mask: m, F: f, U: u, J: u}
							if what == "none" {
								k.Fix, k.Cur = fix.Honest[m], cur.Honest[m]
							} else {
								k.Fix, k.Cur = fix.Cor[what][u][m], cur.Cor[what][u][m]
							}
							emit(k)
						}
						continue
					}
					for j := 0; j < n; j++ {
						if j == u {
							continue
						}
						for m := 0; m < full; m++ { // m = the OTHER units present
							if m&(1<<u) != 0 || m&(1<<j) != 0 {
								continue
							}
							if (long || (n > 6 && !in.Full)) && rng.Intn(6) != 0 {
								continue
							}
							filled := m | 1<<j
							emit(kase{Kind: "corrupt", D: d, P: p, Len: l, NZ: true, Mask: filled, F: f, U: u, J: j,
								Fix: fix.Cor["data"][j][filled], Cur: cur.Cor["data"][j][filled],
								FixBenign: fix.Honest[filled], CurBenign: cur.Honest[filled]})
						}
					}
				}
			}
		}
		for kind, arr := range fix.Byz {
			for m := 0; m < full; m++ {
				emit(kase{Kind: "byz", D: d, P: p, Mask: m, Pad: kind, Fix: arr[m], Cur: cur.Byz[kind][m]})
			}
		}
		for kind, v := range fix.Proto {
			emit(kase{Kind: "proto", D: d, P: p, F: kind, Fix: v, Cur: cur.Proto[kind]})
			if kind == "noshards" {
				emit(kase{Kind: "proto", D: d, P: p, F: kind, Mask: 1, Fix: v, Cur: cur.Proto[kind]})
			}
		}
		curVal := map[string]string{}
		for i := range cur.Val {
			curVal[valKey(&cur.Val[i])] = cur.Val[i].V
		}
		for i := range fix.Sessions {
			pl := &fix.Sessions[i]
			k := kase{Kind: "session", D: d, P: p, Plan: pl, Leaf: in.Leaf, Fix: "conforms"}
			if pl.Name == "poison-all" { // then a message of another publisher on the same scheduler
				for j := range fix.Sessions {
					o := &fix.Sessions[j]
					if o.Name == pl.Name && o.F == pl.F && o.Loc == pl.Loc && o.Pub != pl.Pub {
						k.Plan2 = o
						break
					}
				}
			}
			emit(k)
		}
		for kind, v := range fix.NewSched {
			if ti == 0 {
				for m := 0; m < 4; m++ {
					if m == 0 || kind == "duplicate" {
						emit(kase{Kind: "newsched", F: kind, Mask: m, What: kind, Fix: v, Cur: cur.NewSched[kind]})
					}
				}
			}
		}
		for i := range fix.Val {
			r := &fix.Val[i]
			emit(kase{Kind: "validate", D: d, P: p, NZ: r.NZ, F: r.F, U: r.U, J: r.J, Loc: r.Loc, Pub: r.Pub, Q: r.Q,
				Sender: r.Sender, Seen: r.Seen, Cached: r.Cached, Fix: r.V, Cur: curVal[valKey(r)]})
		}
		if ti == 0 {
			for nps, s := range fix.Sched {
				var np int
				fmt.Sscan(nps, &np)
				c := cur.Sched[nps]
				want := func(s schedRec) string { return fmt.Sprintf("d%d-p%d-build%d-recv%d", s.D, s.P, s.Build, s.Recv) }
				if np > 10 { // far beyond the enumerated configurations: sampled round trips
					for m := 0; m < 12; m++ {
						want := "msg"
						if m%6 == 3 {
							want = "err"
						}
						emit(kase{Kind: "large", D: s.D, P: s.P, NP: np, Len: 5000 + m, Mask: m,
							What: fmt.Sprintf("committee-of-%d", np), Fix: want, Cur: want})
					}
				}
				for loc := 0; loc < np; loc++ {
					for pub := 0; pub < np; pub++ {
						if np > 10 && ((loc != 0 && loc != np-1 && loc != np/2) || (pub != 0 && pub != np-1 && pub != np/2)) {
							continue
						}
						k := kase{Kind: "sched", NP: np, Loc: loc, Pub: pub, What: "shards-and-thresholds", Fix: want(s), Cur: want(c)}
						if pub != loc {
							t := tableFor(in.Fix, s.D, s.P)
							if t == nil {
								continue
							}
							parts := []string{}
							for _, x := range t.PeerOf[pub] {
								parts = append(parts, fmt.Sprint(x))
							}
							mine := loc
							if loc >= pub {
								mine = loc - 1
							}
							_ = mine
							k.FixBenign = strings.Join(parts, ",") + fmt.Sprintf("/mine=%d", indexOf(t.PeerOf[pub], loc))
							k.CurBenign = k.FixBenign
						}
						emit(k)
					}
				}
			}
		}
	}
}

func indexOf(xs []int, v int) int {
	for i, x := range xs {
		if x == v {
			return i
		}
	}
	return -1
}

// concurrentRound: the processor runs one goroutine per message in flight and publishes on another
// one.  G goroutines, each with its own publisher key and its own distinct messages, run honest
// round trips at the same time: create the units, verify EVERY proof against the signed root,
// verify the signature, rebuild from a random sufficient subset, compare bit for bit.  The
// monitor is the specification's Reconstructs / proofs-verify per message (PerMessageResults:
// what happens to one message does not depend on the others); every value handed back is also
// kept and re-examined at the end (ResultsAreValues).
func (e *engine) concurrentRound(spec *concSpec, cfgs [][2]int) int {
	g, m := spec.Goroutines, spec.Rounds
	keys := make([]crypto.PrivKey, g)
	for i := range keys {
		keys[i] = e.w.key(fmt.Sprintf("concurrent-publisher-%d", i))
	}
	input := vh.J{"concurrent": concSpec{Goroutines: g, Rounds: m, Only: true}, "seed": e.w.seed}
	report := func(what, detail string, gi, round int, exp, obs string) {
		key := "propeller-concurrent:" + what
		if what == "known-slot0" {
			key = "propeller-construct:panic:slot0-missing"
		}
		e.out.Diverge(vh.Divergence{Key: key,
			What: fmt.Sprintf("%d goroutines x %d honest round trips on distinct messages at the same time: goroutine %d, round %d: %s %s",
				g, m, gi, round, what, detail),
			Input: input, Step: round, Expected: exp, Observed: obs})
	}
	var wg sync.WaitGroup
	start := make(chan struct{})
	for gi := 0; gi < g; gi++ {
		wg.Add(1)
		go func(gi int) {
			defer wg.Done()
			rng := e.w.rng("concurrent", gi)
			ret := &retainer{e: e, replay: input}
			priv := keys[gi]
			pub := priv.GetPublic()
			<-start
			for r := 0; r < m; r++ {
				c := cfgs[rng.Intn(len(cfgs))]
				d, p := c[0], c[1]
				n := d + p
				l := rng.Intn(300)
				if rng.Intn(10) < 7 {
					l = 8<<10 + rng.Intn(88<<10) // long leaves: hashing them takes a while
				}
				msg := make([]byte, l)
				rng.Read(msg)
				if l >= 4 {
					binary.LittleEndian.PutUint32(msg, uint32(gi<<16|r)) // distinct messages
				}
				var cid propeller.CommitteeID
				rng.Read(cid[:])
				nonce := propeller.Nonce(rng.Int63())
				kk := kase{Kind: "concurrent", D: d, P: p, Len: l, What: fmt.Sprintf("goroutine-%d-round-%d", gi, r)}
				ret.begin(&kk)
				var units []propeller.Unit
				class, detail := guard(func() string {
					var err error
					units, err = propeller.CreatePropellerUnits(priv, &cid, nonce, msg, d, p)
					if err != nil {
						return "err:" + err.Error()
					}
					return "units"
				})
				if class != "units" || len(units) != n {
					report("create-failed", class+" "+detail, gi, r, "units", class)
					continue
				}
				ret.keepUnits("CreatePropellerUnits", units)
				class, detail = guard(func() string {
					root := merkle.Hash(units[0].MessageRoot)
					for i := range units {
						if units[i].MessageRoot != units[0].MessageRoot {
							return "roots-differ-between-units"
						}
						if !units[i].MerkleProof.Verify(&root, units[i].ShardData[0], uint32(i)) {
							return fmt.Sprintf("proof-of-unit-%d-does-not-verify-against-the-signed-root", i)
						}
					}
					if err := propeller.VerifyMessageSignature(pub, &units[0].MessageRoot, &cid, nonce, units[0].Signature); err != nil {
						return "signature-does-not-verify"
					}
					return "all-verify"
				})
				if class != "all-verify" {
					what := "proof-does-not-verify"
					if class == "panic" {
						what = "verify-panic"
					} else if class == "signature-does-not-verify" {
						what = class
					}
					report(what, class+" "+detail, gi, r, "all-verify", class)
					continue
				}
				// a random sufficient subset
				mask := 0
				for bitsSet(mask) < d {
					mask = rng.Intn(1 << n)
				}
				obs, detail := construct(ret, place(units, mask), units, msg, d, p)
				switch {
				case obs == "msg":
				case obs == "panic" && mask&1 == 0 && strings.Contains(detail, "nil pointer"):
					report("known-slot0", detail, gi, r, "msg", obs)
				case obs == "panic":
					report("rebuild-panic", detail, gi, r, "msg", obs)
				case obs == "err":
					report("rebuild-failed", fmt.Sprintf("d=%d p=%d len=%d subset=%b", d, p, l, mask), gi, r, "msg", obs)
				default:
					report("different-message", obs+" "+detail, gi, r, "msg", obs)
				}
				e.out.Count("cases:concurrent", 1)
			}
			ret.flush()
		}(gi)
	}
	close(start)
	wg.Wait()
	return g * m
}

func bitsSet(m int) int {
	c := 0
	for ; m != 0; m &= m - 1 {
		c++
	}
	return c
}

func TestPropellerReplay(t *testing.T) {
	if !vh.Enabled() {
		t.Skip()
	}
	var in input
	if err := vh.Input(&in); err != nil {
		t.Fatal(err)
	}
	out := vh.NewResult()
	defer out.Write()
	if in.Seed == 0 {
		in.Seed = vh.Seed()
	}
	e := &engine{w: &world{seed: in.Seed, keys: map[string]crypto.PrivKey{}}, out: out}
	// keys are created up front (the key cache is the only shared mutable state)
	e.w.key("publisher")
	e.w.key("somebody-else")
	e.w.key("outsider")
	for np := 2; np <= 12; np++ {
		e.w.committee(np)
	}
	total := 0
	// a call into the real code that never returns must not turn a verdict into a timeout: after
	// 3 minutes without any case finishing, what is known is written out and the case in flight
	// is reported
	var progress atomic.Int64
	var inflight sync.Map
	go func() {
		last, since := int64(-1), time.Now()
		for {
			time.Sleep(5 * time.Second)
			if p := progress.Load(); p != last {
				last, since = p, time.Now()
				continue
			}
			if time.Since(since) < 3*time.Minute {
				continue
			}
			inflight.Range(func(_, v any) bool {
				k := v.(kase)
				k.ret = nil
				out.Diverge(vh.Divergence{Key: "propeller-hang:" + k.Kind + ":" + caseTag(&k),
					What:  fmt.Sprintf("no case finished for 3 minutes; in flight: %s %s d=%d p=%d", k.Kind, caseTag(&k), k.D, k.P),
					Input: vh.J{"cases": []kase{k}, "seed": e.w.seed}, Expected: "returns", Observed: "hangs"})
				return true
			})
			_ = out.Write()
			os.Exit(1)
		}
	}()
	safely := func(k *kase) {
		inflight.Store(k, *k)
		defer func() {
			inflight.Delete(k)
			progress.Add(1)
		}()
		defer func() {
			if p := recover(); p != nil {
				msg := fmt.Sprint(p)
				if strings.HasPrefix(msg, "propeller engine:") {
					panic(p) // machinery
				}
				out.Diverge(vh.Divergence{Key: "propeller-panic:" + k.Kind + ":" + caseTag(k),
					What:  fmt.Sprintf("panic outside the guarded calls: %v | %s", p, firstFrames(string(debug.Stack()))),
					Input: vh.J{"cases": []kase{*k}, "seed": e.w.seed}, Expected: "no failure", Observed: "panic"})
			}
		}()
		e.runCase(k)
	}
	if in.Concurrent != nil {
		cfgs := [][2]int{{1, 1}, {1, 2}, {2, 2}, {2, 4}, {3, 6}}
		if len(in.Fix) > 0 {
			cfgs = cfgs[:0]
			for i := range in.Fix {
				if in.Fix[i].P > 0 {
					cfgs = append(cfgs, [2]int{in.Fix[i].D, in.Fix[i].P})
				}
			}
		}
		total += e.concurrentRound(in.Concurrent, cfgs)
		if in.Concurrent.Only {
			out.Done(total, total)
			return
		}
	}
	if len(in.Cases) > 0 {
		ret := &retainer{e: e}
		for i := range in.Cases {
			in.Cases[i].ret = ret
			safely(&in.Cases[i])
			total++
		}
		ret.flush()
		out.Done(total, total)
		return
	}
	jobs := make(chan kase, 4096)
	var wg sync.WaitGroup
	for wk := 0; wk < 6; wk++ {
		wg.Add(1)
		go func() {
			defer wg.Done()
			ret := &retainer{e: e}
			for k := range jobs {
				k := k
				k.ret = ret
				safely(&k)
			}
			ret.flush()
		}()
	}
	sampled := 0
	e.enumerate(&in, func(k kase) {
		total++
		if sampled < 3 && k.Kind == "corrupt" && k.Mask > 2 {
			sampled++
			out.Sample(k)
		}
		jobs <- k
	})
	close(jobs)
	wg.Wait()
	out.Done(total, total)
}

//go:build walhook

package wal

import "github.com/NethermindEth/juno/consensus/walstore"

// Built when the juno tree carries consensus/walstore/verif_hook.go (commit "verif: crash points
// in walstore prune cleanup"): real crash images at the named points of the prune cleanup.
const hookAvailable = true

func setHook(fn func(string)) { walstore.SetVerifPoint(fn) }

//go:build !walhook

package wal

// Without the verif hook in juno the images between "batch synced" and "WAL rotated" (watermark
// tmp written / renamed) are synthesised by the engine from the batch-synced image; rotation and
// every file removal are still observed through the vfs wrapper.
const hookAvailable = false

func setHook(fn func(string)) {}

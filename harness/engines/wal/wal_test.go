// Package wal replays TLC-generated behaviours of spec/consensus/Wal.tla on the REAL
// walstore.NewTendermintWALStore in a scratch directory (property C14).
//
// Every history entry of a behaviour is one action of the specification.  Client-level actions
// (Append, Prune, Flush, Close, Crash, Open) are executed on the real store; the internal actions
// of a Flush (SyncOk/SyncErr/Abort, WmTmp, WmRename, WmSyncDir, Rotate, RemoveFile, CleanupDone) name the
// points at which the engine copies the WAL directory while the real Flush runs (through a
// wrapper around pebble's vfs.Default and, when juno carries it, the verif crash-point hook).
// A Crash entry makes the engine continue on the copy taken at that point; independently of the
// behaviour's own continuation EVERY copy taken is reopened and LoadAllEntries is compared with
// what the specification allows there, and the last log is additionally cut at every byte
// offset past the last synced record and corrupted byte by byte (sweep).
package wal

import (
	"bytes"
	"errors"
	"fmt"
	"math/rand"
	"os"
	"path/filepath"
	"reflect"
	"runtime/debug"
	"sort"
	"strings"
	"sync"
	"sync/atomic"
	"testing"
	"time"

	"github.com/NethermindEth/juno/consensus/starknet"
	"github.com/NethermindEth/juno/consensus/types"
	walt "github.com/NethermindEth/juno/consensus/types/wal"
	"github.com/NethermindEth/juno/consensus/walstore"
	"github.com/NethermindEth/juno/core/felt"
	"github.com/NethermindEth/juno/db/memory"
	_ "github.com/NethermindEth/juno/encoder/registry"
	"github.com/cockroachdb/pebble/v2/vfs"

	"verifharness/internal/vh"
)

type store = walstore.TendermintWALStore[starknet.Value, starknet.Hash, starknet.Address]

// pathDB is the only thing the WAL store needs from the database: a local path.
type pathDB struct {
	*memory.Database
	path string
}

func (d pathDB) Path() string { return d.path }

// ---------------------------------------------------------------- input

type action struct {
	Name    string `json:"name"`
	H       int    `json:"h"`
	ID      int    `json:"id"`
	Outcome string `json:"outcome"`
	At      string `json:"at"`
	Tailc   string `json:"tailc"`
	Wmc     string `json:"wmc"`
	Removed int    `json:"removed"`
	Back    int    `json:"back"`
	// Backset: the unlinked-but-not-durably-removed logs that are there again after this crash (nil in
	// behaviours recorded before the specification had it: the engine then picks a subset itself).
	Backset []int `json:"backset"`
	// F: the log removed by a RemoveFile step.
	F int `json:"f"`
}

type step struct {
	A    action  `json:"a"`
	Res  string  `json:"res"`
	Live [][]int `json:"live"`
	Vin  [][]int `json:"vin"`
	Pc   string  `json:"pc"`
	Mode string  `json:"mode"`
	Pend int     `json:"pend"`
	// Pruned is the model's prunedUpToHeight; the engine uses it only to place filler prunes.
	Pruned int `json:"pruned"`
	// Files: the log files of the directory after the step (nil in behaviours recorded before the
	// specification had it: no file-level comparison then); Nextf: the writer's next log number.
	Files []int `json:"files"`
	Nextf int   `json:"nextf"`
	// Early / Leak (Rotate steps): the alternative reference-count rules (WalMBT.AltRules) under which
	// this cleanup would remove a log the specification keeps / keep one it removes.
	Early []string `json:"early"`
	Leak  []string `json:"leak"`
	Spans int      `json:"spans"` // live heights with entries in more than one log
}

type options struct {
	RSeed   int64 `json:"rseed"`
	Ballast int   `json:"ballast"` // > 0: pre-fill the first log up to about this many bytes
	Sweep   int   `json:"sweep"`   // for this many flushes: cut / corrupt the last log at EVERY byte of the batch
	Flips   int   `json:"flips"`   // corruptions per byte in a sweep (1: one random bit; 2: also all bits)
	Subsets bool  `json:"subsets"` // all subsets of unlinked-but-not-durably-removed files
	Fat     bool  `json:"fat"`     // the ballast is ONE batch of several 32 KiB blocks (a multi-chunk record), cut at sampled offsets
	// Interval: CleanupInterval of the configuration that generated THIS behaviour (0: the input's).
	Interval int `json:"interval"`
}

type behaviour struct {
	Steps []step  `json:"steps"`
	Opts  options `json:"opts"`
}

type input struct {
	Behaviours []behaviour `json:"behaviours"`
	// CleanupInterval of the model; the real one is 256: the engine issues 256 - interval cheap
	// prune records whenever the model is about to reach a cleanup.
	Interval int `json:"interval"`
	// Selftest: flip one expected value of the first behaviour; a divergence MUST be reported.
	Selftest bool `json:"selftest"`
	// SelftestFiles: add a log file nobody wrote to one expected directory listing of the first
	// behaviour; a divergence MUST be reported.
	SelftestFiles bool `json:"selftest_files"`
	// Concurrent: rounds of one writer (append / flush / prune) with readers calling LoadAllEntries for
	// the writer's whole lifetime; 0 = none.
	Concurrent int `json:"concurrent"`
}

// ---------------------------------------------------------------- concretisation

const (
	heightStride  = 1 << 20 // model height h is real height h*heightStride; fillers live in between
	ballastHeight = 1 << 40 // never pruned, never produced by the model
	realInterval  = 256     // walstore.cleanupPruneRecordInterval
)

func realHeight(h int) types.Height { return types.Height(uint64(h) * heightStride) }

// mkEntry builds the real WAL entry for the model entry (h, id).  All five kinds and their
// degenerate forms: proposal with / without value, votes with / without id, timeouts of every
// step, extreme field values, and Start (which carries nothing but the height: anonymous).
func mkEntry(h types.Height, id int) starknet.WALEntry {
	round := types.Round(id)
	big := [4]uint64{^uint64(0), ^uint64(0) - uint64(id), 1 << 63, 0x0fffffffffffffff}
	switch id % 8 {
	case 0:
		v := felt.FromUint64[starknet.Value](uint64(1000 + id))
		return &starknet.WALProposal{
			MessageHeader: starknet.MessageHeader{Height: h, Round: round, Sender: felt.FromUint64[starknet.Address](7)},
			ValidRound:    -1,
			Value:         &v,
		}
	case 1:
		return &starknet.WALPrevote{
			MessageHeader: starknet.MessageHeader{Height: h, Round: round, Sender: felt.FromUint64[starknet.Address](8)},
		}
	case 2:
		id256 := felt.FromUint64[starknet.Hash](uint64(2000 + id))
		return &starknet.WALPrecommit{
			MessageHeader: starknet.MessageHeader{Height: h, Round: round, Sender: felt.FromUint64[starknet.Address](9)},
			ID:            &id256,
		}
	case 3:
		return &starknet.WALTimeout{Height: h, Round: round, Step: types.StepPrecommit}
	case 4: // a proposal without a value, valid round = the round, all-ones sender
		return &starknet.WALProposal{
			MessageHeader: starknet.MessageHeader{Height: h, Round: round, Sender: starknet.Address(big)},
			ValidRound:    round,
		}
	case 5: // extreme hash
		hh := starknet.Hash(big)
		return &starknet.WALPrevote{
			MessageHeader: starknet.MessageHeader{Height: h, Round: round, Sender: starknet.Address{}},
			ID:            &hh,
		}
	case 6:
		return &starknet.WALPrecommit{
			MessageHeader: starknet.MessageHeader{Height: h, Round: round, Sender: starknet.Address(big)},
		}
	default:
		st := walt.Start(h)
		return &st
	}
}

const anonymous = -1 // the id of a Start entry as far as a reader can tell

func anonymise(id int) int {
	if id%8 == 7 {
		return anonymous
	}
	return id
}

// normal maps the model's ids to what a reader can observe (Start entries are anonymous)
func normal(l [][]int) [][]int {
	out := make([][]int, len(l))
	for i := range l {
		out[i] = make([]int, len(l[i]))
		for j, id := range l[i] {
			out[i][j] = anonymise(id)
		}
	}
	return out
}

func mkBallast(k int) starknet.WALEntry {
	return &starknet.WALTimeout{Height: ballastHeight, Round: types.Round(k), Step: types.StepPropose}
}

func entryID(e starknet.WALEntry) (int, bool) {
	switch x := e.(type) {
	case *starknet.WALProposal:
		return int(x.Round), true
	case *starknet.WALPrevote:
		return int(x.Round), true
	case *starknet.WALPrecommit:
		return int(x.Round), true
	case *starknet.WALTimeout:
		return int(x.Round), true
	case *walt.Start:
		return anonymous, true
	}
	return 0, false
}

// scribble overwrites the caller's entry after it was handed to SetWALEntry: the store must have
// taken its own copy of the struct (the driver reuses its message structs).
func scribble(e starknet.WALEntry) {
	switch x := e.(type) {
	case *starknet.WALProposal:
		x.Round, x.Height, x.ValidRound = -777, 0, -777
	case *starknet.WALPrevote:
		x.Round, x.Height = -777, 0
	case *starknet.WALPrecommit:
		x.Round, x.Height = -777, 0
	case *starknet.WALTimeout:
		x.Round, x.Height, x.Step = -777, 0, 0
	case *walt.Start:
		*x = 0
	}
}

// ---------------------------------------------------------------- vfs wrapper

// hfs wraps pebble's vfs.Default (a package variable that walstore reads when a store is opened).
// It only acts on the WAL directory of the runner currently attached.
type hfs struct {
	vfs.FS
	mu sync.Mutex
	r  *runner
}

type hfile struct {
	vfs.File
	fs   *hfs
	name string
}

func (x *hfs) runnerFor(name string) *runner {
	x.mu.Lock()
	defer x.mu.Unlock()
	if x.r != nil && filepath.Dir(name) == x.r.walDir() && strings.HasSuffix(name, ".log") {
		return x.r
	}
	return nil
}

func (x *hfs) Create(name string, c vfs.DiskWriteCategory) (vfs.File, error) {
	f, err := x.FS.Create(name, c)
	if err != nil {
		return nil, err
	}
	if r := x.runnerFor(name); r != nil {
		// pebble's manager fsyncs the directory right after creating a log: earlier unlinks
		// are durable from here on.
		r.clearGrave()
		return &hfile{File: f, fs: x, name: name}, nil
	}
	return f, nil
}

func (x *hfs) Remove(name string) error {
	r := x.runnerFor(name)
	if r == nil {
		return x.FS.Remove(name)
	}
	r.onRemove(name)
	err := x.FS.Remove(name)
	if err == nil {
		r.afterRemove(name)
	}
	return err
}

func (f *hfile) Write(p []byte) (int, error) {
	if r := f.fs.runnerFor(f.name); r != nil {
		return r.onWrite(f, p)
	}
	return f.File.Write(p)
}

func (f *hfile) Sync() error {
	if r := f.fs.runnerFor(f.name); r != nil {
		return r.onSync(f)
	}
	return nil
}
func (f *hfile) SyncData() error            { return f.Sync() }
func (f *hfile) SyncTo(int64) (bool, error) { return true, f.Sync() }
func (f *hfile) Fd() uintptr                { return vfs.InvalidFd }

var hangInput atomic.Value // replay input of the behaviour in progress

var theFS *hfs

func installFS() {
	if theFS == nil {
		theFS = &hfs{FS: vfs.Default}
		vfs.Default = theFS
	}
}

// ---------------------------------------------------------------- runner

type runner struct {
	t     *testing.T
	out   *vh.Result
	in    *input
	bi    int
	b     *behaviour
	rng   *rand.Rand
	root  string
	gen   int
	dir   string // db path of the live "disk"; the WAL is in dir/consensus-wal, unlinked files in dir/grave
	st    store
	dead  bool // a divergence was reported: stop this behaviour
	nBall int  // ballast entries written (must always be read back)
	kept  []returned

	sweepsDone int

	lastFiller types.Height

	// per Flush/Close call
	armed     bool
	failWrite bool
	failSync  bool
	imgs      map[string]string
	removed   []string
	rmNames   []int  // numbers of the logs unlinked by this call, in order
	file      string // log written by this call
	preSize   int64  // its size before the call = last synced offset
	postSize  int64
	mu        sync.Mutex
}

func (r *runner) walDir() string   { return walstore.DefaultWALDir(r.dir) }
func (r *runner) graveDir() string { return filepath.Join(r.dir, "grave") }

func must(err error) {
	if err != nil {
		panic(fmt.Sprintf("wal engine: %v", err))
	}
}

func copyFiles(src, dst string) {
	must(os.MkdirAll(dst, 0o755))
	es, err := os.ReadDir(src)
	if errors.Is(err, os.ErrNotExist) {
		return
	}
	must(err)
	for _, e := range es {
		if e.IsDir() {
			continue
		}
		b, err := os.ReadFile(filepath.Join(src, e.Name()))
		must(err)
		must(os.WriteFile(filepath.Join(dst, e.Name()), b, 0o644))
	}
}

// copyDisk copies a disk (WAL directory + graveyard) to a fresh directory.
func (r *runner) copyDisk(src, tag string) string {
	r.gen++
	dst := filepath.Join(r.root, fmt.Sprintf("d%04d-%s", r.gen, tag))
	copyFiles(walstore.DefaultWALDir(src), walstore.DefaultWALDir(dst))
	copyFiles(filepath.Join(src, "grave"), filepath.Join(dst, "grave"))
	return dst
}

func (r *runner) snap(name string) {
	r.mu.Lock()
	defer r.mu.Unlock()
	if _, ok := r.imgs[name]; ok && !strings.HasPrefix(name, "removed") {
		return
	}
	p := r.copyDisk(r.dir, strings.ReplaceAll(name, ":", "_"))
	if strings.HasPrefix(name, "removed") {
		r.removed = append(r.removed, p)
	} else {
		r.imgs[name] = p
	}
}

func (r *runner) clearGrave() {
	must(os.RemoveAll(r.graveDir()))
}

func (r *runner) onRemove(name string) {
	if r.armed {
		if _, ok := r.imgs["rotated"]; !ok {
			r.snap("rotated") // without the hook: the state just before the first unlink
		}
	}
	b, err := os.ReadFile(name)
	if err != nil {
		return
	}
	must(os.MkdirAll(r.graveDir(), 0o755))
	must(os.WriteFile(filepath.Join(r.graveDir(), filepath.Base(name)), b, 0o644))
}

func (r *runner) afterRemove(name string) {
	if r.armed {
		r.mu.Lock()
		r.rmNames = append(r.rmNames, logNum(filepath.Base(name)))
		r.mu.Unlock()
		r.snap("removed:" + filepath.Base(name))
	}
}

// ---------------------------------------------------------------- the directory's log files

func logName(n int) string { return fmt.Sprintf("%06d.log", n) }

func logNum(base string) int {
	n := -1
	if strings.HasSuffix(base, ".log") {
		if _, err := fmt.Sscanf(strings.TrimSuffix(base, ".log"), "%d", &n); err != nil {
			return -1
		}
	}
	return n
}

// realLogs: the numbers of the NNNNNN.log files of a disk's WAL directory, ascending.
func realLogs(disk string) []int {
	es, err := os.ReadDir(walstore.DefaultWALDir(disk))
	if err != nil {
		return nil
	}
	var ns []int
	for _, e := range es {
		if n := logNum(e.Name()); n >= 0 {
			ns = append(ns, n)
		}
	}
	sort.Ints(ns)
	return ns
}

func minus(a, b []int) []int {
	in := map[int]bool{}
	for _, x := range b {
		in[x] = true
	}
	out := []int{}
	for _, x := range a {
		if !in[x] {
			out = append(out, x)
		}
	}
	return out
}

// compareFiles: the log files of the live directory against the specification's `fex` after step s.
// The one admissible difference is the log the writer will create next (s.Nextf): the engine's own
// flushes (ballast, filler prune records) may have created it before the specification's next Flush.
// A log of the specification that is not there was removed although a live height still has entries
// in it or although no cleanup was due; a log that is there and not in the specification was kept by
// a cleanup that had to remove it.
func (r *runner) compareFiles(s step, stepNo int, ctx string) {
	if r.dead || !r.filesComparable() {
		return
	}
	model := append([]int{}, s.Files...)
	sort.Ints(model)
	real := realLogs(r.dir)
	r.out.Count("file_sets_compared", 1)
	if missing := minus(model, real); len(missing) > 0 {
		r.diverge("wal-files:"+ctx+":log-removed-too-early",
			fmt.Sprintf("after %s the WAL directory lacks log(s) %v that the specification still has (the cleanup removes only logs below the lowest one referenced by a live height)", ctx, missing),
			stepNo, model, real)
		return
	}
	if extra := minus(minus(real, model), []int{s.Nextf}); len(extra) > 0 {
		r.diverge("wal-files:"+ctx+":obsolete-log-kept",
			fmt.Sprintf("after %s the WAL directory still holds log(s) %v that the specification's cleanup removed (below the lowest log referenced by a live height)", ctx, extra),
			stepNo, model, real)
	}
}

// filesComparable: the behaviour carries the specification's file sets, and the engine wrote no ballast
// (entries of a height the specification does not know and that is never pruned: they keep the first
// log referenced for ever).
func (r *runner) filesComparable() bool {
	return len(r.b.Steps) > 0 && r.b.Steps[0].Files != nil && r.b.Opts.Ballast == 0 && !r.b.Opts.Fat
}

// backNames: the logs a Crash entry brings back, as far as they are in the graveyard of the image.
func backNames(img string, a action, fallback func() []string) []string {
	if a.Backset == nil {
		return fallback()
	}
	have := map[string]bool{}
	for _, n := range graveNames(img) {
		have[n] = true
	}
	var out []string
	for _, n := range a.Backset {
		if have[logName(n)] {
			out = append(out, logName(n))
		}
	}
	return out
}

func (r *runner) onWrite(f *hfile, p []byte) (int, error) {
	if r.armed && r.file == "" {
		r.file = filepath.Base(f.name)
		if fi, err := os.Stat(f.name); err == nil {
			r.preSize = fi.Size()
		}
	}
	if r.armed && r.failWrite {
		r.failWrite = false
		// a strict part of the record: never only the block padding behind it (see strictEnd)
		part := 0
		if len(p) > 10 {
			part = r.rng.Intn(len(p) - 10)
		}
		n, _ := f.File.Write(p[:part])
		r.snap("werr")
		return n, errors.New("injected write error")
	}
	return f.File.Write(p)
}

func (r *runner) onSync(f *hfile) error {
	if !r.armed {
		return nil
	}
	if _, ok := r.imgs["sync"]; !ok && r.file == filepath.Base(f.name) {
		if fi, err := os.Stat(f.name); err == nil {
			r.postSize = fi.Size()
		}
		r.snap("sync") // every byte of the batch is in the file; the fsync has not returned yet
		if r.failSync {
			r.failSync = false
			return errors.New("injected sync error")
		}
	}
	return nil
}

// ---------------------------------------------------------------- divergences

func (r *runner) replayInput() any {
	return vh.J{"behaviours": []behaviour{*r.b}, "interval": r.in.Interval}
}

func (r *runner) interval() int {
	if r.b.Opts.Interval > 0 {
		return r.b.Opts.Interval
	}
	return r.in.Interval
}

func (r *runner) diverge(key, what string, stepNo int, exp, obs any) {
	r.dead = true
	r.out.Diverge(vh.Divergence{Key: key, What: what, Input: r.replayInput(), Step: stepNo, Expected: exp, Observed: obs})
}

// classify names how an observed reading differs from the expected one.
func classify(exp, obs [][]int) string {
	has := func(l [][]int) map[int]int {
		m := map[int]int{}
		for h, ids := range l {
			for _, id := range ids {
				m[id] = h + 1
			}
		}
		return m
	}
	e, o := has(exp), has(obs)
	lost, extra := 0, 0
	for id := range e {
		if _, ok := o[id]; !ok {
			lost++
		}
	}
	for id := range o {
		if _, ok := e[id]; !ok {
			extra++
		}
	}
	switch {
	case lost > 0 && extra > 0:
		return "lost+extra"
	case lost > 0:
		return "lost"
	case extra > 0:
		return "extra"
	default:
		return "order"
	}
}

// load projects LoadAllEntries to the model's `live` (ids per model height, in order) and checks
// that every entry is bit-for-bit the one that was written and that heights ascend.
func (r *runner) load(st store, nh int) (live [][]int, problem string) {
	live = make([][]int, nh)
	for i := range live {
		live[i] = []int{}
	}
	ball := 0
	var last types.Height
	for e, err := range st.LoadAllEntries() {
		if err != nil {
			return live, "LoadAllEntries error: " + err.Error()
		}
		h := e.GetHeight()
		if h < last {
			return live, fmt.Sprintf("heights not ascending: %d after %d", h, last)
		}
		last = h
		id, ok := entryID(e)
		if !ok {
			return live, fmt.Sprintf("unexpected entry type %T", e)
		}
		if h == ballastHeight {
			if !reflect.DeepEqual(e, mkBallast(ball)) {
				return live, fmt.Sprintf("ballast entry at position %d differs from what was written: %+v", ball, e)
			}
			ball++
			continue
		}
		want := mkEntry(h, id)
		if id == anonymous {
			want = mkEntry(h, 7)
		}
		if !reflect.DeepEqual(e, want) {
			return live, fmt.Sprintf("entry (height %d, id %d) differs from what was written: %+v", h, id, e)
		}
		r.noteReturned(st, e, want)
		if uint64(h)%heightStride != 0 || int(uint64(h)/heightStride) < 1 || int(uint64(h)/heightStride) > nh {
			return live, fmt.Sprintf("entry at foreign height %d", h)
		}
		mh := int(uint64(h) / heightStride)
		live[mh-1] = append(live[mh-1], id)
	}
	if ball != r.nBall {
		return live, fmt.Sprintf("ballast entries: wrote %d, read %d", r.nBall, ball)
	}
	return live, ""
}

// noteReturned keeps the entries LoadAllEntries of the RUNNING store handed out, with what they must
// be; recheckReturned looks at them again after later calls (results are values: an entry that
// shares memory with something the store reuses or mutates changes after the fact).
type returned struct {
	got, want starknet.WALEntry
}

func (r *runner) noteReturned(st store, got, want starknet.WALEntry) {
	if st != r.st || len(r.kept) >= 4000 {
		return
	}
	r.kept = append(r.kept, returned{got, want})
}

func (r *runner) recheckReturned(stepNo int, after string) {
	if r.dead {
		return
	}
	for _, k := range r.kept {
		if !reflect.DeepEqual(k.got, k.want) {
			r.diverge("wal-retained:LoadAllEntries:entry-changed-after-later-calls",
				fmt.Sprintf("an entry returned earlier by LoadAllEntries reads differently after %s: now %+v, was %+v", after, k.got, k.want),
				stepNo, fmt.Sprintf("%+v", k.want), fmt.Sprintf("%+v", k.got))
			return
		}
	}
	r.out.Count("retained_entries_rechecked", len(r.kept))
}

func sameLive(a, b [][]int) bool {
	if len(a) != len(b) {
		return false
	}
	for i := range a {
		if len(a[i]) != len(b[i]) {
			return false
		}
		for j := range a[i] {
			if a[i][j] != b[i][j] {
				return false
			}
		}
	}
	return true
}

func (r *runner) compareMem(exp [][]int, stepNo int, ctx string) {
	if r.dead || r.st == nil {
		return
	}
	obs, problem := r.load(r.st, len(exp))
	if problem != "" {
		r.diverge("wal-read:"+ctx+":malformed", problem, stepNo, exp, obs)
		return
	}
	exp = normal(exp)
	if !sameLive(exp, obs) {
		r.diverge("wal-read:"+ctx+":"+classify(exp, obs),
			"LoadAllEntries of the running store differs from the flushed batches after "+ctx, stepNo, exp, obs)
	}
}

// ---------------------------------------------------------------- opening images

// progress / doing: a call into the real store that never returns must not turn a verdict into a
// timeout (see the watchdog in TestWalReplay)
var (
	progress atomic.Int64
	doing    atomic.Value // string
)

func enter(what string) { doing.Store(what); progress.Add(1) }

func openStore(dir string) (st store, err error) {
	enter("NewTendermintWALStore")
	defer progress.Add(1)
	defer func() {
		if p := recover(); p != nil {
			err = fmt.Errorf("panic: %v\n%s", p, debug.Stack())
		}
	}()
	return walstore.NewTendermintWALStore[starknet.Value, starknet.Hash, starknet.Address](pathDB{memory.New(), dir})
}

type mod func(disk string)

func restoreFromGrave(names []string) mod {
	return func(disk string) {
		for _, n := range names {
			b, err := os.ReadFile(filepath.Join(disk, "grave", n))
			must(err)
			must(os.WriteFile(filepath.Join(walstore.DefaultWALDir(disk), n), b, 0o644))
		}
		must(os.RemoveAll(filepath.Join(disk, "grave")))
	}
}

func truncateLog(name string, size int64) mod {
	return func(disk string) { must(os.Truncate(filepath.Join(walstore.DefaultWALDir(disk), name), size)) }
}

func flipByte(name string, off int64, mask byte) mod {
	return func(disk string) {
		p := filepath.Join(walstore.DefaultWALDir(disk), name)
		b, err := os.ReadFile(p)
		must(err)
		b[off] ^= mask
		must(os.WriteFile(p, b, 0o644))
	}
}

func appendBytes(name string, extra []byte) mod {
	return func(disk string) {
		p := filepath.Join(walstore.DefaultWALDir(disk), name)
		b, err := os.ReadFile(p)
		must(err)
		must(os.WriteFile(p, append(b, extra...), 0o644))
	}
}

func graveNames(disk string) []string {
	es, err := os.ReadDir(filepath.Join(disk, "grave"))
	if err != nil {
		return nil
	}
	var ns []string
	for _, e := range es {
		ns = append(ns, e.Name())
	}
	sort.Strings(ns)
	return ns
}

// graveSubsets: which of the unlinked files are still there after the crash.  All subsets when
// there are few (or when asked), otherwise none / all / each single one / each all-but-one.
func (r *runner) graveSubsets(disk string) [][]string {
	ns := graveNames(disk)
	if len(ns) == 0 {
		return [][]string{nil}
	}
	var out [][]string
	if len(ns) <= 3 || (r.b.Opts.Subsets && len(ns) <= 6) {
		for m := 0; m < 1<<len(ns); m++ {
			var s []string
			for i, n := range ns {
				if m&(1<<i) != 0 {
					s = append(s, n)
				}
			}
			out = append(out, s)
		}
		return out
	}
	out = append(out, nil, ns)
	for i := range ns {
		out = append(out, []string{ns[i]})
		rest := append(append([]string{}, ns[:i]...), ns[i+1:]...)
		out = append(out, rest)
	}
	return out
}

// checkImage reopens a copy of the image (after the given modifications) and compares the
// reading with `allowed` (one or two admissible readings).
func (r *runner) checkImage(img, ctx string, stepNo int, allowed [][][]int, mods ...mod) {
	if r.dead {
		return
	}
	disk := r.copyDisk(img, "chk")
	defer os.RemoveAll(disk)
	for _, m := range mods {
		m(disk)
	}
	r.checkDisk(disk, ctx, stepNo, allowed)
}

func (r *runner) checkDisk(disk, ctx string, stepNo int, allowed [][][]int) {
	r.out.Count("images_reopened", 1)
	st, err := openStore(disk)
	if err != nil {
		r.diverge("wal-open-failed:"+ctx, "NewTendermintWALStore fails on a crash image ("+ctx+"): "+err.Error(), stepNo, "opens", err.Error())
		return
	}
	obs, problem := r.load(st, len(allowed[0]))
	probe := !strings.HasPrefix(ctx, "sweep/") && problem == "" && r.rng.Intn(10) == 0
	if probe {
		// the recovered store must be usable: one more entry, flushed, and two restarts later it is
		// still there and nothing else moved (restart is a no-op on what a reader sees)
		r.out.Count("recovery_probes", 1)
		if err := st.SetWALEntry(mkBallast(r.nBall)); err != nil {
			r.diverge("wal-recover:"+ctx+":store-unusable", "SetWALEntry after recovery: "+err.Error(), stepNo, "ok", err.Error())
		} else if err := st.Flush(); err != nil {
			r.diverge("wal-recover:"+ctx+":store-unusable", "Flush after recovery: "+err.Error(), stepNo, "ok", err.Error())
		}
	}
	_ = st.Close()
	if probe && !r.dead {
		r.nBall++
		for round := 1; round <= 2 && !r.dead; round++ {
			st2, err := openStore(disk)
			if err != nil {
				r.diverge("wal-open-failed:"+ctx+"/restart", fmt.Sprintf("restart %d after a recovery + one flush fails: %v", round, err), stepNo, "opens", err.Error())
				break
			}
			again, problem2 := r.load(st2, len(allowed[0]))
			_ = st2.Close()
			if problem2 != "" || !sameLive(again, obs) {
				r.diverge("wal-restart-not-a-noop:"+ctx, fmt.Sprintf("restart %d after a recovery + one flush reads differently: %s", round, problem2), stepNo, obs, again)
			}
		}
		r.nBall--
	}
	if r.dead {
		return
	}
	if problem != "" {
		r.diverge("wal-recover:"+ctx+":malformed", problem, stepNo, allowed, obs)
		return
	}
	for _, a := range allowed {
		if sameLive(normal(a), obs) {
			return
		}
	}
	r.diverge("wal-recover:"+ctx+":"+classify(normal(allowed[0]), obs),
		"reopening the crash image ("+ctx+") does not yield the flushed batches (optionally plus the whole batch in flight)",
		stepNo, allowed, obs)
}

// ---------------------------------------------------------------- store lifecycle

func (r *runner) open(stepNo int, ctx string) bool {
	installFS()
	theFS.mu.Lock()
	theFS.r = r
	theFS.mu.Unlock()
	st, err := openStore(r.dir)
	if err != nil {
		r.diverge("wal-open-failed:"+ctx, "NewTendermintWALStore fails ("+ctx+"): "+err.Error(), stepNo, "opens", err.Error())
		return false
	}
	r.st = st
	return true
}

// abandon drops the running store without letting it touch the disk that the behaviour continues
// on: the continuation is always a COPY, the old directory is deleted afterwards.
func (r *runner) abandon() {
	if r.st != nil {
		_ = r.st.Close()
		r.st = nil
	}
}

// adopt makes a copy of img (with modifications) the live disk.
func (r *runner) adopt(img string, mods ...mod) {
	disk := r.copyDisk(img, "live")
	for _, m := range mods {
		m(disk)
	}
	old := r.dir
	r.abandon()
	r.dir = disk
	must(os.RemoveAll(old))
}

func (r *runner) dropImages() {
	for _, p := range r.imgs {
		os.RemoveAll(p)
	}
	for _, p := range r.removed {
		os.RemoveAll(p)
	}
	r.imgs, r.removed, r.rmNames = map[string]string{}, nil, nil
}

// prime brings the real prune-record counter to 256 - interval with prune records of heights
// strictly between two model heights (they prune nothing the model knows about).
func (r *runner) primeIfCleanupAhead(from int, modelPruned int) {
	if r.dead || r.st == nil {
		return
	}
	ahead := false
	for k := from; k < len(r.b.Steps); k++ {
		n := r.b.Steps[k].A.Name
		if n == "Open" {
			break
		}
		if n == "WmTmp" {
			ahead = true
			break
		}
	}
	if !ahead {
		return
	}
	base := realHeight(modelPruned)
	if r.lastFiller > base {
		base = r.lastFiller
	}
	for k := 0; k < realInterval-r.interval(); k++ {
		base++
		must(r.st.DeleteWALEntries(base))
		if err := r.st.Flush(); err != nil {
			r.diverge("wal-flush-result:filler-prune:want-ok", "Flush of a single prune record failed: "+err.Error(), from, "ok", err.Error())
			return
		}
	}
	r.lastFiller = base
	r.out.Count("primings", 1)
}

// ---------------------------------------------------------------- ballast

// writeFatBallast: ONE batch of several 32 KiB blocks = one multi-chunk pebble record, the shape a
// long height produces.  Its image at the fsync is cut inside every chunk and around every block
// boundary: the batch must be all there or all gone.
func (r *runner) writeFatBallast() {
	const n = 2600 // x 30 bytes: more than two 32 KiB blocks
	for k := 0; k < n; k++ {
		must(r.st.SetWALEntry(mkBallast(k)))
	}
	r.dropImages()
	r.file, r.preSize, r.postSize = "", 0, 0
	r.armed = true
	enter("Flush (fat batch)")
	err := r.st.Flush()
	progress.Add(1)
	r.armed = false
	if err != nil {
		r.diverge("wal-flush-result:fat-batch:want-ok", "Flush of one large batch failed: "+err.Error(), 0, "ok", err.Error())
		return
	}
	img, ok := r.imgs["sync"]
	if !ok || r.postSize < 2*32768 {
		r.diverge("wal-step-missing:flush:no-fsync-of-the-batch", fmt.Sprintf("no fsync image of the large batch (size %d)", r.postSize), 0, "fsync", "none")
		return
	}
	none := emptyLive(len(r.b.Steps[0].Live))
	var cuts []int64
	for b := int64(32768); b < r.postSize; b += 32768 {
		for _, d := range []int64{-12, -1, 0, 1, 11} {
			cuts = append(cuts, b+d)
		}
	}
	for k := 0; k < 6; k++ {
		cuts = append(cuts, r.preSize+r.rng.Int63n(r.strictEnd()-r.preSize))
	}
	for _, c := range cuts {
		if c <= r.preSize || c >= r.strictEnd() {
			continue
		}
		r.nBall = 0
		r.checkImage(img, fmt.Sprintf("fat-batch/cut@block%d%+d", (c+16)/32768, c-((c+16)/32768)*32768), 0, [][][]int{none}, truncateLog(r.file, c))
		if c%2 == 0 {
			r.nBall = 0
			r.checkImage(img, "fat-batch/flip", 0, [][][]int{none}, flipByte(r.file, c, byte(1<<r.rng.Intn(8))))
		}
	}
	r.nBall = n
	r.checkImage(img, "fat-batch/whole", 0, [][][]int{none})
	r.out.Count("fat_batches", 1)
}

func (r *runner) writeBallast(target int) {
	if r.b.Opts.Fat && len(r.b.Steps) > 0 {
		r.writeFatBallast()
		return
	}
	for {
		var size int64
		es, _ := os.ReadDir(r.walDir())
		for _, e := range es {
			if strings.HasSuffix(e.Name(), ".log") {
				fi, _ := e.Info()
				size += fi.Size()
			}
		}
		room := int64(target) - size
		if room < 120 {
			return
		}
		n := int(room / 120)
		if n > 60 {
			n = 60
		}
		if n < 1 {
			n = 1
		}
		for k := 0; k < n; k++ {
			must(r.st.SetWALEntry(mkBallast(r.nBall)))
			r.nBall++
		}
		must(r.st.Flush())
	}
}

// ---------------------------------------------------------------- the replay

var internal = map[string]bool{"SyncOk": true, "SyncErr": true, "Abort": true, "WmTmp": true, "WmRename": true,
	"WmSyncDir": true, "Rotate": true, "RemoveFile": true, "CleanupDone": true}

func emptyLive(n int) [][]int {
	l := make([][]int, n)
	for i := range l {
		l[i] = []int{}
	}
	return l
}

func (r *runner) run() (steps int) {
	defer func() {
		if p := recover(); p != nil {
			msg := fmt.Sprint(p)
			if strings.HasPrefix(msg, "wal engine:") {
				panic(p) // machinery
			}
			r.diverge("wal-panic", "panic in walstore: "+msg+"\n"+string(debug.Stack()), steps, nil, msg)
		}
		theFS.mu.Lock()
		theFS.r = nil
		theFS.mu.Unlock()
		setHook(nil)
		r.abandon()
		os.RemoveAll(r.root)
	}()
	ss := r.b.Steps
	nh := len(ss[0].Live)
	r.imgs = map[string]string{}
	r.gen++
	r.dir = filepath.Join(r.root, "d0000-live")
	must(os.MkdirAll(r.dir, 0o755))
	if !r.open(0, "fresh-directory") {
		return 0
	}
	if r.b.Opts.Ballast > 0 {
		r.writeBallast(r.b.Opts.Ballast)
	}
	r.primeIfCleanupAhead(0, 0)
	prevLive := emptyLive(nh)
	i := 0
	for i < len(ss) && !r.dead {
		s := ss[i]
		switch s.A.Name {
		case "Append":
			mine := mkEntry(realHeight(s.A.H), s.A.ID)
			if err := r.st.SetWALEntry(mine); err != nil {
				r.diverge("wal-append-error", "SetWALEntry failed: "+err.Error(), i, "ok", err.Error())
			}
			scribble(mine) // the caller reuses its struct
			r.compareMem(s.Live, i, "Append")
			i++
		case "Prune":
			if err := r.st.DeleteWALEntries(realHeight(s.A.H)); err != nil {
				r.diverge("wal-prune-error", "DeleteWALEntries failed: "+err.Error(), i, "ok", err.Error())
			}
			r.compareMem(s.Live, i, "Prune")
			i++
		case "Flush", "Close":
			j := i + 1
			for j < len(ss) && internal[ss[j].A.Name] {
				j++
			}
			if j < len(ss) && ss[j].A.Name == "Crash" && ss[j].A.At != "idle" {
				j++
			}
			r.call(i, j, prevLive)
			i = j
		case "Crash": // between two calls
			r.checkIdleImages(i, [][][]int{prevLive}, "crash@idle")
			r.adopt(r.dir, restoreFromGrave(backNames(r.dir, s.A, func() []string {
				subs := r.graveSubsets(r.dir)
				return subs[r.rng.Intn(len(subs))]
			})))
			r.out.Count("crashes", 1)
			r.compareFiles(s, i, "crash@idle")
			i++
		case "Open":
			if !r.open(i, "after-"+ss[i-1].A.Name+"@"+ss[i-1].A.At+"/"+ss[i-1].A.Tailc) {
				return i
			}
			r.compareMem(s.Live, i, "Open")
			r.compareFiles(s, i, "Open")
			r.primeIfCleanupAhead(i+1, s.Pruned)
			i++
		default:
			panic("wal engine: unexpected action " + s.A.Name)
		}
		if i > 0 && ss[i-1].Mode == "up" && ss[i-1].Pc == "idle" {
			prevLive = ss[i-1].Live
		}
		if i > 0 && (ss[i-1].A.Name != "Append" || i%4 == 0) {
			r.recheckReturned(i-1, ss[i-1].A.Name)
		}
	}
	return i
}

func (r *runner) checkIdleImages(stepNo int, allowed [][][]int, ctx string) {
	for _, sub := range r.graveSubsets(r.dir) {
		r.checkImage(r.dir, fmt.Sprintf("%s/back%d", ctx, len(sub)), stepNo, allowed, restoreFromGrave(sub))
	}
}

// call runs one Flush or Close: ss[i] is the call, ss[i+1..j-1] its internal steps, possibly
// ending in a Crash.
func (r *runner) call(i, j int, before [][]int) {
	ss := r.b.Steps
	first := ss[i]
	isClose := first.A.Name == "Close"
	do := func() error {
		enter(first.A.Name + " (" + first.A.Outcome + ")")
		defer progress.Add(1)
		if isClose {
			err := r.st.Close()
			return err
		}
		return r.st.Flush()
	}
	if first.A.Outcome == "noop" {
		if err := do(); err != nil {
			r.diverge("wal-"+strings.ToLower(first.A.Name)+"-error:nothing-pending", "returned "+err.Error(), i, "ok", err.Error())
		}
		if isClose {
			r.st = nil
		} else {
			r.compareMem(first.Live, i, "Flush-noop")
		}
		return
	}
	last := ss[j-1]
	crashed := last.A.Name == "Crash"
	has := map[string]int{}
	for k := i + 1; k < j; k++ {
		has[ss[k].A.Name]++
	}
	committed := has["SyncOk"] > 0
	after := first.Vin // the reading once the batch in flight is durable

	r.dropImages()
	r.file, r.preSize, r.postSize = "", 0, 0
	r.failWrite = first.A.Outcome == "werr"
	r.failSync = has["SyncErr"] > 0
	r.armed = true
	if hookAvailable {
		setHook(func(name string) {
			if !strings.HasPrefix(name, "removed") {
				r.snap(name)
			}
		})
	}
	err := do()
	r.armed = false
	setHook(nil)
	if r.failWrite || r.failSync {
		// the specification's Flush writes the batch and fsyncs it; this one returned without doing so
		r.failWrite, r.failSync = false, false
		r.diverge(fmt.Sprintf("wal-step-missing:%s:batch-not-written-or-not-fsynced", strings.ToLower(first.A.Name)),
			fmt.Sprintf("%s returned (%v) without writing / fsyncing the pending batch: the injected %s fault was never reached",
				first.A.Name, err, outcomeOf(first, has)), i, "write+fsync", "none")
		return
	}
	r.out.Count("flushes", 1)
	if !committed {
		r.out.Count("failed_flushes", 1)
	}
	if isClose {
		r.st = nil // closed whatever it returned
	}

	// what the call returned
	if !crashed {
		if (err == nil) != (last.Res == "ok") {
			r.diverge(fmt.Sprintf("wal-%s-result:%s:want-%s", strings.ToLower(first.A.Name), outcomeOf(first, has), last.Res),
				fmt.Sprintf("%s returned %v, the specification says %s", first.A.Name, err, last.Res), i, last.Res, fmt.Sprint(err))
			return
		}
	}

	// every image taken during the call must recover to an allowed reading
	if img, ok := r.imgs["werr"]; ok {
		r.checkImage(img, "write-failed/as-is", i, [][][]int{before})
		r.checkImage(img, "write-failed/cut-to-synced", i, [][][]int{before}, truncateLog(r.file, r.preSize))
	}
	syncImg, ok := r.imgs["sync"]
	if !ok && first.A.Outcome == "ok" {
		r.diverge(fmt.Sprintf("wal-step-missing:%s:no-fsync-of-the-batch", strings.ToLower(first.A.Name)),
			fmt.Sprintf("%s returned (%v) and never fsynced the log it wrote the batch to", first.A.Name, err), i, "fsync", "none")
		return
	}
	if ok {
		r.checkImage(syncImg, "batch-written/whole", i, [][][]int{after})
		if r.postSize > r.preSize {
			cut := r.preSize + r.rng.Int63n(r.strictEnd()-r.preSize)
			r.checkImage(syncImg, "batch-written/cut", i, [][][]int{before}, truncateLog(r.file, cut))
			r.checkImage(syncImg, "batch-written/garbage-after", i, [][][]int{after}, appendBytes(r.file, r.garbage()))
		}
		if r.sweepsDone < r.b.Opts.Sweep && r.postSize > r.preSize {
			r.sweepsDone++
			r.sweep(syncImg, i, before, after)
		}
	}
	cleanup := has["WmTmp"] > 0
	if cleanup && committed {
		r.out.Count("cleanups", 1)
		r.synthesise(syncImg)
		for _, name := range []string{"wm-tmp-written", "wm-renamed", "rotated"} {
			if img, ok := r.imgs[name]; ok {
				r.checkImage(img, "cleanup/"+name, i, [][][]int{after})
			} else {
				r.diverge("wal-step-missing:cleanup:"+name,
					"the prune cleanup is due (the specification takes it) but the real Flush never reached "+name, i, name, "none")
				return
			}
		}
		if img, ok := r.imgs["wm-tmp-written"]; ok { // a torn temporary watermark is never read
			r.checkImage(img, "cleanup/wm-tmp-torn", i, [][][]int{after}, func(disk string) {
				p := filepath.Join(walstore.DefaultWALDir(disk), "prune-watermark.tmp")
				if b, err := os.ReadFile(p); err == nil && len(b) > 1 {
					must(os.WriteFile(p, b[:r.rng.Intn(len(b))], 0o644))
				}
			})
		}
		for k, img := range r.removed {
			for _, sub := range r.graveSubsets(img) {
				r.checkImage(img, fmt.Sprintf("cleanup/removed%d/back%d", k+1, len(sub)), i, [][][]int{after}, restoreFromGrave(sub))
			}
		}
	}
	if r.dead {
		return
	}
	// the cleanup's decision itself: the logs the real call unlinked against the specification's
	// RemoveFile steps (all of them when the call returned; those before the crash otherwise)
	if committed && (cleanup || len(r.rmNames) > 0) && r.filesComparable() {
		var modelRm []int
		sensitive := false
		for k := i + 1; k < j; k++ {
			if ss[k].A.Name == "RemoveFile" {
				modelRm = append(modelRm, ss[k].A.F)
			}
			if ss[k].A.Name == "Rotate" {
				if len(ss[k].Early) > 0 {
					sensitive = true
					r.out.Count("cleanups_refcount_sensitive", 1)
					for _, rule := range ss[k].Early {
						r.out.Count("cleanups_sensitive_to:"+rule, 1)
					}
				}
				if len(ss[k].Leak) > 0 {
					r.out.Count("cleanups_leak_sensitive", 1)
				}
				if ss[k].Spans > 0 {
					r.out.Count("cleanups_with_multi_log_heights", 1)
				}
			}
		}
		realRm := append([]int{}, r.rmNames...)
		sort.Ints(realRm)
		ctx := "cleanup"
		if sensitive {
			ctx = "cleanup-with-height-over-several-logs"
		}
		// (a crashed call: the real one ran on to its end and may have unlinked more than the specification
		// had before the crash: only what the specification removed and the code did not is judged there;
		// the images after every real unlink are read back above in either case)
		if extra := minus(realRm, modelRm); len(extra) > 0 && !crashed {
			r.diverge("wal-cleanup:"+ctx+":removes-log-the-specification-keeps",
				fmt.Sprintf("the prune cleanup unlinked log(s) %v; the specification removes %v (only logs below the lowest one that a live height still references)", extra, modelRm),
				i, modelRm, realRm)
			return
		}
		if missing := minus(modelRm, realRm); len(missing) > 0 {
			r.diverge("wal-cleanup:"+ctx+":keeps-obsolete-log",
				fmt.Sprintf("the prune cleanup did not unlink log(s) %v that the specification removes (nothing live references them or any older log)", missing),
				i, modelRm, realRm)
			return
		}
	}

	if !crashed {
		if !isClose {
			r.compareMem(last.Live, j-1, first.A.Name+"-"+outcomeOf(first, has))
		}
		r.compareFiles(last, j-1, "after-"+first.A.Name+"-"+outcomeOf(first, has))
		// a crash right after the call returned
		r.checkIdleImages(j-1, [][][]int{last.Live}, "after-"+first.A.Name+"-"+outcomeOf(first, has))
		if cleanup && !isClose {
			r.primeIfCleanupAhead(j, last.Pruned)
		}
		return
	}

	// the behaviour continues from the image of the crash point
	c := last.A
	r.out.Count("crashes", 1)
	r.out.Count("crash@"+c.At, 1)
	var img string
	var mods []mod
	switch c.At {
	case "written", "serr":
		img = syncImg
		switch c.Tailc {
		case "none":
			mods = append(mods, truncateLog(r.file, r.preSize))
		case "torn":
			if r.strictEnd()-r.preSize < 2 {
				mods = append(mods, truncateLog(r.file, r.preSize))
			} else if r.rng.Intn(2) == 0 {
				mods = append(mods, truncateLog(r.file, r.preSize+1+r.rng.Int63n(r.strictEnd()-r.preSize-1)))
			} else {
				mods = append(mods, flipByte(r.file, r.preSize+r.rng.Int63n(r.strictEnd()-r.preSize), byte(1<<r.rng.Intn(8))))
			}
		}
	case "werr":
		img = r.imgs["werr"]
		if c.Tailc == "none" {
			mods = append(mods, truncateLog(r.file, r.preSize))
		}
	case "c0":
		img = syncImg
	case "ctmp":
		img = r.imgs["wm-tmp-written"]
	case "cren":
		img = r.imgs["wm-renamed"]
		if c.Wmc == "old" {
			img = r.imgs["wm-tmp-written"]
		}
	case "csync":
		img = r.imgs["wm-renamed"]
	case "crm":
		switch {
		case c.Removed == 0 || len(r.removed) == 0:
			img = r.imgs["rotated"]
		case c.Removed > len(r.removed): // the specification unlinked more logs than the code (judged above)
			img = r.removed[len(r.removed)-1]
		default:
			img = r.removed[c.Removed-1]
		}
		if img == "" { // nothing was unlinked: the directory after the call is the rotated state
			img = r.dir
		}
		mods = append(mods, restoreFromGrave(backNames(img, c, func() []string {
			subs := r.graveSubsets(img)
			return subs[r.rng.Intn(len(subs))]
		})))
	default:
		panic("wal engine: crash at unknown point " + c.At)
	}
	if img == "" {
		r.diverge("wal-step-missing:crash-point:"+c.At,
			"the specification crashes at "+c.At+" but the real call never reached that point", i, c.At, "none")
		return
	}
	if c.At != "crm" {
		mods = append(mods, restoreFromGrave(nil))
	}
	r.adopt(img, mods...)
	r.compareFiles(last, j-1, "crash@"+c.At)
}

// strictEnd: pebble's log writer zero-fills the rest of a 32 KiB block when fewer than 11 bytes
// (a chunk header) are left after a record, in the same write.  So the last 10 bytes of what a
// Flush wrote may be padding AFTER the complete record: a cut or a corruption there leaves the
// whole batch readable (which the property allows).  Before strictEnd the record itself is hit.
func (r *runner) strictEnd() int64 {
	const maxPadding = 10
	if e := r.postSize - maxPadding; e > r.preSize {
		return e
	}
	return r.preSize + 1
}

func outcomeOf(first step, has map[string]int) string {
	switch {
	case first.A.Outcome == "werr":
		return "write-error"
	case has["SyncErr"] > 0:
		return "sync-error"
	case has["WmTmp"] > 0:
		return "ok+cleanup"
	default:
		return "ok"
	}
}

func (r *runner) garbage() []byte {
	b := make([]byte, 1+r.rng.Intn(40))
	r.rng.Read(b)
	return b
}

// synthesise builds the two watermark images when juno does not carry the crash-point hook.
func (r *runner) synthesise(syncImg string) {
	if hookAvailable || syncImg == "" {
		return
	}
	wm, err := os.ReadFile(filepath.Join(r.walDir(), "prune-watermark"))
	if err != nil {
		return
	}
	if _, ok := r.imgs["wm-tmp-written"]; !ok {
		p := r.copyDisk(syncImg, "synth-tmp")
		must(os.WriteFile(filepath.Join(walstore.DefaultWALDir(p), "prune-watermark.tmp"), wm, 0o644))
		r.imgs["wm-tmp-written"] = p
	}
	if _, ok := r.imgs["wm-renamed"]; !ok {
		p := r.copyDisk(syncImg, "synth-ren")
		must(os.WriteFile(filepath.Join(walstore.DefaultWALDir(p), "prune-watermark"), wm, 0o644))
		r.imgs["wm-renamed"] = p
	}
	if _, ok := r.imgs["rotated"]; !ok && len(r.removed) == 0 {
		r.imgs["rotated"] = r.copyDisk(r.dir, "synth-rot")
	}
}

// sweep: the log written by this call, cut at EVERY byte offset past the last synced record, and
// with every byte of the new batch corrupted (one bit, and all bits).
func (r *runner) sweep(syncImg string, stepNo int, before, after [][]int) {
	disk := r.copyDisk(syncImg, "sweep")
	defer os.RemoveAll(disk)
	p := filepath.Join(walstore.DefaultWALDir(disk), r.file)
	orig, err := os.ReadFile(p)
	must(err)
	if int64(len(orig)) != r.postSize {
		panic("wal engine: sweep image size mismatch")
	}
	try := func(content []byte, ctx string, allowed ...[][]int) bool {
		must(os.WriteFile(p, content, 0o644))
		r.out.Count("sweep_opens", 1)
		r.checkDisk(disk, ctx, stepNo, allowed)
		return !r.dead
	}
	// inside the record: the batch must be gone; in the (possible) block padding behind it: gone or whole
	at := func(off int64) [][][]int {
		if off < r.strictEnd() {
			return [][][]int{before}
		}
		return [][][]int{before, after}
	}
	for cut := r.preSize; cut < r.postSize; cut++ {
		if !try(orig[:cut], fmt.Sprintf("sweep/cut@+%d/%d", cut-r.preSize, r.postSize-r.preSize), at(cut)...) {
			return
		}
	}
	for off := r.preSize; off < r.postSize; off++ {
		masks := []byte{byte(1 << r.rng.Intn(8)), 0xff}
		if r.b.Opts.Flips < 2 {
			masks = masks[r.rng.Intn(2):][:1]
		}
		for _, mask := range masks {
			c := bytes.Clone(orig)
			c[off] ^= mask
			if !try(c, fmt.Sprintf("sweep/flip@+%d/%d", off-r.preSize, r.postSize-r.preSize), at(off)...) {
				return
			}
		}
	}
	// zero-filled and garbage-filled tails of every length class
	for _, n := range []int{1, 7, 11, 64} {
		if !try(append(bytes.Clone(orig), make([]byte, n)...), fmt.Sprintf("sweep/zeros-after+%d", n), after) {
			return
		}
		g := make([]byte, n)
		r.rng.Read(g)
		if !try(append(bytes.Clone(orig), g...), fmt.Sprintf("sweep/garbage-after+%d", n), after) {
			return
		}
	}
	r.out.Count("sweeps", 1)
}

// ---------------------------------------------------------------- concurrent round

// concurrentRound: the store is documented and built (mutex) for use from several goroutines: one
// writer appends a batch per height, prunes now and then in the same batch, and flushes; readers
// call LoadAllEntries for the writer's WHOLE lifetime.  The monitor is the specification's
// ReadsFlushed under linearisation: every reading is the view of a PREFIX k of the flushed batches
// (heights (pruned(k), k], every batch whole and in order: never part of a batch), with
// flushes-completed-at-call-start <= k <= flushes-started-at-call-end, and k never decreases for one
// reader.  Entries handed out earlier are looked at again at the end (results are values).
func concurrentRound(out *vh.Result, root string, round int, seed int64) {
	const (
		batches = 48
		perB    = 64 // long enough that a non-atomic index update is observable
		readers = 4
	)
	input := vh.J{"behaviours": []behaviour{}, "interval": 2, "concurrent": 1}
	// C14 does not quantify over schedules: a reading that is wrong only because the writer's
	// mutation lands in the middle of the reader's call is an OBSERVATION, not a verdict.  Verdicts
	// are a failure of the process (panic), and whatever is still wrong once the race is over: the
	// readings of the quiescent store and of the reopened directory.
	var obsMu sync.Mutex
	var observations []string
	report := func(what, detail string, exp, obs any) {
		text := fmt.Sprintf("wal-concurrent:%s - 1 writer (%d batches of %d entries, a prune every 6th) + %d readers for its whole lifetime: %s",
			what, batches, perB, readers, detail)
		if what == "panic" || strings.HasPrefix(what, "after:") {
			key := "wal-concurrent:panic"
			if what != "panic" {
				key = "wal-after-concurrency:" + strings.TrimPrefix(what, "after:")
			}
			out.Diverge(vh.Divergence{Key: key, What: text, Input: input, Step: round, Expected: exp, Observed: obs})
			return
		}
		obsMu.Lock()
		observations = append(observations, text)
		obsMu.Unlock()
	}
	defer func() {
		obsMu.Lock()
		defer obsMu.Unlock()
		if len(observations) > 0 {
			out.Count("observations", len(observations))
			for _, o := range observations[:min(3, len(observations))] {
				out.Sample(vh.J{"observation": o})
			}
		}
	}()
	dir := filepath.Join(root, fmt.Sprintf("conc%03d", round))
	must(os.MkdirAll(dir, 0o755))
	defer os.RemoveAll(dir)
	st, err := openStore(dir)
	if err != nil {
		report("open-failed", err.Error(), "opens", err.Error())
		return
	}
	ids := func(b int) []int {
		var l []int
		for j := 0; len(l) < perB; j++ {
			if id := b*1000 + j; id%8 != 7 {
				l = append(l, id)
			}
		}
		return l
	}
	prunedAt := func(k int) int { // what prefix k has pruned
		if b := k - k%6; b >= 6 {
			return b - 3
		}
		return 0
	}
	var started, completed atomic.Int64
	var done atomic.Bool
	var wg sync.WaitGroup
	guardG := func(name string, f func()) {
		wg.Add(1)
		go func() {
			defer wg.Done()
			defer func() {
				if p := recover(); p != nil {
					report("panic", fmt.Sprintf("%s: %v | %s", name, p, firstJuno(string(debug.Stack()))), "no failure", "panic")
				}
			}()
			f()
		}()
	}
	guardG("writer", func() {
		defer done.Store(true)
		for b := 1; b <= batches; b++ {
			started.Store(int64(b))
			for _, id := range ids(b) {
				if err := st.SetWALEntry(mkEntry(realHeight(b), id)); err != nil {
					report("writer-error", "SetWALEntry: "+err.Error(), "ok", err.Error())
					return
				}
			}
			if b%6 == 0 {
				if err := st.DeleteWALEntries(realHeight(b - 3)); err != nil {
					report("writer-error", "DeleteWALEntries: "+err.Error(), "ok", err.Error())
					return
				}
			}
			enter("Flush (concurrent round)")
			if err := st.Flush(); err != nil {
				report("writer-error", "Flush: "+err.Error(), "ok", err.Error())
				return
			}
			completed.Store(int64(b))
		}
	})
	for ri := 0; ri < readers; ri++ {
		ri := ri
		guardG(fmt.Sprintf("reader %d", ri), func() {
			var kept []returned
			lastK, reads := 0, 0
			for final := false; !final; {
				final = done.Load() // one more reading after the writer finished
				c0 := int(completed.Load())
				byH := map[int][]int{}
				var order []int
				bad := ""
				for e, err := range st.LoadAllEntries() {
					if err != nil {
						bad = "LoadAllEntries error: " + err.Error()
						break
					}
					id, ok := entryID(e)
					h := int(uint64(e.GetHeight()) / heightStride)
					if !ok || !reflect.DeepEqual(e, mkEntry(realHeight(h), id)) {
						bad = fmt.Sprintf("entry differs from what was written: %+v", e)
						break
					}
					if len(byH[h]) == 0 {
						order = append(order, h)
					}
					byH[h] = append(byH[h], id)
					if len(kept) < 300 && reads%7 == 0 {
						kept = append(kept, returned{e, mkEntry(realHeight(h), id)})
					}
				}
				s1 := int(started.Load())
				reads++
				progress.Add(1)
				if bad != "" {
					report("entry-corrupted", bad, "entries as written", bad)
					return
				}
				k := 0
				if len(order) > 0 {
					k = order[len(order)-1]
				}
				for i, h := range order {
					if i > 0 && order[i-1] >= h {
						report("heights-not-ascending", fmt.Sprint(order), "ascending", order)
						return
					}
					if !reflect.DeepEqual(byH[h], ids(h)) {
						report("partial-batch", fmt.Sprintf("height %d shows %d of its %d entries (or out of order): a batch must be visible whole or not at all", h, len(byH[h]), perB), ids(h), byH[h])
						return
					}
				}
				// an empty reading is the view of prefix 0, or of a prefix whose own batch... never: batch k holds height k
				if k < c0 || k > s1 {
					report("stale-or-future-read", fmt.Sprintf("reading shows batches up to %d; %d flushes had returned before the call, %d had started when it ended", k, c0, s1), fmt.Sprintf("%d..%d", c0, s1), k)
					return
				}
				var want []int
				for h := prunedAt(k) + 1; h <= k; h++ {
					want = append(want, h)
				}
				if !reflect.DeepEqual(order, want) && !(len(order) == 0 && len(want) == 0) {
					report("wrong-heights", fmt.Sprintf("prefix %d must show heights %v, shows %v", k, want, order), want, order)
					return
				}
				if k < lastK {
					report("not-monotone", fmt.Sprintf("reader %d saw prefix %d after prefix %d", ri, k, lastK), lastK, k)
					return
				}
				lastK = k
			}
			for _, kv := range kept {
				if !reflect.DeepEqual(kv.got, kv.want) {
					report("retained-entry-changed", fmt.Sprintf("an entry returned earlier now reads %+v", kv.got), fmt.Sprintf("%+v", kv.want), fmt.Sprintf("%+v", kv.got))
					return
				}
			}
			out.Count("concurrent_reads", reads)
		})
	}
	wg.Wait()
	// the race is over: from here on everything is sequential, and a verdict
	want := []int{}
	for h := prunedAt(batches) + 1; h <= batches; h++ {
		want = append(want, ids(h)...)
	}
	read := func(s store) (got []int, bad string) {
		for e, err := range s.LoadAllEntries() {
			if err != nil {
				return got, err.Error()
			}
			id, ok := entryID(e)
			h := int(uint64(e.GetHeight()) / heightStride)
			if !ok || !reflect.DeepEqual(e, mkEntry(realHeight(h), id)) {
				return got, fmt.Sprintf("entry differs from what was written: %+v", e)
			}
			got = append(got, id)
		}
		return got, ""
	}
	if c := int(completed.Load()); c == batches {
		if got, bad := read(st); bad != "" || !reflect.DeepEqual(got, want) {
			report("after:quiescent-store-reads-wrong", fmt.Sprintf("after every goroutine ended the store shows %d entries (%s), the %d flushed batches hold %d", len(got), bad, batches, len(want)), len(want), len(got))
		}
	}
	_ = st.Close()
	st2, err := openStore(dir)
	if err != nil {
		report("after:reopen-failed", err.Error(), "opens", err.Error())
		return
	}
	got, bad := read(st2)
	_ = st2.Close()
	if c := int(completed.Load()); c == batches && (bad != "" || !reflect.DeepEqual(got, want)) {
		report("after:reopened-store-reads-wrong", fmt.Sprintf("reopening shows %d entries (%s), the %d flushed batches hold %d", len(got), bad, batches, len(want)), len(want), len(got))
	}
	out.Count("concurrent_rounds", 1)
}

func firstJuno(stack string) string {
	for _, l := range strings.Split(stack, "\n") {
		if strings.Contains(l, "juno/consensus/walstore") {
			return strings.TrimSpace(l)
		}
	}
	return ""
}

// ---------------------------------------------------------------- entry point

func TestWalReplay(t *testing.T) {
	if !vh.Enabled() {
		t.Skip()
	}
	var in input
	if err := vh.Input(&in); err != nil {
		t.Fatal(err)
	}
	out := vh.NewResult()
	defer out.Write()
	if in.Interval <= 0 || in.Interval >= realInterval {
		t.Fatalf("bad interval %d", in.Interval)
	}
	installFS()
	if in.Selftest {
		// flip one expected reading: the binding must notice
		b := &in.Behaviours[0]
		done := false
		for k := range b.Steps {
			s := &b.Steps[k]
			if s.A.Name == "SyncOk" && s.Pc == "idle" {
				for h := range s.Live {
					if len(s.Live[h]) > 0 && !done {
						s.Live[h] = append([]int{}, s.Live[h][:len(s.Live[h])-1]...)
						done = true
					}
				}
			}
			if done {
				break
			}
		}
		if !done {
			t.Fatal("selftest: no step to corrupt")
		}
	}
	if in.SelftestFiles {
		b := &in.Behaviours[0]
		done := false
		for k := range b.Steps {
			s := &b.Steps[k]
			if s.A.Name == "SyncOk" && s.Pc == "idle" && len(s.Files) > 0 {
				s.Files = append(append([]int{}, s.Files...), 99)
				done = true
				break
			}
		}
		if !done {
			t.Fatal("selftest: no directory listing to corrupt")
		}
	}
	go func() { // watchdog
		last, since := int64(-1), time.Now()
		for {
			time.Sleep(5 * time.Second)
			if p := progress.Load(); p != last {
				last, since = p, time.Now()
				continue
			}
			if time.Since(since) < 3*time.Minute {
				continue
			}
			what, _ := doing.Load().(string)
			out.Diverge(vh.Divergence{Key: "wal-hang:" + strings.SplitN(what, " ", 2)[0],
				What:  "a call into the WAL store did not return for 3 minutes: " + what,
				Input: hangInput.Load(), Expected: "returns", Observed: "hangs"})
			_ = out.Write()
			os.Exit(1)
		}
	}()
	base, err := os.MkdirTemp(vh.Scratch(), "wal.")
	if err != nil {
		t.Fatal(err)
	}
	defer os.RemoveAll(base)
	total := 0
	for bi := range in.Behaviours {
		b := &in.Behaviours[bi]
		if len(b.Steps) == 0 {
			continue
		}
		r := &runner{t: t, out: out, in: &in, bi: bi, b: b,
			rng:  rand.New(rand.NewSource(b.Opts.RSeed)),
			root: filepath.Join(base, fmt.Sprintf("b%05d", bi))}
		must(os.MkdirAll(r.root, 0o755))
		hangInput.Store(r.replayInput())
		total += r.run()
		if bi < 2 {
			out.Sample(vh.J{"behaviour": bi, "steps": len(b.Steps), "first_steps": b.Steps[:min(8, len(b.Steps))]})
		}
	}
	theFS.mu.Lock()
	theFS.r = nil
	theFS.mu.Unlock()
	for round := 0; round < in.Concurrent; round++ {
		concurrentRound(out, base, round, vh.Seed())
	}
	out.Count("hook", map[bool]int{true: 1, false: 0}[hookAvailable])
	out.Done(len(in.Behaviours), total)
}

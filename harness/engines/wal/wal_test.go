// Package wal replays TLC-generated behaviours of spec/consensus/Wal.tla on the REAL
// walstore.NewTendermintWALStore in a scratch directory (property C14).
//
// Every history entry of a behaviour is one action of the specification.  Client-level actions
// (Append, Prune, Flush, Close, Crash, Open) are executed on the real store; the internal actions
// of a Flush (SyncOk/SyncErr/Abort, WmTmp, WmRename, WmSyncDir, Rotate, RemoveFile, CleanupDone) name the
// points at which the engine copies the WAL directory while the real Flush runs (through a
// wrapper around pebble's vfs.Default and, when juno carries it, the verif crash-point hook).
// A Crash entry makes the engine continue on the copy taken at that point; independently of the
// behaviour's own continuation EVERY copy taken is reopened and LoadAllEntries is compared with
// what the specification allows there, and the last log is additionally cut at every byte
// offset past the last synced record and corrupted byte by byte (sweep).
package wal

import (
	"bytes"
	"errors"
	"fmt"
	"math/rand"
	"os"
	"path/filepath"
	"reflect"
	"runtime/debug"
	"sort"
	"strings"
	"sync"
	"testing"

	"github.com/NethermindEth/juno/consensus/starknet"
	"github.com/NethermindEth/juno/consensus/types"
	"github.com/NethermindEth/juno/consensus/walstore"
	"github.com/NethermindEth/juno/core/felt"
	"github.com/NethermindEth/juno/db/memory"
	_ "github.com/NethermindEth/juno/encoder/registry"
	"github.com/cockroachdb/pebble/v2/vfs"

	"verifharness/internal/vh"
)

type store = walstore.TendermintWALStore[starknet.Value, starknet.Hash, starknet.Address]

// pathDB is the only thing the WAL store needs from the database: a local path.
type pathDB struct {
	*memory.Database
	path string
}

func (d pathDB) Path() string { return d.path }

// ---------------------------------------------------------------- input

type action struct {
	Name    string `json:"name"`
	H       int    `json:"h"`
	ID      int    `json:"id"`
	Outcome string `json:"outcome"`
	At      string `json:"at"`
	Tailc   string `json:"tailc"`
	Wmc     string `json:"wmc"`
	Removed int    `json:"removed"`
	Back    int    `json:"back"`
}

type step struct {
	A    action  `json:"a"`
	Res  string  `json:"res"`
	Live [][]int `json:"live"`
	Vin  [][]int `json:"vin"`
	Pc   string  `json:"pc"`
	Mode string  `json:"mode"`
	Pend int     `json:"pend"`
	// Pruned is the model's prunedUpToHeight; the engine uses it only to place filler prunes.
	Pruned int `json:"pruned"`
}

type options struct {
	RSeed   int64 `json:"rseed"`
	Ballast int   `json:"ballast"` // > 0: pre-fill the first log up to about this many bytes
	Sweep   int   `json:"sweep"`   // for this many flushes: cut / corrupt the last log at EVERY byte of the batch
	Flips   int   `json:"flips"`   // corruptions per byte in a sweep (1: one random bit; 2: also all bits)
	Subsets bool  `json:"subsets"` // all subsets of unlinked-but-not-durably-removed files
}

type behaviour struct {
	Steps []step  `json:"steps"`
	Opts  options `json:"opts"`
}

type input struct {
	Behaviours []behaviour `json:"behaviours"`
	// CleanupInterval of the model; the real one is 256: the engine issues 256 - interval cheap
	// prune records whenever the model is about to reach a cleanup.
	Interval int `json:"interval"`
	// Selftest: flip one expected value of the first behaviour; a divergence MUST be reported.
	Selftest bool `json:"selftest"`
}

// ---------------------------------------------------------------- concretisation

const (
	heightStride  = 1 << 20 // model height h is real height h*heightStride; fillers live in between
	ballastHeight = 1 << 40 // never pruned, never produced by the model
	realInterval  = 256     // walstore.cleanupPruneRecordInterval
)

func realHeight(h int) types.Height { return types.Height(uint64(h) * heightStride) }

// mkEntry builds the real WAL entry for the model entry (h, id): all five kinds but Start carry a
// round, which holds the id.
func mkEntry(h types.Height, id int) starknet.WALEntry {
	round := types.Round(id)
	switch id % 4 {
	case 0:
		v := felt.FromUint64[starknet.Value](uint64(1000 + id))
		return &starknet.WALProposal{
			MessageHeader: starknet.MessageHeader{Height: h, Round: round, Sender: felt.FromUint64[starknet.Address](7)},
			ValidRound:    -1,
			Value:         &v,
		}
	case 1:
		return &starknet.WALPrevote{
			MessageHeader: starknet.MessageHeader{Height: h, Round: round, Sender: felt.FromUint64[starknet.Address](8)},
		}
	case 2:
		id256 := felt.FromUint64[starknet.Hash](uint64(2000 + id))
		return &starknet.WALPrecommit{
			MessageHeader: starknet.MessageHeader{Height: h, Round: round, Sender: felt.FromUint64[starknet.Address](9)},
			ID:            &id256,
		}
	default:
		return &starknet.WALTimeout{Height: h, Round: round, Step: types.StepPrecommit}
	}
}

func entryID(e starknet.WALEntry) (int, bool) {
	switch x := e.(type) {
	case *starknet.WALProposal:
		return int(x.Round), true
	case *starknet.WALPrevote:
		return int(x.Round), true
	case *starknet.WALPrecommit:
		return int(x.Round), true
	case *starknet.WALTimeout:
		return int(x.Round), true
	}
	return 0, false
}

// ---------------------------------------------------------------- vfs wrapper

// hfs wraps pebble's vfs.Default (a package variable that walstore reads when a store is opened).
// It only acts on the WAL directory of the runner currently attached.
type hfs struct {
	vfs.FS
	mu sync.Mutex
	r  *runner
}

type hfile struct {
	vfs.File
	fs   *hfs
	name string
}

func (x *hfs) runnerFor(name string) *runner {
	x.mu.Lock()
	defer x.mu.Unlock()
	if x.r != nil && filepath.Dir(name) == x.r.walDir() && strings.HasSuffix(name, ".log") {
		return x.r
	}
	return nil
}

func (x *hfs) Create(name string, c vfs.DiskWriteCategory) (vfs.File, error) {
	f, err := x.FS.Create(name, c)
	if err != nil {
		return nil, err
	}
	if r := x.runnerFor(name); r != nil {
		// pebble's manager fsyncs the directory right after creating a log: earlier unlinks
		// are durable from here on.
		r.clearGrave()
		return &hfile{File: f, fs: x, name: name}, nil
	}
	return f, nil
}

func (x *hfs) Remove(name string) error {
	r := x.runnerFor(name)
	if r == nil {
		return x.FS.Remove(name)
	}
	r.onRemove(name)
	err := x.FS.Remove(name)
	if err == nil {
		r.afterRemove(name)
	}
	return err
}

func (f *hfile) Write(p []byte) (int, error) {
	if r := f.fs.runnerFor(f.name); r != nil {
		return r.onWrite(f, p)
	}
	return f.File.Write(p)
}

func (f *hfile) Sync() error {
	if r := f.fs.runnerFor(f.name); r != nil {
		return r.onSync(f)
	}
	return nil
}
func (f *hfile) SyncData() error            { return f.Sync() }
func (f *hfile) SyncTo(int64) (bool, error) { return true, f.Sync() }
func (f *hfile) Fd() uintptr                { return vfs.InvalidFd }

var theFS *hfs

func installFS() {
	if theFS == nil {
		theFS = &hfs{FS: vfs.Default}
		vfs.Default = theFS
	}
}

// ---------------------------------------------------------------- runner

type runner struct {
	t     *testing.T
	out   *vh.Result
	in    *input
	bi    int
	b     *behaviour
	rng   *rand.Rand
	root  string
	gen   int
	dir   string // db path of the live "disk"; the WAL is in dir/consensus-wal, unlinked files in dir/grave
	st    store
	dead  bool // a divergence was reported: stop this behaviour
	nBall int  // ballast entries written (must always be read back)

	sweepsDone int

	lastFiller types.Height

	// per Flush/Close call
	armed     bool
	failWrite bool
	failSync  bool
	imgs      map[string]string
	removed   []string
	file      string // log written by this call
	preSize   int64  // its size before the call = last synced offset
	postSize  int64
	mu        sync.Mutex
}

func (r *runner) walDir() string   { return walstore.DefaultWALDir(r.dir) }
func (r *runner) graveDir() string { return filepath.Join(r.dir, "grave") }

func must(err error) {
	if err != nil {
		panic(fmt.Sprintf("wal engine: %v", err))
	}
}

func copyFiles(src, dst string) {
	must(os.MkdirAll(dst, 0o755))
	es, err := os.ReadDir(src)
	if errors.Is(err, os.ErrNotExist) {
		return
	}
	must(err)
	for _, e := range es {
		if e.IsDir() {
			continue
		}
		b, err := os.ReadFile(filepath.Join(src, e.Name()))
		must(err)
		must(os.WriteFile(filepath.Join(dst, e.Name()), b, 0o644))
	}
}

// copyDisk copies a disk (WAL directory + graveyard) to a fresh directory.
func (r *runner) copyDisk(src, tag string) string {
	r.gen++
	dst := filepath.Join(r.root, fmt.Sprintf("d%04d-%s", r.gen, tag))
	copyFiles(walstore.DefaultWALDir(src), walstore.DefaultWALDir(dst))
	copyFiles(filepath.Join(src, "grave"), filepath.Join(dst, "grave"))
	return dst
}

func (r *runner) snap(name string) {
	r.mu.Lock()
	defer r.mu.Unlock()
	if _, ok := r.imgs[name]; ok && !strings.HasPrefix(name, "removed") {
		return
	}
	p := r.copyDisk(r.dir, strings.ReplaceAll(name, ":", "_"))
	if strings.HasPrefix(name, "removed") {
		r.removed = append(r.removed, p)
	} else {
		r.imgs[name] = p
	}
}

func (r *runner) clearGrave() {
	must(os.RemoveAll(r.graveDir()))
}

func (r *runner) onRemove(name string) {
	if r.armed {
		if _, ok := r.imgs["rotated"]; !ok {
			r.snap("rotated") // without the hook: the state just before the first unlink
		}
	}
	b, err := os.ReadFile(name)
	if err != nil {
		return
	}
	must(os.MkdirAll(r.graveDir(), 0o755))
	must(os.WriteFile(filepath.Join(r.graveDir(), filepath.Base(name)), b, 0o644))
}

func (r *runner) afterRemove(name string) {
	if r.armed {
		r.snap("removed:" + filepath.Base(name))
	}
}

func (r *runner) onWrite(f *hfile, p []byte) (int, error) {
	if r.armed && r.file == "" {
		r.file = filepath.Base(f.name)
		if fi, err := os.Stat(f.name); err == nil {
			r.preSize = fi.Size()
		}
	}
	if r.armed && r.failWrite {
		r.failWrite = false
		// a strict part of the record: never only the block padding behind it (see strictEnd)
		part := 0
		if len(p) > 10 {
			part = r.rng.Intn(len(p) - 10)
		}
		n, _ := f.File.Write(p[:part])
		r.snap("werr")
		return n, errors.New("injected write error")
	}
	return f.File.Write(p)
}

func (r *runner) onSync(f *hfile) error {
	if !r.armed {
		return nil
	}
	if _, ok := r.imgs["sync"]; !ok && r.file == filepath.Base(f.name) {
		if fi, err := os.Stat(f.name); err == nil {
			r.postSize = fi.Size()
		}
		r.snap("sync") // every byte of the batch is in the file; the fsync has not returned yet
		if r.failSync {
			r.failSync = false
			return errors.New("injected sync error")
		}
	}
	return nil
}

// ---------------------------------------------------------------- divergences

func (r *runner) replayInput() any {
	return vh.J{"behaviours": []behaviour{*r.b}, "interval": r.in.Interval}
}

func (r *runner) diverge(key, what string, stepNo int, exp, obs any) {
	r.dead = true
	r.out.Diverge(vh.Divergence{Key: key, What: what, Input: r.replayInput(), Step: stepNo, Expected: exp, Observed: obs})
}

// classify names how an observed reading differs from the expected one.
func classify(exp, obs [][]int) string {
	has := func(l [][]int) map[int]int {
		m := map[int]int{}
		for h, ids := range l {
			for _, id := range ids {
				m[id] = h + 1
			}
		}
		return m
	}
	e, o := has(exp), has(obs)
	lost, extra := 0, 0
	for id := range e {
		if _, ok := o[id]; !ok {
			lost++
		}
	}
	for id := range o {
		if _, ok := e[id]; !ok {
			extra++
		}
	}
	switch {
	case lost > 0 && extra > 0:
		return "lost+extra"
	case lost > 0:
		return "lost"
	case extra > 0:
		return "extra"
	default:
		return "order"
	}
}

// load projects LoadAllEntries to the model's `live` (ids per model height, in order) and checks
// that every entry is bit-for-bit the one that was written and that heights ascend.
func (r *runner) load(st store, nh int) (live [][]int, problem string) {
	live = make([][]int, nh)
	for i := range live {
		live[i] = []int{}
	}
	ball := 0
	var last types.Height
	for e, err := range st.LoadAllEntries() {
		if err != nil {
			return live, "LoadAllEntries error: " + err.Error()
		}
		h := e.GetHeight()
		if h < last {
			return live, fmt.Sprintf("heights not ascending: %d after %d", h, last)
		}
		last = h
		id, ok := entryID(e)
		if !ok {
			return live, fmt.Sprintf("unexpected entry type %T", e)
		}
		if !reflect.DeepEqual(e, mkEntry(h, id)) {
			return live, fmt.Sprintf("entry (height %d, id %d) differs from what was written: %+v", h, id, e)
		}
		if h == ballastHeight {
			if id != ball {
				return live, fmt.Sprintf("ballast entry %d read at position %d", id, ball)
			}
			ball++
			continue
		}
		if uint64(h)%heightStride != 0 || int(uint64(h)/heightStride) < 1 || int(uint64(h)/heightStride) > nh {
			return live, fmt.Sprintf("entry at foreign height %d", h)
		}
		mh := int(uint64(h) / heightStride)
		live[mh-1] = append(live[mh-1], id)
	}
	if ball != r.nBall {
		return live, fmt.Sprintf("ballast entries: wrote %d, read %d", r.nBall, ball)
	}
	return live, ""
}

func sameLive(a, b [][]int) bool {
	if len(a) != len(b) {
		return false
	}
	for i := range a {
		if len(a[i]) != len(b[i]) {
			return false
		}
		for j := range a[i] {
			if a[i][j] != b[i][j] {
				return false
			}
		}
	}
	return true
}

func (r *runner) compareMem(exp [][]int, stepNo int, ctx string) {
	if r.dead || r.st == nil {
		return
	}
	obs, problem := r.load(r.st, len(exp))
	if problem != "" {
		r.diverge("wal-read:"+ctx+":malformed", problem, stepNo, exp, obs)
		return
	}
	if !sameLive(exp, obs) {
		r.diverge("wal-read:"+ctx+":"+classify(exp, obs),
			"LoadAllEntries of the running store differs from the flushed batches after "+ctx, stepNo, exp, obs)
	}
}

// ---------------------------------------------------------------- opening images

func openStore(dir string) (st store, err error) {
	defer func() {
		if p := recover(); p != nil {
			err = fmt.Errorf("panic: %v\n%s", p, debug.Stack())
		}
	}()
	return walstore.NewTendermintWALStore[starknet.Value, starknet.Hash, starknet.Address](pathDB{memory.New(), dir})
}

type mod func(disk string)

func restoreFromGrave(names []string) mod {
	return func(disk string) {
		for _, n := range names {
			b, err := os.ReadFile(filepath.Join(disk, "grave", n))
			must(err)
			must(os.WriteFile(filepath.Join(walstore.DefaultWALDir(disk), n), b, 0o644))
		}
		must(os.RemoveAll(filepath.Join(disk, "grave")))
	}
}

func truncateLog(name string, size int64) mod {
	return func(disk string) { must(os.Truncate(filepath.Join(walstore.DefaultWALDir(disk), name), size)) }
}

func flipByte(name string, off int64, mask byte) mod {
	return func(disk string) {
		p := filepath.Join(walstore.DefaultWALDir(disk), name)
		b, err := os.ReadFile(p)
		must(err)
		b[off] ^= mask
		must(os.WriteFile(p, b, 0o644))
	}
}

func appendBytes(name string, extra []byte) mod {
	return func(disk string) {
		p := filepath.Join(walstore.DefaultWALDir(disk), name)
		b, err := os.ReadFile(p)
		must(err)
		must(os.WriteFile(p, append(b, extra...), 0o644))
	}
}

func graveNames(disk string) []string {
	es, err := os.ReadDir(filepath.Join(disk, "grave"))
	if err != nil {
		return nil
	}
	var ns []string
	for _, e := range es {
		ns = append(ns, e.Name())
	}
	sort.Strings(ns)
	return ns
}

// graveSubsets: which of the unlinked files are still there after the crash.  All subsets when
// there are few (or when asked), otherwise none / all / each single one / each all-but-one.
func (r *runner) graveSubsets(disk string) [][]string {
	ns := graveNames(disk)
	if len(ns) == 0 {
		return [][]string{nil}
	}
	var out [][]string
	if len(ns) <= 3 || (r.b.Opts.Subsets && len(ns) <= 6) {
		for m := 0; m < 1<<len(ns); m++ {
			var s []string
			for i, n := range ns {
				if m&(1<<i) != 0 {
					s = append(s, n)
				}
			}
			out = append(out, s)
		}
		return out
	}
	out = append(out, nil, ns)
	for i := range ns {
		out = append(out, []string{ns[i]})
		rest := append(append([]string{}, ns[:i]...), ns[i+1:]...)
		out = append(out, rest)
	}
	return out
}

// checkImage reopens a copy of the image (after the given modifications) and compares the
// reading with `allowed` (one or two admissible readings).
func (r *runner) checkImage(img, ctx string, stepNo int, allowed [][][]int, mods ...mod) {
	if r.dead {
		return
	}
	disk := r.copyDisk(img, "chk")
	defer os.RemoveAll(disk)
	for _, m := range mods {
		m(disk)
	}
	r.checkDisk(disk, ctx, stepNo, allowed)
}

func (r *runner) checkDisk(disk, ctx string, stepNo int, allowed [][][]int) {
	r.out.Count("images_reopened", 1)
	st, err := openStore(disk)
	if err != nil {
		r.diverge("wal-open-failed:"+ctx, "NewTendermintWALStore fails on a crash image ("+ctx+"): "+err.Error(), stepNo, "opens", err.Error())
		return
	}
	obs, problem := r.load(st, len(allowed[0]))
	_ = st.Close()
	if problem != "" {
		r.diverge("wal-recover:"+ctx+":malformed", problem, stepNo, allowed, obs)
		return
	}
	for _, a := range allowed {
		if sameLive(a, obs) {
			return
		}
	}
	r.diverge("wal-recover:"+ctx+":"+classify(allowed[0], obs),
		"reopening the crash image ("+ctx+") does not yield the flushed batches (optionally plus the whole batch in flight)",
		stepNo, allowed, obs)
}

// ---------------------------------------------------------------- store lifecycle

func (r *runner) open(stepNo int, ctx string) bool {
	installFS()
	theFS.mu.Lock()
	theFS.r = r
	theFS.mu.Unlock()
	st, err := openStore(r.dir)
	if err != nil {
		r.diverge("wal-open-failed:"+ctx, "NewTendermintWALStore fails ("+ctx+"): "+err.Error(), stepNo, "opens", err.Error())
		return false
	}
	r.st = st
	return true
}

// abandon drops the running store without letting it touch the disk that the behaviour continues
// on: the continuation is always a COPY, the old directory is deleted afterwards.
func (r *runner) abandon() {
	if r.st != nil {
		_ = r.st.Close()
		r.st = nil
	}
}

// adopt makes a copy of img (with modifications) the live disk.
func (r *runner) adopt(img string, mods ...mod) {
	disk := r.copyDisk(img, "live")
	for _, m := range mods {
		m(disk)
	}
	old := r.dir
	r.abandon()
	r.dir = disk
	must(os.RemoveAll(old))
}

func (r *runner) dropImages() {
	for _, p := range r.imgs {
		os.RemoveAll(p)
	}
	for _, p := range r.removed {
		os.RemoveAll(p)
	}
	r.imgs, r.removed = map[string]string{}, nil
}

// prime brings the real prune-record counter to 256 - interval with prune records of heights
// strictly between two model heights (they prune nothing the model knows about).
func (r *runner) primeIfCleanupAhead(from int, modelPruned int) {
	if r.dead || r.st == nil {
		return
	}
	ahead := false
	for k := from; k < len(r.b.Steps); k++ {
		n := r.b.Steps[k].A.Name
		if n == "Open" {
			break
		}
		if n == "WmTmp" {
			ahead = true
			break
		}
	}
	if !ahead {
		return
	}
	base := realHeight(modelPruned)
	if r.lastFiller > base {
		base = r.lastFiller
	}
	for k := 0; k < realInterval-r.in.Interval; k++ {
		base++
		must(r.st.DeleteWALEntries(base))
		if err := r.st.Flush(); err != nil {
			panic("wal engine: filler flush failed: " + err.Error())
		}
	}
	r.lastFiller = base
	r.out.Count("primings", 1)
}

// ---------------------------------------------------------------- ballast

func (r *runner) writeBallast(target int) {
	for {
		var size int64
		es, _ := os.ReadDir(r.walDir())
		for _, e := range es {
			if strings.HasSuffix(e.Name(), ".log") {
				fi, _ := e.Info()
				size += fi.Size()
			}
		}
		room := int64(target) - size
		if room < 120 {
			return
		}
		n := int(room / 120)
		if n > 60 {
			n = 60
		}
		if n < 1 {
			n = 1
		}
		for k := 0; k < n; k++ {
			must(r.st.SetWALEntry(mkEntry(ballastHeight, r.nBall)))
			r.nBall++
		}
		must(r.st.Flush())
	}
}

// ---------------------------------------------------------------- the replay

var internal = map[string]bool{"SyncOk": true, "SyncErr": true, "Abort": true, "WmTmp": true, "WmRename": true,
	"WmSyncDir": true, "Rotate": true, "RemoveFile": true, "CleanupDone": true}

func emptyLive(n int) [][]int {
	l := make([][]int, n)
	for i := range l {
		l[i] = []int{}
	}
	return l
}

func (r *runner) run() (steps int) {
	defer func() {
		if p := recover(); p != nil {
			msg := fmt.Sprint(p)
			if strings.HasPrefix(msg, "wal engine:") {
				panic(p) // machinery
			}
			r.diverge("wal-panic", "panic in walstore: "+msg+"\n"+string(debug.Stack()), steps, nil, msg)
		}
		theFS.mu.Lock()
		theFS.r = nil
		theFS.mu.Unlock()
		setHook(nil)
		r.abandon()
		os.RemoveAll(r.root)
	}()
	ss := r.b.Steps
	nh := len(ss[0].Live)
	r.imgs = map[string]string{}
	r.gen++
	r.dir = filepath.Join(r.root, "d0000-live")
	must(os.MkdirAll(r.dir, 0o755))
	if !r.open(0, "fresh-directory") {
		return 0
	}
	if r.b.Opts.Ballast > 0 {
		r.writeBallast(r.b.Opts.Ballast)
	}
	r.primeIfCleanupAhead(0, 0)
	prevLive := emptyLive(nh)
	i := 0
	for i < len(ss) && !r.dead {
		s := ss[i]
		switch s.A.Name {
		case "Append":
			if err := r.st.SetWALEntry(mkEntry(realHeight(s.A.H), s.A.ID)); err != nil {
				r.diverge("wal-append-error", "SetWALEntry failed: "+err.Error(), i, "ok", err.Error())
			}
			r.compareMem(s.Live, i, "Append")
			i++
		case "Prune":
			if err := r.st.DeleteWALEntries(realHeight(s.A.H)); err != nil {
				r.diverge("wal-prune-error", "DeleteWALEntries failed: "+err.Error(), i, "ok", err.Error())
			}
			r.compareMem(s.Live, i, "Prune")
			i++
		case "Flush", "Close":
			j := i + 1
			for j < len(ss) && internal[ss[j].A.Name] {
				j++
			}
			if j < len(ss) && ss[j].A.Name == "Crash" && ss[j].A.At != "idle" {
				j++
			}
			r.call(i, j, prevLive)
			i = j
		case "Crash": // between two calls
			r.checkIdleImages(i, [][][]int{prevLive}, "crash@idle")
			subs := r.graveSubsets(r.dir)
			r.adopt(r.dir, restoreFromGrave(subs[r.rng.Intn(len(subs))]))
			r.out.Count("crashes", 1)
			i++
		case "Open":
			if !r.open(i, "after-"+ss[i-1].A.Name+"@"+ss[i-1].A.At+"/"+ss[i-1].A.Tailc) {
				return i
			}
			r.compareMem(s.Live, i, "Open")
			r.primeIfCleanupAhead(i+1, s.Pruned)
			i++
		default:
			panic("wal engine: unexpected action " + s.A.Name)
		}
		if i > 0 && ss[i-1].Mode == "up" && ss[i-1].Pc == "idle" {
			prevLive = ss[i-1].Live
		}
	}
	return i
}

func (r *runner) checkIdleImages(stepNo int, allowed [][][]int, ctx string) {
	for _, sub := range r.graveSubsets(r.dir) {
		r.checkImage(r.dir, fmt.Sprintf("%s/back%d", ctx, len(sub)), stepNo, allowed, restoreFromGrave(sub))
	}
}

// call runs one Flush or Close: ss[i] is the call, ss[i+1..j-1] its internal steps, possibly
// ending in a Crash.
func (r *runner) call(i, j int, before [][]int) {
	ss := r.b.Steps
	first := ss[i]
	isClose := first.A.Name == "Close"
	do := func() error {
		if isClose {
			err := r.st.Close()
			return err
		}
		return r.st.Flush()
	}
	if first.A.Outcome == "noop" {
		if err := do(); err != nil {
			r.diverge("wal-"+strings.ToLower(first.A.Name)+"-error:nothing-pending", "returned "+err.Error(), i, "ok", err.Error())
		}
		if isClose {
			r.st = nil
		} else {
			r.compareMem(first.Live, i, "Flush-noop")
		}
		return
	}
	last := ss[j-1]
	crashed := last.A.Name == "Crash"
	has := map[string]int{}
	for k := i + 1; k < j; k++ {
		has[ss[k].A.Name]++
	}
	committed := has["SyncOk"] > 0
	after := first.Vin // the reading once the batch in flight is durable

	r.dropImages()
	r.file, r.preSize, r.postSize = "", 0, 0
	r.failWrite = first.A.Outcome == "werr"
	r.failSync = has["SyncErr"] > 0
	r.armed = true
	if hookAvailable {
		setHook(func(name string) {
			if !strings.HasPrefix(name, "removed") {
				r.snap(name)
			}
		})
	}
	err := do()
	r.armed = false
	setHook(nil)
	if r.failWrite || r.failSync {
		panic("wal engine: injected fault was not consumed")
	}
	r.out.Count("flushes", 1)
	if !committed {
		r.out.Count("failed_flushes", 1)
	}
	if isClose {
		r.st = nil // closed whatever it returned
	}

	// what the call returned
	if !crashed {
		if (err == nil) != (last.Res == "ok") {
			r.diverge(fmt.Sprintf("wal-%s-result:%s:want-%s", strings.ToLower(first.A.Name), outcomeOf(first, has), last.Res),
				fmt.Sprintf("%s returned %v, the specification says %s", first.A.Name, err, last.Res), i, last.Res, fmt.Sprint(err))
			return
		}
	}

	// every image taken during the call must recover to an allowed reading
	if img, ok := r.imgs["werr"]; ok {
		r.checkImage(img, "write-failed/as-is", i, [][][]int{before})
		r.checkImage(img, "write-failed/cut-to-synced", i, [][][]int{before}, truncateLog(r.file, r.preSize))
	}
	syncImg, ok := r.imgs["sync"]
	if !ok && first.A.Outcome == "ok" {
		panic("wal engine: no image at the fsync of the batch")
	}
	if ok {
		r.checkImage(syncImg, "batch-written/whole", i, [][][]int{after})
		if r.postSize > r.preSize {
			cut := r.preSize + r.rng.Int63n(r.strictEnd()-r.preSize)
			r.checkImage(syncImg, "batch-written/cut", i, [][][]int{before}, truncateLog(r.file, cut))
			r.checkImage(syncImg, "batch-written/garbage-after", i, [][][]int{after}, appendBytes(r.file, r.garbage()))
		}
		if r.sweepsDone < r.b.Opts.Sweep && r.postSize > r.preSize {
			r.sweepsDone++
			r.sweep(syncImg, i, before, after)
		}
	}
	cleanup := has["WmTmp"] > 0
	if cleanup && committed {
		r.out.Count("cleanups", 1)
		r.synthesise(syncImg)
		for _, name := range []string{"wm-tmp-written", "wm-renamed", "rotated"} {
			if img, ok := r.imgs[name]; ok {
				r.checkImage(img, "cleanup/"+name, i, [][][]int{after})
			} else {
				panic("wal engine: no image at " + name)
			}
		}
		if img, ok := r.imgs["wm-tmp-written"]; ok { // a torn temporary watermark is never read
			r.checkImage(img, "cleanup/wm-tmp-torn", i, [][][]int{after}, func(disk string) {
				p := filepath.Join(walstore.DefaultWALDir(disk), "prune-watermark.tmp")
				if b, err := os.ReadFile(p); err == nil && len(b) > 1 {
					must(os.WriteFile(p, b[:r.rng.Intn(len(b))], 0o644))
				}
			})
		}
		for k, img := range r.removed {
			for _, sub := range r.graveSubsets(img) {
				r.checkImage(img, fmt.Sprintf("cleanup/removed%d/back%d", k+1, len(sub)), i, [][][]int{after}, restoreFromGrave(sub))
			}
		}
	}
	if r.dead {
		return
	}

	if !crashed {
		if !isClose {
			r.compareMem(last.Live, j-1, first.A.Name+"-"+outcomeOf(first, has))
		}
		// a crash right after the call returned
		r.checkIdleImages(j-1, [][][]int{last.Live}, "after-"+first.A.Name+"-"+outcomeOf(first, has))
		if cleanup && !isClose {
			r.primeIfCleanupAhead(j, last.Pruned)
		}
		return
	}

	// the behaviour continues from the image of the crash point
	c := last.A
	r.out.Count("crashes", 1)
	r.out.Count("crash@"+c.At, 1)
	var img string
	var mods []mod
	switch c.At {
	case "written", "serr":
		img = syncImg
		switch c.Tailc {
		case "none":
			mods = append(mods, truncateLog(r.file, r.preSize))
		case "torn":
			if r.strictEnd()-r.preSize < 2 {
				mods = append(mods, truncateLog(r.file, r.preSize))
			} else if r.rng.Intn(2) == 0 {
				mods = append(mods, truncateLog(r.file, r.preSize+1+r.rng.Int63n(r.strictEnd()-r.preSize-1)))
			} else {
				mods = append(mods, flipByte(r.file, r.preSize+r.rng.Int63n(r.strictEnd()-r.preSize), byte(1<<r.rng.Intn(8))))
			}
		}
	case "werr":
		img = r.imgs["werr"]
		if c.Tailc == "none" {
			mods = append(mods, truncateLog(r.file, r.preSize))
		}
	case "c0":
		img = syncImg
	case "ctmp":
		img = r.imgs["wm-tmp-written"]
	case "cren":
		img = r.imgs["wm-renamed"]
		if c.Wmc == "old" {
			img = r.imgs["wm-tmp-written"]
		}
	case "csync":
		img = r.imgs["wm-renamed"]
	case "crm":
		switch {
		case c.Removed == 0 || len(r.removed) == 0:
			img = r.imgs["rotated"]
		case c.Removed >= has["RemoveFile"] || c.Removed > len(r.removed):
			img = r.removed[len(r.removed)-1]
		default:
			img = r.removed[c.Removed-1]
		}
		if img == "" { // nothing was unlinked: the directory after the call is the rotated state
			img = r.dir
		}
		subs := r.graveSubsets(img)
		mods = append(mods, restoreFromGrave(subs[r.rng.Intn(len(subs))]))
	default:
		panic("wal engine: crash at unknown point " + c.At)
	}
	if img == "" {
		panic("wal engine: no image for a crash at " + c.At)
	}
	if c.At != "crm" {
		mods = append(mods, restoreFromGrave(nil))
	}
	r.adopt(img, mods...)
}

// strictEnd: pebble's log writer zero-fills the rest of a 32 KiB block when fewer than 11 bytes
// (a chunk header) are left after a record, in the same write.  So the last 10 bytes of what a
// Flush wrote may be padding AFTER the complete record: a cut or a corruption there leaves the
// whole batch readable (which the property allows).  Before strictEnd the record itself is hit.
func (r *runner) strictEnd() int64 {
	const maxPadding = 10
	if e := r.postSize - maxPadding; e > r.preSize {
		return e
	}
	return r.preSize + 1
}

func outcomeOf(first step, has map[string]int) string {
	switch {
	case first.A.Outcome == "werr":
		return "write-error"
	case has["SyncErr"] > 0:
		return "sync-error"
	case has["WmTmp"] > 0:
		return "ok+cleanup"
	default:
		return "ok"
	}
}

func (r *runner) garbage() []byte {
	b := make([]byte, 1+r.rng.Intn(40))
	r.rng.Read(b)
	return b
}

// synthesise builds the two watermark images when juno does not carry the crash-point hook.
func (r *runner) synthesise(syncImg string) {
	if hookAvailable || syncImg == "" {
		return
	}
	wm, err := os.ReadFile(filepath.Join(r.walDir(), "prune-watermark"))
	if err != nil {
		return
	}
	if _, ok := r.imgs["wm-tmp-written"]; !ok {
		p := r.copyDisk(syncImg, "synth-tmp")
		must(os.WriteFile(filepath.Join(walstore.DefaultWALDir(p), "prune-watermark.tmp"), wm, 0o644))
		r.imgs["wm-tmp-written"] = p
	}
	if _, ok := r.imgs["wm-renamed"]; !ok {
		p := r.copyDisk(syncImg, "synth-ren")
		must(os.WriteFile(filepath.Join(walstore.DefaultWALDir(p), "prune-watermark"), wm, 0o644))
		r.imgs["wm-renamed"] = p
	}
	if _, ok := r.imgs["rotated"]; !ok && len(r.removed) == 0 {
		r.imgs["rotated"] = r.copyDisk(r.dir, "synth-rot")
	}
}

// sweep: the log written by this call, cut at EVERY byte offset past the last synced record, and
// with every byte of the new batch corrupted (one bit, and all bits).
func (r *runner) sweep(syncImg string, stepNo int, before, after [][]int) {
	disk := r.copyDisk(syncImg, "sweep")
	defer os.RemoveAll(disk)
	p := filepath.Join(walstore.DefaultWALDir(disk), r.file)
	orig, err := os.ReadFile(p)
	must(err)
	if int64(len(orig)) != r.postSize {
		panic("wal engine: sweep image size mismatch")
	}
	try := func(content []byte, ctx string, allowed ...[][]int) bool {
		must(os.WriteFile(p, content, 0o644))
		r.out.Count("sweep_opens", 1)
		r.checkDisk(disk, ctx, stepNo, allowed)
		return !r.dead
	}
	// inside the record: the batch must be gone; in the (possible) block padding behind it: gone or whole
	at := func(off int64) [][][]int {
		if off < r.strictEnd() {
			return [][][]int{before}
		}
		return [][][]int{before, after}
	}
	for cut := r.preSize; cut < r.postSize; cut++ {
		if !try(orig[:cut], fmt.Sprintf("sweep/cut@+%d/%d", cut-r.preSize, r.postSize-r.preSize), at(cut)...) {
			return
		}
	}
	for off := r.preSize; off < r.postSize; off++ {
		masks := []byte{byte(1 << r.rng.Intn(8)), 0xff}
		if r.b.Opts.Flips < 2 {
			masks = masks[r.rng.Intn(2):][:1]
		}
		for _, mask := range masks {
			c := bytes.Clone(orig)
			c[off] ^= mask
			if !try(c, fmt.Sprintf("sweep/flip@+%d/%d", off-r.preSize, r.postSize-r.preSize), at(off)...) {
				return
			}
		}
	}
	// zero-filled and garbage-filled tails of every length class
	for _, n := range []int{1, 7, 11, 64} {
		if !try(append(bytes.Clone(orig), make([]byte, n)...), fmt.Sprintf("sweep/zeros-after+%d", n), after) {
			return
		}
		g := make([]byte, n)
		r.rng.Read(g)
		if !try(append(bytes.Clone(orig), g...), fmt.Sprintf("sweep/garbage-after+%d", n), after) {
			return
		}
	}
	r.out.Count("sweeps", 1)
}

// ---------------------------------------------------------------- entry point

func TestWalReplay(t *testing.T) {
	if !vh.Enabled() {
		t.Skip()
	}
	var in input
	if err := vh.Input(&in); err != nil {
		t.Fatal(err)
	}
	out := vh.NewResult()
	defer out.Write()
	if in.Interval <= 0 || in.Interval >= realInterval {
		t.Fatalf("bad interval %d", in.Interval)
	}
	installFS()
	if in.Selftest {
		// flip one expected reading: the binding must notice
		b := &in.Behaviours[0]
		done := false
		for k := range b.Steps {
			s := &b.Steps[k]
			if s.A.Name == "SyncOk" && s.Pc == "idle" {
				for h := range s.Live {
					if len(s.Live[h]) > 0 && !done {
						s.Live[h] = append([]int{}, s.Live[h][:len(s.Live[h])-1]...)
						done = true
					}
				}
			}
			if done {
				break
			}
		}
		if !done {
			t.Fatal("selftest: no step to corrupt")
		}
	}
	base, err := os.MkdirTemp(vh.Scratch(), "wal.")
	if err != nil {
		t.Fatal(err)
	}
	defer os.RemoveAll(base)
	total := 0
	for bi := range in.Behaviours {
		b := &in.Behaviours[bi]
		if len(b.Steps) == 0 {
			continue
		}
		r := &runner{t: t, out: out, in: &in, bi: bi, b: b,
			rng:  rand.New(rand.NewSource(b.Opts.RSeed)),
			root: filepath.Join(base, fmt.Sprintf("b%05d", bi))}
		must(os.MkdirAll(r.root, 0o755))
		total += r.run()
		if bi < 2 {
			out.Sample(vh.J{"behaviour": bi, "steps": len(b.Steps), "first_steps": b.Steps[:min(8, len(b.Steps))]})
		}
	}
	out.Count("hook", map[bool]int{true: 1, false: 0}[hookAvailable])
	out.Done(len(in.Behaviours), total)
}

package blockverify

// Inapplicable state diffs (BlockVerify.tla OfferInapplicable): a valid successor whose diff cannot
// be applied to the current state, altered in a way that neither the block hash nor the state root
// shows. The state-diff commitment folds deployed+replaced contracts into one list and
// declared+migrated classes into another; the root depends on the resulting (class, nonce,
// storage) / class leaf only.
//
//	moves (every declared hash kept, and still recomputing):
//	  redeploy       an entry of an EXISTING contract moves from replaced_classes to deployed_contracts
//	  replace-new    the entry of a contract this block deploys moves to replaced_classes
//	  migrate-new    the entry of a class this block declares moves to migrated_compiled_classes
//	  redeclare      the entry of an existing class this block migrates moves to declared_classes
//	                 (its genuine definition attached)
//	adds (block re-sealed by the producer's hash function; the entry re-states what the state holds):
//	  redeploy-same  deployed_contracts gains (existing contract -> its current class)
//	  redeclare-same declared_classes gains (existing Sierra class -> the compiled hash its leaf holds)
//	  migrate-again  migrated_compiled_classes gains (already migrated class -> its V2 hash)

import (
	"fmt"

	"github.com/NethermindEth/juno/core"
	"github.com/NethermindEth/juno/core/felt"
	"github.com/NethermindEth/juno/db/memory"

	"verifharness/internal/chainkit"
	"verifharness/internal/faultkv"
)

func ensureMaps(d *core.StateDiff) {
	if d.DeployedContracts == nil {
		d.DeployedContracts = map[felt.Felt]*felt.Felt{}
	}
	if d.ReplacedClasses == nil {
		d.ReplacedClasses = map[felt.Felt]*felt.Felt{}
	}
	if d.DeclaredV1Classes == nil {
		d.DeclaredV1Classes = map[felt.Felt]*felt.Felt{}
	}
	if d.MigratedClasses == nil {
		d.MigratedClasses = map[felt.SierraClassHash]felt.CasmClassHash{}
	}
}

func cp(f felt.Felt) *felt.Felt { return &f }

// makeInapplicable alters o (a private deep copy of the pristine offer). It returns a description
// of the target, or "" when the block / the world has no target for this kind (the specification
// only offers a kind when one exists: the caller treats "" as a machinery error).
func (s *session) makeInapplicable(o *offer, kind string) string {
	d := o.U.StateDiff
	if d == nil {
		return ""
	}
	ensureMaps(d)
	w := s.w
	plain := map[felt.Felt]bool{}
	for _, a := range w.plain {
		plain[a] = true
	}
	switch kind {
	case "redeploy":
		ks := sortedKeys(d.ReplacedClasses)
		if len(ks) == 0 {
			return ""
		}
		k := ks[0]
		for _, c := range ks { // a contract without nonce and storage keeps the root on either backend
			if plain[c] {
				k = c
				break
			}
		}
		d.DeployedContracts[k] = d.ReplacedClasses[k]
		delete(d.ReplacedClasses, k)
		return fmt.Sprintf("contract %s (plain=%v)", k.String(), plain[k])
	case "replace-new":
		ks := sortedKeys(d.DeployedContracts)
		if len(ks) == 0 {
			return ""
		}
		d.ReplacedClasses[ks[0]] = d.DeployedContracts[ks[0]]
		delete(d.DeployedContracts, ks[0])
		return "contract " + ks[0].String()
	case "migrate-new":
		ks := sortedKeys(d.DeclaredV1Classes)
		if len(ks) == 0 {
			return ""
		}
		d.MigratedClasses[felt.SierraClassHash(ks[0])] = felt.CasmClassHash(*d.DeclaredV1Classes[ks[0]])
		delete(d.DeclaredV1Classes, ks[0])
		if s.g.R.Intn(2) == 0 { // with or without the (now unannounced) definition
			delete(o.C, ks[0])
		}
		return "class " + ks[0].String()
	case "redeclare":
		if len(d.MigratedClasses) == 0 {
			return ""
		}
		var ks []felt.Felt
		for k := range d.MigratedClasses {
			ks = append(ks, felt.Felt(k))
		}
		k := ks[0]
		for _, c := range ks {
			if c.Cmp(&k) < 0 {
				k = c
			}
		}
		def := w.defs[k]
		if def == nil {
			return ""
		}
		d.DeclaredV1Classes[k] = cp(felt.Felt(d.MigratedClasses[felt.SierraClassHash(k)]))
		delete(d.MigratedClasses, felt.SierraClassHash(k))
		o.C[k] = def
		return "class " + k.String()
	case "redeploy-same":
		if len(w.contracts) == 0 {
			return ""
		}
		y := w.contracts[s.g.R.Intn(len(w.contracts))]
		if len(w.plain) > 0 {
			y = w.plain[len(w.plain)-1]
		}
		st, closer, err := s.node.BC.HeadState()
		if err != nil {
			return ""
		}
		ch, err := st.ContractClassHash(&y)
		_ = closer()
		if err != nil {
			return ""
		}
		d.DeployedContracts[y] = cp(ch)
		return fmt.Sprintf("contract %s (plain=%v)", y.String(), plain[y])
	case "redeclare-same":
		if len(w.sierra) == 0 {
			return ""
		}
		h := w.sierra[s.g.R.Intn(len(w.sierra))]
		d.DeclaredV1Classes[h] = cp(w.casmNow[h])
		o.C[h] = w.defs[h]
		return "class " + h.String()
	case "migrate-again":
		if len(w.migrated) == 0 {
			return ""
		}
		m := w.migrated[s.g.R.Intn(len(w.migrated))]
		d.MigratedClasses[felt.SierraClassHash(m)] = felt.CasmClassHash(w.casmV2[m])
		return "class " + m.String()
	}
	return ""
}

// cloneNode builds a new node over a private copy of a database dump (new objects: as after a restart).
func (s *session) cloneNode(dump []faultkv.KV) (*faultkv.Store, *chainkit.Node, error) {
	st := memory.New()
	for _, kv := range dump {
		if err := st.Put(kv.K, kv.V); err != nil {
			return nil, nil, err
		}
	}
	fk := faultkv.Wrap(st)
	return fk, chainkit.NewNode(fk, s.node.NewState), nil
}

// revertProbe: on a private copy of the database, can the head block be reverted? ("" = yes)
func (s *session) revertProbe() string {
	dump, err := faultkv.Dump(s.fk)
	if err != nil {
		return "dump: " + err.Error()
	}
	_, n, err := s.cloneNode(dump)
	if err != nil {
		return "clone: " + err.Error()
	}
	out := guarded(func() outcome {
		if err := n.BC.RevertHead(); err != nil {
			return outcome{Kind: "error", Err: err.Error()}
		}
		return outcome{Kind: "ok"}
	})
	if out.Kind == "ok" {
		return ""
	}
	return out.Kind + ": " + out.Err
}

// restore puts the session's node back on the database as it was in dump (after the real code
// stored a block the specification rejects: the behaviour goes on from the state the
// specification is in).
func (s *session) restore(dump []faultkv.KV) error {
	fk, n, err := s.cloneNode(dump)
	if err != nil {
		return err
	}
	s.fk, s.node = fk, n
	return nil
}

func backendName(newState bool) string {
	if newState {
		return "core/state"
	}
	return "core/deprecatedstate"
}

// Engine "blockverify" (property C02): replays BlockVerify.tla behaviours on a real
// blockchain.Blockchain. Valid blocks come from chainkit (the real Simulate on a twin node); a
// tampered offer is a deep copy with exactly ONE concrete field altered and every declared hash
// kept. This file: offers, deep copy, block content generator, the mutator table (one entry per
// field name of MCBlockVerify.tla) and the struct-field classification that keeps it complete.
package blockverify

import (
	"fmt"
	"math/big"
	"reflect"
	"sort"
	"strings"

	"github.com/NethermindEth/juno/core"
	"github.com/NethermindEth/juno/core/felt"
	"github.com/bits-and-blooms/bloom/v3"

	"verifharness/internal/chainkit"
)

// offer is what a peer / the feeder hands to the sync pipeline.
type offer struct {
	B *core.Block
	U *core.StateUpdate
	C map[felt.Felt]core.ClassDefinition
}

// ------------------------------------------------------------------ deep copy

var (
	bloomType  = reflect.TypeOf((*bloom.BloomFilter)(nil))
	bigIntType = reflect.TypeOf((*big.Int)(nil))
)

// deepCopy copies v without sharing any pointer, slice or map (nil stays nil, empty stays empty).
func deepCopy(v reflect.Value) reflect.Value {
	switch v.Kind() {
	case reflect.Ptr:
		if v.IsNil() {
			return reflect.Zero(v.Type())
		}
		switch v.Type() {
		case bloomType:
			return reflect.ValueOf(v.Interface().(*bloom.BloomFilter).Copy())
		case bigIntType:
			return reflect.ValueOf(new(big.Int).Set(v.Interface().(*big.Int)))
		}
		n := reflect.New(v.Type().Elem())
		n.Elem().Set(deepCopy(v.Elem()))
		return n
	case reflect.Interface:
		if v.IsNil() {
			return reflect.Zero(v.Type())
		}
		n := reflect.New(v.Type()).Elem()
		n.Set(deepCopy(v.Elem()))
		return n
	case reflect.Struct:
		n := reflect.New(v.Type()).Elem()
		for i := 0; i < v.NumField(); i++ {
			if !v.Type().Field(i).IsExported() {
				panic("deepCopy: unexported field in " + v.Type().String())
			}
			n.Field(i).Set(deepCopy(v.Field(i)))
		}
		return n
	case reflect.Slice:
		if v.IsNil() {
			return reflect.Zero(v.Type())
		}
		n := reflect.MakeSlice(v.Type(), v.Len(), v.Len())
		for i := 0; i < v.Len(); i++ {
			n.Index(i).Set(deepCopy(v.Index(i)))
		}
		return n
	case reflect.Map:
		if v.IsNil() {
			return reflect.Zero(v.Type())
		}
		n := reflect.MakeMapWithSize(v.Type(), v.Len())
		it := v.MapRange()
		for it.Next() {
			n.SetMapIndex(deepCopy(it.Key()), deepCopy(it.Value()))
		}
		return n
	case reflect.Array:
		n := reflect.New(v.Type()).Elem()
		reflect.Copy(n, v)
		return n
	default:
		return v
	}
}

func (o *offer) clone() *offer {
	c := &offer{
		B: deepCopy(reflect.ValueOf(o.B)).Interface().(*core.Block),
		U: deepCopy(reflect.ValueOf(o.U)).Interface().(*core.StateUpdate),
		C: map[felt.Felt]core.ClassDefinition{},
	}
	for k, v := range o.C { // class definitions are never mutated, only re-keyed
		c.C[k] = v
	}
	return c
}

// ------------------------------------------------------------------ small helpers

var one = felt.FromUint64[felt.Felt](1)

func bump(f *felt.Felt) *felt.Felt { return new(felt.Felt).Add(f, &one) }

func sortedKeys[V any](m map[felt.Felt]V) []felt.Felt {
	ks := make([]felt.Felt, 0, len(m))
	for k := range m {
		ks = append(ks, k)
	}
	sort.Slice(ks, func(i, j int) bool { return ks[i].Cmp(&ks[j]) < 0 })
	return ks
}

func txKind(tx core.Transaction) string {
	v := func(t *core.TransactionVersion) string {
		if t == nil {
			return "0"
		}
		w := t.WithoutQueryBit()
		return w.AsFelt().Text(10)
	}
	switch t := tx.(type) {
	case *core.InvokeTransaction:
		return "invoke" + v(t.Version)
	case *core.DeclareTransaction:
		return "declare" + v(t.Version)
	case *core.DeployAccountTransaction:
		return "deployaccount" + v(t.Version)
	case *core.L1HandlerTransaction:
		return "l1handler"
	case *core.DeployTransaction:
		return "deploy"
	}
	return "?"
}

func (o *offer) findTx(kind string) (int, core.Transaction) {
	for i, tx := range o.B.Transactions {
		if txKind(tx) == kind {
			return i, tx
		}
	}
	return -1, nil
}

func txHashPtr(tx core.Transaction) **felt.Felt {
	switch t := tx.(type) {
	case *core.InvokeTransaction:
		return &t.TransactionHash
	case *core.DeclareTransaction:
		return &t.TransactionHash
	case *core.DeployAccountTransaction:
		return &t.TransactionHash
	case *core.L1HandlerTransaction:
		return &t.TransactionHash
	case *core.DeployTransaction:
		return &t.TransactionHash
	}
	return nil
}

func txSigPtr(tx core.Transaction) *[]felt.Felt {
	switch t := tx.(type) {
	case *core.InvokeTransaction:
		return &t.TransactionSignature
	case *core.DeclareTransaction:
		return &t.TransactionSignature
	case *core.DeployAccountTransaction:
		return &t.TransactionSignature
	}
	return nil
}

// ------------------------------------------------------------------ mutators

// a mutator alters exactly one field of o (a private deep copy); false = no target in this block
type mutator func(o *offer) bool

func feltField(get func(tx core.Transaction) **felt.Felt) func(core.Transaction) bool {
	return func(tx core.Transaction) bool {
		p := get(tx)
		if p == nil || *p == nil {
			return false
		}
		*p = bump(*p)
		return true
	}
}

func sliceElem(get func(tx core.Transaction) *[]felt.Felt) func(core.Transaction) bool {
	return func(tx core.Transaction) bool {
		p := get(tx)
		if p == nil || len(*p) == 0 {
			return false
		}
		(*p)[len(*p)-1] = *bump(&(*p)[len(*p)-1])
		return true
	}
}

func sliceAppend(get func(tx core.Transaction) *[]felt.Felt) func(core.Transaction) bool {
	return func(tx core.Transaction) bool {
		p := get(tx)
		if p == nil {
			return false
		}
		*p = append(*p, felt.FromUint64[felt.Felt](77))
		return true
	}
}

func sliceDrop(get func(tx core.Transaction) *[]felt.Felt) func(core.Transaction) bool {
	return func(tx core.Transaction) bool {
		p := get(tx)
		if p == nil || len(*p) == 0 {
			return false
		}
		*p = (*p)[:len(*p)-1]
		return true
	}
}

type v3fields struct {
	rb      *map[core.Resource]core.ResourceBounds
	tip     *uint64
	nonceDA *core.DataAvailabilityMode
	feeDA   *core.DataAvailabilityMode
	pay     *[]felt.Felt
	acc     *[]felt.Felt
}

func v3(tx core.Transaction) *v3fields {
	switch t := tx.(type) {
	case *core.InvokeTransaction:
		return &v3fields{&t.ResourceBounds, &t.Tip, &t.NonceDAMode, &t.FeeDAMode, &t.PaymasterData, &t.AccountDeploymentData}
	case *core.DeclareTransaction:
		return &v3fields{&t.ResourceBounds, &t.Tip, &t.NonceDAMode, &t.FeeDAMode, &t.PaymasterData, &t.AccountDeploymentData}
	case *core.DeployAccountTransaction:
		return &v3fields{&t.ResourceBounds, &t.Tip, &t.NonceDAMode, &t.FeeDAMode, &t.PaymasterData, nil}
	}
	return nil
}

func txVersionPtr(tx core.Transaction) **core.TransactionVersion {
	switch t := tx.(type) {
	case *core.InvokeTransaction:
		return &t.Version
	case *core.DeclareTransaction:
		return &t.Version
	case *core.DeployAccountTransaction:
		return &t.Version
	case *core.L1HandlerTransaction:
		return &t.Version
	case *core.DeployTransaction:
		return &t.Version
	}
	return nil
}

// txFieldMutator returns the alteration of one transaction field (by its spec name suffix).
func txFieldMutator(field string) func(core.Transaction) bool {
	inv := func(tx core.Transaction) *core.InvokeTransaction { t, _ := tx.(*core.InvokeTransaction); return t }
	dec := func(tx core.Transaction) *core.DeclareTransaction { t, _ := tx.(*core.DeclareTransaction); return t }
	dep := func(tx core.Transaction) *core.DeployTransaction {
		switch t := tx.(type) {
		case *core.DeployAccountTransaction:
			return &t.DeployTransaction
		case *core.DeployTransaction:
			return t
		}
		return nil
	}
	dac := func(tx core.Transaction) *core.DeployAccountTransaction {
		t, _ := tx.(*core.DeployAccountTransaction)
		return t
	}
	l1h := func(tx core.Transaction) *core.L1HandlerTransaction {
		t, _ := tx.(*core.L1HandlerTransaction)
		return t
	}
	rbAlter := func(res core.Resource, price, drop bool) func(core.Transaction) bool {
		return func(tx core.Transaction) bool {
			f := v3(tx)
			if f == nil || *f.rb == nil {
				return false
			}
			b, ok := (*f.rb)[res]
			if !ok || b.MaxPricePerUnit == nil {
				return false
			}
			switch {
			case drop:
				delete(*f.rb, res)
				return true
			case price:
				b.MaxPricePerUnit = bump(b.MaxPricePerUnit)
			default:
				b.MaxAmount++
			}
			(*f.rb)[res] = b
			return true
		}
	}
	switch field {
	case "contract_address":
		return feltField(func(tx core.Transaction) **felt.Felt {
			switch t := tx.(type) {
			case *core.InvokeTransaction:
				return &t.ContractAddress
			case *core.L1HandlerTransaction:
				return &t.ContractAddress
			}
			if d := dep(tx); d != nil {
				return &d.ContractAddress
			}
			return nil
		})
	case "entry_point_selector":
		return feltField(func(tx core.Transaction) **felt.Felt {
			if t := inv(tx); t != nil {
				return &t.EntryPointSelector
			}
			if t := l1h(tx); t != nil {
				return &t.EntryPointSelector
			}
			return nil
		})
	case "calldata.elem", "calldata.append":
		get := func(tx core.Transaction) *[]felt.Felt {
			if t := inv(tx); t != nil {
				return &t.CallData
			}
			if t := l1h(tx); t != nil {
				return &t.CallData
			}
			return nil
		}
		if field == "calldata.elem" {
			return sliceElem(get)
		}
		return sliceAppend(get)
	case "ctor_calldata.elem", "ctor_calldata.append":
		get := func(tx core.Transaction) *[]felt.Felt {
			if d := dep(tx); d != nil {
				return &d.ConstructorCallData
			}
			return nil
		}
		if field == "ctor_calldata.elem" {
			return sliceElem(get)
		}
		return sliceAppend(get)
	case "max_fee":
		return feltField(func(tx core.Transaction) **felt.Felt {
			switch t := tx.(type) {
			case *core.InvokeTransaction:
				return &t.MaxFee
			case *core.DeclareTransaction:
				return &t.MaxFee
			case *core.DeployAccountTransaction:
				return &t.MaxFee
			}
			return nil
		})
	case "nonce":
		return feltField(func(tx core.Transaction) **felt.Felt {
			switch t := tx.(type) {
			case *core.InvokeTransaction:
				return &t.Nonce
			case *core.DeclareTransaction:
				return &t.Nonce
			case *core.DeployAccountTransaction:
				return &t.Nonce
			case *core.L1HandlerTransaction:
				return &t.Nonce
			}
			return nil
		})
	case "sender_address":
		return feltField(func(tx core.Transaction) **felt.Felt {
			if t := inv(tx); t != nil {
				return &t.SenderAddress
			}
			if t := dec(tx); t != nil {
				return &t.SenderAddress
			}
			return nil
		})
	case "class_hash":
		return feltField(func(tx core.Transaction) **felt.Felt {
			if t := dec(tx); t != nil {
				return &t.ClassHash
			}
			if d := dep(tx); d != nil {
				return &d.ClassHash
			}
			return nil
		})
	case "compiled_class_hash":
		return feltField(func(tx core.Transaction) **felt.Felt {
			if t := dec(tx); t != nil {
				return &t.CompiledClassHash
			}
			return nil
		})
	case "salt":
		return feltField(func(tx core.Transaction) **felt.Felt {
			if d := dep(tx); d != nil {
				return &d.ContractAddressSalt
			}
			return nil
		})
	case "version": // set the query bit: the same transaction version, another hashed value
		return func(tx core.Transaction) bool {
			p := txVersionPtr(tx)
			if p == nil || *p == nil {
				return false
			}
			q := new(felt.Felt).Exp(felt.NewFromUint64[felt.Felt](2), big.NewInt(128))
			nv := core.TransactionVersion(*new(felt.Felt).Add((*p).AsFelt(), q))
			*p = &nv
			return true
		}
	case "tip":
		return func(tx core.Transaction) bool {
			f := v3(tx)
			if f == nil {
				return false
			}
			*f.tip++
			return true
		}
	case "nonce_da_mode", "fee_da_mode":
		return func(tx core.Transaction) bool {
			f := v3(tx)
			if f == nil {
				return false
			}
			p := f.nonceDA
			if field == "fee_da_mode" {
				p = f.feeDA
			}
			*p = 1 - *p
			return true
		}
	case "paymaster_data":
		return func(tx core.Transaction) bool {
			f := v3(tx)
			if f == nil {
				return false
			}
			*f.pay = append(*f.pay, felt.FromUint64[felt.Felt](5))
			return true
		}
	case "account_deployment_data":
		return func(tx core.Transaction) bool {
			f := v3(tx)
			if f == nil || f.acc == nil {
				return false
			}
			*f.acc = append(*f.acc, felt.FromUint64[felt.Felt](5))
			return true
		}
	case "proof_facts":
		return func(tx core.Transaction) bool {
			t := inv(tx)
			if t == nil {
				return false
			}
			t.ProofFacts = append(t.ProofFacts, felt.FromUint64[felt.Felt](9))
			return true
		}
	case "rb.l1_gas.max_amount":
		return rbAlter(core.ResourceL1Gas, false, false)
	case "rb.l1_gas.max_price":
		return rbAlter(core.ResourceL1Gas, true, false)
	case "rb.l2_gas.max_amount":
		return rbAlter(core.ResourceL2Gas, false, false)
	case "rb.l2_gas.max_price":
		return rbAlter(core.ResourceL2Gas, true, false)
	case "rb.l1_data_gas.max_amount":
		return rbAlter(core.ResourceL1DataGas, false, false)
	case "rb.l1_data_gas.max_price":
		return rbAlter(core.ResourceL1DataGas, true, false)
	case "rb.l1_data_gas.drop":
		return rbAlter(core.ResourceL1DataGas, false, true)
	}
	_ = dac
	return nil
}

// receipts helpers
func (o *offer) receiptWith(pred func(r *core.TransactionReceipt) bool) *core.TransactionReceipt {
	for _, r := range o.B.Receipts {
		if pred(r) {
			return r
		}
	}
	return nil
}

func newEvent(seed uint64) *core.Event {
	return &core.Event{From: chainkit.F(seed), Keys: []felt.Felt{*chainkit.F(seed + 1)}, Data: []felt.Felt{*chainkit.F(seed + 2)}}
}

func eventEq(a, b *core.Event) bool       { return reflect.DeepEqual(a, b) }
func msgEq(a, b *core.L2ToL1Message) bool { return reflect.DeepEqual(a, b) }

// mutatorFor resolves a field name of MCBlockVerify.tla; nil = unknown name (machinery error).
func mutatorFor(name string) mutator {
	if strings.HasPrefix(name, "tx.") {
		parts := strings.SplitN(name, ".", 3)
		if len(parts) < 3 {
			return nil
		}
		kind, field := parts[1], parts[2]
		switch field {
		case "hash":
			return func(o *offer) bool {
				_, tx := o.findTx(kind)
				if tx == nil || *txHashPtr(tx) == nil {
					return false
				}
				p := txHashPtr(tx)
				*p = bump(*p)
				return true
			}
		case "hash_and_receipt":
			return func(o *offer) bool {
				i, tx := o.findTx(kind)
				if tx == nil || *txHashPtr(tx) == nil {
					return false
				}
				p := txHashPtr(tx)
				*p = bump(*p)
				o.B.Receipts[i].TransactionHash = bump(o.B.Receipts[i].TransactionHash)
				return true
			}
		case "signature.elem", "signature.append", "signature.drop":
			f := map[string]func(func(core.Transaction) *[]felt.Felt) func(core.Transaction) bool{
				"signature.elem": sliceElem, "signature.append": sliceAppend, "signature.drop": sliceDrop}[field](txSigPtr)
			return func(o *offer) bool {
				_, tx := o.findTx(kind)
				return tx != nil && f(tx)
			}
		}
		f := txFieldMutator(field)
		if f == nil {
			return nil
		}
		return func(o *offer) bool {
			_, tx := o.findTx(kind)
			return tx != nil && f(tx)
		}
	}
	h := func(f func(b *core.Block) bool) mutator { return func(o *offer) bool { return f(o.B) } }
	sd := func(f func(d *core.StateDiff) bool) mutator {
		return func(o *offer) bool { return o.U.StateDiff != nil && f(o.U.StateDiff) }
	}
	fresh := *chainkit.F(0xabcdef12345)
	switch name {
	// ---- header
	case "hdr.number":
		return h(func(b *core.Block) bool { b.Number++; return true })
	case "hdr.parent_hash":
		return h(func(b *core.Block) bool { b.ParentHash = bump(b.ParentHash); return true })
	case "hdr.state_root":
		return func(o *offer) bool {
			o.B.GlobalStateRoot = bump(o.B.GlobalStateRoot)
			o.U.NewRoot = bump(o.U.NewRoot)
			return true
		}
	case "hdr.sequencer":
		return h(func(b *core.Block) bool {
			if b.SequencerAddress == nil {
				return false
			}
			b.SequencerAddress = bump(b.SequencerAddress)
			return true
		})
	case "hdr.timestamp":
		return h(func(b *core.Block) bool { b.Timestamp++; return true })
	case "hdr.tx_count":
		return h(func(b *core.Block) bool { b.TransactionCount++; return true })
	case "hdr.event_count":
		return h(func(b *core.Block) bool { b.EventCount++; return true })
	case "hdr.l1_da_mode":
		return h(func(b *core.Block) bool { b.L1DAMode = 1 - b.L1DAMode; return true })
	case "hdr.protocol_version":
		return h(func(b *core.Block) bool {
			// the neighbouring patch version: same hash formula, another hashed string
			next := map[string]string{"0.13.2": "0.13.3", "0.13.4": "0.13.5", "0.14.0": "0.14.1", "0.14.1": "0.14.0"}
			if n, ok := next[b.ProtocolVersion]; ok {
				b.ProtocolVersion = n
				return true
			}
			return false
		})
	case "hdr.l1_gas_price_wei":
		return h(func(b *core.Block) bool {
			if b.L1GasPriceETH == nil {
				return false
			}
			b.L1GasPriceETH = bump(b.L1GasPriceETH)
			return true
		})
	case "hdr.l1_gas_price_fri":
		return h(func(b *core.Block) bool {
			if b.L1GasPriceSTRK == nil {
				return false
			}
			b.L1GasPriceSTRK = bump(b.L1GasPriceSTRK)
			return true
		})
	case "hdr.l1_data_gas_price_wei", "hdr.l1_data_gas_price_fri", "hdr.l2_gas_price_wei", "hdr.l2_gas_price_fri":
		return h(func(b *core.Block) bool {
			gp := b.L1DataGasPrice
			if strings.HasPrefix(name, "hdr.l2") {
				gp = b.L2GasPrice
			}
			if gp == nil || gp.PriceInWei == nil || gp.PriceInFri == nil {
				return false
			}
			if strings.HasSuffix(name, "_wei") {
				gp.PriceInWei = bump(gp.PriceInWei)
			} else {
				gp.PriceInFri = bump(gp.PriceInFri)
			}
			return true
		})
	// ---- state update linkage
	case "su.block_hash":
		return func(o *offer) bool { o.U.BlockHash = bump(o.U.BlockHash); return true }
	case "su.new_root":
		return func(o *offer) bool { o.U.NewRoot = bump(o.U.NewRoot); return true }
	// ---- transaction list structure
	case "txs.reorder":
		return h(func(b *core.Block) bool {
			if len(b.Transactions) < 2 {
				return false
			}
			b.Transactions[0], b.Transactions[1] = b.Transactions[1], b.Transactions[0]
			b.Receipts[0], b.Receipts[1] = b.Receipts[1], b.Receipts[0]
			return true
		})
	case "txs.drop_last":
		return h(func(b *core.Block) bool {
			n := len(b.Transactions)
			if n == 0 {
				return false
			}
			b.Transactions, b.Receipts = b.Transactions[:n-1], b.Receipts[:n-1]
			return true
		})
	case "txs.duplicate_last":
		return h(func(b *core.Block) bool {
			n := len(b.Transactions)
			if n == 0 {
				return false
			}
			b.Transactions = append(b.Transactions, b.Transactions[n-1])
			b.Receipts = append(b.Receipts, b.Receipts[n-1])
			return true
		})
	// ---- receipts
	case "rc.fee":
		return func(o *offer) bool {
			r := o.receiptWith(func(r *core.TransactionReceipt) bool { return r.Fee != nil })
			if r == nil {
				return false
			}
			r.Fee = bump(r.Fee)
			return true
		}
	case "rc.tx_hash":
		return func(o *offer) bool {
			if len(o.B.Receipts) == 0 {
				return false
			}
			r := o.B.Receipts[len(o.B.Receipts)-1]
			r.TransactionHash = bump(r.TransactionHash)
			return true
		}
	case "rc.execution_status.revert":
		return func(o *offer) bool {
			r := o.receiptWith(func(r *core.TransactionReceipt) bool { return !r.Reverted })
			if r == nil {
				return false
			}
			r.Reverted = true
			return true
		}
	case "rc.execution_status.unrevert":
		return func(o *offer) bool {
			r := o.receiptWith(func(r *core.TransactionReceipt) bool { return r.Reverted })
			if r == nil {
				return false
			}
			r.Reverted = false
			return true
		}
	case "rc.revert_reason":
		return func(o *offer) bool {
			r := o.receiptWith(func(r *core.TransactionReceipt) bool { return r.Reverted })
			if r == nil {
				return false
			}
			r.RevertReason += "!"
			return true
		}
	case "rc.l1_gas_consumed", "rc.l1_data_gas_consumed":
		return func(o *offer) bool {
			r := o.receiptWith(func(r *core.TransactionReceipt) bool {
				return r.ExecutionResources != nil && r.ExecutionResources.TotalGasConsumed != nil
			})
			if r == nil {
				return false
			}
			if name == "rc.l1_gas_consumed" {
				r.ExecutionResources.TotalGasConsumed.L1Gas++
			} else {
				r.ExecutionResources.TotalGasConsumed.L1DataGas++
			}
			return true
		}
	case "msg.from", "msg.to", "msg.payload.elem", "msg.payload.append", "msg.payload.drop", "msg.remove":
		return func(o *offer) bool {
			needPayload := name == "msg.payload.elem" || name == "msg.payload.drop"
			r := o.receiptWith(func(r *core.TransactionReceipt) bool {
				return len(r.L2ToL1Message) > 0 && (!needPayload || len(r.L2ToL1Message[0].Payload) > 0)
			})
			if r == nil {
				return false
			}
			m := r.L2ToL1Message[0]
			switch name {
			case "msg.from":
				m.From = bump(m.From)
			case "msg.to":
				m.To[19] ^= 1
			case "msg.payload.elem":
				m.Payload[0] = *bump(&m.Payload[0])
			case "msg.payload.append":
				m.Payload = append(m.Payload, fresh)
			case "msg.payload.drop":
				m.Payload = m.Payload[:len(m.Payload)-1]
			case "msg.remove":
				r.L2ToL1Message = r.L2ToL1Message[1:]
			}
			return true
		}
	case "msg.add":
		return func(o *offer) bool {
			if len(o.B.Receipts) == 0 {
				return false
			}
			r := o.B.Receipts[0]
			r.L2ToL1Message = append(r.L2ToL1Message, &core.L2ToL1Message{From: chainkit.F(3), Payload: []felt.Felt{fresh}})
			return true
		}
	case "msg.reorder":
		return func(o *offer) bool {
			r := o.receiptWith(func(r *core.TransactionReceipt) bool {
				return len(r.L2ToL1Message) > 1 && !msgEq(r.L2ToL1Message[0], r.L2ToL1Message[1])
			})
			if r == nil {
				return false
			}
			r.L2ToL1Message[0], r.L2ToL1Message[1] = r.L2ToL1Message[1], r.L2ToL1Message[0]
			return true
		}
	case "msg.move": // last message of receipt i becomes the first of receipt i+1
		return func(o *offer) bool {
			for i := 0; i+1 < len(o.B.Receipts); i++ {
				a, b := o.B.Receipts[i], o.B.Receipts[i+1]
				if n := len(a.L2ToL1Message); n > 0 {
					m := a.L2ToL1Message[n-1]
					a.L2ToL1Message = a.L2ToL1Message[:n-1]
					b.L2ToL1Message = append([]*core.L2ToL1Message{m}, b.L2ToL1Message...)
					return true
				}
			}
			return false
		}
	// ---- events
	case "ev.from", "ev.key.elem", "ev.key.append", "ev.key.drop", "ev.data.elem", "ev.data.append",
		"ev.data.drop", "ev.key_to_data", "ev.remove":
		return func(o *offer) bool {
			r := o.receiptWith(func(r *core.TransactionReceipt) bool {
				return len(r.Events) > 0 && len(r.Events[0].Keys) > 0 && len(r.Events[0].Data) > 0
			})
			if r == nil {
				return false
			}
			e := r.Events[0]
			switch name {
			case "ev.from":
				e.From = bump(e.From)
			case "ev.key.elem":
				e.Keys[0] = *bump(&e.Keys[0])
			case "ev.key.append":
				e.Keys = append(e.Keys, fresh)
			case "ev.key.drop":
				e.Keys = e.Keys[:len(e.Keys)-1]
			case "ev.data.elem":
				e.Data[0] = *bump(&e.Data[0])
			case "ev.data.append":
				e.Data = append(e.Data, fresh)
			case "ev.data.drop":
				e.Data = e.Data[:len(e.Data)-1]
			case "ev.key_to_data": // same flattened felts, other split between keys and data
				k := e.Keys[len(e.Keys)-1]
				e.Keys = e.Keys[:len(e.Keys)-1]
				e.Data = append([]felt.Felt{k}, e.Data...)
			case "ev.remove":
				r.Events = r.Events[1:]
			}
			return true
		}
	case "ev.add":
		return func(o *offer) bool {
			if len(o.B.Receipts) == 0 {
				return false
			}
			r := o.B.Receipts[0]
			r.Events = append(r.Events, newEvent(0x77))
			return true
		}
	case "ev.reorder":
		return func(o *offer) bool {
			r := o.receiptWith(func(r *core.TransactionReceipt) bool {
				return len(r.Events) > 1 && !eventEq(r.Events[0], r.Events[1])
			})
			if r == nil {
				return false
			}
			r.Events[0], r.Events[1] = r.Events[1], r.Events[0]
			return true
		}
	case "ev.move": // last event of receipt i becomes the first of receipt i+1: same block-wide order
		return func(o *offer) bool {
			for i := 0; i+1 < len(o.B.Receipts); i++ {
				a, b := o.B.Receipts[i], o.B.Receipts[i+1]
				if n := len(a.Events); n > 0 {
					e := a.Events[n-1]
					a.Events = a.Events[:n-1]
					b.Events = append([]*core.Event{e}, b.Events...)
					return true
				}
			}
			return false
		}
	// ---- state diff
	case "sd.storage.value", "sd.storage.key", "sd.storage.addr", "sd.storage.add", "sd.storage.remove":
		return sd(func(d *core.StateDiff) bool {
			var addr felt.Felt
			found := false
			for _, a := range sortedKeys(d.StorageDiffs) {
				if len(d.StorageDiffs[a]) > 0 {
					addr, found = a, true
					break
				}
			}
			if !found {
				if name != "sd.storage.add" {
					return false
				}
				if d.StorageDiffs == nil {
					d.StorageDiffs = map[felt.Felt]map[felt.Felt]*felt.Felt{}
				}
				d.StorageDiffs[fresh] = map[felt.Felt]*felt.Felt{fresh: chainkit.F(1)}
				return true
			}
			m := d.StorageDiffs[addr]
			k := sortedKeys(m)[0]
			switch name {
			case "sd.storage.value":
				m[k] = bump(m[k])
			case "sd.storage.key":
				v := m[k]
				delete(m, k)
				m[*bump(&k)] = v
			case "sd.storage.addr":
				delete(d.StorageDiffs, addr)
				d.StorageDiffs[*bump(&addr)] = m
			case "sd.storage.add":
				m[fresh] = chainkit.F(1)
			case "sd.storage.remove":
				delete(m, k)
			}
			return true
		})
	case "sd.nonce.value", "sd.nonce.addr", "sd.nonce.remove":
		return sd(func(d *core.StateDiff) bool { return alterFeltMap(d.Nonces, name[len("sd.nonce."):]) })
	case "sd.nonce.add":
		return sd(func(d *core.StateDiff) bool {
			if d.Nonces == nil {
				d.Nonces = map[felt.Felt]*felt.Felt{}
			}
			d.Nonces[fresh] = chainkit.F(1)
			return true
		})
	case "sd.deployed.class_hash", "sd.deployed.addr", "sd.deployed.remove":
		return sd(func(d *core.StateDiff) bool { return alterFeltMap(d.DeployedContracts, name[len("sd.deployed."):]) })
	case "sd.deployed.add":
		return sd(func(d *core.StateDiff) bool {
			if d.DeployedContracts == nil {
				d.DeployedContracts = map[felt.Felt]*felt.Felt{}
			}
			d.DeployedContracts[fresh] = chainkit.F(1)
			return true
		})
	case "sd.declared_v0.alter":
		return sd(func(d *core.StateDiff) bool {
			if len(d.DeclaredV0Classes) == 0 {
				return false
			}
			d.DeclaredV0Classes[0] = bump(d.DeclaredV0Classes[0])
			return true
		})
	case "sd.declared_v0.add":
		return sd(func(d *core.StateDiff) bool { d.DeclaredV0Classes = append(d.DeclaredV0Classes, &fresh); return true })
	case "sd.declared_v0.remove":
		return sd(func(d *core.StateDiff) bool {
			if len(d.DeclaredV0Classes) == 0 {
				return false
			}
			d.DeclaredV0Classes = d.DeclaredV0Classes[1:]
			return true
		})
	case "sd.declared_v1.compiled_class_hash", "sd.declared_v1.class_hash", "sd.declared_v1.remove":
		return sd(func(d *core.StateDiff) bool {
			return alterFeltMap(d.DeclaredV1Classes, map[string]string{"compiled_class_hash": "value",
				"class_hash": "addr", "remove": "remove"}[name[len("sd.declared_v1."):]])
		})
	case "sd.declared_v1.add":
		return sd(func(d *core.StateDiff) bool {
			if d.DeclaredV1Classes == nil {
				d.DeclaredV1Classes = map[felt.Felt]*felt.Felt{}
			}
			d.DeclaredV1Classes[fresh] = chainkit.F(1)
			return true
		})
	case "sd.replaced.class_hash", "sd.replaced.remove":
		return sd(func(d *core.StateDiff) bool { return alterFeltMap(d.ReplacedClasses, name[len("sd.replaced."):]) })
	case "sd.replaced.add":
		return sd(func(d *core.StateDiff) bool {
			if d.ReplacedClasses == nil {
				d.ReplacedClasses = map[felt.Felt]*felt.Felt{}
			}
			d.ReplacedClasses[fresh] = chainkit.F(1)
			return true
		})
	case "sd.migrated.casm_hash", "sd.migrated.remove":
		return sd(func(d *core.StateDiff) bool {
			if len(d.MigratedClasses) == 0 {
				return false
			}
			var ks []felt.Felt
			for k := range d.MigratedClasses {
				ks = append(ks, felt.Felt(k))
			}
			sort.Slice(ks, func(i, j int) bool { return ks[i].Cmp(&ks[j]) < 0 })
			k := felt.SierraClassHash(ks[0])
			if name == "sd.migrated.remove" {
				delete(d.MigratedClasses, k)
			} else {
				v := felt.Felt(d.MigratedClasses[k])
				d.MigratedClasses[k] = felt.CasmClassHash(*bump(&v))
			}
			return true
		})
	case "sd.migrated.add":
		return sd(func(d *core.StateDiff) bool {
			if d.MigratedClasses == nil {
				d.MigratedClasses = map[felt.SierraClassHash]felt.CasmClassHash{}
			}
			d.MigratedClasses[felt.SierraClassHash(fresh)] = felt.CasmClassHash(one)
			return true
		})
	}
	return nil
}

// alterFeltMap: how = value | class_hash (alias of value) | addr | remove, on the smallest key.
func alterFeltMap(m map[felt.Felt]*felt.Felt, how string) bool {
	if len(m) == 0 {
		return false
	}
	k := sortedKeys(m)[0]
	switch how {
	case "value", "class_hash":
		m[k] = bump(m[k])
	case "addr":
		v := m[k]
		delete(m, k)
		m[*bump(&k)] = v
	case "remove":
		delete(m, k)
	default:
		panic("alterFeltMap: " + how)
	}
	return true
}

// ------------------------------------------------------------------ completeness of the table

// fieldClass maps every field of the structs a block is made of to the spec field names that
// tamper with it, or to the reason it is deliberately not in Committed. A struct field missing
// here (juno grew a field) fails the engine: the specification constant must be revisited.
var fieldClass = map[string]string{
	"Header.Hash":             "the declared hash (kept by every tamper)",
	"Header.ParentHash":       "hdr.parent_hash",
	"Header.Number":           "hdr.number",
	"Header.GlobalStateRoot":  "hdr.state_root",
	"Header.SequencerAddress": "hdr.sequencer",
	"Header.TransactionCount": "hdr.tx_count",
	"Header.EventCount":       "hdr.event_count",
	"Header.Timestamp":        "hdr.timestamp",
	"Header.ProtocolVersion":  "hdr.protocol_version",
	"Header.EventsBloom":      "uncommitted: derived index, not part of the block hash definition",
	"Header.L1GasPriceETH":    "hdr.l1_gas_price_wei",
	"Header.Signatures":       "uncommitted: consensus signatures over the hash, not hashed",
	"Header.L1GasPriceSTRK":   "hdr.l1_gas_price_fri",
	"Header.L1DAMode":         "hdr.l1_da_mode",
	"Header.L1DataGasPrice":   "hdr.l1_data_gas_price_*",
	"Header.L2GasPrice":       "hdr.l2_gas_price_* (0.13.4+)",
	"GasPrice.PriceInWei":     "hdr.*_wei",
	"GasPrice.PriceInFri":     "hdr.*_fri",

	"StateUpdate.BlockHash": "su.block_hash",
	"StateUpdate.NewRoot":   "su.new_root / hdr.state_root",
	"StateUpdate.OldRoot":   "OfferWrongRoot(oldroot)",
	"StateUpdate.StateDiff": "sd.*",

	"StateDiff.StorageDiffs":      "sd.storage.*",
	"StateDiff.Nonces":            "sd.nonce.*",
	"StateDiff.DeployedContracts": "sd.deployed.*",
	"StateDiff.DeclaredV0Classes": "sd.declared_v0.*",
	"StateDiff.DeclaredV1Classes": "sd.declared_v1.*",
	"StateDiff.ReplacedClasses":   "sd.replaced.*",
	"StateDiff.MigratedClasses":   "sd.migrated.* (0.14.1)",

	"TransactionReceipt.Fee":                "rc.fee",
	"TransactionReceipt.FeeUnit":            "uncommitted: not in the receipt hash definition",
	"TransactionReceipt.Events":             "ev.*",
	"TransactionReceipt.ExecutionResources": "rc.l1_gas_consumed rc.l1_data_gas_consumed (TotalGasConsumed); the rest uncommitted",
	"TransactionReceipt.L1ToL2Message":      "uncommitted: copy of the L1 handler transaction's fields, not in the receipt hash",
	"TransactionReceipt.L2ToL1Message":      "msg.*",
	"TransactionReceipt.TransactionHash":    "rc.tx_hash",
	"TransactionReceipt.Reverted":           "rc.execution_status.*",
	"TransactionReceipt.RevertReason":       "rc.revert_reason",

	"ExecutionResources.BuiltinInstanceCounter": "uncommitted: not in the receipt hash definition",
	"ExecutionResources.MemoryHoles":            "uncommitted: not in the receipt hash definition",
	"ExecutionResources.Steps":                  "uncommitted: not in the receipt hash definition",
	"ExecutionResources.DataAvailability":       "uncommitted: not in the receipt hash definition",
	"ExecutionResources.TotalGasConsumed":       "rc.l1_gas_consumed rc.l1_data_gas_consumed",
	"GasConsumed.L1Gas":                         "rc.l1_gas_consumed",
	"GasConsumed.L1DataGas":                     "rc.l1_data_gas_consumed",
	"GasConsumed.L2Gas":                         "uncommitted: documentation lists it, real 0.13.4+/0.14.x fixtures with non-zero l2_gas verify against a hashed zero (DESIGN: arbitration)",

	"Event.From": "ev.from", "Event.Keys": "ev.key.*", "Event.Data": "ev.data.*",
	"L2ToL1Message.From": "msg.from", "L2ToL1Message.Payload": "msg.payload.*", "L2ToL1Message.To": "msg.to",

	"ResourceBounds.MaxAmount": "tx.*.rb.*.max_amount", "ResourceBounds.MaxPricePerUnit": "tx.*.rb.*.max_price",

	"InvokeTransaction.TransactionHash":       "tx.invoke*.hash",
	"InvokeTransaction.CallData":              "tx.invoke*.calldata.*",
	"InvokeTransaction.TransactionSignature":  "tx.invoke*.signature.*",
	"InvokeTransaction.MaxFee":                "tx.invoke0/1.max_fee",
	"InvokeTransaction.ContractAddress":       "tx.invoke0.contract_address",
	"InvokeTransaction.Version":               "tx.invoke*.version",
	"InvokeTransaction.EntryPointSelector":    "tx.invoke0.entry_point_selector",
	"InvokeTransaction.Nonce":                 "tx.invoke1/3.nonce",
	"InvokeTransaction.SenderAddress":         "tx.invoke1/3.sender_address",
	"InvokeTransaction.ResourceBounds":        "tx.invoke3.rb.*",
	"InvokeTransaction.Tip":                   "tx.invoke3.tip",
	"InvokeTransaction.PaymasterData":         "tx.invoke3.paymaster_data",
	"InvokeTransaction.AccountDeploymentData": "tx.invoke3.account_deployment_data",
	"InvokeTransaction.NonceDAMode":           "tx.invoke3.nonce_da_mode",
	"InvokeTransaction.FeeDAMode":             "tx.invoke3.fee_da_mode",
	"InvokeTransaction.ProofFacts":            "tx.invoke3.proof_facts (0.14.1)",

	"DeclareTransaction.TransactionHash":       "tx.declare*.hash",
	"DeclareTransaction.ClassHash":             "tx.declare*.class_hash",
	"DeclareTransaction.SenderAddress":         "tx.declare*.sender_address",
	"DeclareTransaction.MaxFee":                "tx.declare1/2.max_fee",
	"DeclareTransaction.TransactionSignature":  "tx.declare*.signature.*",
	"DeclareTransaction.Nonce":                 "tx.declare*.nonce",
	"DeclareTransaction.Version":               "tx.declare*.version",
	"DeclareTransaction.CompiledClassHash":     "tx.declare2/3.compiled_class_hash",
	"DeclareTransaction.ResourceBounds":        "tx.declare3.rb.*",
	"DeclareTransaction.Tip":                   "tx.declare3.tip",
	"DeclareTransaction.PaymasterData":         "tx.declare3.paymaster_data",
	"DeclareTransaction.AccountDeploymentData": "tx.declare3.account_deployment_data",
	"DeclareTransaction.NonceDAMode":           "tx.declare3.nonce_da_mode",
	"DeclareTransaction.FeeDAMode":             "tx.declare3.fee_da_mode",

	"DeployTransaction.TransactionHash":     "tx.deploy*.hash",
	"DeployTransaction.ContractAddressSalt": "tx.deployaccount*.salt; legacy DEPLOY: uncommitted (juno does not recompute deploy hashes)",
	"DeployTransaction.ContractAddress":     "tx.deployaccount*.contract_address; legacy DEPLOY: uncommitted",
	"DeployTransaction.ClassHash":           "tx.deployaccount*.class_hash; legacy DEPLOY: uncommitted",
	"DeployTransaction.ConstructorCallData": "tx.deployaccount*.ctor_calldata.*; legacy DEPLOY: uncommitted",
	"DeployTransaction.Version":             "tx.deployaccount*.version; legacy DEPLOY: uncommitted",

	"DeployAccountTransaction.DeployTransaction":    "see DeployTransaction",
	"DeployAccountTransaction.MaxFee":               "tx.deployaccount1.max_fee",
	"DeployAccountTransaction.TransactionSignature": "tx.deployaccount*.signature.*",
	"DeployAccountTransaction.Nonce":                "tx.deployaccount*.nonce",
	"DeployAccountTransaction.ResourceBounds":       "tx.deployaccount3.rb.*",
	"DeployAccountTransaction.Tip":                  "tx.deployaccount3.tip",
	"DeployAccountTransaction.PaymasterData":        "tx.deployaccount3.paymaster_data",
	"DeployAccountTransaction.NonceDAMode":          "tx.deployaccount3.nonce_da_mode",
	"DeployAccountTransaction.FeeDAMode":            "tx.deployaccount3.fee_da_mode",

	"L1HandlerTransaction.TransactionHash":    "tx.l1handler.hash",
	"L1HandlerTransaction.ContractAddress":    "tx.l1handler.contract_address",
	"L1HandlerTransaction.EntryPointSelector": "tx.l1handler.entry_point_selector",
	"L1HandlerTransaction.Nonce":              "tx.l1handler.nonce",
	"L1HandlerTransaction.CallData":           "tx.l1handler.calldata.*",
	"L1HandlerTransaction.Version":            "tx.l1handler.version",

	"Block.Header": "hdr.*", "Block.Transactions": "tx.* txs.*", "Block.Receipts": "rc.* msg.* ev.*",
}

func checkFieldTable() error {
	types := []any{core.Header{}, core.GasPrice{}, core.StateUpdate{}, core.StateDiff{}, core.TransactionReceipt{},
		core.ExecutionResources{}, core.GasConsumed{}, core.Event{}, core.L2ToL1Message{}, core.ResourceBounds{},
		core.InvokeTransaction{}, core.DeclareTransaction{}, core.DeployTransaction{}, core.DeployAccountTransaction{},
		core.L1HandlerTransaction{}, core.Block{}}
	seen := map[string]bool{}
	for _, x := range types {
		t := reflect.TypeOf(x)
		for i := 0; i < t.NumField(); i++ {
			k := t.Name() + "." + t.Field(i).Name
			seen[k] = true
			if _, ok := fieldClass[k]; !ok {
				return fmt.Errorf("struct field %s is not classified (committed field name or uncommitted reason): "+
					"revisit Committed in spec/chain/MCBlockVerify.tla and the mutator table", k)
			}
		}
	}
	for k := range fieldClass {
		if !seen[k] {
			return fmt.Errorf("classified field %s no longer exists in juno's structs", k)
		}
	}
	return nil
}

// Presence / value classes of committed fields (BlockVerify.tla: ClassFields, ShapeClass,
// OfferReclass). For every class field of MCBlockVerify.tla this file knows its carriers in a block
// (the transaction of that kind, the receipts, the events, the messages, the header), how to read
// the class a carrier is in (absent / zero / nonzero) and how to move it to another class. The
// same accessors build the valid blocks of the shapes "zero" and "void" (every carrier put into the
// class ShapeClass gives) and the single-field class moves of OfferReclass (first carrier, declared
// hashes kept). Valid blocks carry the REFERENCE's transaction and block hashes (refimpl, written
// from the protocol definition): the code under test does not hash the valid inputs it is then
// asked to accept.
package blockverify

import (
	"fmt"
	"strings"

	"github.com/NethermindEth/juno/core"
	"github.com/NethermindEth/juno/core/felt"

	"verifharness/internal/chainkit"
	"verifharness/internal/refimpl"
)

// access reads and moves the class of one carrier of one class field.
type access struct {
	get func() string
	set func(class string, g *chainkit.Gen) // g == nil: fixed values (a tamper); else seeded values (generation)
}

func someFelt(g *chainkit.Gen) *felt.Felt {
	if g == nil {
		return chainkit.F(5)
	}
	for {
		if f := g.Felt(); !f.IsZero() {
			return f
		}
	}
}

func someU64(g *chainkit.Gen, n int) uint64 {
	if g == nil {
		return 5
	}
	return uint64(1 + g.R.Intn(n))
}

func arrAccess(p *[]felt.Felt) *access {
	return &access{
		get: func() string {
			switch {
			case len(*p) == 0:
				return "absent"
			case len(*p) == 1 && (*p)[0].IsZero():
				return "zero"
			}
			return "nonzero"
		},
		set: func(class string, g *chainkit.Gen) {
			switch class {
			case "absent":
				if g != nil && g.R.Intn(2) == 0 {
					*p = nil // nil and empty are the same array
				} else {
					*p = []felt.Felt{}
				}
			case "zero":
				*p = []felt.Felt{{}}
			case "nonzero":
				n := 1
				if g != nil {
					n += g.R.Intn(2)
				}
				out := make([]felt.Felt, n)
				for i := range out {
					out[i] = *someFelt(g)
				}
				*p = out
			}
		},
	}
}

func feltAccess(p **felt.Felt) *access {
	return &access{
		get: func() string {
			switch {
			case *p == nil:
				return "absent"
			case (*p).IsZero():
				return "zero"
			}
			return "nonzero"
		},
		set: func(class string, g *chainkit.Gen) {
			switch class {
			case "zero":
				*p = new(felt.Felt)
			case "nonzero":
				*p = someFelt(g)
			default:
				panic("feltAccess: class " + class)
			}
		},
	}
}

func u64Access(p *uint64, n int) *access {
	return &access{
		get: func() string {
			if *p == 0 {
				return "zero"
			}
			return "nonzero"
		},
		set: func(class string, g *chainkit.Gen) {
			switch class {
			case "zero":
				*p = 0
			case "nonzero":
				*p = someU64(g, n)
			default:
				panic("u64Access: class " + class)
			}
		},
	}
}

func boundAccess(m *map[core.Resource]core.ResourceBounds, r core.Resource) *access {
	return &access{
		get: func() string {
			b, ok := (*m)[r]
			switch {
			case !ok:
				return "absent"
			case b.MaxAmount == 0 && b.MaxPricePerUnit != nil && b.MaxPricePerUnit.IsZero():
				return "zero"
			}
			return "nonzero"
		},
		set: func(class string, g *chainkit.Gen) {
			if *m == nil {
				*m = map[core.Resource]core.ResourceBounds{}
			}
			switch class {
			case "absent":
				delete(*m, r)
			case "zero":
				(*m)[r] = core.ResourceBounds{MaxAmount: 0, MaxPricePerUnit: new(felt.Felt)}
			case "nonzero":
				(*m)[r] = core.ResourceBounds{MaxAmount: someU64(g, 1000), MaxPricePerUnit: chainkit.F(someU64(g, 1000))}
			}
		},
	}
}

// txAccess: the class accessor of one transaction-level class field ("" suffix after "tx.<kind>.").
func txAccess(tx core.Transaction, field string) *access {
	f3 := v3(tx)
	switch field {
	case "rb.l1_gas", "rb.l2_gas", "rb.l1_data_gas":
		if f3 == nil {
			return nil
		}
		return boundAccess(f3.rb, map[string]core.Resource{"rb.l1_gas": core.ResourceL1Gas, "rb.l2_gas": core.ResourceL2Gas,
			"rb.l1_data_gas": core.ResourceL1DataGas}[field])
	case "tip":
		if f3 == nil {
			return nil
		}
		return u64Access(f3.tip, 9)
	case "paymaster_data":
		if f3 == nil {
			return nil
		}
		return arrAccess(f3.pay)
	case "account_deployment_data":
		if f3 == nil || f3.acc == nil {
			return nil
		}
		return arrAccess(f3.acc)
	case "signature":
		if p := txSigPtr(tx); p != nil {
			return arrAccess(p)
		}
		return nil
	}
	switch t := tx.(type) {
	case *core.InvokeTransaction:
		switch field {
		case "calldata":
			return arrAccess(&t.CallData)
		case "proof_facts":
			return arrAccess(&t.ProofFacts)
		case "nonce":
			return feltAccess(&t.Nonce)
		case "max_fee":
			return feltAccess(&t.MaxFee)
		}
	case *core.DeclareTransaction:
		switch field {
		case "nonce":
			return feltAccess(&t.Nonce)
		case "max_fee":
			return feltAccess(&t.MaxFee)
		}
	case *core.DeployAccountTransaction:
		switch field {
		case "ctor_calldata":
			return arrAccess(&t.ConstructorCallData)
		case "nonce":
			return feltAccess(&t.Nonce)
		case "max_fee":
			return feltAccess(&t.MaxFee)
		}
	case *core.L1HandlerTransaction:
		if field == "nonce" && t.Nonce != nil { // (an L1 handler without nonce keeps its own hash: no carrier)
			return feltAccess(&t.Nonce)
		}
	}
	return nil
}

func revertAccess(r *core.TransactionReceipt) *access {
	return &access{
		get: func() string {
			switch {
			case !r.Reverted:
				return "absent"
			case r.RevertReason == "":
				return "zero"
			}
			return "nonzero"
		},
		set: func(class string, g *chainkit.Gen) {
			switch class {
			case "absent":
				r.Reverted, r.RevertReason = false, ""
			case "zero":
				r.Reverted, r.RevertReason = true, ""
			case "nonzero":
				r.Reverted, r.RevertReason = true, fmt.Sprintf("Error in the called contract %d", someU64(g, 100))
			}
		},
	}
}

// carriers returns the accessors of every carrier of class field f in a block, in block order
// (nil: not a class field this engine knows).
func carriers(f string, txs []core.Transaction, rcs []*core.TransactionReceipt, h *core.Header) ([]*access, bool) {
	var out []*access
	add := func(a *access) {
		if a != nil {
			out = append(out, a)
		}
	}
	switch {
	case strings.HasPrefix(f, "tx."):
		parts := strings.SplitN(f, ".", 3)
		if len(parts) < 3 {
			return nil, false
		}
		known := false
		for _, tx := range txs {
			if txKind(tx) == parts[1] {
				add(txAccess(tx, parts[2]))
			}
		}
		switch parts[2] {
		case "rb.l1_gas", "rb.l2_gas", "rb.l1_data_gas", "tip", "paymaster_data", "account_deployment_data", "signature",
			"calldata", "proof_facts", "nonce", "max_fee", "ctor_calldata":
			known = true
		}
		return out, known
	case f == "rc.fee":
		for _, r := range rcs {
			add(feltAccess(&r.Fee))
		}
	case f == "rc.revert":
		for _, r := range rcs {
			add(revertAccess(r))
		}
	case f == "rc.l1_gas_consumed", f == "rc.l1_data_gas_consumed":
		for _, r := range rcs {
			if r.ExecutionResources != nil && r.ExecutionResources.TotalGasConsumed != nil {
				if f == "rc.l1_gas_consumed" {
					add(u64Access(&r.ExecutionResources.TotalGasConsumed.L1Gas, 99))
				} else {
					add(u64Access(&r.ExecutionResources.TotalGasConsumed.L1DataGas, 99))
				}
			}
		}
	case f == "ev.keys", f == "ev.data", f == "ev.from":
		for _, r := range rcs {
			for _, e := range r.Events {
				switch f {
				case "ev.keys":
					add(arrAccess(&e.Keys))
				case "ev.data":
					add(arrAccess(&e.Data))
				default:
					add(feltAccess(&e.From))
				}
			}
		}
	case f == "msg.payload", f == "msg.from", f == "msg.to":
		for _, r := range rcs {
			for _, m := range r.L2ToL1Message {
				m := m
				switch f {
				case "msg.payload":
					add(arrAccess(&m.Payload))
				case "msg.from":
					add(feltAccess(&m.From))
				default:
					add(&access{
						get: func() string {
							for _, b := range m.To {
								if b != 0 {
									return "nonzero"
								}
							}
							return "zero"
						},
						set: func(class string, g *chainkit.Gen) {
							for i := range m.To {
								m.To[i] = 0
							}
							if class == "nonzero" {
								m.To[19] = byte(someU64(g, 200))
								if g != nil {
									g.R.Read(m.To[:19])
								}
							}
						},
					})
				}
			}
		}
	case strings.HasPrefix(f, "hdr."):
		if h == nil {
			return nil, true
		}
		switch f {
		case "hdr.sequencer":
			add(feltAccess(&h.SequencerAddress))
		case "hdr.timestamp":
			add(u64Access(&h.Timestamp, 1_000_000))
		case "hdr.l1_gas_price_wei":
			add(feltAccess(&h.L1GasPriceETH))
		case "hdr.l1_gas_price_fri":
			add(feltAccess(&h.L1GasPriceSTRK))
		case "hdr.l1_data_gas_price_wei", "hdr.l1_data_gas_price_fri", "hdr.l2_gas_price_wei", "hdr.l2_gas_price_fri":
			gp := h.L1DataGasPrice
			if strings.HasPrefix(f, "hdr.l2") {
				gp = h.L2GasPrice
			}
			if gp == nil {
				return nil, true
			}
			if strings.HasSuffix(f, "_wei") {
				add(feltAccess(&gp.PriceInWei))
			} else {
				add(feltAccess(&gp.PriceInFri))
			}
		default:
			return nil, false
		}
	default:
		return nil, false
	}
	return out, true
}

// classTable is what the specification says about classes (printed by BlockVerifyMBT.tla).
type classTable struct {
	ShapeClass map[string]map[string]string `json:"shapeclass"` // shape -> field -> class | "none"
	ClassIn    map[string][]string          `json:"classin"`    // version -> fields that exist in it
	ClassOf    map[string][]string          `json:"classof"`    // field -> classes the representation can carry
	ProtoSame  map[string][]string          `json:"protosame"`  // version -> fields whose zero the protocol hashes like absent
	ValidOf    map[string][]string          `json:"validclassof"` // field -> classes a protocol-valid block can carry
}

// crashKey: a crash on an input that is in a class no valid block has (a v3 transaction without a
// mandatory bound) is one defect, whatever the field and the class it came from.
func (ct *classTable) crashKey(f, from, to, suffix string) string {
	move := f + ":" + from + ">" + to
	if ct != nil && len(ct.ValidOf[f]) > 0 && !contains(ct.ValidOf[f], to) {
		return "block-verify:crash:invalid-class:" + move + suffix
	}
	return "block-verify:crash:OfferReclass:" + move + suffix
}

func (ct *classTable) in(v, f string) bool {
	for _, x := range ct.ClassIn[v] {
		if x == f {
			return true
		}
	}
	return false
}

// allCarriers: the shapes of the class dimension put EVERY carrier into the class; the older
// shapes only the first one (the one OfferReclass moves), the others keep their roles (a reverted
// receipt, receipts with and without messages ...).
func allCarriers(shape string) bool { return shape == "zero" || shape == "void" }

// applyClasses puts the carriers of every class field (header fields when h != nil, the others
// when h == nil) into the class the specification gives the field in blocks of this shape.
func (ct *classTable) applyClasses(v, shape string, txs []core.Transaction, rcs []*core.TransactionReceipt, h *core.Header, g *chainkit.Gen) error {
	if ct == nil {
		return nil
	}
	for _, f := range sortedStrings(ct.ShapeClass[shape]) {
		class := ct.ShapeClass[shape][f]
		if strings.HasPrefix(f, "hdr.") != (h != nil) {
			continue
		}
		if !ct.in(v, f) {
			continue // the field does not exist in this version (proof facts, L2 gas price)
		}
		acc, known := carriers(f, txs, rcs, h)
		if !known {
			return fmt.Errorf("class field %q of the specification has no accessor in the engine", f)
		}
		if class == "none" {
			continue
		}
		if len(acc) == 0 {
			return fmt.Errorf("the specification gives class field %q a carrier in %s blocks, the generated block has none", f, shape)
		}
		if !allCarriers(shape) {
			acc = acc[:1]
		}
		for _, a := range acc {
			if a.get() != class {
				a.set(class, g)
			}
			if a.get() != class {
				return fmt.Errorf("class field %q cannot be put into class %s", f, class)
			}
		}
	}
	return nil
}

// checkClasses: the block about to be offered as the builder's has every class field where the
// specification says (a machinery check).
func (ct *classTable) checkClasses(v, shape string, b *core.Block) error {
	if ct == nil {
		return nil
	}
	for f, class := range ct.ShapeClass[shape] {
		if class == "none" || !ct.in(v, f) {
			continue
		}
		acc, _ := carriers(f, b.Transactions, b.Receipts, b.Header)
		if len(acc) == 0 {
			return fmt.Errorf("%s block of version %s: no carrier of %s", shape, v, f)
		}
		if !allCarriers(shape) {
			acc = acc[:1]
		}
		for i, a := range acc {
			if a.get() != class {
				return fmt.Errorf("%s block of version %s: carrier %d of %s is in class %s, the specification says %s", shape, v, i, f, a.get(), class)
			}
		}
	}
	return nil
}

func sortedStrings[V any](m map[string]V) []string {
	out := make([]string, 0, len(m))
	for k := range m {
		out = append(out, k)
	}
	for i := 1; i < len(out); i++ {
		for j := i; j > 0 && out[j] < out[j-1]; j-- {
			out[j], out[j-1] = out[j-1], out[j]
		}
	}
	return out
}

// ------------------------------------------------------------------ reference hashes

var chainID = func() *felt.Felt { f := refimpl.ShortString(chainkit.Network.L2ChainID); return &f }()

// refHashTxs gives every transaction the reference's hash (where the protocol defines a
// recomputable one) and every receipt its transaction's hash.
func refHashTxs(txs []core.Transaction, rcs []*core.TransactionReceipt) error {
	for i, tx := range txs {
		h, err := refimpl.TxHash(tx, chainID)
		switch {
		case err == nil:
			chainkit.SetTxHash(tx, &h)
		case err != refimpl.ErrNoHashRule:
			return fmt.Errorf("reference hash of transaction %d (%s): %w", i, txKind(tx), err)
		}
		if i < len(rcs) {
			rcs[i].TransactionHash = tx.Hash()
		}
	}
	return nil
}

// junoTxHash is core.TransactionHash under recover (a panic is an answer of the code).
func junoTxHash(tx core.Transaction) (h felt.Felt, err error) {
	defer func() {
		if r := recover(); r != nil {
			err = fmt.Errorf("panic: %v", r)
		}
	}()
	return core.TransactionHash(tx, chainkit.Network)
}

func cloneTx(tx core.Transaction) core.Transaction {
	b := &core.Block{Header: &core.Header{}, Transactions: []core.Transaction{tx}}
	return (&offer{B: b, U: &core.StateUpdate{}}).clone().B.Transactions[0]
}

// classFieldsOfKind: the transaction-level class fields the specification lists for a kind.
func (ct *classTable) classFieldsOfKind(kind string) []string {
	seen := map[string]bool{}
	if ct != nil {
		for _, m := range ct.ShapeClass {
			for f := range m {
				if strings.HasPrefix(f, "tx."+kind+".") {
					seen[strings.TrimPrefix(f, "tx."+kind+".")] = true
				}
			}
		}
	}
	return sortedStrings(seen)
}

// blameTx names the class field that makes juno's hash of a valid transaction differ from the
// reference's: the single field whose move to the non-zero class makes the two agree.
func (ct *classTable) blameTx(tx core.Transaction) string {
	kind := txKind(tx)
	var zeroes []string
	for _, f := range ct.classFieldsOfKind(kind) {
		if f == "signature" {
			continue
		}
		a := txAccess(tx, f)
		if a == nil || a.get() == "nonzero" {
			continue
		}
		zeroes = append(zeroes, f+"="+a.get())
		c := cloneTx(tx)
		txAccess(c, f).set("nonzero", nil)
		ref, err := refimpl.TxHash(c, chainID)
		if err != nil {
			continue
		}
		if h, err := junoTxHash(c); err == nil && h.Equal(&ref) {
			return f + "=" + a.get()
		}
	}
	_ = zeroes
	return "other-field" // no single zero / absent class field explains the difference
}

// whyRejected compares juno with the reference on a valid block juno refuses and names what differs:
// "txhash:<kind>:<field>=<class>", a commitment, "block-hash", or "" (juno agrees with the reference
// on every hash: the refusal has another cause).
func (ct *classTable) whyRejected(o *offer) string {
	for _, tx := range o.B.Transactions {
		ref, err := refimpl.TxHash(tx, chainID)
		if err != nil {
			continue
		}
		if h, err := junoTxHash(tx); err != nil || !h.Equal(&ref) {
			return "txhash:" + txKind(tx) + ":" + ct.blameTx(tx)
		}
	}
	parts, err := refimpl.BlockHash(o.B, o.U.StateDiff)
	if err != nil {
		return ""
	}
	var (
		h   felt.Felt
		cm  *core.BlockCommitments
		bad string
	)
	func() {
		defer func() {
			if r := recover(); r != nil {
				bad = "block-hash-panic"
			}
		}()
		var e error
		if h, cm, e = core.BlockHash(o.B, o.U.StateDiff, chainkit.Network, nil, core.TrieBackend); e != nil {
			bad = "block-hash-error"
		}
	}()
	if bad != "" {
		return bad
	}
	if d := parts.Differs(cm); d != "" {
		return d
	}
	if !h.Equal(&parts.Hash) {
		return "block-hash"
	}
	return ""
}

package blockverify

import (
	"bytes"
	"crypto/sha256"
	"encoding/hex"
	"encoding/json"
	"errors"
	"fmt"
	"os"
	"reflect"
	"runtime/debug"
	"strings"
	"sync"
	"sync/atomic"
	"testing"
	"time"

	"github.com/NethermindEth/juno/core"
	"github.com/NethermindEth/juno/core/felt"
	"github.com/NethermindEth/juno/db"
	"github.com/NethermindEth/juno/db/memory"
	"github.com/NethermindEth/juno/encoder"
	_ "github.com/NethermindEth/juno/encoder/registry"

	"verifharness/internal/chainkit"
	"verifharness/internal/faultkv"
	"verifharness/internal/refimpl"
	"verifharness/internal/vh"
)

type action struct {
	Name string `json:"name"`
	V    string `json:"v"`
	Var  string `json:"var"` // shape of the block content: full | emptydiff | empty | bare
	F    string `json:"f"`
	Kind string `json:"kind"`
	Seal string `json:"seal"`
	From string `json:"from"` // OfferReclass: the class the field is moved from (Kind: the class it is moved to)
	H    int    `json:"h"`
}

type result struct {
	Kind  string `json:"kind"`
	Stage string `json:"stage"`
	Why   string `json:"why"`
}

type step struct {
	A      action               `json:"a"`
	Res    result               `json:"res"`
	Chain  [][3]json.RawMessage `json:"chain"`
	Height int                  `json:"height"`
}

type replayInput struct {
	Seed       int64    `json:"seed"`  // 0: $VH_SEED
	Start      int      `json:"start"` // index of the first behaviour (per-behaviour randomness derives from it)
	Behaviours [][]step `json:"behaviours"`
	Concurrent bool     `json:"concurrent"` // also run the concurrent verify-while-storing round
	Classes    *classTable `json:"classes"` // the specification's class tables (ShapeClass, ClassIn)
}

// machinery marks an error of the harness itself (never a verdict about the code).
type machinery struct{ error }

// world tracks what exists on the stored chain, so that generated diffs are applicable.
type world struct {
	contracts []felt.Felt               // deployed contracts, oldest first
	slots     map[felt.Felt][]felt.Felt // storage keys written per contract
	sierraV1  []felt.Felt               // Sierra classes declared under protocol < 0.14.1 and not migrated yet
	classes   []felt.Felt               // every declared class hash
	casmV2    map[felt.Felt]felt.Felt   // Sierra class -> its V2 compiled class hash
	// for the inapplicable-diff offers (filled for every world; maps keyed by class hash)
	casmV1   map[felt.Felt]felt.Felt         // Sierra class -> its V1 compiled class hash
	defs     map[felt.Felt]*core.SierraClass // Sierra class -> its definition
	casmNow  map[felt.Felt]felt.Felt         // declared Sierra class -> the compiled class hash its trie leaf holds now
	sierra   []felt.Felt                     // every declared Sierra class, oldest first
	migrated []felt.Felt                     // classes whose compiled class hash was migrated, oldest first
	plain    []felt.Felt                     // contracts with nonce 0 and no storage (deployed bare, never written since)
}

func newWorld() *world {
	return &world{slots: map[felt.Felt][]felt.Felt{}, casmV2: map[felt.Felt]felt.Felt{}, casmV1: map[felt.Felt]felt.Felt{},
		defs: map[felt.Felt]*core.SierraClass{}, casmNow: map[felt.Felt]felt.Felt{}}
}

type content struct {
	producerHash *felt.Felt // the hash the producer (the code's Simulate) computed, when it is not the reference's
	built    *chainkit.Built
	deploys  []felt.Felt
	sierra   []felt.Felt
	migrated []felt.Felt
	version  string
}

type session struct {
	g       *chainkit.Gen
	node    *chainkit.Node
	fk      *faultkv.Store
	twin    *chainkit.Node
	w       *world
	off     int // number of prelude blocks below the model's chain
	cache   map[string]*content
	pending map[string]*pendingBlock
	ct      *classTable
}

type pendingBlock struct {
	o           *offer
	commitments *core.BlockCommitments
	snapshot    *core.BlockCommitments // deep copy taken when SanityCheckNewHeight returned
}

func cidKey(h int, shape, v string) string { return fmt.Sprintf("%d/%s/%s", h, shape, v) }

func (w *world) apply(c *content) {
	for _, a := range c.deploys {
		w.contracts = append(w.contracts, a)
	}
	for a, m := range c.built.Update.StateDiff.StorageDiffs {
		for k := range m {
			w.slots[a] = append(w.slots[a], k)
		}
	}
	mig := map[felt.Felt]bool{}
	for _, m := range c.migrated {
		mig[m] = true
	}
	var keep []felt.Felt
	for _, s := range w.sierraV1 {
		if !mig[s] {
			keep = append(keep, s)
		}
	}
	w.sierraV1 = keep
	if c.version < "0.14.1" {
		w.sierraV1 = append(w.sierraV1, c.sierra...)
	}
	for _, h := range c.built.Update.StateDiff.DeclaredV0Classes {
		w.classes = append(w.classes, *h)
	}
	w.classes = append(w.classes, c.sierra...)
	d := c.built.Update.StateDiff
	for _, h := range c.sierra {
		w.sierra = append(w.sierra, h)
		w.casmNow[h] = *d.DeclaredV1Classes[h]
	}
	for _, m := range c.migrated {
		w.migrated = append(w.migrated, m)
		w.casmNow[m] = w.casmV2[m]
	}
	written := func(a felt.Felt) bool {
		_, n := d.Nonces[a]
		_, st := d.StorageDiffs[a]
		return n || st
	}
	var plain []felt.Felt
	for _, a := range w.plain {
		if !written(a) {
			plain = append(plain, a)
		}
	}
	for _, a := range c.deploys {
		if !written(a) {
			plain = append(plain, a)
		}
	}
	w.plain = plain
}

// genContent produces block content of the given shape for the twin's current head:
//
//	full      - every diff section, Cairo-0 and Sierra classes, all ten transaction kinds, events,
//	            messages, a reverted receipt
//	prelude   - the diff and classes of full, no transactions
//	emptydiff - the transactions of full, NOT ONE state-diff entry (sections empty or nil), no class
//	empty     - no transaction and no state-diff entry
//	bare      - an invoke v3 and an L1 handler without events / messages / reverts; the diff only
//	            deploys one contract; no class
func (s *session) genContent(v string, shape string) (*content, error) {
	g, w := s.g, s.w
	d := chainkit.EmptyDiff()
	classes := map[felt.Felt]core.ClassDefinition{}
	c := &content{version: v}
	switch shape {
	case "emptydiff", "empty", "zero", "void":
		if g.R.Intn(2) == 0 {
			d = &core.StateDiff{} // nil sections: the same (empty) diff
		}
	case "bare":
		a := *g.Felt()
		d.DeployedContracts[a] = g.Felt()
		c.deploys = append(c.deploys, a)
	}
	if shape == "full" || shape == "prelude" {
		s.fullDiff(v, d, classes, c)
	}
	var txs []core.Transaction
	var rcs []*core.TransactionReceipt
	switch shape {
	case "full", "emptydiff", "zero", "void":
		txs, rcs = s.fullTxs()
	case "bare":
		for _, k := range []string{"invoke3", "l1handler", "l1handler-legacy"} {
			var tx core.Transaction
			if k == "l1handler-legacy" { // no nonce: juno takes the transaction's own hash (mainnet block 192 …)
				l := s.richTx("l1handler").(*core.L1HandlerTransaction)
				l.Nonce, l.TransactionHash = nil, g.Felt()
				tx = l
			} else {
				tx = s.richTx(k)
			}
			if inv, ok := tx.(*core.InvokeTransaction); ok { // extreme values: the hash preimages must take them
				inv.Tip = ^uint64(0)
				inv.ResourceBounds[core.ResourceL2Gas] = core.ResourceBounds{MaxAmount: ^uint64(0), MaxPricePerUnit: maxU128()}
				inv.Nonce = maxFelt()
			}
			r := g.Receipt(tx, nil)
			r.Reverted, r.RevertReason, r.L2ToL1Message = false, "", []*core.L2ToL1Message{}
			r.Fee = maxFelt()
			r.ExecutionResources.TotalGasConsumed = &core.GasConsumed{L1Gas: ^uint64(0) - 1, L1DataGas: ^uint64(0) - 1, L2Gas: ^uint64(0)}
			txs, rcs = append(txs, tx), append(rcs, r)
		}
	}
	// every class field into the class the specification gives it in this shape; then the REFERENCE's
	// transaction hashes (the code under test does not hash the valid transactions it must accept)
	if err := s.ct.applyClasses(v, shape, txs, rcs, nil, g); err != nil {
		return nil, machinery{err}
	}
	if err := refHashTxs(txs, rcs); err != nil {
		return nil, machinery{err}
	}
	spec := chainkit.BlockSpec{Version: v, Diff: d, Classes: classes, Txs: txs, Receipts: rcs,
		Timestamp: uint64(1_700_000_000 + g.R.Intn(1000)), Sequencer: g.Felt(), L1DAMode: core.L1DAMode(g.R.Intn(2))}
	if shape == "bare" {
		spec.Timestamp, spec.Sequencer = ^uint64(0)-1, maxFelt()
	}
	var hdrErr error
	spec.Header = func(h *core.Header) { hdrErr = s.ct.applyClasses(v, shape, nil, nil, h, g) }
	b, err := s.twin.Build(spec)
	if hdrErr != nil {
		return nil, machinery{hdrErr}
	}
	if err != nil {
		return nil, err
	}
	if err := s.ct.checkClasses(v, shape, b.Block); err != nil {
		return nil, machinery{err}
	}
	// the valid block declares the REFERENCE's block hash (the producer's - the code's - where the two agree)
	parts, err := refimpl.BlockHash(b.Block, b.Update.StateDiff)
	if err != nil {
		return nil, machinery{fmt.Errorf("reference block hash: %w", err)}
	}
	if !parts.Hash.Equal(b.Block.Hash) {
		c.producerHash = b.Block.Hash
		h1, h2 := parts.Hash, parts.Hash
		b.Block.Hash, b.Update.BlockHash = &h1, &h2
	}
	c.built = b
	_ = w
	return c, nil
}

func (s *session) fullDiff(v string, d *core.StateDiff, classes map[felt.Felt]core.ClassDefinition, c *content) {
	g, w := s.g, s.w
	for i := 0; i < 2; i++ {
		h, cls := g.Cairo0Class()
		d.DeclaredV0Classes = append(d.DeclaredV0Classes, &h)
		classes[h] = cls
	}
	for i := 0; i < 2; i++ {
		h, c1, c2, cls := g.SierraClass()
		casm := c1
		if v >= "0.14.1" {
			casm = c2
		}
		d.DeclaredV1Classes[h] = &casm
		classes[h] = cls
		c.sierra = append(c.sierra, h)
		w.casmV2[h] = c2
		w.casmV1[h] = c1
		w.defs[h] = cls
	}
	cairo0 := d.DeclaredV0Classes[0]
	for i := 0; i < 2; i++ {
		a := *g.Felt()
		d.DeployedContracts[a] = cairo0
		c.deploys = append(c.deploys, a)
		d.Nonces[a] = chainkit.F(uint64(1 + g.R.Intn(5)))
		d.StorageDiffs[a] = map[felt.Felt]*felt.Felt{}
		for k := 0; k < 3; k++ {
			d.StorageDiffs[a][*g.Felt()] = g.Felt()
		}
	}
	// existing contracts: a storage write (one rewritten slot, one new), a nonce, a class replacement
	for i, a := range w.contracts {
		if i >= 2 {
			break
		}
		m := map[felt.Felt]*felt.Felt{*g.Felt(): g.Felt()}
		if ks := w.slots[a]; len(ks) > 0 {
			m[ks[g.R.Intn(len(ks))]] = g.Felt()
		}
		d.StorageDiffs[a] = m
		d.Nonces[a] = chainkit.F(uint64(100 + g.R.Intn(1000)))
		d.ReplacedClasses[a] = &c.sierra[i%2]
	}
	if v >= "0.14.1" {
		for i, sh := range w.sierraV1 {
			if i >= 1 { // one per block: the prelude's four classes last for any chain of the model
				break
			}
			d.MigratedClasses[felt.SierraClassHash(sh)] = felt.CasmClassHash(w.casmV2[sh])
			c.migrated = append(c.migrated, sh)
		}
	}
}

func (s *session) fullTxs() (txs []core.Transaction, rcs []*core.TransactionReceipt) {
	g := s.g
	{
		kinds := append([]string{}, chainkit.TxKinds...)
		g.R.Shuffle(len(kinds), func(i, j int) { kinds[i], kinds[j] = kinds[j], kinds[i] })
		for i, k := range kinds {
			tx := s.richTx(k)
			nev := []int{2, 0, 1, 3}[i%4]
			var evs []*core.Event
			for e := 0; e < nev; e++ {
				evs = append(evs, &core.Event{From: g.Felt(), Keys: g.Felts(1 + g.R.Intn(2)), Data: g.Felts(1 + g.R.Intn(2))})
			}
			r := g.Receipt(tx, evs)
			switch i {
			case 0: // two distinct messages with payloads, not reverted
				r.Reverted, r.RevertReason = false, ""
				r.L2ToL1Message = nil
				for m := 0; m < 2; m++ {
					msg := &core.L2ToL1Message{From: g.Felt(), Payload: g.Felts(2)}
					g.R.Read(msg.To[:])
					r.L2ToL1Message = append(r.L2ToL1Message, msg)
				}
			case 1:
				r.Reverted, r.RevertReason = true, fmt.Sprintf("Error in the called contract %d", g.R.Intn(100))
			case 2:
				r.Reverted, r.RevertReason = false, ""
			}
			txs = append(txs, tx)
			rcs = append(rcs, r)
		}
	}
	return txs, rcs
}

// richTx: a chainkit transaction whose array fields have an element to alter.
func (s *session) richTx(kind string) core.Transaction {
	for {
		tx := s.g.Tx(kind)
		ok := true
		switch t := tx.(type) {
		case *core.InvokeTransaction:
			ok = len(t.CallData) > 0
		case *core.DeployAccountTransaction:
			ok = len(t.ConstructorCallData) > 0
		case *core.L1HandlerTransaction:
			ok = len(t.CallData) > 1
		}
		if ok {
			return tx
		}
	}
}

func (s *session) pristine(a action) (*content, error) {
	k := cidKey(a.H, a.Var, a.V)
	if c, ok := s.cache[k]; ok {
		return c, nil
	}
	c, err := s.genContent(a.V, a.Var)
	if err != nil {
		return nil, err
	}
	s.cache[k] = c
	return c, nil
}

func offerOf(b *chainkit.Built) *offer {
	return (&offer{B: b.Block, U: b.Update, C: b.Classes}).clone()
}

type outcome struct {
	Kind  string `json:"kind"`
	Stage string `json:"stage,omitempty"`
	Err   string `json:"err,omitempty"`
}

// run pushes o through the pipeline exactly as sync does.
func (s *session) run(o *offer) outcome {
	return guarded(func() outcome { return s.runUnguarded(o) })
}

// guarded runs a call into juno under recover and a deadline: a panic or a hang of the real code
// is an outcome of the real code ("crash", "hang"), reported as a keyed divergence - never a dead
// engine.
func guarded(f func() outcome) outcome {
	done := make(chan outcome, 1)
	go func() {
		defer func() {
			if r := recover(); r != nil {
				done <- outcome{Kind: "crash", Err: fmt.Sprintf("%v\n%s", r, firstJunoFrames())}
			}
		}()
		done <- f()
	}()
	select {
	case o := <-done:
		return o
	case <-time.After(hangAfter):
		return outcome{Kind: "hang", Err: fmt.Sprintf("no return after %s", hangAfter)}
	}
}

const hangAfter = 90 * time.Second

func firstJunoFrames() string {
	var out []string
	for _, l := range strings.Split(string(debug.Stack()), "\n") {
		if strings.Contains(l, "NethermindEth/juno") && !strings.HasPrefix(l, "\t") {
			out = append(out, strings.TrimSpace(l))
			if len(out) == 3 {
				break
			}
		}
	}
	return strings.Join(out, " <- ")
}

func (s *session) runUnguarded(o *offer) (out outcome) {
	commitments, err := s.node.BC.SanityCheckNewHeight(o.B, o.U, o.C)
	if err != nil {
		return outcome{Kind: "rejected", Stage: "verify", Err: err.Error()}
	}
	if err := s.node.BC.Store(o.B, commitments, o.U, o.C); err != nil {
		return outcome{Kind: "rejected", Stage: "store", Err: err.Error()}
	}
	return outcome{Kind: "accepted", Stage: "store"}
}

func digest(parts ...any) string {
	h := sha256.New()
	for _, p := range parts {
		b, err := encoder.Marshal(p)
		if err != nil {
			fmt.Fprintf(h, "ERR:%v", err)
		}
		h.Write(b)
		h.Write([]byte{0xff})
	}
	return hex.EncodeToString(h.Sum(nil))[:24]
}

// probe reads the node through its reader API (not the raw store): what a client can observe.
func (s *session) probe() map[string]string {
	bc := s.node.BC
	p := map[string]string{}
	height, err := bc.Height()
	if err != nil {
		p["height"] = "none:" + fmt.Sprint(errors.Is(err, db.ErrKeyNotFound))
		return p
	}
	p["height"] = fmt.Sprint(height)
	head, err := bc.Head()
	p["head"] = digest(head, fmt.Sprint(err))
	for n := uint64(0); n <= height+1; n++ {
		b, e1 := bc.BlockByNumber(n)
		su, e2 := bc.StateUpdateByNumber(n)
		cm, e3 := bc.BlockCommitmentsByNumber(n)
		p[fmt.Sprintf("block%d", n)] = digest(b, su, cm, fmt.Sprint(e1, e2, e3))
		if b != nil {
			hb, e4 := bc.BlockHeaderByHash(b.Hash)
			p[fmt.Sprintf("byhash%d", n)] = digest(hb, fmt.Sprint(e4))
			for _, tx := range b.Transactions {
				t, e5 := bc.TransactionByHash(tx.Hash())
				r, bh, bn, e6 := bc.Receipt(tx.Hash())
				p["tx"+tx.Hash().String()] = digest(t, r, bh, bn, fmt.Sprint(e5, e6))
			}
		}
	}
	st, closer, err := bc.HeadState()
	if err != nil {
		p["state"] = "err:" + err.Error()
		return p
	}
	defer closer()
	for _, a := range s.w.contracts {
		ch, e1 := st.ContractClassHash(&a)
		no, e2 := st.ContractNonce(&a)
		vals := []any{ch, no, fmt.Sprint(e1, e2)}
		for _, k := range s.w.slots[a] {
			v, e := st.ContractStorage(&a, &k)
			vals = append(vals, v, fmt.Sprint(e))
		}
		p["contract"+a.String()] = digest(vals...)
	}
	for _, c := range s.w.classes {
		dc, e := st.Class(&c)
		if dc != nil {
			p["class"+c.String()] = digest(dc.At, fmt.Sprint(e))
		} else {
			p["class"+c.String()] = fmt.Sprint(e)
		}
	}
	return p
}

func diffProbe(a, b map[string]string) []string {
	var out []string
	for k, v := range a {
		if b[k] != v {
			out = append(out, k)
		}
	}
	for k := range b {
		if _, ok := a[k]; !ok {
			out = append(out, k)
		}
	}
	return out
}

var needsPriorState = map[string]bool{"sd.replaced.class_hash": true, "sd.replaced.remove": true,
	"sd.migrated.casm_hash": true, "sd.migrated.remove": true}

func newSession(seed int64, idx int, beh []step, ct *classTable) (*session, error) {
	g := chainkit.NewGen(seed*1_000_003 + int64(idx))
	newState := idx%2 == 1
	prelude := (idx/2)%3 != 0
	for _, st := range beh {
		if needsPriorState[st.A.F] { // contracts to replace / classes to migrate must exist below
			prelude = true
		}
	}
	fk := faultkv.Wrap(memory.New())
	s := &session{g: g, fk: fk, node: chainkit.NewNode(fk, newState), twin: chainkit.NewNode(nil, newState),
		w:     newWorld(), ct: ct,
		cache: map[string]*content{}, pending: map[string]*pendingBlock{}}
	if prelude {
		// two blocks below the model's chain: contracts and V1-declared Sierra classes exist
		for i := 0; i < 2; i++ {
			c, err := s.genContent("0.13.2", "prelude")
			if err != nil {
				return nil, fmt.Errorf("prelude build: %w", err)
			}
			if err := s.twin.StoreBuilt(c.built); err != nil {
				return nil, fmt.Errorf("prelude twin: %w", err)
			}
			if out := s.run(offerOf(c.built)); out.Kind != "accepted" {
				return nil, fmt.Errorf("prelude node: %+v", out)
			}
			s.w.apply(c)
			s.off++
		}
	}
	return s, nil
}

func TestBlockVerifyReplay(t *testing.T) {
	if !vh.Enabled() {
		t.Skip()
	}
	out := vh.NewResult()
	defer out.Write()
	if err := checkFieldTable(); err != nil {
		t.Fatal(err)
	}
	// the reference hashes are evaluated on primitives that are not juno's
	restore, err := refimpl.UseIndependent()
	if err != nil {
		t.Fatal(err)
	}
	defer restore()
	var in replayInput
	if err := vh.Input(&in); err != nil {
		t.Fatal(err)
	}
	seed := in.Seed
	if seed == 0 {
		seed = vh.Seed()
	}
	covered := map[string]int{}
	classCovered := map[string]int{}
	shapeCovered := map[string]int{}
	shapeOffers := map[string]int{}
	skipped := map[string]int{}
	stages := map[string]int{}
	inapStats := map[string]int{}
	var observations []string
	nsteps := 0
	for bi, beh := range in.Behaviours {
		idx := in.Start + bi
		s, err := newSession(seed, idx, beh, in.Classes)
		if err != nil {
			t.Fatalf("behaviour %d: %v", idx, err)
		}
		replay := vh.J{"seed": seed, "start": idx, "behaviours": [][]step{beh}, "classes": in.Classes}
		diverge := func(i int, key, what string, exp, obs any) {
			out.Diverge(vh.Divergence{Key: key, What: what, Input: replay, Step: i, Expected: exp, Observed: obs})
		}
	steps:
		for i, st := range beh {
			nsteps++
			a := st.A
			var (
				o       *offer
				outc    outcome
				c       *content
				accepts *content // content that becomes part of the chain when accepted
				inapTarget string
			)
			if a.Name == "Restart" {
				before, err := faultkv.Dump(s.fk)
				if err != nil {
					t.Fatal(err)
				}
				probeBefore := s.probe()
				if a.Kind == "graceful" {
					if err := s.node.BC.WriteRunningEventFilter(); err != nil {
						key := "block-verify:restart:graceful-stop-failed"
						if strings.Contains(err.Error(), "couldn't initialize the running event filter") {
							key = "block-verify:rejected-valid:latched-filter-init-error"
						}
						diverge(i, key, "graceful stop: "+err.Error(), "ok", err.Error())
						break steps
					}
				}
				s.node = s.node.Restart()
				s.pending = map[string]*pendingBlock{}
				after, _ := faultkv.Dump(s.fk)
				// a graceful stop persists the running event filter: the only bucket allowed to change
				if d := faultkv.Diff(before, after, map[byte]bool{byte(db.RunningEventFilter): true}, 8); len(d) > 0 {
					diverge(i, "block-verify:restart-changed-db:"+a.Kind, "a restart changed the database", "unchanged", d)
					break steps
				}
				if d := diffProbe(probeBefore, s.probe()); len(d) > 0 {
					diverge(i, "block-verify:restart-changed-reads:"+a.Kind, "reads differ after a restart", "unchanged", d)
					break steps
				}
				stages["Restart:"+a.Kind]++
				if msg := s.compareChain(st); msg != "" {
					diverge(i, "block-verify:chain-mismatch:Restart", msg, st.Chain, nil)
					break steps
				}
				continue steps
			}
			if a.Name != "StorePending" {
				if c, err = s.pristine(a); err != nil {
					if me, ok := err.(machinery); ok {
						t.Fatalf("behaviour %d step %d: %v", idx, i, me.error)
					}
					// the producer (the real Simulate on the twin) refuses a block the specification
					// allows: a verdict about the code (this never happens on a tree where C02 holds)
					diverge(i, fmt.Sprintf("block-verify:producer-failed:%s:%s", a.Var, a.V),
						fmt.Sprintf("Simulate cannot build a valid %s block of version %s at height %d: %v", a.Var, a.V, a.H, err), "built", err.Error())
					break steps
				}
				o = offerOf(c.built)
			}
			before, err := faultkv.Dump(s.fk)
			if err != nil {
				t.Fatal(err)
			}
			probeBefore := s.probe()
			tag := a.Name
			switch a.Name {
			case "Offer":
				outc, accepts = s.run(o), c
			case "OfferTampered":
				m := mutatorFor(a.F)
				if m == nil {
					t.Fatalf("no mutator for field %q of the specification", a.F)
				}
				if !m(o) {
					skipped[a.F+"@"+a.V]++
					continue steps // nothing offered: the model's rejected step changes nothing either
				}
				covered[a.F+"@"+a.V]++
				shapeCovered[a.Var+":"+a.F]++
				tag = "accepted-tamper:" + a.F
				outc, accepts = s.run(o), c
			case "OfferReclass":
				// one committed field moved to another presence / value class, every declared hash kept
				acc, known := carriers(a.F, o.B.Transactions, o.B.Receipts, o.B.Header)
				if !known || len(acc) == 0 {
					t.Fatalf("behaviour %d step %d: the specification moves %s in a %s block, the replayer finds no carrier", idx, i, a.F, a.Var)
				}
				if got := acc[0].get(); got != a.From {
					t.Fatalf("behaviour %d step %d: %s in the %s block is in class %s, the specification says %s", idx, i, a.F, a.Var, got, a.From)
				}
				acc[0].set(a.Kind, nil)
				if got := acc[0].get(); got != a.Kind {
					t.Fatalf("behaviour %d step %d: %s cannot be moved to class %s (is %s)", idx, i, a.F, a.Kind, got)
				}
				move := a.F + ":" + a.From + ">" + a.Kind
				classCovered[move+"@"+a.V]++
				shapeCovered[a.Var+":"+move]++
				tag = "accepted-tamper:" + move
				outc, accepts = s.run(o), c
			case "OfferWrongParent":
				o.B.ParentHash = s.g.Felt()
				rehash(t, o)
				outc = s.run(o)
			case "OfferWrongNumber":
				if a.Kind == "repeat" {
					o.B.Number--
				} else {
					o.B.Number++
				}
				rehash(t, o)
				tag += ":" + a.Kind + ":" + a.Var
				outc = s.run(o)
			case "OfferWrongRoot":
				switch a.Kind {
				case "root":
					o.B.GlobalStateRoot = bump(o.B.GlobalStateRoot)
					o.U.NewRoot = bump(o.U.NewRoot)
				case "diff": // alter an entry where there is one, else add one (empty-diff shapes)
					done := false
					for _, f := range []string{"sd.storage.value", "sd.deployed.class_hash", "sd.nonce.add"} {
						if mutatorFor(f)(o) {
							done = true
							break
						}
					}
					if !done {
						t.Fatal("no way to alter the state diff")
					}
				case "oldroot":
					o.U.OldRoot = bump(o.U.OldRoot)
				}
				if a.Seal == "resealed" {
					rehash(t, o)
				}
				tag += ":" + a.Kind + ":" + a.Seal + ":" + a.Var
				outc = s.run(o)
			case "OfferInapplicable":
				target := s.makeInapplicable(o, a.Kind)
				if target == "" {
					t.Fatalf("behaviour %d step %d: the specification offers an inapplicable diff of kind %q on a %s block at height %d, the replayer finds no target", idx, i, a.Kind, a.Var, a.H)
				}
				kept := o.B.Hash
				if a.Seal == "resealed" {
					rehash(t, o)
				} else if h, _, err := core.BlockHash(o.B, o.U.StateDiff, chainkit.Network, nil, core.TrieBackend); err == nil && h.Equal(kept) {
					inapStats["hash-neutral-moves"]++ // the commitment does not see the move (not a condition: only counted)
				}
				inapTarget = target
				inapStats[a.Kind+"/"+backendName(s.node.NewState)]++
				tag += ":" + a.Kind
				outc = s.run(o)
			case "OfferStaleClassHash":
				// re-key one Sierra definition under another class hash, consistently in the diff
				// and the class map, and let the producer hash the block
				sp := specOf(c)
				sh := c.sierra[0]
				wrong := *bump(&sh)
				sp.Diff = deepCopyDiff(sp.Diff)
				sp.Diff.DeclaredV1Classes[wrong] = sp.Diff.DeclaredV1Classes[sh]
				delete(sp.Diff.DeclaredV1Classes, sh)
				for addr, ch := range sp.Diff.ReplacedClasses {
					if ch.Equal(&sh) {
						sp.Diff.ReplacedClasses[addr] = &wrong
					}
				}
				cl := map[felt.Felt]core.ClassDefinition{}
				for k, v := range sp.Classes {
					cl[k] = v
				}
				cl[wrong] = cl[sh]
				delete(cl, sh)
				sp.Classes = cl
				b, err := s.twin.Build(sp)
				if err != nil {
					t.Fatalf("build stale class: %v", err)
				}
				outc = s.run(offerOf(b))
			case "OfferCommitFails":
				s.fk.Arm(faultkv.FailAt, 1, nil)
				outc = s.run(o)
				s.fk.Disarm() // (a Store that never reaches a durable write is judged by its outcome below)
			case "VerifyAhead":
				var cm *core.BlockCommitments
				var err error
				if g := guarded(func() outcome {
					cm, err = s.node.BC.SanityCheckNewHeight(o.B, o.U, o.C)
					return outcome{}
				}); g.Kind != "" {
					outc = g
				} else if err != nil {
					outc = outcome{Kind: "rejected", Stage: "verify", Err: err.Error()}
				} else {
					outc = outcome{Kind: "verified", Stage: "verify"}
					s.pending[cidKey(a.H, a.Var, a.V)] = &pendingBlock{o: o, commitments: cm,
						snapshot: deepCopy(reflect.ValueOf(cm)).Interface().(*core.BlockCommitments)}
				}
			case "StorePending":
				k := cidKey(a.H, a.Var, a.V)
				pb := s.pending[k]
				if pb == nil {
					t.Fatalf("behaviour %d step %d: StorePending of unknown block %s", idx, i, k)
				}
				delete(s.pending, k)
				c = s.cache[k]
				// what SanityCheckNewHeight handed back must not have changed while other blocks were
				// verified and stored in between, and must be what the producer computed
				if !reflect.DeepEqual(pb.commitments, pb.snapshot) || !reflect.DeepEqual(pb.snapshot, c.built.Commitments) {
					diverge(i, "block-verify:retained-commitments-changed",
						"the commitments returned by SanityCheckNewHeight changed after later calls / differ from the producer's", pb.snapshot, pb.commitments)
					break steps
				}
				outc = guarded(func() outcome {
					if err := s.node.BC.Store(pb.o.B, pb.commitments, pb.o.U, pb.o.C); err != nil {
						return outcome{Kind: "rejected", Stage: "store", Err: err.Error()}
					}
					return outcome{Kind: "accepted", Stage: "store"}
				})
				if outc.Kind == "accepted" {
					accepts = c
				}
			default:
				t.Fatalf("unknown action %q", a.Name)
			}
			if outc.Kind == "crash" || outc.Kind == "hang" {
				key := fmt.Sprintf("block-verify:%s:%s:%s", outc.Kind, a.Name, a.F)
				if a.Name == "OfferReclass" {
					key = fmt.Sprintf("block-verify:%s:%s:%s:%s>%s", outc.Kind, a.Name, a.F, a.From, a.Kind)
					if outc.Kind == "crash" {
						key = s.ct.crashKey(a.F, a.From, a.Kind, "")
					}
				}
				diverge(i, key,
					fmt.Sprintf("%s(%s %s %s %s) at height %d: juno did not return a verdict: %s %s", a.Name, a.V, a.Var, a.F, a.Kind, a.H, outc.Kind, outc.Err),
					st.Res, outc)
				if outc.Kind == "hang" { // the stuck goroutine cannot be stopped: report and leave
					_ = out.Write()
					os.Exit(1)
				}
				break steps
			}
			stages[a.Name+":"+st.Res.Why+"->"+outc.Kind+"@"+outc.Stage]++
			shapeOffers[a.Name+"/"+a.Kind+"/"+a.Seal+"/"+a.Var+fmt.Sprintf("/h>0=%v", a.H > 0)]++
			obs := vh.J{"outcome": outc}
			// (1) accept / reject as the specification says
			if a.Name == "OfferInapplicable" && outc.Kind == "accepted" && st.Res.Kind == "rejected" {
				// the real code stored a block whose diff cannot be applied to the state it had. What it
				// left behind (diagnosis; C02's verdict is the acceptance): can the block be reverted?
				rev := s.revertProbe()
				if rev == "" {
					rev = "RevertHead of the stored block succeeds"
				} else {
					rev = "RevertHead of the stored block fails: " + rev
				}
				diverge(i, fmt.Sprintf("block-verify:accepted-inapplicable:%s:%s", a.Kind, a.V),
					fmt.Sprintf("%s state, %s block of version %s at height %d: inapplicable state diff (%s of %s; block hash %s; declared root that of the honest block) "+
						"was verified and stored; specification: rejected (%s). %s", backendName(s.node.NewState), a.Var, a.V, a.H, a.Kind, inapTarget,
						map[string]string{"kept": "unchanged - the state-diff commitment does not distinguish the two sections", "resealed": "re-sealed"}[a.Seal], st.Res.Why, rev),
					st.Res, vh.J{"outcome": outc, "revert": rev})
				// go on from the state the specification is in
				if err := s.restore(before); err != nil {
					t.Fatal(err)
				}
				if msg := s.compareChain(st); msg != "" {
					diverge(i, "block-verify:chain-mismatch:"+a.Name, msg, st.Chain, nil)
					break steps
				}
				continue steps
			}
			if outc.Kind != st.Res.Kind {
				key := fmt.Sprintf("block-verify:%s:%s", tag, a.V)
				if st.Res.Kind == "accepted" || st.Res.Kind == "verified" {
					key = fmt.Sprintf("block-verify:rejected-valid:%s:%s", a.Name, a.V)
					if o != nil {
						// where does the code's hash of this valid block differ from the reference's?
						if cause := s.ct.whyRejected(o); cause != "" {
							key = fmt.Sprintf("block-verify:rejected-valid:%s:%s:%s", cause, a.Var, a.V)
							obs["reference"] = cause
						}
					}
					if strings.Contains(outc.Err, "couldn't initialize the running event filter") {
						// an earlier failure of the lazy filter initialisation is served again
						key = "block-verify:rejected-valid:latched-filter-init-error"
					}
				} else if a.Name != "OfferTampered" && a.Name != "OfferReclass" {
					key = fmt.Sprintf("block-verify:accepted:%s:%s", tag, a.V)
				}
				diverge(i, key, fmt.Sprintf("%s(%s %s %s) at height %d: specification says %s (%s), juno: %s %s",
					a.Name, a.V, a.F, a.Kind, a.H, st.Res.Kind, st.Res.Why, outc.Kind, outc.Err), st.Res, obs)
				break steps
			}
			// (2) a rejected offer leaves the database and every read unchanged
			if outc.Kind == "rejected" || outc.Kind == "verified" {
				after, err := faultkv.Dump(s.fk)
				if err != nil {
					t.Fatal(err)
				}
				if d := faultkv.Diff(before, after, nil, 8); len(d) > 0 {
					diverge(i, fmt.Sprintf("block-verify:rejected-changed-db:%s:%s", a.Name, outc.Stage),
						fmt.Sprintf("%s(%s %s %s) was rejected (%s) but the database changed", a.Name, a.V, a.F, a.Kind, outc.Err), "unchanged", d)
					break steps
				}
				if d := diffProbe(probeBefore, s.probe()); len(d) > 0 {
					diverge(i, fmt.Sprintf("block-verify:rejected-changed-reads:%s:%s", a.Name, outc.Stage),
						fmt.Sprintf("%s(%s %s %s) was rejected (%s) but reads changed", a.Name, a.V, a.F, a.Kind, outc.Err), "unchanged", d)
					break steps
				}
			}
			// (3) an accepted block is the head; the chain is the specification's
			if outc.Kind == "accepted" {
				if err := s.twin.StoreBuilt(accepts.built); err != nil {
					diverge(i, "block-verify:twin-disagrees:"+a.Name, "a second node with the same chain refuses the block the first one stored: "+err.Error(), "accepted", err.Error())
					break steps
				}
				// the stored commitments are the producer's
				if cm, err := s.node.BC.BlockCommitmentsByNumber(accepts.built.Block.Number); err != nil || !reflect.DeepEqual(cm, accepts.built.Commitments) {
					diverge(i, "block-verify:stored-commitments:"+a.Name, "stored block commitments differ from the producer's", accepts.built.Commitments, fmt.Sprint(cm, err))
					break steps
				}
				s.w.apply(accepts)
				// a stored block must be revertible (C04 states and examines that; here only an observation)
				if (idx+i)%3 == 0 {
					inapStats["revert-probes"]++
					if rev := s.revertProbe(); rev != "" && len(observations) < 5 {
						observations = append(observations, fmt.Sprintf("block-verify:stored-block-not-revertible [newState=%v] %s(%s %s) at height %d: %s",
							s.node.NewState, a.Name, a.V, a.Var, a.H, rev))
					}
				}
			}
			if msg := s.compareChain(st); msg != "" {
				diverge(i, "block-verify:chain-mismatch:"+a.Name, msg, st.Chain, obs)
				break steps
			}
		}
		out.Sample(vh.J{"behaviour": idx, "steps": beh})
	}
	if in.Concurrent {
		concurrentVerify(out, seed, vh.J{"seed": seed, "start": in.Start, "behaviours": [][]step{}, "concurrent": true})
	}
	if prev, ok := out.Stats["observations"].([]string); ok {
		observations = append(prev, observations...)
	}
	out.Stats["observations"] = observations
	out.Stats["inapplicable_offers"] = inapStats
	out.Done(len(in.Behaviours), nsteps)
	out.Stats["tamper_cases_replayed"] = len(covered)
	out.Stats["tamper_cases_without_target"] = len(skipped)
	cov := []string{}
	for k := range covered {
		cov = append(cov, k)
	}
	out.Stats["covered"] = cov
	ccov := []string{}
	for k := range classCovered {
		ccov = append(ccov, k)
	}
	out.Stats["class_covered"] = ccov
	zcov := []string{}
	for k := range shapeCovered {
		if strings.HasPrefix(k, "zero:") && !strings.Contains(k, ">") {
			zcov = append(zcov, strings.TrimPrefix(k, "zero:"))
		}
	}
	out.Stats["zero_shape_covered"] = zcov
	out.Stats["outcomes"] = stages
	out.Stats["shape_field_tampers_replayed"] = len(shapeCovered)
	out.Stats["offers_by_shape"] = shapeOffers
}

// rehash makes o consistent again apart from the altered linkage / root: the block hash is
// recomputed as the block's producer would (core.BlockHash), so that only the succession or
// state-root check can reject it.
func rehash(t *testing.T, o *offer) {
	hsh, _, err := core.BlockHash(o.B, o.U.StateDiff, chainkit.Network, nil, core.TrieBackend)
	if err != nil {
		t.Fatalf("rehash: %v", err)
	}
	o.B.Hash, o.U.BlockHash = &hsh, &hsh
}

func specOf(c *content) chainkit.BlockSpec {
	b := c.built
	return chainkit.BlockSpec{Version: b.Block.ProtocolVersion, Timestamp: b.Block.Timestamp, Diff: b.Update.StateDiff,
		Classes: b.Classes, Txs: b.Block.Transactions, Receipts: b.Block.Receipts, Sequencer: b.Block.SequencerAddress,
		L1DAMode: b.Block.L1DAMode}
}

func deepCopyDiff(d *core.StateDiff) *core.StateDiff {
	return (&offer{B: &core.Block{Header: &core.Header{}}, U: &core.StateUpdate{StateDiff: d}}).clone().U.StateDiff
}

// compareChain checks height and the hash of every stored block against the specification's chain.
func (s *session) compareChain(st step) string {
	h, err := s.node.BC.Height()
	got := -1
	if err == nil {
		got = int(h) - s.off
	} else if !errors.Is(err, db.ErrKeyNotFound) {
		return "Height: " + err.Error()
	}
	if got != st.Height {
		return fmt.Sprintf("height: specification %d, juno %d", st.Height, got)
	}
	for i, cid := range st.Chain {
		var hh int
		var vr, v string
		_ = json.Unmarshal(cid[0], &hh)
		_ = json.Unmarshal(cid[1], &vr)
		_ = json.Unmarshal(cid[2], &v)
		c := s.cache[cidKey(hh, vr, v)]
		if c == nil {
			return fmt.Sprintf("specification chain names unknown block %s", cidKey(hh, vr, v))
		}
		hdr, err := s.node.BC.BlockHeaderByNumber(uint64(i + s.off))
		if err != nil {
			return fmt.Sprintf("block %d: %v", i, err)
		}
		if !hdr.Hash.Equal(c.built.Block.Hash) {
			return fmt.Sprintf("block %d: stored hash %s is not the offered block's %s", i, hdr.Hash, c.built.Block.Hash)
		}
	}
	return ""
}

// maxFelt is p-1, the largest field element.
// maxU128 is the largest protocol-valid price (prices are 128-bit; only those bits are hashed).
func maxU128() *felt.Felt {
	return new(felt.Felt).SetBytes(bytes.Repeat([]byte{0xff}, 16))
}

func maxFelt() *felt.Felt { return new(felt.Felt).Sub(new(felt.Felt), &one) }

// (C02 quantifies over inputs and histories, not schedules: a verdict that is wrong ONLY while
// another goroutine's call is in flight is recorded as an OBSERVATION, not a divergence. What stays a
// verdict: a crash, and anything still wrong when the same calls are repeated sequentially after
// the round.)
// concurrentVerify: the sync pipeline verifies blocks on several goroutines while another one
// stores. SanityCheckNewHeight does not depend on the head, so the specification's verdict for an
// offer is the same at any moment: a builder-made block verifies, the same block with one committed
// field altered does not - for the writer's whole lifetime. The monitors are the spec's VerifyWhy.
func concurrentVerify(out *vh.Result, seed int64, replay any) {
	observations := []string{}
	for _, newState := range []bool{false, true} {
		s := &session{g: chainkit.NewGen(seed*7919 + 1), node: chainkit.NewNode(nil, newState), twin: chainkit.NewNode(nil, newState),
			w: newWorld(), cache: map[string]*content{}}
		var chain []*content
		for i, v := range []string{"0.13.2", "0.13.4", "0.14.0", "0.14.0", "0.14.1", "0.14.1"} {
			c, err := s.genContent(v, []string{"full", "emptydiff", "full", "bare", "full", "empty"}[i])
			if err != nil {
				out.Diverge(vh.Divergence{Key: "block-verify:producer-failed:concurrent", What: err.Error(), Input: replay})
				return
			}
			if c.producerHash != nil { // the code's own hash of a valid block is not the reference's
				o := offerOf(c.built)
				out.Diverge(vh.Divergence{Key: fmt.Sprintf("block-verify:rejected-valid:%s:concurrent", s.ct.whyRejected(o)),
					What:  fmt.Sprintf("the producer (Simulate) hashes a valid %s block to %s, the reference to %s", v, c.producerHash, c.built.Block.Hash),
					Input: replay})
				return
			}
			if err := s.twin.StoreBuilt(c.built); err != nil {
				out.Diverge(vh.Divergence{Key: "block-verify:producer-failed:concurrent", What: err.Error(), Input: replay})
				return
			}
			s.w.apply(c)
			chain = append(chain, c)
		}
		fields := []string{"hdr.timestamp", "rc.fee", "tx.invoke3.tip", "ev.from", "sd.storage.value", "hdr.l1_gas_price_wei", "txs.reorder", "msg.payload.elem"}
		var stop atomic.Bool
		var wg sync.WaitGroup
		var mu sync.Mutex
		report := func(key, what string) { // a verdict: crash / hang / wrong after the race has ended
			mu.Lock()
			defer mu.Unlock()
			out.Diverge(vh.Divergence{Key: key, What: fmt.Sprintf("[newState=%v] %s", newState, what), Input: replay})
		}
		observe := func(key, what string) { // wrong only while other calls were in flight
			mu.Lock()
			defer mu.Unlock()
			observations = append(observations, fmt.Sprintf("%s [newState=%v] %s", key, newState, what))
		}
		checks := int64(0)
		for w := 0; w < 4; w++ {
			wg.Add(1)
			go func(w int) {
				defer wg.Done()
				defer func() {
					if r := recover(); r != nil {
						report("block-verify:concurrent:crash", fmt.Sprintf("verifier panicked: %v %s", r, firstJunoFrames()))
					}
				}()
				for n := w; !stop.Load() || n < w+len(chain)*2; n++ { // at least two passes, and as long as the writer lives
					c := chain[n%len(chain)]
					v := offerOf(c.built)
					if _, err := s.node.BC.SanityCheckNewHeight(v.B, v.U, v.C); err != nil {
						observe("block-verify:concurrent:rejected-valid", fmt.Sprintf("block %d does not verify while other blocks are verified and stored: %v", c.built.Block.Number, err))
						return
					}
					o := offerOf(c.built)
					f := fields[(n/len(chain)+w)%len(fields)]
					if mutatorFor(f)(o) {
						if _, err := s.node.BC.SanityCheckNewHeight(o.B, o.U, o.C); err == nil {
							observe("block-verify:concurrent:accepted-tamper:"+f, fmt.Sprintf("block %d with %s altered verifies while other blocks are verified and stored", c.built.Block.Number, f))
							return
						}
					}
					atomic.AddInt64(&checks, 2)
				}
			}(w)
		}
		func() {
			defer stop.Store(true)
			defer func() {
				if r := recover(); r != nil {
					report("block-verify:concurrent:crash", fmt.Sprintf("writer panicked: %v %s", r, firstJunoFrames()))
				}
			}()
			for round := 0; round < 3; round++ { // store the chain, revert it, store it again: a long-lived writer
				for _, c := range chain {
					if out := s.runUnguarded(offerOf(c.built)); out.Kind != "accepted" {
						observe("block-verify:concurrent:rejected-valid", fmt.Sprintf("writer: block %d refused: %s", c.built.Block.Number, out.Err))
						return
					}
				}
				if round < 2 {
					for range chain {
						if err := s.node.BC.RevertHead(); err != nil {
							observe("block-verify:concurrent:revert-failed", err.Error())
							return
						}
					}
				}
			}
		}()
		done := make(chan struct{})
		go func() { wg.Wait(); close(done) }()
		select {
		case <-done:
		case <-time.After(hangAfter):
			report("block-verify:concurrent:hang", "verifiers did not finish")
			_ = out.Write()
			os.Exit(1)
		}
		out.Count("concurrent_verifications", int(checks))
		// after the round, sequentially: nothing may have been left wrong. The node is rebuilt
		// from whatever the writer got stored, then every block verifies, every tampering is
		// rejected, and the chain continues / is the twin's.
		stored := 0 // blocks the writer got stored (it may have been disturbed: that was only observed)
		if h, err := s.node.BC.Height(); err == nil {
			stored = int(h) + 1
		} else if !errors.Is(err, db.ErrKeyNotFound) {
			report("block-verify:after-concurrency:height", err.Error())
			continue
		}
		for n := 0; n < stored && n < len(chain); n++ {
			hdr, err := s.node.BC.BlockHeaderByNumber(uint64(n))
			if err != nil || !hdr.Hash.Equal(chain[n].built.Block.Hash) {
				report("block-verify:after-concurrency:chain", fmt.Sprintf("block %d after the round: %v", n, err))
			}
		}
		for ; stored < len(chain); stored++ { // finish the chain if the writer stopped early
			if o := s.run(offerOf(chain[stored].built)); o.Kind != "accepted" {
				report("block-verify:after-concurrency:rejected-valid", fmt.Sprintf("block %d is refused after the round: %s", stored, o.Err))
				break
			}
		}
		for n, c := range chain {
			v := offerOf(c.built)
			if _, err := s.node.BC.SanityCheckNewHeight(v.B, v.U, v.C); err != nil {
				report("block-verify:after-concurrency:rejected-valid", fmt.Sprintf("block %d does not verify after the round: %v", n, err))
			}
			o := offerOf(c.built)
			if mutatorFor(fields[n%len(fields)])(o) {
				if _, err := s.node.BC.SanityCheckNewHeight(o.B, o.U, o.C); err == nil {
					report("block-verify:after-concurrency:accepted-tamper:"+fields[n%len(fields)], fmt.Sprintf("tampered block %d verifies after the round", n))
				}
			}
		}
	}
	out.Stats["observations"] = observations
}

package blockverify

import (
	"encoding/json"
	"fmt"
	"os"
	"path/filepath"
	"sort"
	"strconv"
	"strings"
	"testing"

	"github.com/Masterminds/semver/v3"
	"github.com/NethermindEth/juno/adapters/sn2core"
	"github.com/NethermindEth/juno/blockchain"
	"github.com/NethermindEth/juno/blockchain/networks"
	"github.com/NethermindEth/juno/core"
	"github.com/NethermindEth/juno/db/memory"
	"github.com/NethermindEth/juno/starknet"

	"verifharness/internal/chainkit"
	"verifharness/internal/faultkv"
	"verifharness/internal/refimpl"
	"verifharness/internal/vh"
)

// The repository's real-network fixture blocks (clients/feeder/testdata), decoded with the same
// starknet.* JSON types and sn2core adapters the feeder path uses. They are read straight from the
// files: feeder.NewTestClient needs a *testing.T-bound local HTTP server, which adds nothing here.

type fixturesInput struct {
	Repo      string              `json:"repo"`
	Legacy    map[string][]string `json:"legacy"`
	Committed map[string][]string `json:"committed"`
	Classes   *classTable         `json:"classes"`
	Malformed bool                `json:"malformed"` // also move fields into classes no valid block has
}

type fixture struct {
	net       string
	network   *networks.Network
	n         uint64
	o         *offer
	synthetic bool // no state update in the testdata: an empty one is attached (formats < 0.13.2 do not hash it)
}

var fixtureNets = map[string]*networks.Network{
	"mainnet": &networks.Mainnet, "goerli": &networks.Goerli, "goerli2": &networks.Goerli2,
	"integration": &networks.Integration, "sepolia": &networks.Sepolia, "sepolia-integration": &networks.SepoliaIntegration,
}

func readJSON(path string, v any) error {
	b, err := os.ReadFile(path)
	if err != nil {
		return err
	}
	return json.Unmarshal(b, v)
}

func loadFixtures(repo string) ([]*fixture, error) {
	var out []*fixture
	root := filepath.Join(repo, "clients", "feeder", "testdata")
	nets := make([]string, 0, len(fixtureNets))
	for n := range fixtureNets {
		nets = append(nets, n)
	}
	sort.Strings(nets)
	for _, net := range nets {
		blocks := map[uint64]*starknet.Block{}
		updates := map[uint64]*starknet.StateUpdate{}
		numeric := func(dir string) map[uint64]string {
			m := map[uint64]string{}
			es, _ := os.ReadDir(filepath.Join(root, net, dir))
			for _, e := range es {
				if n, err := strconv.ParseUint(strings.TrimSuffix(e.Name(), ".json"), 10, 64); err == nil {
					m[n] = filepath.Join(root, net, dir, e.Name())
				}
			}
			return m
		}
		for n, p := range numeric("block") {
			var b starknet.Block
			if err := readJSON(p, &b); err != nil {
				return nil, fmt.Errorf("%s: %w", p, err)
			}
			blocks[n] = &b
		}
		for n, p := range numeric("state_update") {
			var u starknet.StateUpdate
			if err := readJSON(p, &u); err != nil {
				return nil, fmt.Errorf("%s: %w", p, err)
			}
			updates[n] = &u
		}
		for n, p := range numeric("state_update_with_block") {
			var w starknet.StateUpdateWithBlockAndSignature
			if err := readJSON(p, &w); err != nil {
				return nil, fmt.Errorf("%s: %w", p, err)
			}
			if w.Block != nil && w.StateUpdate != nil && w.Block.Number == n {
				if _, ok := blocks[n]; !ok {
					blocks[n] = w.Block
				}
				if _, ok := updates[n]; !ok && blocks[n].Hash.Equal(w.Block.Hash) {
					updates[n] = w.StateUpdate
				}
			}
		}
		ns := make([]uint64, 0, len(blocks))
		for n := range blocks {
			ns = append(ns, n)
		}
		sort.Slice(ns, func(i, j int) bool { return ns[i] < ns[j] })
		for _, n := range ns {
			b, err := sn2core.AdaptBlock(blocks[n], nil)
			if err != nil {
				return nil, fmt.Errorf("%s/%d: adapt: %w", net, n, err)
			}
			f := &fixture{net: net, network: fixtureNets[net], n: n}
			var su *core.StateUpdate
			if u, ok := updates[n]; ok && u.BlockHash.Equal(b.Hash) {
				if su, err = sn2core.AdaptStateUpdate(u); err != nil {
					return nil, fmt.Errorf("%s/%d: adapt state update: %w", net, n, err)
				}
			} else {
				f.synthetic = true
				su = &core.StateUpdate{BlockHash: b.Hash, NewRoot: b.GlobalStateRoot, OldRoot: b.GlobalStateRoot,
					StateDiff: chainkit.EmptyDiff()}
			}
			f.o = &offer{B: b, U: su}
			out = append(out, f)
		}
	}
	return out, nil
}

// formatClass names the entry of Committed / LegacyCommitted that applies to the block.
func formatClass(f *fixture) (class string, modern bool, err error) {
	v, err := core.ParseBlockVersion(f.o.B.ProtocolVersion)
	if err != nil {
		return "", false, err
	}
	switch {
	case v.GreaterThanEqual(core.Ver0_14_1):
		return "0.14.1", true, nil
	case v.GreaterThanEqual(core.Ver0_14_0):
		return "0.14.0", true, nil
	case v.GreaterThanEqual(core.Ver0_13_4):
		return "0.13.4", true, nil
	case v.GreaterThanEqual(core.Ver0_13_2):
		return "0.13.2", true, nil
	case f.n < f.network.BlockHashMetaInfo.First07Block:
		return "pre-0.7", false, nil
	case v.LessThan(semver.MustParse("0.11.0")):
		return "0.7-0.10", false, nil
	}
	return "0.11-0.13.1", false, nil
}

// juno skips hash verification inside a network's UnverifiableRange (Starknet alpha bugs).
func unverifiable(f *fixture) bool { return unverifiableNumber(f, f.n) }

func unverifiableNumber(f *fixture, n uint64) bool {
	r := f.network.BlockHashMetaInfo.UnverifiableRange
	return r != nil && n >= r[0] && n <= r[1]
}

func TestBlockVerifyFixtures(t *testing.T) {
	if !vh.Enabled() {
		t.Skip()
	}
	out := vh.NewResult()
	defer out.Write()
	var in fixturesInput
	if err := vh.Input(&in); err != nil {
		t.Fatal(err)
	}
	fx, err := loadFixtures(in.Repo)
	if err != nil {
		t.Fatal(err)
	}
	restore, err := refimpl.UseIndependent()
	if err != nil {
		t.Fatal(err)
	}
	defer restore()
	refTxs, refBlocks, moves := 0, 0, 0
	if len(fx) < 40 {
		t.Fatalf("only %d fixture blocks found under %s", len(fx), in.Repo)
	}
	fields := func(class string, modern bool) []string {
		if modern {
			return in.Committed[class]
		}
		return in.Legacy[class]
	}
	offers, rejected, verified, noTarget := 0, 0, 0, 0
	perClass := map[string]int{}
	maxTx := 40
	if vh.Thorough() {
		maxTx = 140
	}
	nodes := map[string]*blockchain.Blockchain{}
	for _, f := range fx {
		if _, ok := nodes[f.net]; !ok {
			nodes[f.net] = blockchain.New(memory.New(), f.network)
		}
		bc := nodes[f.net]
		class, modern, err := formatClass(f)
		if err != nil {
			t.Fatalf("%s/%d: %v", f.net, f.n, err)
		}
		if unverifiable(f) {
			out.Count("fixtures_in_unverifiable_range", 1)
			continue
		}
		if modern && f.synthetic {
			out.Count("fixtures_without_state_update", 1)
			continue // the 0.13.2+ hash needs the real state diff
		}
		verify := func(o *offer) (err error) {
			defer func() {
				if r := recover(); r != nil {
					err = fmt.Errorf("PANIC: %v", r)
				}
			}()
			_, err = bc.SanityCheckNewHeight(o.B, o.U, o.C)
			return err
		}
		input := vh.J{"repo": in.Repo, "legacy": in.Legacy, "committed": in.Committed, "classes": in.Classes, "malformed": in.Malformed}
		// self-test of the REFERENCE (refimpl) against the network's own hashes - machinery, never a verdict:
		// every transaction hash of the formats whose transaction hashes are recomputable, every block hash from 0.13.2 on
		if modern || class == "0.11-0.13.1" {
			cid := refimpl.ShortString(f.network.L2ChainID)
			for i, tx := range f.o.B.Transactions {
				ref, err := refimpl.TxHash(tx, &cid)
				if err == refimpl.ErrNoHashRule {
					continue
				}
				if err != nil || !ref.Equal(tx.Hash()) {
					t.Fatalf("the reference transaction hash is wrong: real %s block %d transaction %d (%s): network %s, reference %s %v",
						f.net, f.n, i, txKind(tx), tx.Hash(), &ref, err)
				}
				refTxs++
			}
		}
		if modern {
			parts, err := refimpl.BlockHash(f.o.B, f.o.U.StateDiff)
			if err != nil || !parts.Hash.Equal(f.o.B.Hash) {
				t.Fatalf("the reference block hash is wrong: real %s block %d (version %s): network %s, reference %+v %v",
					f.net, f.n, f.o.B.ProtocolVersion, f.o.B.Hash, parts, err)
			}
			refBlocks++
		}
		offers++
		if err := verify(f.o.clone()); err != nil {
			out.Diverge(vh.Divergence{Key: fmt.Sprintf("block-verify:rejected-valid-fixture:%s:%d", f.net, f.n),
				What:  fmt.Sprintf("real %s block %d (version %q, format %s) does not verify: %v", f.net, f.n, f.o.B.ProtocolVersion, class, err),
				Input: input, Expected: "accepted", Observed: err.Error()})
			continue
		}
		verified++
		perClass[class]++
		if len(f.o.B.Transactions) > maxTx {
			continue
		}
		for _, name := range fields(class, modern) {
			m := mutatorFor(name)
			if m == nil {
				t.Fatalf("no mutator for field %q", name)
			}
			o := f.o.clone()
			if !m(o) || unverifiableNumber(f, o.B.Number) { // (a number moved into the unverifiable range is not a tamper juno claims to detect)
				noTarget++
				continue
			}
			offers++
			err := verify(o)
			if err != nil && strings.HasPrefix(err.Error(), "PANIC") {
				out.Diverge(vh.Divergence{Key: "block-verify:crash:fixture:" + name,
					What:  fmt.Sprintf("real %s block %d with %s altered makes SanityCheckNewHeight panic: %v", f.net, f.n, name, err),
					Input: input, Expected: "rejected", Observed: err.Error()})
				continue
			}
			if err == nil {
				out.Diverge(vh.Divergence{Key: fmt.Sprintf("block-verify:accepted-tamper:%s:fixture-%s", name, class),
					What:  fmt.Sprintf("real %s block %d (format %s) with %s altered and all hashes kept passes SanityCheckNewHeight", f.net, f.n, class, name),
					Input: input, Expected: "rejected", Observed: "accepted"})
				continue
			}
			rejected++
		}
		// presence / value classes on real blocks: the first carrier of every class field moved to every
		// other class the representation can carry (a real two-bound v3 transaction given an (0,0)
		// l1_data_gas entry, an empty paymaster_data made [0] ...), all hashes kept
		if modern && in.Classes != nil {
			for _, cf := range in.Classes.ClassIn[class] {
				acc, _ := carriers(cf, f.o.B.Transactions, f.o.B.Receipts, f.o.B.Header)
				if len(acc) == 0 {
					continue
				}
				from := acc[0].get()
				if !contains(in.Classes.ClassOf[cf], from) {
					continue
				}
				for _, to := range in.Classes.ClassOf[cf] {
					if to == from || (contains(in.Classes.ProtoSame[class], cf) && to != "nonzero" && from != "nonzero") {
						continue
					}
					if !in.Malformed && !contains(in.Classes.ValidOf[cf], to) {
						continue // (finding block-verify:crash:invalid-class*: offered with VERIF_C02_MALFORMED=1)
					}
					o := f.o.clone()
					a2, _ := carriers(cf, o.B.Transactions, o.B.Receipts, o.B.Header)
					a2[0].set(to, nil)
					move := cf + ":" + from + ">" + to
					offers++
					moves++
					err := verify(o)
					switch {
					case err != nil && strings.HasPrefix(err.Error(), "PANIC"):
						out.Diverge(vh.Divergence{Key: in.Classes.crashKey(cf, from, to, ":fixture-"+class),
							What:  fmt.Sprintf("real %s block %d with %s makes SanityCheckNewHeight panic: %v", f.net, f.n, move, err),
							Input: input, Expected: "rejected", Observed: err.Error()})
					case err == nil:
						out.Diverge(vh.Divergence{Key: fmt.Sprintf("block-verify:accepted-tamper:%s:fixture-%s", move, class),
							What:  fmt.Sprintf("real %s block %d (format %s) with %s (class moved, all hashes kept) passes SanityCheckNewHeight", f.net, f.n, class, move),
							Input: input, Expected: "rejected", Observed: "accepted"})
					default:
						rejected++
					}
				}
			}
		}
	}
	// chains from genesis: the full pipeline incl. Store, on both state backends
	stored := 0
	for _, net := range []string{"mainnet", "sepolia", "integration", "sepolia-integration"} {
		for _, newState := range []bool{false, true} {
			fk := faultkv.Wrap(memory.New())
			bc := blockchain.New(fk, fixtureNets[net], blockchain.WithNewState(newState))
			input := vh.J{"repo": in.Repo, "legacy": in.Legacy, "committed": in.Committed}
			next := uint64(0)
			for _, f := range fx {
				if f.net != net || f.n != next || f.synthetic || unverifiable(f) {
					continue
				}
				class, modern, _ := formatClass(f)
				pipeline := func(o *offer) error {
					cm, err := bc.SanityCheckNewHeight(o.B, o.U, o.C)
					if err != nil {
						return err
					}
					return bc.Store(o.B, cm, o.U, o.C)
				}
				before, _ := faultkv.Dump(fk)
				probes := []string{"hdr.parent_hash", "hdr.state_root", "hdr.timestamp", "txs.reorder", "su.new_root", "ev.from"}
				for _, name := range probes {
					if !contains(fields(class, modern), name) {
						continue
					}
					o := f.o.clone()
					if !mutatorFor(name)(o) {
						continue
					}
					offers++
					if err := pipeline(o); err == nil {
						out.Diverge(vh.Divergence{Key: fmt.Sprintf("block-verify:accepted-tamper:%s:fixture-%s", name, class),
							What:  fmt.Sprintf("real %s block %d with %s altered is stored", net, f.n, name),
							Input: input, Expected: "rejected", Observed: "accepted"})
						break
					}
					rejected++
					after, _ := faultkv.Dump(fk)
					if d := faultkv.Diff(before, after, nil, 5); len(d) > 0 {
						out.Diverge(vh.Divergence{Key: "block-verify:rejected-changed-db:fixture:" + name,
							What:  fmt.Sprintf("rejected tampered %s block %d changed the database", net, f.n),
							Input: input, Expected: "unchanged", Observed: d})
					}
				}
				// wrong OldRoot: only the state-root continuity check can reject
				{
					o := f.o.clone()
					o.U.OldRoot = bump(o.U.OldRoot)
					offers++
					if err := pipeline(o); err == nil {
						out.Diverge(vh.Divergence{Key: "block-verify:accepted:OfferWrongRoot:oldroot:fixture-" + class,
							What:  fmt.Sprintf("real %s block %d with another old root is stored", net, f.n),
							Input: input, Expected: "rejected", Observed: "accepted"})
						break
					}
					rejected++
				}
				offers++
				if err := pipeline(f.o.clone()); err != nil {
					out.Diverge(vh.Divergence{Key: fmt.Sprintf("block-verify:rejected-valid-fixture-chain:%s:%d", net, f.n),
						What:  fmt.Sprintf("real %s block %d is refused on top of its real predecessors (newState=%v): %v", net, f.n, newState, err),
						Input: input, Expected: "accepted", Observed: err.Error()})
					break
				}
				if h, err := bc.Height(); err != nil || h != f.n {
					t.Fatalf("%s: height %d/%v after storing block %d", net, h, err, f.n)
				}
				stored++
				next++
			}
		}
	}
	out.Done(verified, offers)
	out.Stats["fixture_offers"] = offers
	out.Stats["fixture_blocks_verified"] = verified
	out.Stats["fixture_tampers_rejected"] = rejected
	out.Stats["fixture_tampers_without_target"] = noTarget
	out.Stats["fixture_chain_blocks_stored"] = stored
	out.Stats["fixture_blocks_per_format"] = perClass
	out.Stats["fixture_class_moves"] = moves
	out.Stats["reference_selftest_tx_hashes"] = refTxs
	out.Stats["reference_selftest_block_hashes"] = refBlocks
	out.Sample(vh.J{"fixtures_per_format": perClass, "tampers_rejected": rejected, "chain_blocks_stored": stored})
}

func contains(xs []string, x string) bool {
	for _, y := range xs {
		if x == y {
			return true
		}
	}
	return false
}

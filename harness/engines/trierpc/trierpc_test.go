// Engine "trierpc" (property C10, RPC part): starknet_getStorageProof, served through the real
// jsonrpc.Server with the v8 / v9 / v10 method tables on chains built by Blockchain.Finalise from
// spec/trie/StateCommit.tla behaviours (both state backends), is checked ON THE WIRE FORMAT by an
// independent verifier written from the RPC specification (refimpl.Verify + the commitment
// definitions): classes proof, contracts proof with leaves data, storage proofs, global roots
// against the header's state root.  Links the FFI stubs (ctx.build_engine(..., stubs=True)).
package trierpc

import (
	"context"
	"encoding/json"
	"fmt"
	"math/big"
	"math/rand"
	"strings"
	gosync "sync"
	"testing"
	"time"

	"github.com/NethermindEth/juno/blockchain"
	"github.com/NethermindEth/juno/blockchain/networks"
	"github.com/NethermindEth/juno/core"
	"github.com/NethermindEth/juno/core/felt"
	"github.com/NethermindEth/juno/db"
	"github.com/NethermindEth/juno/db/memory"
	_ "github.com/NethermindEth/juno/encoder/registry"
	"github.com/NethermindEth/juno/jsonrpc"
	"github.com/NethermindEth/juno/rpc"
	rpcv10 "github.com/NethermindEth/juno/rpc/v10"
	rpcv8 "github.com/NethermindEth/juno/rpc/v8"
	rpcv9 "github.com/NethermindEth/juno/rpc/v9"
	"github.com/NethermindEth/juno/sync"
	"github.com/NethermindEth/juno/utils/log"

	"verifharness/internal/refimpl"
	"verifharness/internal/vh"
)

type stAction struct {
	Name string `json:"name"`
	C    string `json:"c,omitempty"`
	H    string `json:"h,omitempty"`
	N    int    `json:"n,omitempty"`
	S    string `json:"s,omitempty"`
	V    int    `json:"v,omitempty"`
	K    string `json:"k,omitempty"`
	X    string `json:"x,omitempty"`
}

type stStep struct {
	A stAction `json:"a"`
}

type rpcConfig struct {
	NewState bool   `json:"newState"`
	Version  string `json:"version"`
	API      string `json:"api"`
	Seed     int64  `json:"seed"`
}

type rpcInput struct {
	Behaviours [][]stStep  `json:"behaviours"`
	Configs    []rpcConfig `json:"configs,omitempty"`
}

func rnd251(r *rand.Rand) *big.Int { return new(big.Int).Rand(r, new(big.Int).Lsh(big.NewInt(1), 251)) }
func fb(b *big.Int) *felt.Felt     { return new(felt.Felt).SetBigInt(b) }
func bf(f *felt.Felt) *big.Int     { var b big.Int; return f.BigInt(&b) }

type concrete struct {
	addr, slot, class, sierra, compiled map[string]*felt.Felt
	val                                 []*felt.Felt
}

func newConcrete(seed int64) *concrete {
	r := rand.New(rand.NewSource(seed))
	c := &concrete{addr: map[string]*felt.Felt{}, slot: map[string]*felt.Felt{}, class: map[string]*felt.Felt{},
		sierra: map[string]*felt.Felt{}, compiled: map[string]*felt.Felt{}}
	a := rnd251(r)
	a.SetBit(a, 0, 0)
	a.SetBit(a, 250, 0)
	a.SetBit(a, 8, 1)
	c.addr["c1"] = fb(a)
	c.addr["c2"] = fb(new(big.Int).SetBit(new(big.Int).Set(a), 0, 1))
	c.addr["c3"] = fb(rnd251(r))
	c.addr["sys"] = felt.NewFromUint64[felt.Felt](1)
	s := big.NewInt(int64(2 * r.Intn(8)))
	c.slot["s1"] = fb(s)
	c.slot["s2"] = fb(new(big.Int).SetBit(new(big.Int).Set(s), 0, 1))
	s3 := rnd251(r)
	c.slot["s3"] = fb(s3)
	c.slot["s4"] = fb(new(big.Int).Xor(s3, new(big.Int).Lsh(big.NewInt(1), uint(1+r.Intn(40)))))
	for _, n := range []string{"h1", "h2"} {
		c.class[n] = fb(rnd251(r))
	}
	c.class["0"] = new(felt.Felt)
	for _, n := range []string{"k1", "k2"} {
		c.sierra[n] = fb(rnd251(r))
	}
	for _, n := range []string{"x1", "x2"} {
		c.compiled[n] = fb(rnd251(r))
	}
	c.val = []*felt.Felt{new(felt.Felt)}
	for i := 0; i < 8; i++ {
		c.val = append(c.val, fb(new(big.Int).Add(rnd251(r), big.NewInt(1))))
	}
	return c
}

// blockRec is what the chain builder remembers of a finalised block
type blockRec struct {
	header *core.Header
	st     *absState // abstract state after the block
}

func (s *absState) clone() *absState {
	c := &absState{deployed: map[string]string{}, nonce: map[string]int{}, store: map[string]map[string]int{}, declared: map[string]string{}}
	for k, v := range s.deployed {
		c.deployed[k] = v
	}
	for k, v := range s.nonce {
		c.nonce[k] = v
	}
	for k, m := range s.store {
		c.store[k] = map[string]int{}
		for kk, vv := range m {
			c.store[k][kk] = vv
		}
	}
	for k, v := range s.declared {
		c.declared[k] = v
	}
	return c
}

type absState struct {
	deployed map[string]string
	nonce    map[string]int
	store    map[string]map[string]int
	declared map[string]string
}

func (s *absState) apply(a stAction) {
	switch a.Name {
	case "Deploy", "Replace":
		s.deployed[a.C] = a.H
	case "Nonce":
		s.nonce[a.C] = a.N
	case "Write":
		if a.C == "sys" && s.deployed["sys"] == "" {
			s.deployed["sys"] = "0"
		}
		if s.store[a.C] == nil {
			s.store[a.C] = map[string]int{}
		}
		s.store[a.C][a.S] = a.V
	case "Declare":
		s.declared[a.K] = a.X
	}
}

func minimalSierra(seed int64) *core.SierraClass {
	r := rand.New(rand.NewSource(seed))
	f := func() *felt.Felt { return fb(rnd251(r)) }
	return &core.SierraClass{
		Abi: "[]", AbiHash: f(), ProgramHash: f(), SemanticVersion: "0.1.0", Program: felt.Slice[felt.Felt]{*f(), *f()},
		Compiled: &core.CasmClass{Bytecode: felt.Slice[felt.Felt]{*f()}, CompilerVersion: "2.1.0", Prime: new(big.Int).SetUint64(17),
			External: []core.CasmEntryPoint{}, L1Handler: []core.CasmEntryPoint{}, Constructor: []core.CasmEntryPoint{}},
	}
}

// chain is a node under construction: blocks are appended through the real Blockchain.Finalise.
type chain struct {
	bc              *blockchain.Blockchain
	store           db.KeyValueStore
	cfg             rpcConfig
	conc            *concrete
	st              *absState
	parent, oldRoot *felt.Felt
	mu              gosync.Mutex
	recs            []blockRec
}

func newChain(cfg rpcConfig, conc *concrete) *chain {
	c := &chain{store: memory.New(), cfg: cfg, conc: conc, parent: &felt.Zero, oldRoot: &felt.Zero,
		st: &absState{deployed: map[string]string{}, nonce: map[string]int{}, store: map[string]map[string]int{}, declared: map[string]string{}}}
	c.bc = blockchain.New(c.store, &networks.Sepolia, blockchain.WithNewState(cfg.NewState))
	return c
}

// restart: new Blockchain (state, tries, caches) on the same store
func (c *chain) restart() {
	c.bc = blockchain.New(c.store, &networks.Sepolia, blockchain.WithNewState(c.cfg.NewState))
}

func (c *chain) records() []blockRec {
	c.mu.Lock()
	defer c.mu.Unlock()
	return append([]blockRec{}, c.recs...)
}

func (c *chain) finalise(g []stAction) error {
	conc := c.conc
	diff := &core.StateDiff{
		StorageDiffs: map[felt.Felt]map[felt.Felt]*felt.Felt{}, Nonces: map[felt.Felt]*felt.Felt{},
		DeployedContracts: map[felt.Felt]*felt.Felt{}, DeclaredV1Classes: map[felt.Felt]*felt.Felt{},
		ReplacedClasses: map[felt.Felt]*felt.Felt{}, DeclaredV0Classes: []*felt.Felt{},
		MigratedClasses: map[felt.SierraClassHash]felt.CasmClassHash{},
	}
	classes := map[felt.Felt]core.ClassDefinition{}
	next := c.st.clone()
	for _, a := range g {
		next.apply(a)
		switch a.Name {
		case "Deploy":
			diff.DeployedContracts[*conc.addr[a.C]] = conc.class[a.H]
		case "Replace":
			diff.ReplacedClasses[*conc.addr[a.C]] = conc.class[a.H]
		case "Nonce":
			diff.Nonces[*conc.addr[a.C]] = felt.NewFromUint64[felt.Felt](uint64(a.N))
		case "Write":
			m := diff.StorageDiffs[*conc.addr[a.C]]
			if m == nil {
				m = map[felt.Felt]*felt.Felt{}
				diff.StorageDiffs[*conc.addr[a.C]] = m
			}
			m[*conc.slot[a.S]] = conc.val[a.V]
		case "Declare":
			diff.DeclaredV1Classes[*conc.sierra[a.K]] = conc.compiled[a.X]
			classes[*conc.sierra[a.K]] = minimalSierra(c.cfg.Seed + int64(a.K[1]))
		}
	}
	one := felt.NewFromUint64[felt.Felt](1)
	bi := len(c.recs)
	receipts := []*core.TransactionReceipt{}
	block := &core.Block{
		Header: &core.Header{
			ParentHash: c.parent, Number: uint64(bi), SequencerAddress: one, Timestamp: uint64(1_700_000_000 + bi),
			ProtocolVersion: c.cfg.Version, EventsBloom: core.EventsBloom(receipts),
			L1GasPriceETH: one, L1GasPriceSTRK: one, L2GasPrice: &core.GasPrice{PriceInWei: one, PriceInFri: one},
			L1DataGasPrice: &core.GasPrice{PriceInWei: one, PriceInFri: one},
		},
		Transactions: []core.Transaction{}, Receipts: receipts,
	}
	su := &core.StateUpdate{OldRoot: c.oldRoot, StateDiff: diff}
	// the record is published BEFORE the block becomes visible, so that a reader can never see an unknown block
	c.mu.Lock()
	c.recs = append(c.recs, blockRec{header: block.Header, st: next})
	c.mu.Unlock()
	if err := c.bc.Finalise(block, su, classes, nil); err != nil {
		c.mu.Lock()
		c.recs = c.recs[:len(c.recs)-1]
		c.mu.Unlock()
		return fmt.Errorf("Finalise block %d: %w", bi, err)
	}
	c.st = next
	c.parent, c.oldRoot = block.Hash, block.GlobalStateRoot
	return nil
}

// groupsOf splits a behaviour into blocks; restart[i] = Restart before block i
func groupsOf(beh []stStep) (groups [][]stAction, restart []bool) {
	cur := []stAction{}
	pending := false
	for _, s := range beh {
		switch s.A.Name {
		case "Restart":
			pending = true
		case "EndBlock":
			groups, restart = append(groups, cur), append(restart, pending)
			cur, pending = []stAction{}, false
		default:
			cur = append(cur, s.A)
		}
	}
	if len(cur) > 0 {
		groups, restart = append(groups, cur), append(restart, pending)
	}
	return
}

// buildChain applies the behaviour block by block through Finalise (with the model's restarts).
func buildChain(beh []stStep, cfg rpcConfig, conc *concrete) (*chain, error) {
	c := newChain(cfg, conc)
	groups, restart := groupsOf(beh)
	for i, g := range groups {
		if restart[i] {
			c.restart()
		}
		if err := c.finalise(g); err != nil {
			return nil, err
		}
	}
	if cfg.Seed%2 == 1 {
		c.restart() // serve from a freshly started node
	}
	return c, nil
}

// ---- wire format of starknet_getStorageProof (from the RPC specification)
type wireNode struct {
	Hash *felt.Felt `json:"node_hash"`
	Node struct {
		Left   *felt.Felt `json:"left"`
		Right  *felt.Felt `json:"right"`
		Path   *string    `json:"path"`
		Length *int       `json:"length"`
		Child  *felt.Felt `json:"child"`
	} `json:"node"`
}

type wireResult struct {
	ClassesProof   []wireNode `json:"classes_proof"`
	ContractsProof struct {
		Nodes  []wireNode `json:"nodes"`
		Leaves []*struct {
			Nonce       *felt.Felt `json:"nonce"`
			ClassHash   *felt.Felt `json:"class_hash"`
			StorageRoot *felt.Felt `json:"storage_root"`
		} `json:"contract_leaves_data"`
	} `json:"contracts_proof"`
	StorageProofs [][]wireNode `json:"contracts_storage_proofs"`
	GlobalRoots   struct {
		Contracts *felt.Felt `json:"contracts_tree_root"`
		Classes   *felt.Felt `json:"classes_tree_root"`
		BlockHash *felt.Felt `json:"block_hash"`
	} `json:"global_roots"`
}

func protoNodes(ws []wireNode, h refimpl.HashFn) ([]refimpl.ProtoNode, error) {
	var out []refimpl.ProtoNode
	for i, w := range ws {
		var n refimpl.ProtoNode
		switch {
		case w.Node.Left != nil && w.Node.Right != nil && w.Node.Child == nil:
			n = refimpl.ProtoNode{Kind: "binary", Left: *w.Node.Left, Right: *w.Node.Right}
		case w.Node.Child != nil && w.Node.Path != nil && w.Node.Length != nil && w.Node.Left == nil:
			p, ok := new(big.Int).SetString(strings.TrimPrefix(*w.Node.Path, "0x"), 16)
			if !ok {
				return nil, fmt.Errorf("node %d: bad path %q", i, *w.Node.Path)
			}
			n = refimpl.ProtoNode{Kind: "edge", Child: *w.Node.Child, Path: p, Length: uint(*w.Node.Length)}
		default:
			return nil, fmt.Errorf("node %d is neither a binary nor an edge node", i)
		}
		// node_hash must be the hash of the node
		var nh felt.Felt
		if n.Kind == "binary" {
			nh = h(&n.Left, &n.Right)
		} else {
			pf := fb(n.Path)
			hh := h(&n.Child, pf)
			nh.Add(&hh, felt.NewFromUint64[felt.Felt](uint64(n.Length)))
		}
		if w.Hash == nil || !w.Hash.Equal(&nh) {
			return nil, fmt.Errorf("node %d: node_hash is not the hash of the node", i)
		}
		out = append(out, n)
	}
	return out, nil
}

func serve(bc *blockchain.Blockchain, api string, req string) ([]byte, error) {
	logger := log.NewNopZapLogger()
	h := rpc.New(bc, &sync.NoopSynchronizer{}, nil, "verif", logger, &networks.Sepolia)
	srv := jsonrpc.NewServer(1, logger)
	var methods []jsonrpc.Method
	switch api {
	case "v8":
		srv = srv.WithValidator(rpcv8.Validator())
		methods, _ = h.MethodsV0_8()
	case "v9":
		srv = srv.WithValidator(rpcv9.Validator())
		methods, _ = h.MethodsV0_9()
	default:
		srv = srv.WithValidator(rpcv10.Validator())
		methods, _ = h.MethodsV0_10()
	}
	if err := srv.RegisterMethods(methods...); err != nil {
		return nil, err
	}
	resp, _, err := srv.HandleReader(context.Background(), strings.NewReader(req))
	return resp, err
}

func hexList(fs []*felt.Felt) string {
	ss := make([]string, len(fs))
	for i, f := range fs {
		ss[i] = `"` + f.String() + `"`
	}
	return "[" + strings.Join(ss, ",") + "]"
}

func TestStorageProofRPC(t *testing.T) {
	if !vh.Enabled() {
		t.Skip("driver only")
	}
	var in rpcInput
	if err := vh.Input(&in); err != nil {
		t.Fatal(err)
	}
	out := vh.NewResult()
	defer out.Write()
	apis := []string{"v10", "v9", "v8"}
	for bi, beh := range in.Behaviours {
		cfgs := in.Configs
		if len(cfgs) == 0 {
			ver := []string{"0.14.0", "0.13.2"}[bi%2]
			for _, ns := range []bool{false, true} {
				cfgs = append(cfgs, rpcConfig{NewState: ns, Version: ver, API: apis[bi%3], Seed: vh.Seed()*7919 + int64(bi)})
			}
		}
		for _, cfg := range cfgs {
			be := "deprecatedstate"
			if cfg.NewState {
				be = "newstate"
			}
			report := func(key, what string, exp, obs any) {
				out.Diverge(vh.Divergence{Key: key, What: what, Expected: exp, Observed: obs,
					Input: rpcInput{Behaviours: [][]stStep{beh}, Configs: []rpcConfig{cfg}}})
			}
			conc := newConcrete(cfg.Seed)
			bc, st, head, err := buildChain(beh, cfg, conc)
			if err != nil {
				report("rpc-proof-harness:finalise:"+be, err.Error(), nil, nil)
				continue
			}
			if head == nil {
				continue
			}
			contracts := []string{"c1", "c2", "c3", "sys"}
			slots := []string{"s1", "s2", "s3", "s4"}
			sierras := []string{"k1", "k2"}
			var classFs, contractFs []*felt.Felt
			for _, k := range sierras {
				classFs = append(classFs, conc.sierra[k])
			}
			var skeys []string
			var storageOwners []string
			for _, c := range contracts {
				contractFs = append(contractFs, conc.addr[c])
				if st.deployed[c] != "" {
					var ks []*felt.Felt
					for _, s := range slots {
						ks = append(ks, conc.slot[s])
					}
					skeys = append(skeys, fmt.Sprintf(`{"contract_address":"%s","storage_keys":%s}`, conc.addr[c].String(), hexList(ks)))
					storageOwners = append(storageOwners, c)
				}
			}
			req := fmt.Sprintf(`{"jsonrpc":"2.0","id":1,"method":"starknet_getStorageProof","params":{"block_id":"latest","class_hashes":%s,"contract_addresses":%s,"contracts_storage_keys":[%s]}}`,
				hexList(classFs), hexList(contractFs), strings.Join(skeys, ","))
			raw, err := serve(bc, cfg.API, req)
			out.Done(1, 1)
			if err != nil {
				report("rpc-proof:server-error:"+cfg.API, err.Error(), nil, nil)
				continue
			}
			var env struct {
				Result *wireResult     `json:"result"`
				Error  json.RawMessage `json:"error"`
			}
			if err := json.Unmarshal(raw, &env); err != nil || env.Result == nil {
				report(fmt.Sprintf("rpc-proof:no-result:%s:%s", cfg.API, be), "starknet_getStorageProof returned no result: "+string(raw[:min(len(raw), 300)]), nil, nil)
				continue
			}
			res := env.Result
			// global roots: block hash of the head, and the preimage of the header's state root
			if res.GlobalRoots.BlockHash == nil || !res.GlobalRoots.BlockHash.Equal(head.Hash) {
				report("rpc-proof:global-roots:block-hash:"+be, "global_roots.block_hash is not the head block hash", head.Hash.String(), fmt.Sprint(res.GlobalRoots.BlockHash))
			}
			since := cfg.Version >= "0.14.0"
			comm := refimpl.StateCommitment(res.GlobalRoots.Contracts, res.GlobalRoots.Classes, since)
			if !comm.Equal(head.GlobalStateRoot) {
				report("rpc-proof:global-roots:preimage:"+be, "the header's state root is not the commitment of (contracts_tree_root, classes_tree_root)", head.GlobalStateRoot.String(), comm.String())
			}
			// classes proof
			cn, err := protoNodes(res.ClassesProof, refimpl.Poseidon)
			if err != nil {
				report("rpc-proof:classes:malformed:"+be, err.Error(), nil, nil)
			} else {
				for _, k := range sierras {
					want := felt.Zero
					if x := st.declared[k]; x != "" {
						want = refimpl.ClassLeaf(conc.compiled[x])
					}
					got, err := refimpl.Verify(*res.GlobalRoots.Classes, bf(conc.sierra[k]), 251, cn, refimpl.Poseidon)
					out.Done(0, 1)
					if err != nil || !got.Equal(&want) {
						report("rpc-proof:classes:"+be, fmt.Sprintf("classes_proof does not establish class %s (err %v)", k, err), want.String(), got.String())
					}
				}
			}
			// contracts proof + leaves data
			pn, err := protoNodes(res.ContractsProof.Nodes, refimpl.Pedersen)
			if err != nil {
				report("rpc-proof:contracts:malformed:"+be, err.Error(), nil, nil)
				continue
			}
			if len(res.ContractsProof.Leaves) != len(contracts) {
				report("rpc-proof:contracts:leaves-count:"+be, "contract_leaves_data length differs from the request", len(contracts), len(res.ContractsProof.Leaves))
				continue
			}
			roots := map[string]*felt.Felt{}
			orderWrong := false
			for i, c := range contracts {
				leaf := res.ContractsProof.Leaves[i]
				want := felt.Zero
				if st.deployed[c] != "" {
					if leaf == nil {
						report("rpc-proof:contracts:leaf-missing:"+be, "no leaf data for deployed contract "+c, nil, nil)
						continue
					}
					if !leaf.ClassHash.Equal(conc.class[st.deployed[c]]) || leaf.Nonce.Uint64() != uint64(st.nonce[c]) {
						report("rpc-proof:contracts:leaf-data:"+be, "leaf data (class hash / nonce) of "+c+" differs from the model", nil, nil)
					}
					want = refimpl.ContractLeaf(leaf.ClassHash, leaf.StorageRoot, leaf.Nonce)
					roots[c] = leaf.StorageRoot
				} else if leaf != nil {
					report("rpc-proof:contracts:leaf-for-absent:"+be, "leaf data for a contract that does not exist: "+c, nil, nil)
				}
				got, err := refimpl.Verify(*res.GlobalRoots.Contracts, bf(conc.addr[c]), 251, pn, refimpl.Pedersen)
				out.Done(0, 1)
				if err != nil || !got.Equal(&want) {
					report("rpc-proof:contracts:"+be, fmt.Sprintf("contracts_proof does not establish contract %s (err %v)", c, err), want.String(), got.String())
				}
			}
			// storage proofs against the storage root of the contract's leaf
			if len(res.StorageProofs) != len(storageOwners) {
				report("rpc-proof:storage:count:"+be, "contracts_storage_proofs length differs from the request", len(storageOwners), len(res.StorageProofs))
				continue
			}
			for i, c := range storageOwners {
				if roots[c] == nil {
					continue
				}
				// which node set proves this contract's storage?  By position it must be the i-th; the verifier
				// itself is order-agnostic (it looks for the set that contains the storage root) so that a wrong
				// ORDER is reported as such and not as an unverifiable proof.
				pick := i
				if !roots[c].IsZero() {
					has := func(j int) bool {
						for _, w := range res.StorageProofs[j] {
							if w.Hash != nil && w.Hash.Equal(roots[c]) {
								return true
							}
						}
						return false
					}
					if !has(i) {
						for j := range res.StorageProofs {
							if has(j) {
								pick = j
								break
							}
						}
					}
				}
				if pick != i {
					orderWrong = true
					report("rpc-proof:storage-order:not-request-order:"+cfg.API,
						"contracts_storage_proofs is not in the order of the request's contracts_storage_keys (processStorageKeys iterates a Go map): "+
							"a client cannot associate a proof with its contract by position", i, pick)
				}
				sn, err := protoNodes(res.StorageProofs[pick], refimpl.Pedersen)
				if err != nil {
					report("rpc-proof:storage:malformed:"+be, err.Error(), nil, nil)
					continue
				}
				for _, s := range slots {
					want := conc.val[st.store[c][s]]
					got, err := refimpl.Verify(*roots[c], bf(conc.slot[s]), 251, sn, refimpl.Pedersen)
					out.Done(0, 1)
					if err != nil || !got.Equal(want) {
						report("rpc-proof:storage:"+be, fmt.Sprintf("storage proof does not establish %s[%s] (err %v)", c, s, err), want.String(), got.String())
					}
				}
			}
			// the order defect depends on Go's map iteration order: ask again a few times so that a run (and a
			// replay) observes it reliably
			if !orderWrong && len(storageOwners) >= 2 {
				for attempt := 0; attempt < 60 && !orderWrong; attempt++ {
					raw, err := serve(bc, cfg.API, req)
					var env2 struct {
						Result *wireResult `json:"result"`
					}
					if err != nil || json.Unmarshal(raw, &env2) != nil || env2.Result == nil || len(env2.Result.StorageProofs) != len(storageOwners) {
						break
					}
					for i, c := range storageOwners {
						if roots[c] == nil || roots[c].IsZero() {
							continue
						}
						found := false
						for _, w := range env2.Result.StorageProofs[i] {
							if w.Hash != nil && w.Hash.Equal(roots[c]) {
								found = true
							}
						}
						if !found {
							orderWrong = true
							report("rpc-proof:storage-order:not-request-order:"+cfg.API,
								"contracts_storage_proofs is not in the order of the request's contracts_storage_keys (processStorageKeys iterates a Go map): "+
									"a client cannot associate a proof with its contract by position", i, "another position")
							break
						}
					}
				}
			}
			out.Count("rpc_requests_"+cfg.API+"_"+be, 1)
		}
	}
}

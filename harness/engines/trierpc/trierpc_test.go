// Engine "trierpc" (property C10, RPC part): starknet_getStorageProof, served through the real
// jsonrpc.Server with the v8 / v9 / v10 method tables on chains built by Blockchain.Finalise from
// spec/trie/StateCommit.tla behaviours (both state backends), is checked ON THE WIRE FORMAT by an
// independent verifier written from the RPC specification (refimpl.Verify + the commitment
// definitions): classes proof, contracts proof with leaves data, storage proofs, global roots
// against the header's state root.  Links the FFI stubs (ctx.build_engine(..., stubs=True)).
package trierpc

import (
	"context"
	"encoding/json"
	"fmt"
	"math/big"
	"math/rand"
	"runtime/debug"
	"strings"
	gosync "sync"
	"testing"
	"time"

	"github.com/NethermindEth/juno/blockchain"
	"github.com/NethermindEth/juno/blockchain/networks"
	"github.com/NethermindEth/juno/core"
	"github.com/NethermindEth/juno/core/felt"
	"github.com/NethermindEth/juno/db"
	"github.com/NethermindEth/juno/db/memory"
	_ "github.com/NethermindEth/juno/encoder/registry"
	"github.com/NethermindEth/juno/jsonrpc"
	"github.com/NethermindEth/juno/rpc"
	rpcv10 "github.com/NethermindEth/juno/rpc/v10"
	rpcv8 "github.com/NethermindEth/juno/rpc/v8"
	rpcv9 "github.com/NethermindEth/juno/rpc/v9"
	"github.com/NethermindEth/juno/sync"
	"github.com/NethermindEth/juno/utils/log"

	"verifharness/internal/refimpl"
	"verifharness/internal/vh"
)

type stAction struct {
	Name string `json:"name"`
	C    string `json:"c,omitempty"`
	H    string `json:"h,omitempty"`
	N    int    `json:"n,omitempty"`
	S    string `json:"s,omitempty"`
	V    int    `json:"v,omitempty"`
	K    string `json:"k,omitempty"`
	X    string `json:"x,omitempty"`
}

type stStep struct {
	A stAction `json:"a"`
}

type rpcConfig struct {
	NewState bool   `json:"newState"`
	Version  string `json:"version"`
	API      string `json:"api"`
	Seed     int64  `json:"seed"`
	// Concurrent: readers ask for proofs while the second half of the behaviour (and more blocks) is stored
	Concurrent bool `json:"concurrent"`
}

type rpcInput struct {
	Behaviours [][]stStep  `json:"behaviours"`
	Configs    []rpcConfig `json:"configs,omitempty"`
}

func rnd251(r *rand.Rand) *big.Int { return new(big.Int).Rand(r, new(big.Int).Lsh(big.NewInt(1), 251)) }
func fb(b *big.Int) *felt.Felt     { return new(felt.Felt).SetBigInt(b) }
func bf(f *felt.Felt) *big.Int     { var b big.Int; return f.BigInt(&b) }

type concrete struct {
	addr, slot, class, sierra, compiled map[string]*felt.Felt
	val                                 []*felt.Felt
}

func newConcrete(seed int64) *concrete {
	r := rand.New(rand.NewSource(seed))
	c := &concrete{addr: map[string]*felt.Felt{}, slot: map[string]*felt.Felt{}, class: map[string]*felt.Felt{},
		sierra: map[string]*felt.Felt{}, compiled: map[string]*felt.Felt{}}
	a := rnd251(r)
	a.SetBit(a, 0, 0)
	a.SetBit(a, 250, 0)
	a.SetBit(a, 8, 1)
	c.addr["c1"] = fb(a)
	c.addr["c2"] = fb(new(big.Int).SetBit(new(big.Int).Set(a), 0, 1))
	c.addr["c3"] = fb(rnd251(r))
	c.addr["sys"] = felt.NewFromUint64[felt.Felt](1)
	s := big.NewInt(int64(2 * r.Intn(8)))
	c.slot["s1"] = fb(s)
	c.slot["s2"] = fb(new(big.Int).SetBit(new(big.Int).Set(s), 0, 1))
	s3 := rnd251(r)
	c.slot["s3"] = fb(s3)
	c.slot["s4"] = fb(new(big.Int).Xor(s3, new(big.Int).Lsh(big.NewInt(1), uint(1+r.Intn(40)))))
	for _, n := range []string{"h1", "h2"} {
		c.class[n] = fb(rnd251(r))
	}
	c.class["0"] = new(felt.Felt)
	for _, n := range []string{"k1", "k2"} {
		c.sierra[n] = fb(rnd251(r))
	}
	for _, n := range []string{"x1", "x2"} {
		c.compiled[n] = fb(rnd251(r))
	}
	c.val = []*felt.Felt{new(felt.Felt)}
	for i := 0; i < 8; i++ {
		c.val = append(c.val, fb(new(big.Int).Add(rnd251(r), big.NewInt(1))))
	}
	return c
}

// blockRec is what the chain builder remembers of a finalised block
type blockRec struct {
	header *core.Header
	st     *absState // abstract state after the block
}

func (s *absState) clone() *absState {
	c := &absState{deployed: map[string]string{}, nonce: map[string]int{}, store: map[string]map[string]int{}, declared: map[string]string{}}
	for k, v := range s.deployed {
		c.deployed[k] = v
	}
	for k, v := range s.nonce {
		c.nonce[k] = v
	}
	for k, m := range s.store {
		c.store[k] = map[string]int{}
		for kk, vv := range m {
			c.store[k][kk] = vv
		}
	}
	for k, v := range s.declared {
		c.declared[k] = v
	}
	return c
}

type absState struct {
	deployed map[string]string
	nonce    map[string]int
	store    map[string]map[string]int
	declared map[string]string
}

func (s *absState) apply(a stAction) {
	switch a.Name {
	case "Deploy", "Replace":
		s.deployed[a.C] = a.H
	case "Nonce":
		s.nonce[a.C] = a.N
	case "Write":
		if a.C == "sys" && s.deployed["sys"] == "" {
			s.deployed["sys"] = "0"
		}
		if s.store[a.C] == nil {
			s.store[a.C] = map[string]int{}
		}
		s.store[a.C][a.S] = a.V
	case "Declare":
		s.declared[a.K] = a.X
	}
}

func minimalSierra(seed int64) *core.SierraClass {
	r := rand.New(rand.NewSource(seed))
	f := func() *felt.Felt { return fb(rnd251(r)) }
	return &core.SierraClass{
		Abi: "[]", AbiHash: f(), ProgramHash: f(), SemanticVersion: "0.1.0", Program: felt.Slice[felt.Felt]{*f(), *f()},
		Compiled: &core.CasmClass{Bytecode: felt.Slice[felt.Felt]{*f()}, CompilerVersion: "2.1.0", Prime: new(big.Int).SetUint64(17),
			External: []core.CasmEntryPoint{}, L1Handler: []core.CasmEntryPoint{}, Constructor: []core.CasmEntryPoint{}},
	}
}

// chain is a node under construction: blocks are appended through the real Blockchain.Finalise.
type chain struct {
	bc              *blockchain.Blockchain
	store           db.KeyValueStore
	cfg             rpcConfig
	conc            *concrete
	st              *absState
	parent, oldRoot *felt.Felt
	mu              gosync.Mutex
	recs            []blockRec
}

func newChain(cfg rpcConfig, conc *concrete) *chain {
	c := &chain{store: memory.New(), cfg: cfg, conc: conc, parent: &felt.Zero, oldRoot: &felt.Zero,
		st: &absState{deployed: map[string]string{}, nonce: map[string]int{}, store: map[string]map[string]int{}, declared: map[string]string{}}}
	c.bc = blockchain.New(c.store, &networks.Sepolia, blockchain.WithNewState(cfg.NewState))
	return c
}

// restart: new Blockchain (state, tries, caches) on the same store
func (c *chain) restart() {
	c.bc = blockchain.New(c.store, &networks.Sepolia, blockchain.WithNewState(c.cfg.NewState))
}

func (c *chain) records() []blockRec {
	c.mu.Lock()
	defer c.mu.Unlock()
	return append([]blockRec{}, c.recs...)
}

func (c *chain) finalise(g []stAction) error {
	conc := c.conc
	diff := &core.StateDiff{
		StorageDiffs: map[felt.Felt]map[felt.Felt]*felt.Felt{}, Nonces: map[felt.Felt]*felt.Felt{},
		DeployedContracts: map[felt.Felt]*felt.Felt{}, DeclaredV1Classes: map[felt.Felt]*felt.Felt{},
		ReplacedClasses: map[felt.Felt]*felt.Felt{}, DeclaredV0Classes: []*felt.Felt{},
		MigratedClasses: map[felt.SierraClassHash]felt.CasmClassHash{},
	}
	classes := map[felt.Felt]core.ClassDefinition{}
	next := c.st.clone()
	for _, a := range g {
		next.apply(a)
		switch a.Name {
		case "Deploy":
			diff.DeployedContracts[*conc.addr[a.C]] = conc.class[a.H]
		case "Replace":
			diff.ReplacedClasses[*conc.addr[a.C]] = conc.class[a.H]
		case "Nonce":
			diff.Nonces[*conc.addr[a.C]] = felt.NewFromUint64[felt.Felt](uint64(a.N))
		case "Write":
			m := diff.StorageDiffs[*conc.addr[a.C]]
			if m == nil {
				m = map[felt.Felt]*felt.Felt{}
				diff.StorageDiffs[*conc.addr[a.C]] = m
			}
			m[*conc.slot[a.S]] = conc.val[a.V]
		case "Declare":
			diff.DeclaredV1Classes[*conc.sierra[a.K]] = conc.compiled[a.X]
			classes[*conc.sierra[a.K]] = minimalSierra(c.cfg.Seed + int64(a.K[1]))
		}
	}
	one := felt.NewFromUint64[felt.Felt](1)
	bi := len(c.recs)
	receipts := []*core.TransactionReceipt{}
	block := &core.Block{
		Header: &core.Header{
			ParentHash: c.parent, Number: uint64(bi), SequencerAddress: one, Timestamp: uint64(1_700_000_000 + bi),
			ProtocolVersion: c.cfg.Version, EventsBloom: core.EventsBloom(receipts),
			L1GasPriceETH: one, L1GasPriceSTRK: one, L2GasPrice: &core.GasPrice{PriceInWei: one, PriceInFri: one},
			L1DataGasPrice: &core.GasPrice{PriceInWei: one, PriceInFri: one},
		},
		Transactions: []core.Transaction{}, Receipts: receipts,
	}
	su := &core.StateUpdate{OldRoot: c.oldRoot, StateDiff: diff}
	// the record is published BEFORE the block becomes visible, so that a reader can never see an unknown block
	c.mu.Lock()
	c.recs = append(c.recs, blockRec{header: block.Header, st: next})
	c.mu.Unlock()
	if err := c.bc.Finalise(block, su, classes, nil); err != nil {
		c.mu.Lock()
		c.recs = c.recs[:len(c.recs)-1]
		c.mu.Unlock()
		return fmt.Errorf("Finalise block %d: %w", bi, err)
	}
	c.st = next
	c.parent, c.oldRoot = block.Hash, block.GlobalStateRoot
	return nil
}

// groupsOf splits a behaviour into blocks; restart[i] = Restart before block i
func groupsOf(beh []stStep) (groups [][]stAction, restart []bool) {
	cur := []stAction{}
	pending := false
	for _, s := range beh {
		switch s.A.Name {
		case "Restart":
			pending = true
		case "EndBlock":
			groups, restart = append(groups, cur), append(restart, pending)
			cur, pending = []stAction{}, false
		default:
			cur = append(cur, s.A)
		}
	}
	if len(cur) > 0 {
		groups, restart = append(groups, cur), append(restart, pending)
	}
	return
}

// buildChain applies the behaviour block by block through Finalise (with the model's restarts).
func buildChain(beh []stStep, cfg rpcConfig, conc *concrete) (*chain, error) {
	c := newChain(cfg, conc)
	groups, restart := groupsOf(beh)
	for i, g := range groups {
		if restart[i] {
			c.restart()
		}
		if err := c.finalise(g); err != nil {
			return nil, err
		}
	}
	if cfg.Seed%2 == 1 {
		c.restart() // serve from a freshly started node
	}
	return c, nil
}

// ---- wire format of starknet_getStorageProof (from the RPC specification)
type wireNode struct {
	Hash *felt.Felt `json:"node_hash"`
	Node struct {
		Left   *felt.Felt `json:"left"`
		Right  *felt.Felt `json:"right"`
		Path   *string    `json:"path"`
		Length *int       `json:"length"`
		Child  *felt.Felt `json:"child"`
	} `json:"node"`
}

type wireResult struct {
	ClassesProof   []wireNode `json:"classes_proof"`
	ContractsProof struct {
		Nodes  []wireNode `json:"nodes"`
		Leaves []*struct {
			Nonce       *felt.Felt `json:"nonce"`
			ClassHash   *felt.Felt `json:"class_hash"`
			StorageRoot *felt.Felt `json:"storage_root"`
		} `json:"contract_leaves_data"`
	} `json:"contracts_proof"`
	StorageProofs [][]wireNode `json:"contracts_storage_proofs"`
	GlobalRoots   struct {
		Contracts *felt.Felt `json:"contracts_tree_root"`
		Classes   *felt.Felt `json:"classes_tree_root"`
		BlockHash *felt.Felt `json:"block_hash"`
	} `json:"global_roots"`
}

func protoNodes(ws []wireNode, h refimpl.HashFn) ([]refimpl.ProtoNode, error) {
	var out []refimpl.ProtoNode
	for i, w := range ws {
		var n refimpl.ProtoNode
		switch {
		case w.Node.Left != nil && w.Node.Right != nil && w.Node.Child == nil:
			n = refimpl.ProtoNode{Kind: "binary", Left: *w.Node.Left, Right: *w.Node.Right}
		case w.Node.Child != nil && w.Node.Path != nil && w.Node.Length != nil && w.Node.Left == nil:
			p, ok := new(big.Int).SetString(strings.TrimPrefix(*w.Node.Path, "0x"), 16)
			if !ok {
				return nil, fmt.Errorf("node %d: bad path %q", i, *w.Node.Path)
			}
			n = refimpl.ProtoNode{Kind: "edge", Child: *w.Node.Child, Path: p, Length: uint(*w.Node.Length)}
		default:
			return nil, fmt.Errorf("node %d is neither a binary nor an edge node", i)
		}
		// node_hash must be the hash of the node
		var nh felt.Felt
		if n.Kind == "binary" {
			nh = h(&n.Left, &n.Right)
		} else {
			pf := fb(n.Path)
			hh := h(&n.Child, pf)
			nh.Add(&hh, felt.NewFromUint64[felt.Felt](uint64(n.Length)))
		}
		if w.Hash == nil || !w.Hash.Equal(&nh) {
			return nil, fmt.Errorf("node %d: node_hash is not the hash of the node", i)
		}
		out = append(out, n)
	}
	return out, nil
}

func serve(bc *blockchain.Blockchain, api string, req string) ([]byte, error) {
	logger := log.NewNopZapLogger()
	h := rpc.New(bc, &sync.NoopSynchronizer{}, nil, "verif", logger, &networks.Sepolia)
	srv := jsonrpc.NewServer(1, logger)
	var methods []jsonrpc.Method
	switch api {
	case "v8":
		srv = srv.WithValidator(rpcv8.Validator())
		methods, _ = h.MethodsV0_8()
	case "v9":
		srv = srv.WithValidator(rpcv9.Validator())
		methods, _ = h.MethodsV0_9()
	default:
		srv = srv.WithValidator(rpcv10.Validator())
		methods, _ = h.MethodsV0_10()
	}
	if err := srv.RegisterMethods(methods...); err != nil {
		return nil, err
	}
	resp, _, err := srv.HandleReader(context.Background(), strings.NewReader(req))
	return resp, err
}

func hexList(fs []*felt.Felt) string {
	ss := make([]string, len(fs))
	for i, f := range fs {
		ss[i] = `"` + f.String() + `"`
	}
	return "[" + strings.Join(ss, ",") + "]"
}

var (
	allContracts = []string{"c1", "c2", "c3", "sys"}
	allSlots     = []string{"s1", "s2", "s3", "s4"}
	allSierras   = []string{"k1", "k2"}
)

// request for everything the model knows about; storage keys for `owners`; dup = every list entry twice
// (the RPC must answer as for the de-duplicated request)
func makeRequest(conc *concrete, owners []string, dup bool) string {
	rep := func(fs []*felt.Felt) []*felt.Felt {
		if dup {
			return append(append([]*felt.Felt{}, fs...), fs...)
		}
		return fs
	}
	var classFs, contractFs []*felt.Felt
	for _, k := range allSierras {
		classFs = append(classFs, conc.sierra[k])
	}
	for _, c := range allContracts {
		contractFs = append(contractFs, conc.addr[c])
	}
	var skeys []string
	for _, c := range owners {
		var ks []*felt.Felt
		for _, s := range allSlots {
			ks = append(ks, conc.slot[s])
		}
		skeys = append(skeys, fmt.Sprintf(`{"contract_address":"%s","storage_keys":%s}`, conc.addr[c].String(), hexList(rep(ks))))
	}
	if dup {
		skeys = append(skeys, skeys...)
	}
	return fmt.Sprintf(`{"jsonrpc":"2.0","id":1,"method":"starknet_getStorageProof","params":{"block_id":"latest","class_hashes":%s,"contract_addresses":%s,"contracts_storage_keys":[%s]}}`,
		hexList(rep(classFs)), hexList(rep(contractFs)), strings.Join(skeys, ","))
}

// judge checks one response on the wire format. recs = every block the node may have served from. When
// atomic is false (concurrent round) the block the roots belong to is searched for; the invariants are the
// same: the roots are the preimage of the state root of the block reported in global_roots.block_hash,
// every proof verifies against those roots, and what the proofs establish is the abstract state of THAT block.
func judge(raw []byte, conc *concrete, cfg rpcConfig, be string, owners []string, recs []blockRec, kind string,
	report func(key, what string, exp, obs any), count func(string),
) (orderWrong bool) {
	var env struct {
		Result *wireResult     `json:"result"`
		Error  json.RawMessage `json:"error"`
	}
	if err := json.Unmarshal(raw, &env); err != nil || env.Result == nil {
		report(fmt.Sprintf("rpc-proof%s:no-result:%s:%s", kind, cfg.API, be), "starknet_getStorageProof returned no result: "+string(raw[:min(len(raw), 300)]), nil, nil)
		return
	}
	res := env.Result
	since := cfg.Version >= "0.14.0"
	var rec *blockRec
	for i := range recs {
		if recs[i].header.Hash != nil && res.GlobalRoots.BlockHash != nil && recs[i].header.Hash.Equal(res.GlobalRoots.BlockHash) {
			rec = &recs[i]
		}
	}
	if rec == nil {
		report("rpc-proof"+kind+":global-roots:block-hash:"+be, "global_roots.block_hash is not the hash of a block of this chain", nil, fmt.Sprint(res.GlobalRoots.BlockHash))
		return
	}
	if kind == "" && rec.header.Number != recs[len(recs)-1].header.Number {
		report("rpc-proof:global-roots:block-hash:"+be, "global_roots.block_hash is not the head block hash", recs[len(recs)-1].header.Number, rec.header.Number)
	}
	if res.GlobalRoots.Contracts == nil || res.GlobalRoots.Classes == nil {
		report("rpc-proof"+kind+":global-roots:missing:"+be, "global_roots lacks a tree root", nil, nil)
		return
	}
	comm := refimpl.StateCommitment(res.GlobalRoots.Contracts, res.GlobalRoots.Classes, since)
	if !comm.Equal(rec.header.GlobalStateRoot) {
		// which block do the roots belong to?
		other := -1
		for i := range recs {
			if recs[i].header.GlobalStateRoot != nil && comm.Equal(recs[i].header.GlobalStateRoot) {
				other = int(recs[i].header.Number)
			}
		}
		if kind == ":concurrent" && other >= 0 {
			report("rpc-proof:concurrent:roots-of-another-block:"+cfg.API,
				"a response served while blocks were being stored reports the hash of one block and the tree roots of another "+
					"(StorageProof reads the head state and the head block hash in two steps; TODO in rpc/v10/storage.go)",
				fmt.Sprintf("roots of block %d", rec.header.Number), fmt.Sprintf("roots of block %d", other))
			for i := range recs {
				if int(recs[i].header.Number) == other {
					rec = &recs[i] // judge the proofs against the block the roots belong to
				}
			}
		} else {
			report("rpc-proof"+kind+":global-roots:preimage:"+be, "the reported block's state root is not the commitment of (contracts_tree_root, classes_tree_root)",
				rec.header.GlobalStateRoot.String(), comm.String())
			return
		}
	}
	st := rec.st
	count("responses-judged" + kind)
	// classes proof
	cn, err := protoNodes(res.ClassesProof, refimpl.Poseidon)
	if err != nil {
		report("rpc-proof"+kind+":classes:malformed:"+be, err.Error(), nil, nil)
	} else {
		for _, k := range allSierras {
			want := felt.Zero
			if x := st.declared[k]; x != "" {
				want = refimpl.ClassLeaf(conc.compiled[x])
			}
			got, err := refimpl.Verify(*res.GlobalRoots.Classes, bf(conc.sierra[k]), 251, cn, refimpl.Poseidon)
			count("proof-checks")
			if err != nil || !got.Equal(&want) {
				report("rpc-proof"+kind+":classes:"+be, fmt.Sprintf("classes_proof does not establish class %s (err %v)", k, err), want.String(), got.String())
			}
		}
	}
	// contracts proof + leaves data
	pn, err := protoNodes(res.ContractsProof.Nodes, refimpl.Pedersen)
	if err != nil {
		report("rpc-proof"+kind+":contracts:malformed:"+be, err.Error(), nil, nil)
		return
	}
	if len(res.ContractsProof.Leaves) != len(allContracts) {
		report("rpc-proof"+kind+":contracts:leaves-count:"+be, "contract_leaves_data length differs from the (de-duplicated) request", len(allContracts), len(res.ContractsProof.Leaves))
		return
	}
	roots := map[string]*felt.Felt{}
	for i, c := range allContracts {
		leaf := res.ContractsProof.Leaves[i]
		want := felt.Zero
		if st.deployed[c] != "" {
			if leaf == nil {
				report("rpc-proof"+kind+":contracts:leaf-missing:"+be, "no leaf data for deployed contract "+c, nil, nil)
				continue
			}
			if !leaf.ClassHash.Equal(conc.class[st.deployed[c]]) || leaf.Nonce.Uint64() != uint64(st.nonce[c]) {
				report("rpc-proof"+kind+":contracts:leaf-data:"+be, "leaf data (class hash / nonce) of "+c+" differs from the model", nil, nil)
			}
			want = refimpl.ContractLeaf(leaf.ClassHash, leaf.StorageRoot, leaf.Nonce)
			roots[c] = leaf.StorageRoot
		} else if leaf != nil {
			report("rpc-proof"+kind+":contracts:leaf-for-absent:"+be, "leaf data for a contract that does not exist: "+c, nil, nil)
		}
		got, err := refimpl.Verify(*res.GlobalRoots.Contracts, bf(conc.addr[c]), 251, pn, refimpl.Pedersen)
		count("proof-checks")
		if err != nil || !got.Equal(&want) {
			report("rpc-proof"+kind+":contracts:"+be, fmt.Sprintf("contracts_proof does not establish contract %s (err %v)", c, err), want.String(), got.String())
		}
	}
	// storage proofs against the storage root of the contract's leaf, by position
	if len(res.StorageProofs) != len(owners) {
		report("rpc-proof"+kind+":storage:count:"+be, "contracts_storage_proofs length differs from the (de-duplicated) request", len(owners), len(res.StorageProofs))
		return
	}
	for i, c := range owners {
		if roots[c] == nil {
			continue
		}
		// the verifier itself is order-agnostic (it looks for the set that contains the storage root) so that a
		// wrong ORDER is reported as such and not as an unverifiable proof
		pick := i
		if !roots[c].IsZero() {
			has := func(j int) bool {
				for _, w := range res.StorageProofs[j] {
					if w.Hash != nil && w.Hash.Equal(roots[c]) {
						return true
					}
				}
				return false
			}
			if !has(i) {
				for j := range res.StorageProofs {
					if has(j) {
						pick = j
						break
					}
				}
			}
		}
		if pick != i {
			orderWrong = true
			report("rpc-proof:storage-order:not-request-order:"+cfg.API,
				"contracts_storage_proofs is not in the order of the request's contracts_storage_keys: a client cannot associate a proof with its contract by position", i, pick)
		}
		sn, err := protoNodes(res.StorageProofs[pick], refimpl.Pedersen)
		if err != nil {
			report("rpc-proof"+kind+":storage:malformed:"+be, err.Error(), nil, nil)
			continue
		}
		for _, s := range allSlots {
			want := conc.val[st.store[c][s]]
			got, err := refimpl.Verify(*roots[c], bf(conc.slot[s]), 251, sn, refimpl.Pedersen)
			count("proof-checks")
			if err != nil || !got.Equal(want) {
				report("rpc-proof"+kind+":storage:"+be, fmt.Sprintf("storage proof does not establish %s[%s] (err %v)", c, s, err), want.String(), got.String())
			}
		}
	}
	return orderWrong
}

func deployedOwners(st *absState) []string {
	var owners []string
	for _, c := range allContracts {
		if st.deployed[c] != "" {
			owners = append(owners, c)
		}
	}
	return owners
}

func guard(out *vh.Result, test string) {
	if p := recover(); p != nil {
		out.Diverge(vh.Divergence{Key: "crash:" + test, What: fmt.Sprintf("the real code panicked in %s: %v", test, p), Observed: string(debug.Stack())})
	}
}

func TestStorageProofRPC(t *testing.T) {
	if !vh.Enabled() {
		t.Skip("driver only")
	}
	var in rpcInput
	if err := vh.Input(&in); err != nil {
		t.Fatal(err)
	}
	out := vh.NewResult()
	defer out.Write()
	defer guard(out, "TestStorageProofRPC")
	apis := []string{"v10", "v9", "v8"}
	count := func(k string) { out.Count("rpc_"+k, 1) }
	for bi, beh := range in.Behaviours {
		cfgs := in.Configs
		if len(cfgs) == 0 {
			ver := []string{"0.14.0", "0.13.2"}[bi%2]
			for _, ns := range []bool{false, true} {
				cfgs = append(cfgs, rpcConfig{NewState: ns, Version: ver, API: apis[bi%3], Seed: vh.Seed()*7919 + int64(bi)})
				if bi%3 == 0 { // a concurrent round on every third behaviour, both backends
					cfgs = append(cfgs, rpcConfig{NewState: ns, Version: ver, API: apis[(bi/3)%3], Seed: vh.Seed()*7919 + int64(bi), Concurrent: true})
				}
			}
		}
		for _, cfg := range cfgs {
			if cfg.Concurrent {
				concurrentRound(out, beh, cfg, count)
				continue
			}
			be := backend(cfg)
			report := func(key, what string, exp, obs any) {
				out.Diverge(vh.Divergence{Key: key, What: what, Expected: exp, Observed: obs,
					Input: rpcInput{Behaviours: [][]stStep{beh}, Configs: []rpcConfig{cfg}}})
				_ = out.Write()
			}
			func() {
				defer func() {
					if p := recover(); p != nil {
						report("crash:rpc-storage-proof:"+be, fmt.Sprintf("panic while building the chain / serving starknet_getStorageProof: %v", p), nil, string(debug.Stack()))
					}
				}()
				conc := newConcrete(cfg.Seed)
				c, err := buildChain(beh, cfg, conc)
				if err != nil {
					report("rpc-proof-harness:finalise:"+be, err.Error(), nil, nil)
					return
				}
				recs := c.records()
				if len(recs) == 0 {
					return
				}
				owners := deployedOwners(c.st)
				for _, dup := range []bool{false, true} {
					req := makeRequest(conc, owners, dup)
					kind := ""
					if dup {
						kind = ":duplicates" // degenerate request: every entry twice
					}
					orderWrong := false
					// the (fixed) order defect depended on Go's map iteration order: ask a few times
					for attempt := 0; attempt < 8 && !orderWrong; attempt++ {
						raw, err := serve(c.bc, cfg.API, req)
						out.Done(0, 1)
						if err != nil {
							report("rpc-proof:server-error:"+cfg.API, err.Error(), nil, nil)
							break
						}
						k := kind
						if attempt > 0 {
							k = ":again" + kind
						}
						orderWrong = judge(raw, conc, cfg, be, owners, recs[len(recs)-1:], strings.Replace(k, ":again", "", 1), report, count)
						if len(owners) < 2 {
							break
						}
					}
				}
				out.Done(1, 0)
				out.Count("rpc_requests_"+cfg.API+"_"+be, 1)
			}()
		}
	}
}

func backend(cfg rpcConfig) string {
	if cfg.NewState {
		return "newstate"
	}
	return "deprecatedstate"
}

// concurrentRound: readers ask for storage proofs for the whole time a writer stores further blocks; every
// response is judged afterwards by the same invariants (the roots are those of the reported block; every
// proof verifies against them; what they establish is the abstract state of that block).
func concurrentRound(out *vh.Result, beh []stStep, cfg rpcConfig, count func(string)) {
	be := backend(cfg)
	// C10 does not quantify over schedules: a response that is wrong only because a block was stored in the middle
	// of the call is an OBSERVATION (counted, printed by the check), not a divergence. Verdicts remain: a crash, and
	// anything still wrong SEQUENTIALLY after the race has ended.
	observe := func(key, what string) {
		obs, _ := out.Stats["observations"].(map[string]int)
		if obs == nil {
			obs = map[string]int{}
			out.Stats["observations"] = obs
		}
		if obs[key] == 0 {
			details, _ := out.Stats["observation_details"].(map[string]string)
			if details == nil {
				details = map[string]string{}
				out.Stats["observation_details"] = details
			}
			details[key] = what
		}
		obs[key]++
	}
	report := func(key, what string, exp, obs any) {
		out.Diverge(vh.Divergence{Key: key, What: what, Expected: exp, Observed: obs,
			Input: rpcInput{Behaviours: [][]stStep{beh}, Configs: []rpcConfig{cfg}}})
		_ = out.Write()
	}
	conc := newConcrete(cfg.Seed)
	c := newChain(cfg, conc)
	groups, _ := groupsOf(beh)
	half := len(groups) / 2
	for _, g := range groups[:half] {
		if err := c.finalise(g); err != nil {
			report("rpc-proof-harness:finalise:"+be, err.Error(), nil, nil)
			return
		}
	}
	if len(c.records()) == 0 {
		return
	}
	owners := deployedOwners(c.st) // stays deployed
	req := makeRequest(conc, owners, false)
	// the writer's remaining work: the rest of the behaviour, then blocks that keep rewriting slots of the owners
	rest := append([][]stAction{}, groups[half:]...)
	for i := 0; i < 40; i++ {
		var g []stAction
		for j, o := range owners {
			if o == "sys" {
				continue
			}
			g = append(g, stAction{Name: "Write", C: o, S: allSlots[(i+j)%4], V: 1 + (i+j)%3})
		}
		rest = append(rest, g)
	}
	type answer struct {
		raw []byte
		err error
	}
	var mu gosync.Mutex
	var answers []answer
	stop := make(chan struct{})
	var wg gosync.WaitGroup
	const readers = 3
	for r := 0; r < readers; r++ {
		wg.Add(1)
		go func() {
			defer wg.Done()
			defer func() {
				if p := recover(); p != nil {
					mu.Lock()
					answers = append(answers, answer{err: fmt.Errorf("panic in starknet_getStorageProof: %v\n%s", p, debug.Stack())})
					mu.Unlock()
				}
			}()
			for {
				raw, err := serve(c.bc, cfg.API, req)
				mu.Lock()
				answers = append(answers, answer{raw, err})
				mu.Unlock()
				select {
				case <-stop:
					return
				default:
				}
			}
		}()
	}
	var werr error
	func() {
		defer func() {
			if p := recover(); p != nil {
				werr = fmt.Errorf("panic in Finalise under concurrent readers: %v", p)
			}
		}()
		for _, g := range rest {
			if werr = c.finalise(g); werr != nil {
				return
			}
			time.Sleep(200 * time.Microsecond)
		}
	}()
	close(stop)
	done := make(chan struct{})
	go func() { wg.Wait(); close(done) }()
	select {
	case <-done:
	case <-time.After(60 * time.Second):
		observe("rpc-proof:concurrent:reader-hang:"+cfg.API, "a starknet_getStorageProof call did not return within 60 s after the writer finished")
		return
	}
	if werr != nil {
		if strings.Contains(werr.Error(), "panic") {
			report("crash:finalise-under-concurrent-readers:"+be, werr.Error(), nil, nil)
		} else {
			observe("rpc-proof:concurrent:writer-error:"+be, "storing a block failed while storage proofs were being served: "+werr.Error())
		}
	}
	recs := c.records()
	out.Count("rpc_concurrent_answers", len(answers))
	out.Count("rpc_concurrent_blocks", len(rest))
	for _, a := range answers {
		if a.err != nil {
			if strings.Contains(a.err.Error(), "panic") {
				report("crash:rpc-storage-proof:concurrent:"+be, a.err.Error(), nil, nil)
			} else {
				observe("rpc-proof:concurrent:server-error:"+cfg.API, a.err.Error())
			}
			continue
		}
		// Every inconsistency of a response served during block storage has one cause per backend - the head state the
		// handler reads is not a snapshot (deprecatedstate: an IndexedBatch over the live store; new state: path-keyed
		// nodes of the live store): an observation, keyed per backend, with the first symptom kept as its description.
		judge(a.raw, conc, cfg, be, owners, recs, ":concurrent", func(key, what string, exp, obs any) {
			observe("rpc-proof:concurrent:inconsistent-snapshot:"+be, "["+key+"] "+what+
				" - a response served while blocks are being stored mixes the state of two blocks (HeadState is not a snapshot)")
		}, count)
	}
	// after the race has ended everything must be right again, sequentially: this IS a verdict
	if werr == nil {
		if raw, err := serve(c.bc, cfg.API, req); err != nil {
			report("rpc-proof:after-concurrency:server-error:"+cfg.API, err.Error(), nil, nil)
		} else {
			judge(raw, conc, cfg, be, owners, recs[len(recs)-1:], ":after-concurrency", report, count)
		}
	}
	out.Done(1, len(answers))
}

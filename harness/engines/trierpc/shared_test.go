// TestStorageProofSharedSets (C10, RPC part): proof SETS shared between the keys of one request, through the real
// starknet_getStorageProof handlers (spec/trie/Proof.tla "shared proof sets", ProofSet.tla SharedSetComplete).
//
// rpc/v{8,9,10}/storage.go fill ONE proof-node set per trie - classes, contracts, and the storage of each
// requested contract - with one Prove call per requested key, in request order, and return that set. A node of
// the set is identified by its hash. This test stores state whose three kinds of trie hold EQUAL SUB-TRIES AT
// DIFFERENT POSITIONS, all from one abstract key/value set `kv` (model keys -> small values; TLC's Multi steps of
// ProofMBT.tla on tries with grafted sub-tries, plus directed sets such as slots 4 5 140 141 -> a b a b):
//   - storage of one contract: slot key(k) := val[v];
//   - classes: the Sierra class key(k) declared with compiled class hash compiled[v] (equal leaves for equal v);
//   - contracts: a contract deployed at address key(k) with class hash class[v], nonce 0, no storage (equal
//     leaves for equal v);
// asks for the request's keys in all three tries in EVERY order (<= 4 keys; a sample of the 24 orders of 4 keys in
// the quick tier), on both state backends, through the real jsonrpc.Server, and checks ON THE WIRE FORMAT that
// every requested key is established - value or absence - against the tree roots of global_roots (themselves the
// preimage of the head's state root) by the independent refimpl.Verify AND by juno's own trie.VerifyProof fed with
// the response's nodes.
package trierpc

import (
	"encoding/json"
	"fmt"
	"math/big"
	"math/rand"
	"runtime/debug"
	"sort"
	"strings"
	"testing"

	"github.com/NethermindEth/juno/core/crypto"
	"github.com/NethermindEth/juno/core/felt"
	"github.com/NethermindEth/juno/core/trie"

	"verifharness/internal/refimpl"
	"verifharness/internal/vh"
)

type mAct struct {
	Name string  `json:"name"`
	Req  [][]int `json:"req,omitempty"`
}

type mKV struct {
	K []int `json:"k"`
	V int   `json:"v"`
}

type mStep struct {
	A     mAct  `json:"a"`
	Twins int   `json:"twins,omitempty"`
	P     []mKV `json:"pres"`
}

// concrete (replayable) form of one case: keys are felts in hex
type sharedKV struct {
	Key string `json:"key"`
	V   int    `json:"v"`
}

type sharedRPCCase struct {
	KV     []sharedKV `json:"kv"`
	Req    []string   `json:"req"`
	Origin string     `json:"origin"`
	// explicit orders (replay); empty: every order (a sample for 4 keys in the quick tier)
	Orders [][]int `json:"orders,omitempty"`
}

type sharedRPCInput struct {
	Behaviours [][]mStep       `json:"behaviours,omitempty"`
	Directed   bool            `json:"directed,omitempty"`
	MaxCases   int             `json:"maxCases,omitempty"`
	Cases      []sharedRPCCase `json:"cases,omitempty"`
	Configs    []rpcConfig     `json:"configs,omitempty"`
}

// embedKeys maps h-bit model keys into 251-bit felts: model bit i at position pos[i] (0 = most significant), fixed
// random padding elsewhere; the last model bit is the last real bit in two cases out of three.
type embedding struct {
	pos []int
	pad *big.Int
}

func newEmbedding(h int, r *rand.Rand) embedding {
	perm := r.Perm(251)[:h]
	sort.Ints(perm)
	if r.Intn(3) != 0 {
		perm[h-1] = 250
	}
	pad := rnd251(r)
	for _, p := range perm {
		pad.SetBit(pad, 250-p, 0)
	}
	return embedding{perm, pad}
}

func (e embedding) key(bits []int) *felt.Felt {
	k := new(big.Int).Set(e.pad)
	for i, b := range bits {
		if b == 1 {
			k.SetBit(k, 250-e.pos[i], 1)
		}
	}
	return fb(k)
}

func feltOfHex(s string) *felt.Felt {
	b, ok := new(big.Int).SetString(strings.TrimPrefix(s, "0x"), 16)
	if !ok {
		panic("bad felt " + s)
	}
	return fb(b)
}

func perms(n int) [][]int {
	var out [][]int
	idx := make([]int, n)
	for i := range idx {
		idx[i] = i
	}
	var rec func(k int)
	rec = func(k int) {
		if k == n {
			out = append(out, append([]int{}, idx...))
			return
		}
		for i := k; i < n; i++ {
			idx[k], idx[i] = idx[i], idx[k]
			rec(k + 1)
			idx[k], idx[i] = idx[i], idx[k]
		}
	}
	rec(0)
	return out
}

// directedRPCCases: raw slot numbers (no embedding), from the shape of TLC's counterexample to ProofSet_x_skip.cfg
func directedRPCCases() []sharedRPCCase {
	hx := func(x uint64) string { return fmt.Sprintf("0x%x", x) }
	mk := func(origin string, kv map[uint64]int, req ...uint64) sharedRPCCase {
		c := sharedRPCCase{Origin: origin}
		var ks []uint64
		for k := range kv {
			ks = append(ks, k)
		}
		sort.Slice(ks, func(i, j int) bool { return ks[i] < ks[j] })
		for _, k := range ks {
			c.KV = append(c.KV, sharedKV{hx(k), kv[k]})
		}
		for _, k := range req {
			c.Req = append(c.Req, hx(k))
		}
		return c
	}
	records := map[uint64]int{4: 1, 5: 2, 140: 1, 141: 2, 0x3000: 3, 0x7123: 3}
	return []sharedRPCCase{
		mk("directed:two-records", records, 4, 140),
		mk("directed:two-records-absent", records, 4, 142, 0x3000),
		mk("directed:two-records-all", records, 4, 5, 140, 141),
		mk("directed:same-pair-three-times", map[uint64]int{8: 2, 9: 2, 0x100008: 2, 0x100009: 2, 1 << 60: 1, 1<<60 + 1: 1, 1 << 63: 2, 1<<63 + 1: 2}, 8, 1<<63+1, 0x100009),
		mk("directed:high-and-low", map[uint64]int{6: 1, 7: 1, 1 << 62: 1, 1<<62 + 1: 1, 77: 2}, 1<<62, 6, 78),
	}
}

type sharedJudgeCtx struct {
	conc   *concrete
	cfg    rpcConfig
	be     string
	c      *sharedRPCCase
	keys   map[string]*felt.Felt // hex -> felt
	truth  map[string]int
	owner  *felt.Felt
	report func(key, what string, exp, obs any, order []int)
	count  func(string)
}

// realSet turns wire nodes into the proof-node set a client using juno's own verifier would build
func realSet(ws []wireNode) *trie.ProofNodeSet {
	ps := trie.NewProofNodeSet()
	for _, w := range ws {
		if w.Hash == nil {
			continue
		}
		switch {
		case w.Node.Left != nil && w.Node.Right != nil:
			ps.Put(*w.Hash, &trie.Binary{LeftHash: w.Node.Left, RightHash: w.Node.Right})
		case w.Node.Child != nil && w.Node.Path != nil && w.Node.Length != nil:
			ps.Put(*w.Hash, &trie.Edge{Child: w.Node.Child, Path: new(trie.BitArray).SetFelt(uint8(*w.Node.Length), feltOfHex(*w.Node.Path))})
		}
	}
	return ps
}

// establish checks that `key` is bound to `want` by the nodes ws against root, with both verifiers
func (j *sharedJudgeCtx) establish(which string, ws []wireNode, root *felt.Felt, key, want *felt.Felt, rh refimpl.HashFn, hf crypto.HashFn, pos int, n int, order []int) {
	where := "first-key"
	if pos > 0 {
		where = "later-key"
	}
	pn, err := protoNodes(ws, rh)
	if err != nil {
		j.report("rpc-proof:shared-set:"+which+":malformed:"+j.be, err.Error(), nil, nil, order)
		return
	}
	got, err := refimpl.Verify(*root, bf(key), 251, pn, rh)
	j.count("shared-proof-checks")
	switch {
	case err != nil:
		j.report(fmt.Sprintf("rpc-proof:shared-set:%s:%s:independent-verifier:%s", which, j.be, where),
			fmt.Sprintf("starknet_getStorageProof (%s): key %d of %d of the request (%s) cannot be established from the %s proof the response carries for the whole request: %v",
				j.cfg.API, pos+1, n, key, which, err), want.String(), err.Error(), order)
	case !got.Equal(want):
		j.report(fmt.Sprintf("rpc-proof:shared-set:%s:%s:false-value", which, j.be),
			fmt.Sprintf("starknet_getStorageProof (%s): the %s proof binds key %d of %d (%s) to a false value", j.cfg.API, which, pos+1, n, key), want.String(), got.String(), order)
	}
	if root.IsZero() {
		return // empty trie: both real verifiers answer 'proof node not found' (listed: membership-proof:empty-trie-rejected)
	}
	var rv felt.Felt
	var rerr error
	func() {
		defer func() {
			if p := recover(); p != nil {
				rerr = fmt.Errorf("panic: %v", p)
			}
		}()
		rv, rerr = trie.VerifyProof(root, key, realSet(ws), hf)
	}()
	j.count("shared-proof-checks-real-verifier")
	switch {
	case rerr != nil:
		j.report(fmt.Sprintf("rpc-proof:shared-set:%s:%s:real-verifier:%s", which, j.be, where),
			fmt.Sprintf("starknet_getStorageProof (%s): key %d of %d of the request (%s) does not verify with trie.VerifyProof against the %s proof of the response: %v",
				j.cfg.API, pos+1, n, key, which, rerr), want.String(), rerr.Error(), order)
	case !rv.Equal(want):
		j.report(fmt.Sprintf("rpc-proof:shared-set:%s:%s:false-value", which, j.be),
			fmt.Sprintf("starknet_getStorageProof (%s): trie.VerifyProof derives a false value for key %d of %d (%s) from the %s proof", j.cfg.API, pos+1, n, key, which), want.String(), rv.String(), order)
	}
}

func (j *sharedJudgeCtx) judge(raw []byte, head *blockRec, order []int) {
	rep := func(key, what string, exp, obs any) { j.report(key, what, exp, obs, order) }
	var env struct {
		Result *wireResult     `json:"result"`
		Error  json.RawMessage `json:"error"`
	}
	if err := json.Unmarshal(raw, &env); err != nil || env.Result == nil {
		rep("rpc-proof:shared-set:no-result:"+j.cfg.API+":"+j.be, "starknet_getStorageProof returned no result: "+string(raw[:min(len(raw), 300)]), nil, nil)
		return
	}
	res := env.Result
	if res.GlobalRoots.Contracts == nil || res.GlobalRoots.Classes == nil || res.GlobalRoots.BlockHash == nil {
		rep("rpc-proof:shared-set:global-roots:missing:"+j.be, "global_roots is incomplete", nil, nil)
		return
	}
	if !res.GlobalRoots.BlockHash.Equal(head.header.Hash) {
		rep("rpc-proof:shared-set:global-roots:block-hash:"+j.be, "global_roots.block_hash is not the head block hash", head.header.Hash.String(), res.GlobalRoots.BlockHash.String())
	}
	comm := refimpl.StateCommitment(res.GlobalRoots.Contracts, res.GlobalRoots.Classes, j.cfg.Version >= "0.14.0")
	if !comm.Equal(head.header.GlobalStateRoot) {
		rep("rpc-proof:shared-set:global-roots:preimage:"+j.be, "the head's state root is not the commitment of (contracts_tree_root, classes_tree_root)", head.header.GlobalStateRoot.String(), comm.String())
		return
	}
	j.count("shared-responses-judged")
	n := len(order)
	// classes: leaf = poseidon("CONTRACT_CLASS_LEAF_V0", compiled[v])
	for i, x := range order {
		hexKey := j.c.Req[x]
		want := felt.Zero
		if v := j.truth[hexKey]; v != 0 {
			want = refimpl.ClassLeaf(j.conc.compiled[fmt.Sprintf("x%d", v)])
		}
		j.establish("classes", res.ClassesProof, res.GlobalRoots.Classes, j.keys[hexKey], &want, refimpl.Poseidon, crypto.Poseidon, i, n, order)
	}
	// contracts: the request's keys as addresses, then the owner of the storage
	if len(res.ContractsProof.Leaves) != n+1 {
		rep("rpc-proof:shared-set:contracts:leaves-count:"+j.be, "contract_leaves_data length differs from the request", n+1, len(res.ContractsProof.Leaves))
		return
	}
	zero := felt.Zero
	for i, x := range order {
		hexKey := j.c.Req[x]
		want := felt.Zero
		leaf := res.ContractsProof.Leaves[i]
		if v := j.truth[hexKey]; v != 0 {
			want = refimpl.ContractLeaf(j.conc.class[fmt.Sprintf("h%d", v)], &zero, &zero)
			if leaf == nil || !leaf.ClassHash.Equal(j.conc.class[fmt.Sprintf("h%d", v)]) || !leaf.Nonce.IsZero() || !leaf.StorageRoot.IsZero() {
				rep("rpc-proof:shared-set:contracts:leaf-data:"+j.be, fmt.Sprintf("leaf data of the contract at key %d of the request differs from what was deployed", i+1), nil, nil)
			}
		} else if leaf != nil {
			rep("rpc-proof:shared-set:contracts:leaf-for-absent:"+j.be, fmt.Sprintf("leaf data for key %d of the request, where no contract exists", i+1), nil, nil)
		}
		j.establish("contracts", res.ContractsProof.Nodes, res.GlobalRoots.Contracts, j.keys[hexKey], &want, refimpl.Pedersen, crypto.Pedersen, i, n+1, order)
	}
	oleaf := res.ContractsProof.Leaves[n]
	if oleaf == nil || oleaf.StorageRoot == nil {
		rep("rpc-proof:shared-set:contracts:leaf-missing:"+j.be, "no leaf data for the contract that owns the storage", nil, nil)
		return
	}
	owant := refimpl.ContractLeaf(oleaf.ClassHash, oleaf.StorageRoot, oleaf.Nonce)
	j.establish("contracts", res.ContractsProof.Nodes, res.GlobalRoots.Contracts, j.owner, &owant, refimpl.Pedersen, crypto.Pedersen, n, n+1, order)
	// the owner's storage root is the protocol commitment of the abstract storage
	skv := refimpl.KV{}
	for _, e := range j.c.KV {
		skv[refimpl.Key(bf(j.keys[e.Key]))] = *j.conc.val[e.V]
	}
	if sroot := refimpl.Root(skv, 251, refimpl.Pedersen); !sroot.Equal(oleaf.StorageRoot) {
		rep("rpc-proof:shared-set:storage-root:"+j.be, "the storage root in the owner's leaf data is not the commitment of the storage written", sroot.String(), oleaf.StorageRoot.String())
		return
	}
	if len(res.StorageProofs) != 1 {
		rep("rpc-proof:shared-set:storage:count:"+j.be, "contracts_storage_proofs length differs from the request", 1, len(res.StorageProofs))
		return
	}
	for i, x := range order {
		hexKey := j.c.Req[x]
		want := j.conc.val[j.truth[hexKey]]
		j.establish("storage", res.StorageProofs[0], oleaf.StorageRoot, j.keys[hexKey], want, refimpl.Pedersen, crypto.Pedersen, i, n, order)
	}
}

func runSharedRPCCase(out *vh.Result, c *sharedRPCCase, cfg rpcConfig, thorough bool, count func(string)) {
	be := backend(cfg)
	reported := map[string]bool{}
	report := func(key, what string, exp, obs any, order []int) {
		if reported[key] {
			return
		}
		reported[key] = true
		cc := *c
		cc.Orders = [][]int{order}
		out.Diverge(vh.Divergence{Key: key, What: what + " [" + c.Origin + "; request order " + fmt.Sprint(order) + " of " + fmt.Sprint(c.Req) + "; state " + fmt.Sprint(c.KV) + "]",
			Expected: exp, Observed: obs, Input: sharedRPCInput{Cases: []sharedRPCCase{cc}, Configs: []rpcConfig{cfg}}})
		_ = out.Write()
	}
	defer func() {
		if p := recover(); p != nil {
			report("crash:rpc-storage-proof:shared-set:"+be, fmt.Sprintf("panic while building the chain / serving starknet_getStorageProof: %v", p), nil, string(debug.Stack()), nil)
		}
	}()
	conc := newConcrete(cfg.Seed)
	conc.class["h3"], conc.compiled["x3"] = conc.val[7], conc.val[8]
	conc.addr["owner"] = conc.addr["c3"]
	j := &sharedJudgeCtx{conc: conc, cfg: cfg, be: be, c: c, keys: map[string]*felt.Felt{}, truth: map[string]int{}, owner: conc.addr["owner"], report: report, count: count}
	g := []stAction{{Name: "Deploy", C: "owner", H: "h1"}}
	for _, e := range c.KV {
		k := feltOfHex(e.Key)
		j.keys[e.Key], j.truth[e.Key] = k, e.V
		name := "m:" + e.Key
		conc.addr[name], conc.slot[name], conc.sierra[name] = k, k, k
		g = append(g,
			stAction{Name: "Write", C: "owner", S: name, V: e.V},
			stAction{Name: "Declare", K: name, X: fmt.Sprintf("x%d", e.V)},
			stAction{Name: "Deploy", C: name, H: fmt.Sprintf("h%d", e.V)})
	}
	for _, r := range c.Req {
		if j.keys[r] == nil {
			j.keys[r] = feltOfHex(r)
		}
	}
	ch := newChain(cfg, conc)
	if err := ch.finalise(g); err != nil {
		report("rpc-proof-harness:finalise:"+be, err.Error(), nil, nil, nil)
		return
	}
	if cfg.Seed%2 == 1 {
		ch.restart()
	}
	recs := ch.records()
	orders := c.Orders
	if len(orders) == 0 {
		orders = perms(len(c.Req))
		if len(orders) > 6 && !thorough { // 4 keys: identity, reverse and a seeded sample
			r := rand.New(rand.NewSource(cfg.Seed))
			keep := [][]int{orders[0], {3, 2, 1, 0}}
			r.Shuffle(len(orders), func(a, b int) { orders[a], orders[b] = orders[b], orders[a] })
			orders = append(keep, orders[:6]...)
		}
	}
	for _, ord := range orders {
		var fs []*felt.Felt
		for _, x := range ord {
			fs = append(fs, j.keys[c.Req[x]])
		}
		req := fmt.Sprintf(`{"jsonrpc":"2.0","id":1,"method":"starknet_getStorageProof","params":{"block_id":"latest","class_hashes":%s,"contract_addresses":%s,"contracts_storage_keys":[{"contract_address":"%s","storage_keys":%s}]}}`,
			hexList(fs), hexList(append(append([]*felt.Felt{}, fs...), j.owner)), j.owner.String(), hexList(fs))
		raw, err := serve(ch.bc, cfg.API, req)
		out.Done(0, 1)
		if err != nil {
			report("rpc-proof:shared-set:server-error:"+cfg.API, err.Error(), nil, nil, ord)
			continue
		}
		j.judge(raw, &recs[len(recs)-1], ord)
	}
	out.Done(1, 0)
	out.Count("rpc_shared_requests_"+cfg.API+"_"+be, len(orders))
}

func TestStorageProofSharedSets(t *testing.T) {
	if !vh.Enabled() {
		t.Skip("driver only")
	}
	var in sharedRPCInput
	if err := vh.Input(&in); err != nil {
		t.Fatal(err)
	}
	out := vh.NewResult()
	defer out.Write()
	defer guard(out, "TestStorageProofSharedSets")
	count := func(k string) { out.Count("rpc_"+k, 1) }
	cases := in.Cases
	if len(cases) == 0 {
		if in.Directed {
			cases = append(cases, directedRPCCases()...)
		}
		maxc := in.MaxCases
		if maxc == 0 {
			maxc = 20
		}
		// TLC's Multi steps: those on tries with equal sub-tries below different edges first
		var with, without []sharedRPCCase
		seen := map[string]bool{}
		for bi, beh := range in.Behaviours {
			r := rand.New(rand.NewSource(vh.Seed()*104_729 + int64(bi)))
			for _, s := range beh {
				if s.A.Name != "Multi" || len(s.A.Req) < 2 || len(s.P) == 0 {
					continue
				}
				sig := fmt.Sprint(s.P, s.A.Req)
				if seen[sig] {
					continue
				}
				seen[sig] = true
				e := newEmbedding(len(s.A.Req[0]), r)
				c := sharedRPCCase{Origin: "tlc"}
				for _, p := range s.P {
					c.KV = append(c.KV, sharedKV{e.key(p.K).String(), p.V})
				}
				for _, k := range s.A.Req {
					c.Req = append(c.Req, e.key(k).String())
				}
				if s.Twins > 0 {
					with = append(with, c)
				} else {
					without = append(without, c)
				}
			}
		}
		out.Count("rpc_shared_tlc_requests_with_equal_subtries", len(with))
		tl := append(with, without...)
		if len(tl) > maxc {
			tl = tl[:maxc]
		}
		cases = append(cases, tl...)
	}
	apis := []string{"v10", "v9", "v8"}
	for ci := range cases {
		cfgs := in.Configs
		if len(cfgs) == 0 {
			ver := []string{"0.14.0", "0.13.2"}[ci%2]
			for _, ns := range []bool{false, true} {
				cfgs = append(cfgs, rpcConfig{NewState: ns, Version: ver, API: apis[ci%3], Seed: vh.Seed()*7919 + int64(ci)})
			}
		}
		for _, cfg := range cfgs {
			runSharedRPCCase(out, &cases[ci], cfg, vh.Thorough(), count)
		}
	}
}

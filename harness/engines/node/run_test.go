package nodeengine

import (
	"bytes"
	"context"
	"errors"
	"fmt"
	"math/rand"
	"runtime"
	stdsync "sync"
	"time"

	"github.com/NethermindEth/juno/blockchain"
	"github.com/NethermindEth/juno/core"
	"github.com/NethermindEth/juno/core/felt"
	"github.com/NethermindEth/juno/db"
	"github.com/NethermindEth/juno/db/memory"
	"github.com/NethermindEth/juno/feed"
	"github.com/NethermindEth/juno/pruner"
	"github.com/NethermindEth/juno/starknet"
	jsync "github.com/NethermindEth/juno/sync"
	"github.com/NethermindEth/juno/utils/log"

	"verifharness/internal/chainkit"
	"verifharness/internal/vh"
)

// Decision is one choice of the environment / scheduler.  A run is reproducible (up to goroutine
// timing between gates) from its scenario: the seed fixes the blocks, the decisions fix the order
// in which the gates open.
type Decision struct {
	Op      string `json:"op"`                // src | ans | pr | l1 | sample | view | restart | sync | drain
	Kind    string `json:"kind,omitempty"`    // ans: block | latest      pr: read | batch
	H       uint64 `json:"h,omitempty"`       // ans/block: height
	Handler string `json:"handler,omitempty"` // pr/read: head | l1
	N       int    `json:"n,omitempty"`       // l1: height announced
	Len     int    `json:"len,omitempty"`     // sync: answer honestly until the node's chain has Len blocks
	Hold    bool   `json:"hold,omitempty"`    // sync: leave the pruner's gates closed meanwhile
}

type Scenario struct {
	Name       string     `json:"name"`
	Seed       int64      `json:"seed"`
	Mode       string     `json:"mode"` // random | script
	NewState   bool       `json:"new_state"`
	InitLen    int        `json:"init_len"`
	Plan       []SrcStep  `json:"plan"`
	Retained   int        `json:"retained"`
	L2PerPrune int        `json:"l2_per_prune"`
	BigBatch   bool       `json:"big_batch"`
	Steps      int        `json:"steps"`
	Restarts   int        `json:"restarts"`
	Decisions  []Decision `json:"decisions,omitempty"`
	// Unsafe: the script deliberately breaks the environment assumptions of Node.tla (AssumeSlowL1 /
	// AssumeFinality) to reproduce a design-level hypothesis on the real code.
	Unsafe bool `json:"unsafe,omitempty"`
	NoEpilogue bool `json:"no_epilogue,omitempty"`
}

type request struct {
	rid   int
	kind  string
	h     uint64
	ctx   context.Context
	reply chan reply
}

type reply struct {
	cb  jsync.CommittedBlock
	hdr *core.Header
	err error
}

type delivery struct {
	tag       int
	h         uint64
	persisted chan error
	resolved  bool
	loop      bool // consumed by revertTask's comparison: never resolves
}

type arrival struct {
	kind    string // read | batch
	handler string
	decide  chan error
}

type headAt struct{ seq, height int }

// one process lifetime of the node: everything volatile
type incarnation struct {
	bc       *blockchain.Blockchain
	floor    *pruner.RetentionFloor
	sync     *jsync.Synchronizer
	headSub  *feed.Subscription[*core.Block]
	l1Sub    *feed.Subscription[*core.L1Head]
	cancel   context.CancelFunc
	syncDone chan struct{}
	prDone   chan struct{}
	stop     chan struct{}
	stopping bool // set (under mu) when the incarnation is being stopped: its listeners stop recording
}

type run struct {
	sc    *Scenario
	w     *world
	inner db.KeyValueStore
	twin  *chainkit.Node
	inc   *incarnation

	mu            stdsync.Mutex
	seq           int
	events        []vh.J
	closed        bool
	lateWrite     int
	proj          proj
	shadow        []int
	heads         []headAt
	lastWrite     int
	nPruned       int
	failedReverts int
	parked        bool // the sync goroutine was parked inside its endless revert loop
	pending       []*request
	nextRid       int
	deliv         []*delivery
	prGates       []*arrival
	curVer        int
	planPos       int
	fin           int
	restarts      int
	recorded      []Decision
	findings      []finding
	seen          map[string]bool
	abort         chan struct{}
	rng           *rand.Rand
	note          string
	broken        string
	samples       int
	views         int

	revertAfterPrune  bool // coverage: a revert after blocks had been pruned
	revertDuringPrune bool // coverage: a revert while a prune batch was waiting at its gate
}

type finding struct {
	key, what string
	step      int
}

const (
	stallTimeout = 10 * time.Second
	pollInterval = 300 * time.Microsecond
)

var errClosed = errors.New("source: closed")
var errNotFound = errors.New("source: block not found")

func (r *run) log(ev vh.J) int {
	r.seq++
	ev["seq"] = r.seq
	r.events = append(r.events, ev)
	return r.seq
}

func (r *run) anomaly(format string, a ...any) {
	msg := fmt.Sprintf(format, a...)
	r.log(vh.J{"ev": "Anomaly", "what": msg})
	r.add("node:recorder-anomaly", msg)
}

func (r *run) add(key, what string) {
	if r.seen[key] {
		return
	}
	r.seen[key] = true
	r.findings = append(r.findings, finding{key: key, what: what, step: len(r.events) - 1})
}

func (r *run) cur() []int { return r.w.chain(r.curVer) }

// ---------------------------------------------------------------- DataSource (gated, honest)

func (r *run) enter(kind string, h uint64, ctx context.Context) *request {
	r.mu.Lock()
	defer r.mu.Unlock()
	if r.closed {
		return nil
	}
	r.nextRid++
	rq := &request{rid: r.nextRid, kind: kind, h: h, ctx: ctx, reply: make(chan reply, 1)}
	r.pending = append(r.pending, rq)
	return rq
}

func (r *run) BlockByNumber(ctx context.Context, n uint64) (jsync.CommittedBlock, error) {
	rq := r.enter("block", n, ctx)
	if rq == nil {
		return jsync.CommittedBlock{}, errClosed
	}
	select {
	case rp := <-rq.reply:
		return rp.cb, rp.err
	case <-r.abort:
		return jsync.CommittedBlock{}, errClosed
	}
}

func (r *run) BlockHeaderLatest(ctx context.Context) (*core.Header, error) {
	rq := r.enter("latest", 0, ctx)
	if rq == nil {
		return nil, errClosed
	}
	select {
	case rp := <-rq.reply:
		return rp.hdr, rp.err
	case <-r.abort:
		return nil, errClosed
	}
}

var one = new(felt.Felt).SetUint64(1)

func (r *run) preConfirmed(n uint64) starknet.PreConfirmedBlock {
	gp := func(a uint64) *starknet.GasPrice {
		return &starknet.GasPrice{PriceInWei: chainkit.F(a), PriceInFri: chainkit.F(a + 1)}
	}
	return starknet.PreConfirmedBlock{
		BlockIdentifier: fmt.Sprintf("pc-%d-%d", r.curVer, n), Transactions: []starknet.Transaction{},
		Receipts: []*starknet.TransactionReceipt{}, TransactionStateDiffs: []*starknet.StateDiff{},
		Status: "PRE_CONFIRMED", Timestamp: 1_700_000_000 + n, Version: "0.14.0", SequencerAddress: chainkit.F(0x5e9),
		L1GasPrice: gp(11), L2GasPrice: gp(13), L1DAMode: starknet.Blob, L1DataGasPrice: gp(15),
	}
}

// The pre-confirmed block of the source is the one after its tip; served ungated (the poller is
// timer-driven; the specification treats its ticks as silent steps).
func (r *run) PreConfirmedBlockLatest(_ context.Context, id string, _ uint64) (starknet.PreConfirmedUpdate, uint64, error) {
	r.mu.Lock()
	defer r.mu.Unlock()
	if r.closed {
		return nil, 0, errClosed
	}
	n := uint64(len(r.cur()))
	b := r.preConfirmed(n)
	if b.BlockIdentifier == id {
		return starknet.PreConfirmedNoChange{}, n, nil
	}
	return b, n, nil
}

func (r *run) PreConfirmedBlockByNumber(_ context.Context, n uint64, id string, _ uint64) (starknet.PreConfirmedUpdate, error) {
	r.mu.Lock()
	defer r.mu.Unlock()
	if r.closed {
		return nil, errClosed
	}
	b := r.preConfirmed(n)
	if b.BlockIdentifier == id {
		return starknet.PreConfirmedNoChange{}, nil
	}
	return b, nil
}

func (r *run) Class(context.Context, *felt.Felt) (core.ClassDefinition, error) {
	return nil, errors.New("not served")
}

// ---------------------------------------------------------------- pruner gates

func (r *run) gateWait(kind, handler string) error {
	r.mu.Lock()
	if r.closed {
		r.mu.Unlock()
		return errStopped
	}
	inc := r.inc
	a := &arrival{kind: kind, handler: handler, decide: make(chan error, 1)}
	r.prGates = append(r.prGates, a)
	r.mu.Unlock()
	select {
	case err := <-a.decide:
		return err
	case <-inc.stop:
		return errStopped
	case <-r.abort:
		return errStopped
	}
}

// ---------------------------------------------------------------- start / stop of an incarnation

func (r *run) start() error {
	chainView := &linStore{KeyValueStore: r.inner, r: r}
	prView := &linStore{KeyValueStore: r.inner, r: r, gated: true}
	floor, err := pruner.NewRetentionFloor(r.inner)
	if err != nil {
		return err
	}
	node := chainkit.NewNode(chainView, r.sc.NewState, blockchain.WithRetentionFloor(floor),
		blockchain.WithRunningEventFilterInitializer(pruner.InitializeRunningEventFilter))
	inc := &incarnation{bc: node.BC, floor: floor, syncDone: make(chan struct{}), prDone: make(chan struct{}), stop: make(chan struct{})}
	s := jsync.New(node.BC, r, log.NewNopZapLogger(), pollInterval, false, chainView).WithListener(&jsync.SelectiveListener{
		OnReorgCb: r.onReorgAttempt,
	})
	inc.sync = s
	inc.headSub = s.SubscribeNewHeads().Subscription
	inc.l1Sub = node.BC.SubscribeL1Head().Subscription
	batch := 1
	if r.sc.BigBatch {
		batch = 96 << 20
	}
	l2pp := r.sc.L2PerPrune
	if l2pp < 1 {
		l2pp = 1
	}
	p := pruner.New(prView, floor, uint64(r.sc.Retained), inc.headSub, inc.l1Sub, log.NewNopZapLogger(),
		pruner.WithTargetBatchByteSize(batch), pruner.WithL2HeadsPerPrune(uint64(l2pp)), pruner.WithMinAge(0),
		pruner.WithListener(&pruner.SelectiveListener{
			OnPruneCb: func(kept, n uint64, _ time.Duration) {
				r.mu.Lock()
				if !r.closed && !inc.stopping {
					r.log(vh.J{"ev": "PruneDone", "kept": int(kept), "n": int(n)})
				}
				r.mu.Unlock()
			},
			OnPruneErrorCb: func(err error) {
				r.mu.Lock()
				if !r.closed && !inc.stopping && !errors.Is(err, errStopped) {
					r.log(vh.J{"ev": "PruneErr", "err": err.Error()})
				}
				r.mu.Unlock()
			},
		}))
	ctx, cancel := context.WithCancel(context.Background())
	inc.cancel = cancel
	r.mu.Lock()
	r.inc = inc
	r.mu.Unlock()
	go func() {
		defer close(inc.syncDone)
		_ = s.Run(ctx)
	}()
	go func() {
		defer close(inc.prDone)
		_ = p.Run(ctx)
	}()
	return nil
}

// onReorgAttempt is sync's OnReorg listener: it is called after EVERY RevertHead attempt, failed
// ones included.  A successful revert has already been recorded by the store hook; a failed one is
// recorded here.  sync.revertTask repeats a failing revert for ever without looking at its context:
// after a few hundred iterations the goroutine is parked so that it stops burning a core.
func (r *run) onReorgAttempt(n uint64) {
	r.mu.Lock()
	if r.closed {
		r.mu.Unlock()
		return
	}
	if r.proj.height == int(n) { // the head did not move
		r.failedReverts++
		if r.failedReverts <= 3 {
			r.log(vh.J{"ev": "RevertFail", "h": int(n), "tag": r.proj.headTag})
		}
		if r.failedReverts == 200 {
			// does the loop look at its context?  cancel the services now; a loop that did would stop
			r.inc.stopping = true
			r.inc.cancel()
		}
		if r.failedReverts >= 400 && !r.parked {
			r.parked = true
			r.log(vh.J{"ev": "Stuck", "h": int(n), "tag": r.proj.headTag, "attempts": r.failedReverts, "cancelled_at": 200})
			r.mu.Unlock()
			select {} // parked for the rest of the process
		}
	}
	r.mu.Unlock()
}

func (r *run) stopIncarnation() error {
	inc := r.inc
	r.mu.Lock()
	inc.stopping = true
	r.mu.Unlock()
	inc.cancel()
	close(inc.stop)
	deadline := time.After(20 * time.Second)
	syncDone, prDone := inc.syncDone, inc.prDone
	for syncDone != nil || prDone != nil {
		r.mu.Lock()
		r.flushCancelled()
		r.mu.Unlock()
		select {
		case <-syncDone:
			syncDone = nil
		case <-prDone:
			prDone = nil
		case <-deadline:
			if r.parked && prDone == nil {
				return nil // the parked goroutine is the finding, not a harness failure
			}
			return errors.New("the node's services did not stop after cancellation")
		case <-time.After(200 * time.Microsecond):
		}
	}
	return nil
}

// ---------------------------------------------------------------- scheduler helpers

func (r *run) seqNow() (int, int) {
	r.mu.Lock()
	defer r.mu.Unlock()
	return r.seq, len(r.pending)*1000 + len(r.prGates)
}

// settle waits until the node has stopped producing events / arrivals for a moment (best effort:
// it makes runs more reproducible; soundness does not depend on it).
func (r *run) settle() {
	ls, lg := r.seqNow()
	quiet := 0
	for i := 0; i < 120 && quiet < 3; i++ {
		time.Sleep(80 * time.Microsecond)
		if s, g := r.seqNow(); s == ls && g == lg {
			quiet++
		} else {
			quiet, ls, lg = 0, s, g
		}
	}
}

func (r *run) removePending(rq *request) {
	for i, x := range r.pending {
		if x == rq {
			r.pending = append(r.pending[:i], r.pending[i+1:]...)
			return
		}
	}
}

// answer (mu held): the honest answer of an up-to-date source.
func (r *run) answer(rq *request) {
	r.removePending(rq)
	var rp reply
	switch {
	case rq.ctx.Err() != nil:
		rp.err = rq.ctx.Err()
	case rq.kind == "block":
		c := r.cur()
		if int(rq.h) >= len(c) {
			rp.err = errNotFound
		} else {
			tag := c[rq.h]
			rp.cb = r.w.committed(tag)
			r.deliv = append(r.deliv, &delivery{tag: tag, h: rq.h, persisted: rp.cb.Persisted, loop: int(rq.h) < len(r.shadow)})
		}
	default:
		c := r.cur()
		rp.hdr = r.w.header(c[len(c)-1])
	}
	rq.reply <- rp
}

func (r *run) flushCancelled() {
	for again := true; again; {
		again = false
		for _, rq := range r.pending {
			if rq.ctx.Err() != nil {
				r.answer(rq)
				again = true
				break
			}
		}
	}
}

func (r *run) scanOutcomes() {
	for _, d := range r.deliv {
		if d.resolved {
			continue
		}
		select {
		case <-d.persisted:
			d.resolved = true
		default:
		}
	}
}

// pipelineClean (mu held): no block handed to the fetch pipeline is still on its way to storeTask,
// except (staleOK) blocks of the current source chain.
func (r *run) pipelineClean(staleOnly bool) bool {
	r.scanOutcomes()
	for _, d := range r.deliv {
		if d.resolved || d.loop {
			continue
		}
		if staleOnly && hasTag(r.cur(), d.tag) {
			continue
		}
		return false
	}
	return true
}

func isPrefix(a, b []int) bool {
	if len(a) > len(b) {
		return false
	}
	for i := range a {
		if a[i] != b[i] {
			return false
		}
	}
	return true
}

func equalInts(a, b []int) bool { return len(a) == len(b) && isPrefix(a, b) }

// prunerState inspects the goroutine stacks: "idle" = the pruner's Run goroutine is BLOCKED in its select
// (so it holds no event), "head" / "l1" = inside that handler, "busy" = anything else (e.g. between the
// receive and the call of the handler).  Sound: a stack dump is a consistent snapshot of every goroutine.
func prunerState() string {
	buf := make([]byte, 1<<20)
	n := runtime.Stack(buf, true)
	state := "idle"
	for _, g := range bytes.Split(buf[:n], []byte("\n\n")) {
		if !bytes.Contains(g, []byte("pruner.(*Pruner).Run(")) {
			continue
		}
		switch {
		case bytes.Contains(g, []byte("pruner.(*Pruner).onNewBlock")):
			return "head"
		case bytes.Contains(g, []byte("pruner.(*Pruner).onNewL1Head")):
			state = "l1"
		default:
			hdr := g
			if i := bytes.IndexByte(g, '\n'); i >= 0 {
				hdr = g[:i]
			}
			if !bytes.Contains(hdr, []byte("[select")) && state == "idle" {
				state = "busy"
			}
		}
	}
	return state
}

// digested (mu held) is the engine's side of AssumeSlowL1: nothing of an abandoned fork is left in
// the node — local chain, blocks in the pipeline, the pruner's head slot, a head handler in flight.
func (r *run) digested() bool {
	if !isPrefix(r.shadow, r.cur()) || !r.pipelineClean(true) {
		return false
	}
	if len(r.inc.headSub.Recv()) != 0 {
		return false
	}
	st := prunerState()
	return st == "idle" || st == "l1"
}

// a1Limit: the highest height L1 may announce as final without any remaining step of the plan
// reorganising it (AssumeFinality).
func (r *run) a1Limit() int {
	n := len(r.cur())
	lim := n - 1
	for i := r.planPos; i < len(r.sc.Plan); i++ {
		st := r.sc.Plan[i]
		if st.Drop > 0 && n-st.Drop-1 < lim {
			lim = n - st.Drop - 1
		}
		n = n - st.Drop + st.Add
	}
	return lim
}

func (r *run) srcStep() bool {
	if r.planPos >= len(r.sc.Plan) {
		return false
	}
	r.planPos++
	r.curVer++
	r.recorded = append(r.recorded, Decision{Op: "src"})
	r.log(vh.J{"ev": "Src", "chain": r.cur()})
	return true
}

// setL1 performs one SetL1Head of the scripted L1 client.  The call publishes on the L1-head feed and
// then writes the database (recorded as SetL1 by the store hook).
func (r *run) setL1(n int) {
	r.mu.Lock()
	c := r.cur()
	if n < 0 || n >= len(c) {
		r.mu.Unlock()
		return
	}
	tag := c[n]
	b := r.w.blocks[tag].built.Block
	head := &core.L1Head{BlockNumber: uint64(n), BlockHash: b.Hash, StateRoot: b.GlobalStateRoot}
	r.log(vh.J{"ev": "L1Call", "n": n, "tag": tag})
	if n > r.fin {
		r.fin = n
	}
	r.recorded = append(r.recorded, Decision{Op: "l1", N: n})
	bc := r.inc.bc
	r.mu.Unlock()
	if err := bc.SetL1Head(head); err != nil {
		r.mu.Lock()
		r.anomaly("SetL1Head: %v", err)
		r.mu.Unlock()
	}
}

func (r *run) admit(a *arrival) {
	for i, x := range r.prGates {
		if x == a {
			r.prGates = append(r.prGates[:i], r.prGates[i+1:]...)
			break
		}
	}
	r.recorded = append(r.recorded, Decision{Op: "pr", Kind: a.kind, Handler: a.handler})
	a.decide <- nil
}

func (r *run) restart() error {
	r.mu.Lock()
	r.recorded = append(r.recorded, Decision{Op: "restart"})
	r.mu.Unlock()
	if err := r.stopIncarnation(); err != nil {
		return err
	}
	r.mu.Lock()
	r.flushCancelled()
	for _, rq := range r.pending { // whatever is left belongs to the dead incarnation
		rq.reply <- reply{err: errClosed}
	}
	r.pending, r.prGates, r.deliv = nil, nil, nil
	r.restarts++
	r.failedReverts = 0
	r.log(vh.J{"ev": "Restart"})
	r.mu.Unlock()
	return r.start()
}

// ---------------------------------------------------------------- phases

func (r *run) randomPhase() {
	// warm-up: most runs first bring the node some way up the initial chain
	if n := r.rng.Intn(r.sc.InitLen + 1); n > 0 && r.rng.Intn(4) != 0 {
		r.syncTo(n, r.rng.Intn(2) == 0)
	}
	for i := 0; i < r.sc.Steps && r.broken == "" && !r.isParked(); i++ {
		if r.rng.Intn(6) != 0 {
			r.settle()
		}
		r.mu.Lock()
		r.flushCancelled()
		p := r.rng.Float64()
		switch {
		case p < 0.07 && r.planPos < len(r.sc.Plan):
			// often L1 moves up (as far as the plan allows) and the pruner gets going before the source changes
			if lo, hi := r.fin+1, r.a1Limit(); lo <= hi && hi <= len(r.shadow) && r.rng.Intn(10) < 6 && r.digested() {
				r.mu.Unlock()
				r.setL1(hi)
			} else {
				r.srcStep()
				r.mu.Unlock()
			}
		case p < 0.20:
			// the L1 client: only what the environment assumptions allow
			lo, hi := r.fin+1, r.a1Limit()
			if lo <= hi && r.digested() {
				n := lo + r.rng.Intn(hi-lo+1)
				r.mu.Unlock()
				r.setL1(n)
			} else {
				r.mu.Unlock()
			}
		case p < 0.32:
			r.mu.Unlock()
			r.sample()
		case p < 0.38:
			r.mu.Unlock()
			r.view()
		case p < 0.395 && r.restarts < r.sc.Restarts:
			r.mu.Unlock()
			if err := r.restart(); err != nil {
				r.broken = err.Error()
			}
		case p < 0.62 && len(r.prGates) > 0:
			// a batch gate is sometimes kept closed for a while so that the prune stays in flight
			if a := r.prGates[r.rng.Intn(len(r.prGates))]; a.kind == "batch" && r.planPos < len(r.sc.Plan) && r.rng.Intn(3) == 0 {
				r.srcStep()
			} else {
				r.admit(a)
			}
			r.mu.Unlock()
		case len(r.pending) > 0:
			r.answer(r.pending[r.rng.Intn(len(r.pending))])
			r.recorded = append(r.recorded, Decision{Op: "ans"})
			r.mu.Unlock()
		case len(r.prGates) > 0:
			r.admit(r.prGates[0])
			r.mu.Unlock()
		default:
			r.mu.Unlock()
			time.Sleep(200 * time.Microsecond)
		}
	}
	r.mu.Lock()
	for r.srcStep() {
	}
	r.mu.Unlock()
}

func (r *run) isParked() bool {
	r.mu.Lock()
	defer r.mu.Unlock()
	return r.parked
}

// syncTo answers honestly until the node's chain has n blocks (and equals the source's first n).
func (r *run) syncTo(n int, hold bool) bool {
	deadline := time.Now().Add(stallTimeout)
	for time.Now().Before(deadline) {
		r.settle()
		r.mu.Lock()
		r.flushCancelled()
		if len(r.shadow) == n && isPrefix(r.shadow, r.cur()) && r.pipelineClean(false) {
			r.mu.Unlock()
			return true
		}
		if r.parked {
			r.mu.Unlock()
			return false
		}
		progressed := false
		for _, rq := range r.pending {
			if rq.kind == "latest" || int(rq.h) < n || int(rq.h) >= len(r.cur()) {
				r.answer(rq)
				progressed = true
				break
			}
		}
		if !hold && len(r.prGates) > 0 {
			r.admit(r.prGates[0])
			progressed = true
		}
		r.mu.Unlock()
		if progressed {
			deadline = time.Now().Add(stallTimeout)
		}
	}
	return false
}

// drain admits every pruner gate until the pruner is idle with empty slots.
func (r *run) drain() bool {
	deadline := time.Now().Add(stallTimeout)
	quiet := 0
	for time.Now().Before(deadline) {
		r.settle()
		r.mu.Lock()
		if len(r.prGates) > 0 {
			r.admit(r.prGates[0])
			r.mu.Unlock()
			quiet = 0
			continue
		}
		idle := len(r.inc.headSub.Recv()) == 0 && len(r.inc.l1Sub.Recv()) == 0 && prunerState() == "idle"
		r.mu.Unlock()
		if idle {
			quiet++
			if quiet >= 3 {
				return true
			}
		} else {
			quiet = 0
		}
	}
	return false
}

func (r *run) scriptPhase() {
	for _, d := range r.sc.Decisions {
		if r.broken != "" {
			return
		}
		switch d.Op {
		case "src":
			r.settle()
			r.mu.Lock()
			r.srcStep()
			r.mu.Unlock()
		case "sync":
			if !r.syncTo(d.Len, d.Hold) {
				r.note = fmt.Sprintf("script: sync to %d blocks not reached", d.Len)
				return
			}
		case "drain":
			if !r.drain() {
				r.note = "script: the pruner did not become idle"
				return
			}
		case "l1":
			r.settle()
			r.setL1(d.N)
		case "sample":
			r.settle()
			r.sample()
		case "view":
			r.view()
		case "restart":
			if err := r.restart(); err != nil {
				r.broken = err.Error()
			}
		case "ans":
			// answer the request the script names; latest-header requests met on the way are answered too
			r.settle()
			deadline := time.Now().Add(800 * time.Millisecond)
			for done := false; !done && time.Now().Before(deadline); {
				r.mu.Lock()
				r.flushCancelled()
				var match, latest *request
				for _, x := range r.pending {
					if d.Kind == "" || (x.kind == d.Kind && (d.Kind == "latest" || x.h == d.H)) {
						match = x
						break
					}
					if x.kind == "latest" && latest == nil {
						latest = x
					}
				}
				switch {
				case match != nil:
					r.answer(match)
					done = true
				case latest != nil && d.Kind == "block":
					r.answer(latest)
				}
				r.mu.Unlock()
				if !done {
					time.Sleep(150 * time.Microsecond)
				}
			}
		case "wait": // no gate is opened until the node's chain has Len blocks
			deadline := time.Now().Add(2 * time.Second)
			for time.Now().Before(deadline) {
				r.mu.Lock()
				n := len(r.shadow)
				r.mu.Unlock()
				if n == d.Len {
					break
				}
				time.Sleep(100 * time.Microsecond)
			}
		case "pr":
			r.settle()
			a := r.waitFor(func() any {
				for _, x := range r.prGates {
					if x.kind == d.Kind && (d.Kind == "batch" || x.handler == d.Handler) {
						return x
					}
				}
				return nil
			}, 400*time.Millisecond)
			if a == nil {
				continue
			}
			r.admit(a.(*arrival))
			r.mu.Unlock()
		default:
			r.broken = "unknown decision " + d.Op
		}
	}
}

// waitFor polls pred under mu; a non-nil result is returned with mu HELD.
func (r *run) waitFor(pred func() any, timeout time.Duration) any {
	deadline := time.Now().Add(timeout)
	for {
		r.mu.Lock()
		r.flushCancelled()
		if x := pred(); x != nil {
			return x
		}
		r.mu.Unlock()
		if time.Now().After(deadline) {
			return nil
		}
		time.Sleep(100 * time.Microsecond)
	}
}

// stablePhase: the source no longer changes; every request is answered honestly, every pruner gate
// opened, until the node is quiescent on the source's chain.
func (r *run) stablePhase() bool {
	const quietNeeded = 12
	// the node fails to converge when it produces no event for stallTimeout (or keeps busy for a minute)
	deadline, hardCap := time.Now().Add(stallTimeout), time.Now().Add(60*time.Second)
	quiet, lastSeq, progressSeq := 0, -1, -1
	for time.Now().Before(deadline) && time.Now().Before(hardCap) {
		r.settle()
		r.mu.Lock()
		r.flushCancelled()
		if r.parked {
			r.mu.Unlock()
			return false
		}
		if r.seq != progressSeq {
			progressSeq, deadline = r.seq, time.Now().Add(stallTimeout)
		}
		conv := equalInts(r.shadow, r.cur()) && r.pipelineClean(false) && len(r.prGates) == 0 &&
			len(r.inc.headSub.Recv()) == 0 && len(r.inc.l1Sub.Recv()) == 0 && r.seq == lastSeq && prunerState() == "idle"
		if conv {
			quiet++
		} else {
			quiet, lastSeq = 0, r.seq
		}
		if quiet >= quietNeeded {
			r.mu.Unlock()
			return true
		}
		if len(r.prGates) > 0 {
			r.admit(r.prGates[0])
		}
		if len(r.pending) > 0 { // oldest first; "not found" for blocks the source does not have
			r.answer(r.pending[0])
		}
		r.mu.Unlock()
	}
	r.mu.Lock()
	r.note = fmt.Sprintf("stable phase timed out: node %v source %v pipelineClean=%v gates=%d slots=%d/%d pruner=%s pending=%d",
		r.shadow, r.cur(), r.pipelineClean(false), len(r.prGates), len(r.inc.headSub.Recv()), len(r.inc.l1Sub.Recv()), prunerState(), len(r.pending))
	r.mu.Unlock()
	return false
}

// epilogue (P5, positive half): after convergence the source grows by two blocks and L1 announces a head
// into an EMPTY slot of an IDLE pruner, so the trigger cannot be lost and the floor must reach exactly
// max(previous floor, head-1-Retained), head being the final head:
//   variant A (L1 path):   the node follows the source first, then L1 announces head-1 (< head);
//   variant B (head path): L1 announces the new head first (L1 ahead of the node: the L1 trigger is skipped), then
//                          the node stores head-1 — an event into an empty slot, L1 above it — and head.
func (r *run) epilogue() (want, got int, ok bool) {
	variantB := max(r.sc.L2PerPrune, 1) == 1 && r.sc.Seed%2 == 0
	r.mu.Lock()
	before := r.proj.below
	r.curVer = len(r.w.versions)
	head := len(r.cur()) - 1
	r.log(vh.J{"ev": "Src", "chain": r.cur()})
	r.mu.Unlock()
	if variantB {
		r.setL1(head)
		if !r.stablePhase() {
			return 0, 0, false
		}
	} else {
		if !r.stablePhase() {
			return 0, 0, false
		}
		r.setL1(head - 1)
	}
	if !r.drain() {
		return 0, 0, false
	}
	r.mu.Lock()
	defer r.mu.Unlock()
	want = before
	if head-1 >= r.sc.Retained && head-1-r.sc.Retained > want {
		want = head - 1 - r.sc.Retained
	}
	return want, r.proj.below, true
}

func (r *run) finalChain() []int {
	out := []int{}
	h, err := core.GetChainHeight(r.inner)
	if err != nil {
		return out
	}
	for i := uint64(0); i <= h; i++ {
		t := -1
		if hh, err := core.GetBlockHeaderHashByNumber(r.inner, i); err == nil {
			if x, ok := r.w.byHash[*hh]; ok {
				t = x
			}
		} else if int(i) < r.proj.below && int(i) < len(r.shadow) {
			t = r.shadow[i] // the header of a pruned block below the block-hash-lag carve-out is gone by design
		}
		out = append(out, t)
	}
	return out
}

// execute performs one run and returns it.
func execute(sc *Scenario, tr int) (*run, error) {
	w, err := newWorld(sc.Seed, sc.NewState, sc.InitLen, sc.Plan)
	if err != nil {
		return nil, err
	}
	r := &run{
		sc: sc, w: w, inner: memory.New(), twin: chainkit.NewNode(nil, sc.NewState), curVer: 1, fin: -1,
		abort: make(chan struct{}), rng: rand.New(rand.NewSource(sc.Seed*7919 + 13)), seen: map[string]bool{},
		proj: proj{height: -1, l1n: -1},
	}
	r.mu.Lock()
	r.log(vh.J{"ev": "Reset", "tr": tr, "name": sc.Name, "chain": r.cur(), "meta": w.meta(),
		"retained": sc.Retained, "l2pp": max(sc.L2PerPrune, 1)})
	r.mu.Unlock()
	if err := r.start(); err != nil {
		return nil, err
	}
	if sc.Mode == "script" {
		r.scriptPhase()
	} else {
		r.randomPhase()
	}
	converged, epi := false, vh.J{"done": false, "want": 0, "got": 0}
	if r.broken == "" {
		r.mu.Lock()
		for r.srcStep() {
		}
		r.mu.Unlock()
		converged = r.stablePhase()
		if converged {
			r.sample()
			r.view()
			if !sc.Unsafe && !sc.NoEpilogue {
				want, got, ok := r.epilogue()
				epi = vh.J{"done": ok, "want": want, "got": got}
				if ok {
					r.sample()
				} else if r.broken == "" {
					converged = false
				}
			}
		}
	}
	r.settle()
	if !converged {
		r.sample() // the end state is judged by the monitors (and by TLC at End) in every case
	}
	r.mu.Lock()
	writesBefore := r.seq
	r.mu.Unlock()
	final := r.finalChain()
	r.mu.Lock()
	if r.seq != writesBefore {
		r.lateWrite++
	}
	end := vh.J{"ev": "End", "tr": tr, "final": final, "conv": converged, "stuck": r.parked, "src": r.cur(),
		"below": r.proj.below, "epilogue": epi}
	r.log(end)
	r.closed = true
	r.mu.Unlock()
	r.monitorEnd(converged, epi)

	r.inc.cancel()
	close(r.abort)
	waitDone := func(ch chan struct{}, what string) error {
		select {
		case <-ch:
			return nil
		case <-time.After(15 * time.Second):
			return errors.New(what + " did not return after cancellation")
		}
	}
	if err := waitDone(r.inc.prDone, "Pruner.Run"); err != nil {
		return r, err
	}
	if !r.parked {
		if err := waitDone(r.inc.syncDone, "Synchronizer.Run"); err != nil {
			return r, err
		}
	}
	if after := r.finalChain(); !equalInts(after, final) {
		r.lateWrite++
	}
	return r, nil
}

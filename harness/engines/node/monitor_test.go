package nodeengine

// monitor_test.go: the cross-component properties of spec/node/Node.tla evaluated DIRECTLY on the
// real node at every sample (inside the global critical section, so the sample is one consistent
// cut through the database, the in-memory floor and the unpruned twin), plus the pre-confirmed view
// check.  NodeTrace.tla evaluates the same predicates on the model while validating the trace;
// checks/G02.py requires both verdicts to agree.

import (
	"errors"
	"fmt"
	"reflect"
	"strings"

	"github.com/NethermindEth/juno/core"
	"github.com/NethermindEth/juno/core/felt"
	"github.com/NethermindEth/juno/db"
	"github.com/NethermindEth/juno/pruner"

	"verifharness/internal/chainkit"
	"verifharness/internal/vh"
)

func maxi(a, b int) int {
	if a > b {
		return a
	}
	return b
}

func mini(a, b int) int {
	if a < b {
		return a
	}
	return b
}

// bound = max(0, min(L1 head, local head) - Retained); 0 while L1 has announced nothing.
func bound(fin, head, retained int) int {
	if fin < 0 || head < 0 {
		return 0
	}
	return maxi(0, mini(fin, head)-retained)
}

func errClass(err error) string {
	switch {
	case err == nil:
		return "ok"
	case errors.Is(err, db.ErrKeyNotFound):
		return "notfound"
	case errors.Is(err, pruner.ErrBlockPruned):
		return "pruned"
	default:
		return "error"
	}
}

// memFloor observes the shared in-memory retention floor through the reader it guards: the lowest
// block number whose state StateAtBlockNumber serves (head+1: none).
func (r *run) memFloor(head int) int {
	for n := 0; n <= head; n++ {
		_, closer, err := r.inc.bc.StateAtBlockNumber(uint64(n))
		if err == nil {
			_ = closer()
			return n
		}
	}
	return head + 1
}

// sample takes one consistent cut (mu held throughout: no commit can happen meanwhile).
func (r *run) sample() {
	r.mu.Lock()
	defer r.mu.Unlock()
	if r.closed {
		return
	}
	r.recorded = append(r.recorded, Decision{Op: "sample"})
	p := r.proj
	mem := r.memFloor(p.height)
	r.samples++
	r.log(vh.J{"ev": "Sample", "head": p.height, "htag": p.headTag, "below": p.below, "l1": p.l1n, "mem": mem})
	R := r.sc.Retained
	b := bound(r.fin, p.height, R)
	// P1
	if p.below > b {
		r.add("node:floor-above-retention-bound:durable", fmt.Sprintf(
			"blocks below %d are deleted but min(L1 head %d, local head %d) - %d retained = %d", p.below, r.fin, p.height, R, b))
	}
	if mem <= p.height && mem > maxi(b, 1)-1 {
		r.add("node:floor-above-retention-bound:memory", fmt.Sprintf(
			"state is served from block %d up only, but min(L1 head %d, local head %d) - %d retained = %d", mem, r.fin, p.height, R, b))
	}
	// P2 / P4: the head block is retained and its state is servable by number
	if p.height >= 0 && p.below > p.height {
		r.add("node:head-block-pruned", fmt.Sprintf("the head block %d is (partly) deleted: oldest retained %d", p.height, p.below))
	}
	if p.height >= 0 && mem > p.height {
		r.add("node:head-state-below-floor", fmt.Sprintf("StateAtBlockNumber(head = %d) is refused: the in-memory floor is above the head", p.height))
	}
	// P3: state history served from the floor up must be reconstructible
	if p.below <= p.height && mem+1 < p.below {
		r.add("node:state-served-below-pruned-history", fmt.Sprintf(
			"state is served from block %d but history rows exist from block %d only", mem, p.below))
	}
	// (c) head / hash consistency between the database, the recorder's shadow and the twin
	if p.height != len(r.shadow)-1 || (p.height >= 0 && p.headTag != r.shadow[len(r.shadow)-1]) {
		r.add("node:head-inconsistent:shadow", fmt.Sprintf("database head %d/b%d, stores and reverts built %v", p.height, p.headTag, r.shadow))
	}
	if p.height >= 0 {
		hd, err := r.inc.bc.HeadsHeader()
		th, terr := r.twin.BC.HeadsHeader()
		if err != nil || terr != nil || int(hd.Number) != p.height || !hd.Hash.Equal(th.Hash) {
			r.add("node:head-inconsistent:header", fmt.Sprintf("HeadsHeader: %v / twin %v at height %d", err, terr, p.height))
		}
		if p.below <= p.height {
			blk, err := r.inc.bc.Head()
			tb, _ := r.twin.BC.Head()
			if err != nil || !reflect.DeepEqual(blk, tb) {
				r.add("node:head-inconsistent:block", fmt.Sprintf("Head(): %v (or not the twin's head block) at height %d", err, p.height))
			}
			if st, closer, err := r.inc.bc.HeadState(); err != nil {
				r.add("node:head-inconsistent:state", fmt.Sprintf("HeadState: %v", err))
			} else {
				if tst, tcl, terr := r.twin.BC.HeadState(); terr == nil {
					r.cmpState("head-state", uint64(p.height), st, tst)
					_ = tcl()
				}
				_ = closer()
			}
		}
	}
	// (b) P3: every block from the oldest retained one up is fully readable and equals the twin's;
	// below it an answer is "not found"/"pruned" or the true data, never anything else
	for n := 0; n <= p.height; n++ {
		r.sweepBlock(uint64(n), n >= p.below)
	}
	for n := maxi(mem, 0); n <= p.height; n++ {
		st, closer, err := r.inc.bc.StateAtBlockNumber(uint64(n))
		if err != nil {
			r.add("node:retained:state-at-number:"+errClass(err), fmt.Sprintf("StateAtBlockNumber(%d) with floor %d, head %d: %v", n, mem, p.height, err))
			continue
		}
		if tst, tcl, terr := r.twin.BC.StateAtBlockNumber(uint64(n)); terr == nil {
			r.cmpState("retained:state-at-number", uint64(n), st, tst)
			_ = tcl()
		}
		_ = closer()
	}
}

func (r *run) cmpRead(zone, fam string, n uint64, retained bool, got any, gerr error, want any) {
	if gerr == nil {
		if !reflect.DeepEqual(got, want) {
			r.add("node:"+zone+":"+fam+":wrong-data", fmt.Sprintf("block %d: %s answers with different data than the unpruned twin", n, fam))
		}
		return
	}
	cls := errClass(gerr)
	if retained {
		r.add("node:"+zone+":"+fam+":"+cls, fmt.Sprintf("block %d: %s fails with %v on a retained block", n, fam, gerr))
		return
	}
	if cls != "notfound" && cls != "pruned" {
		r.add("node:"+zone+":"+fam+":error", fmt.Sprintf("block %d: %s fails with %v (neither pruned nor not found)", n, fam, gerr))
	}
}

func (r *run) sweepBlock(n uint64, retained bool) {
	zone := "below-floor"
	if retained {
		zone = "retained"
	}
	bc, tw := r.inc.bc, r.twin.BC
	th, terr := tw.BlockHeaderByNumber(n)
	if terr != nil {
		return
	}
	tb, _ := tw.BlockByNumber(n)
	tsu, _ := tw.StateUpdateByNumber(n)
	tc, _ := tw.BlockCommitmentsByNumber(n)
	a1, e1 := bc.BlockHeaderByNumber(n)
	cmp := func(fam string, got any, gerr error, want any) { r.cmpRead(zone, fam, n, retained, got, gerr, want) }
	cmp("header", a1, e1, th)
	a4, e4 := bc.BlockByNumber(n)
	cmp("block", a4, e4, tb)
	a6, e6 := bc.StateUpdateByNumber(n)
	cmp("state-update", a6, e6, tsu)
	a8, e8 := bc.BlockCommitmentsByNumber(n)
	cmp("commitments", a8, e8, tc)
	if retained {
		a2, e2 := bc.BlockHeaderByHash(th.Hash)
		cmp("header-by-hash", a2, e2, th)
		a5, e5 := bc.BlockByHash(th.Hash)
		cmp("block-by-hash", a5, e5, tb)
		a7, e7 := bc.StateUpdateByHash(th.Hash)
		cmp("state-update-by-hash", a7, e7, tsu)
	}
	for i, tx := range tb.Transactions {
		b1, f1 := bc.TransactionByHash(tx.Hash())
		cmp("tx-by-hash", b1, f1, tx)
		b3, f3 := bc.TransactionByBlockNumberAndIndex(n, uint64(i))
		cmp("tx-by-index", b3, f3, tx)
		rc, bh, rn, f4 := bc.Receipt(tx.Hash())
		type rcpt struct {
			R *core.TransactionReceipt
			H felt.Felt
			N uint64
		}
		var got rcpt
		if f4 == nil {
			got = rcpt{rc, *bh, rn}
		}
		cmp("receipt", got, f4, rcpt{tb.Receipts[i], *th.Hash, n})
	}
	if retained {
		if st, closer, err := bc.StateAtBlockHash(th.Hash); err != nil {
			r.add("node:retained:state-by-hash:"+errClass(err), fmt.Sprintf("state at the hash of block %d: %v", n, err))
		} else {
			if tst, tcl, terr := tw.StateAtBlockNumber(n); terr == nil {
				r.cmpState("retained:state-by-hash", n, st, tst)
				_ = tcl()
			}
			_ = closer()
		}
	}
}

func (r *run) cmpState(sym string, n uint64, a, b core.StateReader) {
	chk := func(what string, va, vb felt.Felt, ea, eb error) {
		if (ea == nil) != (eb == nil) {
			r.add("node:"+sym+":error", fmt.Sprintf("state at %d, %s: node err %v, twin err %v", n, what, ea, eb))
		} else if !va.Equal(&vb) {
			r.add("node:"+sym+":wrong-value", fmt.Sprintf("state at %d, %s: node answers %s, the unpruned twin %s", n, what, va.String(), vb.String()))
		}
	}
	for _, ad := range addrs {
		addr := chainkit.F(ad)
		for _, sl := range slots {
			va, ea := a.ContractStorage(addr, chainkit.F(sl))
			vb, eb := b.ContractStorage(addr, chainkit.F(sl))
			chk(fmt.Sprintf("storage %x/%d", ad, sl), va, vb, ea, eb)
		}
		na, ea := a.ContractNonce(addr)
		nb, eb := b.ContractNonce(addr)
		chk(fmt.Sprintf("nonce %x", ad), na, nb, ea, eb)
	}
}

// view calls Synchronizer.PreConfirmedChain (NOT inside the critical section: it is a concurrent
// reader) and checks P4: the view handed out sits on head+1 for a head the node had during the call.
func (r *run) view() {
	r.mu.Lock()
	if r.closed {
		r.mu.Unlock()
		return
	}
	r.recorded = append(r.recorded, Decision{Op: "view"})
	s := r.inc.sync
	h0 := r.proj.height
	start := r.log(vh.J{"ev": "ViewStart"})
	r.mu.Unlock()
	chain, err := s.PreConfirmedChain()
	r.mu.Lock()
	defer r.mu.Unlock()
	if r.closed {
		return
	}
	r.views++
	heads := map[int]bool{h0: true}
	for _, x := range r.heads {
		if x.seq > start {
			heads[x.height] = true
		}
	}
	if err != nil {
		r.log(vh.J{"ev": "ViewEnd", "ok": false, "base": -1, "len": 0, "err": err.Error()})
		if !heads[-1] && !r.parked && !(r.proj.below > r.proj.height) {
			r.add("node:preconfirmed-view-error", fmt.Sprintf("PreConfirmedChain failed on a non-empty chain: %v", err))
		}
		return
	}
	base, n, contiguous := -1, 0, true
	for pc := range chain.OldestFirst() {
		if n == 0 {
			base = int(pc.Block.Number)
		} else if int(pc.Block.Number) != base+n {
			contiguous = false
		}
		n++
	}
	r.log(vh.J{"ev": "ViewEnd", "ok": true, "base": base, "len": n})
	if n == 0 || !contiguous || !heads[base-1] {
		var hs []int
		for h := range heads {
			hs = append(hs, h)
		}
		r.add("node:preconfirmed-base-not-head", fmt.Sprintf(
			"PreConfirmedChain handed out %d blocks starting at %d (contiguous=%v); heads during the call: %v", n, base, contiguous, hs))
	}
}

// monitorEnd judges the end of the run: convergence (P5a), final floor (P5, positive half), and the
// agreement of the database with the reported stores and reverts.
func (r *run) monitorEnd(converged bool, epi vh.J) {
	r.mu.Lock()
	defer r.mu.Unlock()
	final := r.finalChain()
	if !equalInts(final, r.shadow) {
		r.add("node:chain-differs-from-reported-stores", fmt.Sprintf("database holds %v, stores/reverts reported %v", final, r.shadow))
	}
	switch {
	case r.parked:
		r.add("node:no-convergence:revert-below-retention-floor", fmt.Sprintf(
			"sync must revert block %d (b%d), whose rows the pruner has deleted (oldest retained %d): RevertHead fails and "+
				"sync.revertTask repeats it for ever (no context check); source %v, node %v", r.proj.height, r.proj.headTag, r.proj.below, r.cur(), r.shadow))
	case !converged && r.broken == "":
		detail := "other"
		switch {
		case r.failedReverts > 0:
			detail = "revert-fails"
		case r.proj.height >= 0 && r.proj.below > r.proj.height && !hasTag(r.cur(), r.proj.headTag):
			detail = "head-below-retention-floor" // the head must be reverted but its rows are deleted
		}
		add := ""
		if r.note != "" {
			add = " (" + r.note + ")"
		}
		r.add("node:no-convergence:"+detail, fmt.Sprintf("source stable at %v and answering honestly, node stays at %v%s", r.cur(), r.shadow, add))
	}
	if done, _ := epi["done"].(bool); done {
		want, got := epi["want"].(int), epi["got"].(int)
		if want != got {
			r.add("node:final-floor-not-reached", fmt.Sprintf(
				"after convergence an L1 head below the local head was delivered to an idle pruner: oldest retained block %d, expected %d", got, want))
		}
	}
}

func keyClass(key string) string {
	switch {
	case strings.HasPrefix(key, "node:floor-above-retention-bound:durable"):
		return "P1d"
	case strings.HasPrefix(key, "node:floor-above-retention-bound:memory"):
		return "P1m"
	case key == "node:head-block-pruned":
		return "P2h"
	case key == "node:head-state-below-floor":
		return "P4b"
	case key == "node:state-served-below-pruned-history":
		return "P3s"
	case strings.HasPrefix(key, "node:no-convergence:revert-below-retention-floor"):
		return "Stuck"
	case strings.HasPrefix(key, "node:no-convergence:"):
		return "Converges"
	case key == "node:final-floor-not-reached":
		return "FinalFloor"
	case strings.HasPrefix(key, "sync:revert-of-block-source-still-has"):
		return "Unjustified"
	}
	return "other"
}

// Package nodeengine is the G02 recorder (specification growth: the composed node).  It wires the
// REAL components the way node/node.go does — one blockchain.Blockchain with a shared
// pruner.RetentionFloor, the real sync.Synchronizer (with its pre-confirmed poller), the real
// pruner.Pruner service subscribed to the synchronizer's new-heads feed and the blockchain's L1-head
// feed — around ONE store, drives them with a gated scripted environment (source, L1 client,
// scheduler of the pruner's reads and batch writes) and records one event per abstract action of
// spec/node/Node.tla in a global atomic sequence (see NodeTrace.tla).
//
// world_test.go: the source's chain versions with real blocks (built once on twin nodes; the
// approach of harness/engines/sync, copied because _test files cannot be imported).
package nodeengine

import (
	"fmt"

	"github.com/NethermindEth/juno/core"
	"github.com/NethermindEth/juno/core/felt"
	_ "github.com/NethermindEth/juno/encoder/registry"
	jsync "github.com/NethermindEth/juno/sync"

	"verifharness/internal/chainkit"
)

// A block of the source.  Tags are handed out consecutively; a tag determines the height and the
// whole ancestry (exactly as blk[tag] in the specification).
type block struct {
	tag    int
	height uint64
	parent int // tag of the parent, 0 for the genesis block
	built  *chainkit.Built
}

// SrcStep replaces the last Drop blocks of the current chain by Add fresh ones (Drop = 0: extend).
type SrcStep struct {
	Drop int `json:"drop"`
	Add  int `json:"add"`
}

type world struct {
	newState bool
	gen      *chainkit.Gen
	blocks   map[int]*block
	byHash   map[felt.Felt]int
	versions [][]int // versions[0] is version 1
	nextTag  int
	planned  int // versions[0..planned) are the initial chain and the plan; versions[planned] is the epilogue
	tip      *chainkit.Node // twin node holding the last version (build aid only)
}

var (
	txKinds   = []string{"invoke3", "invoke1", "l1handler", "declare3", "deployaccount3", "invoke0"}
	protoVers = []string{"0.13.2", "0.13.4", "0.14.0", "0.14.1"}
	addrs     = []uint64{0x100, 0x101, 0x102}
	slots     = []uint64{1, 2, 3, 4}
)

func newWorld(seed int64, newState bool, initLen int, plan []SrcStep) (*world, error) {
	w := &world{
		newState: newState, gen: chainkit.NewGen(seed), blocks: map[int]*block{},
		byHash: map[felt.Felt]int{}, nextTag: 1,
	}
	w.tip = chainkit.NewNode(nil, newState)
	var chain []int
	for i := 0; i < initLen; i++ {
		b, err := w.appendBlock(w.tip)
		if err != nil {
			return nil, err
		}
		chain = append(chain, b.tag)
	}
	w.versions = append(w.versions, chain)
	for _, st := range plan {
		cur := w.versions[len(w.versions)-1]
		if st.Drop >= len(cur) || st.Add < 1 {
			return nil, fmt.Errorf("bad source step %+v on chain of %d (the genesis block stays)", st, len(cur))
		}
		next := append([]int{}, cur[:len(cur)-st.Drop]...)
		if st.Drop > 0 {
			n := chainkit.NewNode(nil, newState)
			for _, t := range next {
				if err := n.StoreBuilt(w.blocks[t].built); err != nil {
					return nil, fmt.Errorf("twin replay of block %d: %w", t, err)
				}
			}
			w.tip = n
		}
		for i := 0; i < st.Add; i++ {
			b, err := w.appendBlock(w.tip)
			if err != nil {
				return nil, err
			}
			next = append(next, b.tag)
		}
		w.versions = append(w.versions, next)
	}
	// the epilogue version (not part of the plan): the last chain grown by two blocks
	w.planned = len(w.versions)
	epi := append([]int{}, w.versions[len(w.versions)-1]...)
	for i := 0; i < 2; i++ {
		b, err := w.appendBlock(w.tip)
		if err != nil {
			return nil, err
		}
		epi = append(epi, b.tag)
	}
	w.versions = append(w.versions, epi)
	return w, nil
}

func (w *world) appendBlock(n *chainkit.Node) (*block, error) {
	tag := w.nextTag
	w.nextTag++
	var (
		height uint64
		parent int
	)
	if head, err := n.BC.HeadsHeader(); err == nil {
		height = head.Number + 1
		parent = w.byHash[*head.Hash]
	}
	d := chainkit.EmptyDiff()
	classes := map[felt.Felt]core.ClassDefinition{}
	if height == 0 {
		ch, cls := w.gen.Cairo0Class()
		d.DeclaredV0Classes = append(d.DeclaredV0Classes, &ch)
		classes[ch] = cls
		for _, a := range addrs {
			d.DeployedContracts[*chainkit.F(a)] = &ch
		}
	}
	addr := *chainkit.F(addrs[tag%len(addrs)])
	// never a zero value (the legacy backend's no-op zero write is C04's business)
	d.StorageDiffs[addr] = map[felt.Felt]*felt.Felt{
		*chainkit.F(slots[tag%len(slots)]):     chainkit.F(uint64(1000 + tag)),
		*chainkit.F(slots[(tag+1)%len(slots)]): chainkit.F(uint64(5000 + tag)),
	}
	d.Nonces[addr] = chainkit.F(uint64(tag))
	tx := w.gen.Tx(txKinds[tag%len(txKinds)])
	rc := w.gen.Receipt(tx, []*core.Event{{From: w.gen.Felt(), Keys: w.gen.Felts(1), Data: w.gen.Felts(1)}})
	built, err := n.Append(chainkit.BlockSpec{
		Version: protoVers[tag%len(protoVers)], Diff: d, Classes: classes,
		Txs: []core.Transaction{tx}, Receipts: []*core.TransactionReceipt{rc}, Timestamp: uint64(1000 + tag),
	})
	if err != nil {
		return nil, fmt.Errorf("build block tag %d height %d: %w", tag, height, err)
	}
	b := &block{tag: tag, height: height, parent: parent, built: built}
	w.blocks[tag] = b
	w.byHash[*built.Block.Hash] = tag
	return b, nil
}

func (w *world) chain(ver int) []int { return w.versions[ver-1] }

func hasTag(c []int, tag int) bool {
	for _, t := range c {
		if t == tag {
			return true
		}
	}
	return false
}

// committed builds the answer object for one request: fresh Block / Header / StateUpdate structs
// over shared immutable parts.
func (w *world) committed(tag int) jsync.CommittedBlock {
	b := w.blocks[tag].built
	hc := *b.Block.Header
	blk := &core.Block{Header: &hc, Transactions: b.Block.Transactions, Receipts: b.Block.Receipts}
	su := *b.Update
	return jsync.CommittedBlock{Block: blk, StateUpdate: &su, NewClasses: b.Classes, Persisted: make(chan error, 1)}
}

func (w *world) header(tag int) *core.Header {
	h := *w.blocks[tag].built.Block.Header
	return &h
}

// meta lists [height, parent] per tag for the trace's Reset event (blk of the specification).
func (w *world) meta() [][]int {
	out := make([][]int, 0, w.nextTag-1)
	for t := 1; t < w.nextTag; t++ {
		b := w.blocks[t]
		out = append(out, []int{int(b.height), b.parent})
	}
	return out
}

package nodeengine

// lin_test.go: the linearising store.  Every durable mutation of the node's ONE database — whoever
// makes it (Blockchain.Store / RevertHead / SetL1Head, the pruner's batches) — is applied inside
// the run's global mutex, and the recorder derives the abstract event from the change of the
// durable projection (height, head block, oldest retained block, L1 head) inside the same critical
// section: the event sequence is the linearisation order of the real commits, not a reconstruction
// from listener callbacks.  The pruner gets a GATED view of the same store: the first read of each
// handler invocation and every batch write wait for the scheduler.

import (
	"errors"
	"fmt"
	"runtime"
	"strings"

	"github.com/NethermindEth/juno/core"
	"github.com/NethermindEth/juno/db"
	"github.com/NethermindEth/juno/pruner"

	"verifharness/internal/vh"
)

var (
	errStopped     = errors.New("node engine: the incarnation was stopped")
	chainHeightKey = db.ChainHeight.Key()
	l1HeightKey    = db.L1Height.Key()
)

type linStore struct {
	db.KeyValueStore // the inner store: reads and everything not overridden
	r     *run
	gated bool
}

type linBatch struct {
	db.IndexedBatch
	s *linStore
}

func (s *linStore) mutate(apply func() error) error {
	if s.gated {
		if err := s.r.gateWait("batch", ""); err != nil {
			return err
		}
	}
	s.r.mu.Lock()
	defer s.r.mu.Unlock()
	err := apply()
	if err == nil {
		s.r.observe()
	}
	return err
}

func (s *linStore) Put(k, v []byte) error {
	return s.mutate(func() error { return s.KeyValueStore.Put(k, v) })
}

func (s *linStore) Delete(k []byte) error {
	return s.mutate(func() error { return s.KeyValueStore.Delete(k) })
}

func (s *linStore) DeleteRange(a, b []byte) error {
	return s.mutate(func() error { return s.KeyValueStore.DeleteRange(a, b) })
}

func (b *linBatch) Write() error {
	return b.s.mutate(func() error { return b.IndexedBatch.Write() })
}

func (s *linStore) NewBatch() db.Batch { return &linBatch{s.KeyValueStore.NewIndexedBatch(), s} }
func (s *linStore) NewBatchWithSize(n int) db.Batch {
	return &linBatch{s.KeyValueStore.NewIndexedBatchWithSize(n), s}
}
func (s *linStore) NewIndexedBatch() db.IndexedBatch {
	return &linBatch{s.KeyValueStore.NewIndexedBatch(), s}
}
func (s *linStore) NewIndexedBatchWithSize(n int) db.IndexedBatch {
	return &linBatch{s.KeyValueStore.NewIndexedBatchWithSize(n), s}
}

func (s *linStore) Update(fn func(db.IndexedBatch) error) error {
	b := s.NewIndexedBatch()
	if err := fn(b); err != nil {
		_ = b.Close()
		return err
	}
	return b.Write()
}

func (s *linStore) Write(fn func(db.Batch) error) error {
	b := s.NewBatch()
	if err := fn(b); err != nil {
		_ = b.Close()
		return err
	}
	return b.Write()
}

func (s *linStore) WithListener(db.EventListener) db.KeyValueStore { return s }

// handlerOnStack identifies the pruner handler the calling goroutine is in.
func handlerOnStack() string {
	pcs := make([]uintptr, 40)
	n := runtime.Callers(3, pcs)
	frames := runtime.CallersFrames(pcs[:n])
	for {
		f, more := frames.Next()
		switch {
		case strings.HasSuffix(f.Function, "pruner.(*Pruner).onNewBlock"):
			return "head"
		case strings.HasSuffix(f.Function, "pruner.(*Pruner).onNewL1Head"):
			return "l1"
		}
		if !more {
			return ""
		}
	}
}

// Get on the gated view: onNewBlock's first read is the L1 head, onNewL1Head's the chain height.
// The invocation waits for the scheduler; the read and its PruneRead event are one atomic step.
func (s *linStore) Get(k []byte, cb func([]byte) error) error {
	if s.gated && (string(k) == string(chainHeightKey) || string(k) == string(l1HeightKey)) {
		if h := handlerOnStack(); h != "" && ((h == "head") == (string(k) == string(l1HeightKey))) {
			if err := s.r.gateWait("read", h); err != nil {
				return err
			}
			s.r.mu.Lock()
			defer s.r.mu.Unlock()
			val := -1
			if h == "head" {
				if l1, err := core.GetL1Head(s.KeyValueStore); err == nil {
					val = int(l1.BlockNumber)
				}
			} else if ht, err := core.GetChainHeight(s.KeyValueStore); err == nil {
				val = int(ht)
			}
			s.r.log(vh.J{"ev": "PruneRead", "handler": h, "val": val})
			return s.KeyValueStore.Get(k, cb)
		}
	}
	return s.KeyValueStore.Get(k, cb)
}

// proj is the durable projection the abstract events are derived from.
type proj struct {
	height  int // -1: empty chain
	headTag int // -1: unknown block
	below   int // everything below this number has been deleted (oldest retained block; height+1 if no body row is left)
	l1n     int // -1: none
	l1tag   int
}

func (r *run) project() proj {
	st := r.inner
	p := proj{height: -1, l1n: -1}
	if h, err := core.GetChainHeight(st); err == nil {
		p.height = int(h)
		p.headTag = -1
		if hh, err := core.GetBlockHeaderHashByNumber(st, h); err == nil {
			if t, ok := r.w.byHash[*hh]; ok {
				p.headTag = t
			}
		}
	}
	if o, err := pruner.OldestRetainedBlock(st); err == nil {
		p.below = int(o)
	} else {
		p.below = p.height + 1
	}
	if l1, err := core.GetL1Head(st); err == nil {
		p.l1n = int(l1.BlockNumber)
		p.l1tag = -1
		if l1.BlockHash != nil {
			if t, ok := r.w.byHash[*l1.BlockHash]; ok {
				p.l1tag = t
			}
		}
	}
	return p
}

// observe runs inside the critical section of a successful durable mutation (mu held).
func (r *run) observe() {
	old, cur := r.proj, r.project()
	r.proj = cur
	if r.closed {
		if old != cur {
			r.lateWrite++
		}
		return
	}
	switch {
	case cur.height == old.height+1:
		r.lastWrite = r.log(vh.J{"ev": "Stored", "h": cur.height, "tag": cur.headTag})
		r.shadow = append(r.shadow, cur.headTag)
		r.heads = append(r.heads, headAt{r.seq, cur.height})
		if b, ok := r.w.blocks[cur.headTag]; ok {
			if err := r.twin.StoreBuilt(b.built); err != nil {
				r.anomaly("twin store of b%d: %v", cur.headTag, err)
			}
		} else {
			r.anomaly("stored block at height %d is not a block of the source", cur.height)
		}
	case cur.height == old.height-1:
		r.lastWrite = r.log(vh.J{"ev": "Reverted", "h": old.height, "tag": old.headTag})
		if n := len(r.shadow); n > 0 {
			r.shadow = r.shadow[:n-1]
		}
		r.heads = append(r.heads, headAt{r.seq, cur.height})
		r.failedReverts = 0
		if old.below > 0 {
			r.revertAfterPrune = true
		}
		for _, a := range r.prGates {
			if a.kind == "batch" {
				r.revertDuringPrune = true
			}
		}
		if hasTag(r.cur(), old.headTag) {
			// a revert of a block the source's current chain still has: C06's business (known findings
			// sync:revert-of-block-source-still-has:*); recognised here so that it keeps its own key
			cause := "other"
			for _, d := range r.deliv {
				if int(d.h) == old.height+1 && !hasTag(r.cur(), d.tag) {
					cause = "stale-successor"
				}
			}
			r.add("sync:revert-of-block-source-still-has:"+cause, fmt.Sprintf(
				"reverted b%d (height %d) although the source's current chain %v still has it", old.headTag, old.height, r.cur()))
		}
		if err := r.twin.BC.RevertHead(); err != nil {
			r.anomaly("twin revert: %v", err)
		}
	case cur.height != old.height:
		r.anomaly("chain height jumped from %d to %d in one commit", old.height, cur.height)
	case cur.headTag != old.headTag:
		r.anomaly("head block changed at the same height %d in one commit", cur.height)
	}
	if cur.below != old.below && cur.height == old.height {
		if cur.below > old.below {
			r.log(vh.J{"ev": "Pruned", "from": old.below, "to": cur.below})
			r.nPruned++
		} else {
			r.anomaly("oldest retained block moved down from %d to %d", old.below, cur.below)
		}
	}
	if cur.l1n != old.l1n || cur.l1tag != old.l1tag {
		r.log(vh.J{"ev": "SetL1", "n": cur.l1n, "tag": cur.l1tag})
	}
}

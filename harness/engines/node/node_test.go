package nodeengine

import (
	"bufio"
	"encoding/json"
	"fmt"
	"math/rand"
	"os"
	"runtime"
	"testing"

	"verifharness/internal/vh"
)

type input struct {
	GoMaxProcs int        `json:"gomaxprocs"`
	Scenarios  []Scenario `json:"scenarios"`
	Random     struct {
		N    int   `json:"n"`
		Seed int64 `json:"seed"`
	} `json:"random"`
	TraceOut string `json:"trace_out"`
}

func randomScenario(seed int64) Scenario {
	rng := rand.New(rand.NewSource(seed))
	sc := Scenario{
		Name: fmt.Sprintf("random-%d", seed), Seed: seed, Mode: "random", NewState: rng.Intn(4) == 0,
		InitLen: 4 + rng.Intn(6), Retained: rng.Intn(3), L2PerPrune: 1 + rng.Intn(2), BigBatch: rng.Intn(3) == 0,
		Steps: 40 + rng.Intn(110), Restarts: rng.Intn(2),
	}
	n := sc.InitLen
	for k := 1 + rng.Intn(3); k > 0; k-- {
		var st SrcStep
		if rng.Intn(100) < 35 {
			st = SrcStep{Drop: 0, Add: 1 + rng.Intn(3)}
		} else {
			depth := n - 1 // any depth; the genesis block stays
			if rng.Intn(10) < 7 && depth > 4 {
				depth = 4 // mostly shallow, so that L1 (which stays below every later fork point) can move up first
			}
			st = SrcStep{Drop: 1 + rng.Intn(depth), Add: 1 + rng.Intn(4)}
		}
		if n-st.Drop+st.Add > 12 {
			st.Add = 1
		}
		n = n - st.Drop + st.Add
		sc.Plan = append(sc.Plan, st)
	}
	return sc
}

// replayScenario turns what a run actually did into a script.
func replayScenario(r *run) Scenario {
	sc := *r.sc
	if sc.Mode == "script" {
		return sc
	}
	sc.Mode, sc.Decisions = "script", r.recorded
	return sc
}

func tail(evs []vh.J, upto, n int) []vh.J {
	lo := upto - n
	if lo < 0 {
		lo = 0
	}
	if upto >= len(evs) {
		upto = len(evs) - 1
	}
	return evs[lo : upto+1]
}

// TestNodeRecord runs the scenarios of the input, evaluates the monitors on every recorded run and
// writes the concatenated traces (one ndjson event per line) for TLC.
func TestNodeRecord(t *testing.T) {
	if !vh.Enabled() {
		t.Skip()
	}
	var in input
	if err := vh.Input(&in); err != nil {
		t.Fatal(err)
	}
	out := vh.NewResult()
	defer out.Write()
	if in.GoMaxProcs > 0 {
		defer runtime.GOMAXPROCS(runtime.GOMAXPROCS(in.GoMaxProcs))
	}
	scs := append([]Scenario{}, in.Scenarios...)
	for i := 0; i < in.Random.N; i++ {
		scs = append(scs, randomScenario(in.Random.Seed*100003+int64(i)))
	}
	var tw *bufio.Writer
	if in.TraceOut != "" {
		f, err := os.Create(in.TraceOut)
		if err != nil {
			t.Fatal(err)
		}
		defer f.Close()
		tw = bufio.NewWriter(f)
		defer tw.Flush()
	}
	var (
		traces  []vh.J
		line    = 0
		tr      = 0
		nEvents = 0
	)
	for i := range scs {
		sc := &scs[i]
		r, err := execute(sc, tr+1)
		if err != nil || r.broken != "" {
			msg := ""
			if err != nil {
				msg = err.Error()
			} else {
				msg = r.broken
			}
			out.Stats["broken"] = fmt.Sprintf("scenario %s: %s", sc.Name, msg)
			t.Fatalf("scenario %s: %s", sc.Name, msg)
		}
		if r.lateWrite > 0 { // the node was not quiescent when the run was closed: inconclusive
			out.Count("runs_discarded_unsettled", 1)
			continue
		}
		tr++
		keys := []string{}
		for _, f := range r.findings {
			keys = append(keys, f.key)
			out.Diverge(vh.Divergence{
				Key: f.key, What: f.what + " [scenario " + sc.Name + "]",
				Input: vh.J{"gomaxprocs": in.GoMaxProcs, "scenarios": []Scenario{replayScenario(r)}},
				Step:  f.step, Observed: tail(r.events, f.step, 16),
			})
		}
		first := line + 1
		counts := map[string]int{}
		for _, ev := range r.events {
			name := ev["ev"].(string)
			counts[name]++
			line++
			if tw != nil {
				b, _ := json.Marshal(ev)
				tw.Write(b)
				tw.WriteByte('\n')
			}
		}
		nEvents += len(r.events)
		for k, v := range counts {
			out.Count("ev_"+k, v)
		}
		if counts["Reverted"] > 0 {
			out.Count("runs_with_reverts", 1)
		}
		if counts["Pruned"] > 0 {
			out.Count("runs_with_pruning", 1)
		}
		if r.revertAfterPrune {
			out.Count("runs_with_revert_after_prune", 1)
		}
		if r.revertDuringPrune {
			out.Count("runs_with_revert_while_prune_in_flight", 1)
		}
		if counts["Restart"] > 0 {
			out.Count("runs_with_restart", 1)
		}
		traces = append(traces, vh.J{
			"tr": tr, "name": sc.Name, "first": first, "last": line, "keys": keys, "note": r.note, "unsafe": sc.Unsafe,
			"events": len(r.events), "replay": vh.J{"gomaxprocs": in.GoMaxProcs, "scenarios": []Scenario{replayScenario(r)}},
		})
		if len(r.findings) == 0 && counts["Reverted"] > 0 && counts["Pruned"] > 0 {
			out.Sample(vh.J{"scenario": sc.Name, "events": compact(r.events, 70)})
		}
	}
	out.Stats["traces"] = traces
	out.Done(tr, nEvents)
}

// compact renders events tersely for the evidence file.
func compact(evs []vh.J, max int) []string {
	var s []string
	for _, e := range evs {
		if len(s) >= max {
			s = append(s, "...")
			break
		}
		switch e["ev"] {
		case "Reset", "Src":
			s = append(s, fmt.Sprintf("%v%v", e["ev"], e["chain"]))
		case "Stored", "Reverted":
			s = append(s, fmt.Sprintf("%v(b%v@%v)", e["ev"], e["tag"], e["h"]))
		case "L1Call":
			s = append(s, fmt.Sprintf("L1Call(%v)", e["n"]))
		case "SetL1":
			s = append(s, fmt.Sprintf("SetL1(%v)", e["n"]))
		case "PruneRead":
			s = append(s, fmt.Sprintf("PruneRead(%v:%v)", e["handler"], e["val"]))
		case "Pruned":
			s = append(s, fmt.Sprintf("Pruned(%v->%v)", e["from"], e["to"]))
		case "PruneDone":
			s = append(s, fmt.Sprintf("PruneDone(%v)", e["kept"]))
		case "Sample":
			s = append(s, fmt.Sprintf("Sample(head %v, below %v, l1 %v, mem %v)", e["head"], e["below"], e["l1"], e["mem"]))
		case "ViewEnd":
			s = append(s, fmt.Sprintf("View(base %v)", e["base"]))
		case "End":
			s = append(s, fmt.Sprintf("End(conv=%v %v below %v)", e["conv"], e["final"], e["below"]))
		default:
			s = append(s, fmt.Sprintf("%v", e["ev"]))
		}
	}
	return s
}

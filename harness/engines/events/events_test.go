// Engine "events" (property C09): replays Events.tla behaviours (Store / RevertHead / paged event
// query / graceful or ungraceful restart) on a REAL blockchain.Blockchain with the real window size
// (core.NumBlocksPerFilter = 8192). Model block numbers are absolute: the behaviours are generated
// with Base = 8188 (or 16380), i.e. on top of a base image of that many empty blocks that is built
// once per run through the real store path and deep-copied per behaviour.
//
// After every step the engine compares
//   - the call's result with the model's (Store/Revert ok|err, every page and continuation token),
//   - the on-disk index structures with the model's (chain height, which aggregated windows are
//     persisted and which blocks each of them flags per atom, the shutdown snapshot),
// and, independently of the model, every query's concatenated pages with an ORACLE: a naive scan of
// the receipts the harness itself stored (block, tx index, event index, event content, tx hash,
// block hash).
package events

import (
	"context"
	"encoding/binary"
	"encoding/json"
	"errors"
	"fmt"
	"math/rand"
	"reflect"
	"sort"
	"strings"
	"sync"
	"sync/atomic"
	"testing"
	"time"

	"github.com/NethermindEth/juno/blockchain"
	"github.com/NethermindEth/juno/core"
	"github.com/NethermindEth/juno/core/felt"
	"github.com/NethermindEth/juno/db"
	"github.com/NethermindEth/juno/db/memory"
	_ "github.com/NethermindEth/juno/encoder/registry"
	"github.com/NethermindEth/juno/pruner"

	"verifharness/internal/chainkit"
	"verifharness/internal/vh"
)

// ------------------------------------------------------------------ wire format (ToJson of the spec)

type mEvent struct {
	A string   `json:"a"`
	K []string `json:"k"`
}

type mFilter struct {
	Addrs []string   `json:"addrs"`
	Keys  [][]string `json:"keys"`
}

type mAct struct {
	Name     string     `json:"name"`
	Blk      [][]mEvent `json:"blk,omitempty"`
	F        *mFilter   `json:"f,omitempty"`
	From     int64      `json:"from"`
	To       int64      `json:"to"`
	Chunk    uint64     `json:"chunk,omitempty"`
	Limit    uint       `json:"limit"`
	Graceful bool       `json:"graceful"`
}

type mRef struct {
	B int64 `json:"b"`
	T int   `json:"t"`
	I int   `json:"i"`
}

type mTok struct {
	B int64  `json:"b"`
	P uint64 `json:"p"`
}

type mRes struct {
	Kind  string   `json:"kind"`
	Pages [][]mRef `json:"pages,omitempty"`
	Toks  []mTok   `json:"toks,omitempty"`
	Naive []mRef   `json:"naive,omitempty"`
	Exact bool     `json:"exact,omitempty"`
	Why   string   `json:"why,omitempty"`
	How   string   `json:"how,omitempty"`
}

// a bit of a window filter: [block, [kind, pos, name]]
type mBit = []any

type mWin struct {
	W    int64  `json:"w"`
	Bits []mBit `json:"bits"`
}

type mSnap struct {
	Ok   bool   `json:"ok"`
	From int64  `json:"from"`
	Next int64  `json:"next"`
	Bits []mBit `json:"bits"`
}

type mState struct {
	Height    int64  `json:"height"`
	Persisted []mWin `json:"persisted"`
	Snap      mSnap  `json:"snap"`
}

type step struct {
	A   mAct   `json:"a"`
	Res mRes   `json:"res"`
	St  mState `json:"st"`
}

type meta struct {
	// bit 0 (1): new state backend, bit 1 (2): pruner initializer, bit 2 (4): Finalise (sequencer) store path,
	// bit 3 (8): poisoning store (every value lent to a Get callback is a copy that is scribbled over
	// afterwards), bit 4 (16): pruned node (blocks below a floor > 0 pruned with pruner.PruneUpto, pruner
	// initializer + seeded RetentionFloor; judged by the oracle only, query starts clamped to the floor)
	Variant int   `json:"variant"`
	Seed    int64 `json:"seed"`
}

type input struct {
	W          uint64   `json:"w"`
	Base       uint64   `json:"base"`
	Behaviours [][]step `json:"behaviours"`
	Meta       []meta   `json:"meta,omitempty"`
	Variants   []int    `json:"variants,omitempty"` // variants to cycle through (default 0..7 thorough, {0,3,5,6} quick)
	Mode       string   `json:"mode,omitempty"`     // "" | "calibrate" | "oracle" (replay of a predicted defect: property only)
	Workers    int      `json:"workers,omitempty"`
}

// ------------------------------------------------------------------ known defect keys

const (
	keyStaleCache    = "event-index:stale-cache-after-reorg-across-window"
	keyStaleSnapshot = "event-index:stale-snapshot-after-reorg-then-crash"
	keyStoreRejected = "event-index:store-rejected-after-reorg-across-window-then-crash"
	keyStalePersist  = "event-index:stale-persisted-window-after-reorg-across-window-then-crash"
)

// ------------------------------------------------------------------ concretisation

type atoms struct {
	addr map[string]*felt.Felt
	key  map[string]*felt.Felt
}

func newAtoms(seed int64) *atoms {
	g := chainkit.NewGen(seed*7919 + 13)
	a := &atoms{addr: map[string]*felt.Felt{}, key: map[string]*felt.Felt{}}
	for _, n := range []string{"a1", "a2", "a3"} {
		a.addr[n] = g.Felt()
	}
	for _, n := range []string{"k1", "k2", "k3"} {
		a.key[n] = g.Felt()
	}
	return a
}

func (a *atoms) atomBytes(kind string, pos int, name string) []byte {
	if kind == "a" {
		b := a.addr[name].Bytes()
		return append([]byte(nil), b[:]...)
	}
	b := a.key[name].Bytes()
	return binary.AppendVarint(b[:], int64(pos))
}

type atomID struct {
	kind string
	pos  int
	name string
}

func (a *atoms) universe() []atomID {
	var out []atomID
	for _, n := range []string{"a1", "a2"} {
		out = append(out, atomID{"a", 0, n})
	}
	for _, n := range []string{"k1", "k2"} {
		for p := 0; p < 2; p++ {
			out = append(out, atomID{"k", p, n})
		}
	}
	return out
}

// ------------------------------------------------------------------ base images

type imageKey struct {
	base     uint64
	newState bool
}

type image struct {
	store *memory.Database
	took  time.Duration
}

var (
	imgMu  sync.Mutex
	images = map[imageKey]*image{}
)

// baseImage stores `base` empty blocks through the real Blockchain (Simulate + SanityCheckNewHeight
// + Store) on the memory database, once per run.
func baseImage(base uint64, newState bool) (*image, error) {
	imgMu.Lock()
	defer imgMu.Unlock()
	k := imageKey{base, newState}
	if im, ok := images[k]; ok {
		return im, nil
	}
	t := time.Now()
	store := memory.New()
	n := chainkit.NewNode(store, newState)
	for i := uint64(0); i < base; i++ {
		b, err := n.Build(chainkit.BlockSpec{Timestamp: 1000 + i})
		if err != nil {
			return nil, fmt.Errorf("base image block %d: %w", i, err)
		}
		if err := n.BC.Store(b.Block, b.Commitments, b.Update, b.Classes); err != nil {
			return nil, fmt.Errorf("base image store %d: %w", i, err)
		}
	}
	im := &image{store: store, took: time.Since(t)}
	images[k] = im
	return im, nil
}

// ------------------------------------------------------------------ the replayer

type oEvent struct {
	t, i  int
	ev    *core.Event
	model mEvent
}

type oBlock struct {
	number uint64
	hash   *felt.Felt
	txHash []*felt.Felt
	events []oEvent
}

type replayer struct {
	in      *input
	at      *atoms
	g       *chainkit.Gen
	node    *chainkit.Node
	mem     *memory.Database // the database itself (node.Store may be a poisoning wrapper around it)
	variant int
	floor   uint64   // > 0: blocks below are pruned
	oracle  []oBlock // modelled blocks only (base blocks are empty)

	retained []retainedResult // nil = do not retain (diagnostic probes)
	curStep  int
	content  func(*blockchain.FilteredEvent) string // overrides checkContent (concurrent round: any version)
	onBuilt  func(oBlock)                           // called with the completed block before it is stored
}

// poisonStore lends every value to the Get callback as a private copy and scribbles over it when
// the callback returns: a result that aliases the lent buffer (lazy decoding) is corrupted visibly.
type poisonStore struct {
	*memory.Database
}

func poisonGet(rd db.KeyValueReader, key []byte, cb func([]byte) error) error {
	var cp []byte
	err := rd.Get(key, func(v []byte) error {
		cp = append(make([]byte, 0, len(v)), v...)
		return cb(cp)
	})
	for i := range cp {
		cp[i] = 0xA5
	}
	return err
}

type poisonBatch struct{ db.IndexedBatch }

func (b poisonBatch) Get(key []byte, cb func([]byte) error) error {
	return poisonGet(b.IndexedBatch, key, cb)
}

type poisonSnapshot struct{ db.Snapshot }

func (s poisonSnapshot) Get(key []byte, cb func([]byte) error) error {
	return poisonGet(s.Snapshot, key, cb)
}

func (p poisonStore) Get(key []byte, cb func([]byte) error) error {
	return poisonGet(p.Database, key, cb)
}
func (p poisonStore) NewIndexedBatch() db.IndexedBatch { return poisonBatch{p.Database.NewIndexedBatch()} }
func (p poisonStore) NewIndexedBatchWithSize(n int) db.IndexedBatch {
	return poisonBatch{p.Database.NewIndexedBatchWithSize(n)}
}
func (p poisonStore) NewSnapshot() db.Snapshot { return poisonSnapshot{p.Database.NewSnapshot()} }
func (p poisonStore) Update(fn func(db.IndexedBatch) error) error {
	return p.Database.Update(func(b db.IndexedBatch) error { return fn(poisonBatch{b}) })
}
func (p poisonStore) WithListener(db.EventListener) db.KeyValueStore { return p }

// newNode = a new process on the same database (graceful or not is the caller's business)
func (r *replayer) newNode(mem *memory.Database) (*chainkit.Node, error) {
	var store db.KeyValueStore = mem
	if r.variant&8 != 0 {
		store = poisonStore{mem}
	}
	var opts []blockchain.Option
	if r.variant&(2|16) != 0 {
		opts = append(opts, blockchain.WithRunningEventFilterInitializer(pruner.InitializeRunningEventFilter))
	}
	if r.variant&16 != 0 {
		fl, err := pruner.NewRetentionFloor(store)
		if err != nil {
			return nil, err
		}
		opts = append(opts, blockchain.WithRetentionFloor(fl))
	}
	return chainkit.NewNode(store, r.variant&1 != 0, opts...), nil
}

// ---- retained results (aliasing): what Events handed back must keep its content
type retainedResult struct {
	step   int
	events []blockchain.FilteredEvent
	copyOf []string
}

func renderEvent(e *blockchain.FilteredEvent) string {
	var b strings.Builder
	fmt.Fprintf(&b, "%d/%d/%d bh=", e.BlockNumber, e.TransactionIndex, e.EventIndex)
	if e.BlockHash != nil {
		b.WriteString(e.BlockHash.String())
	}
	b.WriteString(" th=")
	if e.TransactionHash != nil {
		b.WriteString(e.TransactionHash.String())
	}
	if e.Event != nil {
		b.WriteString(" from=")
		if e.Event.From != nil {
			b.WriteString(e.Event.From.String())
		}
		for i := range e.Event.Keys {
			b.WriteString(" k=" + e.Event.Keys[i].String())
		}
		for i := range e.Event.Data {
			b.WriteString(" d=" + e.Event.Data[i].String())
		}
	}
	return b.String()
}

func (r *replayer) retain(step int, evs []blockchain.FilteredEvent) {
	if len(evs) == 0 {
		return
	}
	rr := retainedResult{step: step, events: evs}
	for i := range evs {
		rr.copyOf = append(rr.copyOf, renderEvent(&evs[i]))
	}
	r.retained = append(r.retained, rr)
	if len(r.retained) > 8 {
		r.retained = r.retained[len(r.retained)-8:]
	}
}

// checkRetained returns "" or a description of a returned value whose content changed later.
func (r *replayer) checkRetained() string {
	for _, rr := range r.retained {
		for i := range rr.events {
			if now := renderEvent(&rr.events[i]); now != rr.copyOf[i] {
				return fmt.Sprintf("event %d of the page returned at step %d was %q when returned and reads %q now", i, rr.step, rr.copyOf[i], now)
			}
		}
	}
	return ""
}

func (r *replayer) store(blk [][]mEvent) (stored bool, err error) {
	var txs []core.Transaction
	var rcs []*core.TransactionReceipt
	ob := oBlock{}
	for ti, mtx := range blk {
		tx := r.g.Tx(chainkit.TxKinds[r.g.R.Intn(len(chainkit.TxKinds))])
		evs := []*core.Event{}
		for ei, me := range mtx {
			e := &core.Event{From: r.at.addr[me.A], Keys: []felt.Felt{}, Data: r.g.Felts(r.g.R.Intn(3))}
			for _, k := range me.K {
				e.Keys = append(e.Keys, *r.at.key[k])
			}
			evs = append(evs, e)
			ob.events = append(ob.events, oEvent{t: ti, i: ei, ev: e, model: me})
		}
		txs = append(txs, tx)
		rcs = append(rcs, r.g.Receipt(tx, evs))
		ob.txHash = append(ob.txHash, tx.Hash())
	}
	ver := []string{"0.13.2", "0.13.4", "0.14.0", "0.14.1"}[r.g.R.Intn(4)]
	spec := chainkit.BlockSpec{Version: ver, Txs: txs, Receipts: rcs, Timestamp: uint64(5_000_000 + r.g.R.Intn(1000))}
	b, err := r.node.Build(spec)
	if err != nil {
		return false, fmt.Errorf("MACHINERY build: %w", err)
	}
	ob.number = b.Block.Number
	ob.hash = new(felt.Felt).Set(b.Block.Hash)
	if r.onBuilt != nil {
		r.onBuilt(ob) // concurrent round: readers may see the block before Store returns
	}
	if r.variant&4 != 0 {
		// the sequencer path: Finalise recomputes hash and commitments and stores
		err = r.node.BC.Finalise(b.Block, b.Update, b.Classes, nil)
	} else {
		err = r.node.StoreBuilt(b)
	}
	if err != nil {
		return false, err
	}
	if !ob.hash.Equal(b.Block.Hash) {
		return false, fmt.Errorf("MACHINERY: block hash changed between Simulate and the store")
	}
	r.oracle = append(r.oracle, ob)
	return true, nil
}

type realRef struct {
	B int64
	T int
	I int
}

type qResult struct {
	err   string
	pages [][]realRef
	toks  []string
	bad   string // event content / hashes differ from what the harness stored
}

func (r *replayer) oblock(n uint64) *oBlock {
	if n < r.in.Base {
		return nil
	}
	i := int(n - r.in.Base)
	if i >= len(r.oracle) {
		return nil
	}
	return &r.oracle[i]
}

// concreteFilter also varies what the abstract filter leaves open: nil vs empty slices and
// duplicated entries (derived from the filter itself, so a replay is identical).
func (r *replayer) concreteFilter(f *mFilter) ([]felt.Address, [][]felt.Felt) {
	salt := len(f.Addrs) + 3*len(f.Keys)
	for _, ks := range f.Keys {
		salt = salt*5 + len(ks)
	}
	var addrs []felt.Address // nil when there is no address constraint ...
	if len(f.Addrs) == 0 && salt%2 == 1 {
		addrs = []felt.Address{} // ... or empty
	}
	for _, a := range f.Addrs {
		addrs = append(addrs, felt.Address(*r.at.addr[a]))
	}
	if len(f.Addrs) > 0 && salt%3 == 0 {
		addrs = append(addrs, addrs[0]) // duplicate entry
	}
	var keys [][]felt.Felt
	if len(f.Keys) == 0 && salt%2 == 0 {
		keys = [][]felt.Felt{}
	}
	for pi, ks := range f.Keys {
		var pos []felt.Felt
		if len(ks) == 0 && (salt+pi)%2 == 0 {
			pos = []felt.Felt{}
		}
		for _, k := range ks {
			pos = append(pos, *r.at.key[k])
		}
		if len(ks) > 0 && (salt+pi)%3 == 1 {
			pos = append(pos, pos[len(pos)-1])
		}
		keys = append(keys, pos)
	}
	return addrs, keys
}

func nilPreConfirmed() (blockchain.PreConfirmedReader, error) { return nil, nil }

func (r *replayer) query(a *mAct) (res qResult) {
	defer func() {
		if p := recover(); p != nil {
			res.err = fmt.Sprintf("panic: %v", p)
		}
	}()
	addrs, keys := r.concreteFilter(a.F)
	from, to := uint64(a.From), uint64(a.To) // To = -1 is blockchain.PreConfirmedFilterSentinel
	if from < r.floor {
		from = r.floor
	}
	var tok *blockchain.ContinuationToken
	maxPages := 40 + 6*len(r.oracle)*4
	for page := 0; ; page++ {
		if page > maxPages {
			res.err = "nontermination"
			return res
		}
		// one filter object per page, as the RPC handlers do
		flt, err := r.node.BC.EventFilter(addrs, keys, nilPreConfirmed)
		if err != nil {
			res.err = "EventFilter: " + err.Error()
			return res
		}
		if err := flt.SetRangeEndBlockByNumber(blockchain.EventFilterFrom, from); err != nil {
			res.err = err.Error()
			return res
		}
		if err := flt.SetRangeEndBlockByNumber(blockchain.EventFilterTo, to); err != nil {
			res.err = err.Error()
			return res
		}
		var ef blockchain.EventFilterer = flt
		if a.Limit > 0 || page%2 == 1 {
			ef = flt.WithLimit(a.Limit) // 0 = unlimited, same as not calling it
		}
		evs, next, err := ef.Events(tok, a.Chunk)
		_ = flt.Close()
		if err != nil {
			res.err = "Events: " + err.Error()
			return res
		}
		if r.retained != nil {
			r.retain(r.curStep, evs)
		}
		pg := []realRef{}
		for _, e := range evs {
			pg = append(pg, realRef{int64(e.BlockNumber), int(e.TransactionIndex), int(e.EventIndex)})
			if res.bad == "" {
				res.bad = r.checkContent(&e)
			}
		}
		res.pages = append(res.pages, pg)
		if next.IsEmpty() {
			res.toks = append(res.toks, "")
			return res
		}
		res.toks = append(res.toks, next.String())
		// round-trip through the string form, as a client would
		tok = new(blockchain.ContinuationToken)
		if err := tok.FromString(next.String()); err != nil {
			res.err = "token: " + err.Error()
			return res
		}
	}
}

// checkContent compares a returned event with the receipt the harness stored at that position.
func (r *replayer) checkContent(e *blockchain.FilteredEvent) string {
	if r.content != nil {
		return r.content(e)
	}
	ob := r.oblock(e.BlockNumber)
	if ob == nil {
		return fmt.Sprintf("event in block %d which holds no events", e.BlockNumber)
	}
	for _, oe := range ob.events {
		if oe.t == int(e.TransactionIndex) && oe.i == int(e.EventIndex) {
			if e.Event == nil || !e.Event.From.Equal(oe.ev.From) || !reflect.DeepEqual(e.Event.Keys, oe.ev.Keys) ||
				!reflect.DeepEqual(e.Event.Data, oe.ev.Data) {
				return fmt.Sprintf("event content at %d/%d/%d differs from the stored receipt", e.BlockNumber, oe.t, oe.i)
			}
			if e.BlockHash == nil || !e.BlockHash.Equal(ob.hash) {
				return fmt.Sprintf("block hash of event at %d/%d/%d is not the hash of the canonical block", e.BlockNumber, oe.t, oe.i)
			}
			if e.TransactionHash == nil || !e.TransactionHash.Equal(ob.txHash[oe.t]) {
				return fmt.Sprintf("transaction hash of event at %d/%d/%d differs", e.BlockNumber, oe.t, oe.i)
			}
			return ""
		}
	}
	return fmt.Sprintf("no event at %d/%d/%d in the stored receipts", e.BlockNumber, e.TransactionIndex, e.EventIndex)
}

// naive is the ORACLE: a scan of the receipts the harness stored, independent of the index.
func (r *replayer) naive(a *mAct) []realRef {
	out := []realRef{}
	inSet := func(s []string, x string) bool {
		for _, y := range s {
			if y == x {
				return true
			}
		}
		return false
	}
	for i := range r.oracle {
		ob := &r.oracle[i]
		if int64(ob.number) < a.From || (a.To >= 0 && int64(ob.number) > a.To) || ob.number < r.floor {
			continue
		}
		for _, oe := range ob.events {
			if len(a.F.Addrs) > 0 && !inSet(a.F.Addrs, oe.model.A) {
				continue
			}
			if len(oe.model.K) < len(a.F.Keys) {
				continue
			}
			ok := true
			for p, alt := range a.F.Keys {
				if len(alt) > 0 && !inSet(alt, oe.model.K[p]) {
					ok = false
				}
			}
			if ok {
				out = append(out, realRef{int64(ob.number), oe.t, oe.i})
			}
		}
	}
	return out
}

// ------------------------------------------------------------------ projection of the disk state

type decoded struct {
	ptr  *byte
	n    int
	bits []string
}

type projector struct {
	at    *atoms
	cache map[string]decoded // db key -> decoded bits of the value currently stored (identity of the value slice)
}

func bitString(b int64, a atomID) string { return fmt.Sprintf("%d:%s%d:%s", b, a.kind, a.pos, a.name) }

func (p *projector) filterBits(f *core.AggregatedBloomFilter) []string {
	var out []string
	for _, a := range p.at.universe() {
		bs := f.BlocksForKeys([][]byte{p.at.atomBytes(a.kind, a.pos, a.name)})
		for i, ok := bs.NextSet(0); ok; i, ok = bs.NextSet(i + 1) {
			out = append(out, bitString(int64(f.FromBlock())+int64(i), a))
		}
	}
	sort.Strings(out)
	return out
}

// rawIdentity returns the identity of the stored value (memory DB values are immutable slices
// replaced on every Put), so that an 8 MB window is only decoded when it was rewritten.
func rawIdentity(store db.KeyValueStore, key []byte) (ptr *byte, n int, found bool, err error) {
	err = store.Get(key, func(v []byte) error {
		if len(v) > 0 {
			ptr = &v[0]
		}
		n = len(v)
		return nil
	})
	if errors.Is(err, db.ErrKeyNotFound) {
		return nil, 0, false, nil
	}
	return ptr, n, err == nil, err
}

type realState struct {
	Height    int64
	Persisted map[int64][]string
	SnapOk    bool
	SnapFrom  int64
	SnapNext  int64
	SnapBits  []string
}

func (p *projector) project(store db.KeyValueStore, w uint64) (realState, error) {
	rs := realState{Height: -1, Persisted: map[int64][]string{}}
	h, err := core.GetChainHeight(store)
	if err == nil {
		rs.Height = int64(h)
	} else if !errors.Is(err, db.ErrKeyNotFound) {
		return rs, err
	}
	maxW := uint64(0)
	if rs.Height >= 0 {
		maxW = uint64(rs.Height)/w + 2
	}
	for wi := uint64(0); wi <= maxW; wi++ {
		key := db.AggregatedBloomFilterKey(wi*w, wi*w+w-1)
		ptr, n, found, err := rawIdentity(store, key)
		if err != nil {
			return rs, err
		}
		if !found {
			continue
		}
		if d, ok := p.cache[string(key)]; ok && d.ptr == ptr && d.n == n {
			rs.Persisted[int64(wi)] = d.bits
			continue
		}
		f, err := core.GetAggregatedBloomFilter(store, wi*w, wi*w+w-1)
		if err != nil {
			return rs, fmt.Errorf("persisted window %d unreadable: %w", wi, err)
		}
		bits := p.filterBits(&f)
		p.cache[string(key)] = decoded{ptr, n, bits}
		rs.Persisted[int64(wi)] = bits
	}
	skey := db.RunningEventFilter.Key()
	ptr, n, found, err := rawIdentity(store, skey)
	if err != nil {
		return rs, err
	}
	if found {
		rs.SnapOk = true
		if d, ok := p.cache[string(skey)]; ok && d.ptr == ptr && d.n == n {
			rs.SnapBits = d.bits[2:]
			fmt.Sscanf(d.bits[0], "%d", &rs.SnapFrom)
			fmt.Sscanf(d.bits[1], "%d", &rs.SnapNext)
		} else {
			rf, err := core.GetRunningEventFilter(store)
			if err != nil {
				return rs, fmt.Errorf("snapshot unreadable: %w", err)
			}
			from, _ := rf.FromBlock()
			next, _ := rf.NextBlock()
			inner, _ := rf.InnerFilter()
			rs.SnapFrom, rs.SnapNext = int64(from), int64(next)
			rs.SnapBits = p.filterBits(inner)
			p.cache[string(skey)] = decoded{ptr, n, append([]string{fmt.Sprint(from), fmt.Sprint(next)}, rs.SnapBits...)}
		}
	}
	return rs, nil
}

func modelBits(bits []mBit) []string {
	out := []string{}
	for _, b := range bits {
		if len(b) != 2 {
			continue
		}
		blk, _ := b[0].(float64)
		at, _ := b[1].([]any)
		if len(at) != 3 {
			continue
		}
		kind, _ := at[0].(string)
		pos, _ := at[1].(float64)
		name, _ := at[2].(string)
		out = append(out, bitString(int64(blk), atomID{kind, int(pos), name}))
	}
	sort.Strings(out)
	return out
}

func eqStrings(a, b []string) bool {
	if len(a) != len(b) {
		return false
	}
	for i := range a {
		if a[i] != b[i] {
			return false
		}
	}
	return true
}

// compareState returns "" or a description of the first difference.
func compareState(m *mState, rs *realState) (field, what string) {
	if m.Height != rs.Height {
		return "height", fmt.Sprintf("height: model %d, real %d", m.Height, rs.Height)
	}
	mw := map[int64][]string{}
	for _, w := range m.Persisted {
		mw[w.W] = modelBits(w.Bits)
	}
	for w, bits := range mw {
		rb, ok := rs.Persisted[w]
		if !ok {
			return "persisted-missing", fmt.Sprintf("window %d is persisted in the model, absent on disk", w)
		}
		if !eqStrings(bits, rb) {
			return "persisted-bits", fmt.Sprintf("persisted window %d: model %v, disk %v", w, bits, rb)
		}
	}
	for w := range rs.Persisted {
		if _, ok := mw[w]; !ok {
			return "persisted-extra", fmt.Sprintf("window %d is persisted on disk, absent in the model", w)
		}
	}
	if m.Snap.Ok != rs.SnapOk {
		return "snapshot-presence", fmt.Sprintf("snapshot presence: model %v, disk %v", m.Snap.Ok, rs.SnapOk)
	}
	if m.Snap.Ok {
		if m.Snap.From != rs.SnapFrom || m.Snap.Next != rs.SnapNext {
			return "snapshot-bounds", fmt.Sprintf("snapshot [from,next]: model [%d,%d], disk [%d,%d]", m.Snap.From, m.Snap.Next, rs.SnapFrom, rs.SnapNext)
		}
		if mb := modelBits(m.Snap.Bits); !eqStrings(mb, rs.SnapBits) {
			return "snapshot-bits", fmt.Sprintf("snapshot bits: model %v, disk %v", mb, rs.SnapBits)
		}
	}
	return "", ""
}

// ------------------------------------------------------------------ per-behaviour replay

type outcome struct {
	index       int
	steps       int
	divergences []vh.Divergence
	actions     map[string]int
	conform     bool // every step agreed with the model
	defects     []string
	machinery   string
	windowsHit  map[string]int
	notes       []string
}

func refsOfModel(pages [][]mRef) [][]realRef {
	out := [][]realRef{}
	for _, p := range pages {
		pg := []realRef{}
		for _, e := range p {
			pg = append(pg, realRef{e.B, e.T, e.I})
		}
		out = append(out, pg)
	}
	return out
}

func toksOfModel(toks []mTok) []string {
	out := []string{}
	for _, t := range toks {
		if t.B < 0 {
			out = append(out, "")
		} else {
			out = append(out, fmt.Sprintf("%d-%d", t.B, t.P))
		}
	}
	return out
}

func concat(pages [][]realRef) []realRef {
	out := []realRef{}
	for _, p := range pages {
		out = append(out, p...)
	}
	return out
}

func eqRefs(a, b []realRef) bool {
	if len(a) != len(b) {
		return false
	}
	for i := range a {
		if a[i] != b[i] {
			return false
		}
	}
	return true
}

func eqPages(a, b [][]realRef) bool {
	if len(a) != len(b) {
		return false
	}
	for i := range a {
		if !eqRefs(a[i], b[i]) {
			return false
		}
	}
	return true
}

// classify names the way the real answer differs from the oracle.
func classify(real, want []realRef) string {
	set := func(x []realRef) map[realRef]int {
		m := map[realRef]int{}
		for _, e := range x {
			m[e]++
		}
		return m
	}
	rs, ws := set(real), set(want)
	missing, extra := 0, 0
	for e, n := range ws {
		if rs[e] < n {
			missing++
		}
	}
	for e, n := range rs {
		if ws[e] < n {
			extra++
		}
	}
	switch {
	case missing > 0 && extra == 0:
		return "false-negative"
	case missing == 0 && extra > 0:
		return "spurious-or-duplicate"
	case missing > 0 && extra > 0:
		return "wrong-events"
	default:
		return "order"
	}
}

// diagnose labels an omission with the key of the known defect it matches, by differential
// experiments on copies of the node's database (independent of the model):
//   - a NEW process on the same database answers correctly and the omitted events lie outside the
//     running window  => only the in-memory LRU of persisted windows was stale        (H1)
//   - correct once the shutdown snapshot is removed                                   (H2)
//   - correct once the persisted windows are removed too (full rebuild from headers)  (H19)
// "" when none of them explains it.
func (r *replayer) diagnose(a *mAct, got, want []realRef) string {
	if k := classify(got, want); k != "false-negative" && k != "wrong-events" {
		return ""
	}
	mem := r.mem
	exactOn := func(store *memory.Database) bool {
		saved, savedRet := r.node, r.retained
		n, err := r.newNode(store)
		if err != nil {
			return false
		}
		r.node, r.retained = n, nil
		q := r.query(a)
		r.node, r.retained = saved, savedRet
		return q.err == "" && q.bad == "" && eqRefs(concat(q.pages), want)
	}
	if exactOn(mem.Copy()) {
		head := r.in.Base + uint64(len(r.oracle)) - 1
		runningWindow := (head + 1) / r.in.W
		have := map[realRef]bool{}
		for _, e := range got {
			have[e] = true
		}
		for _, e := range want {
			if !have[e] && uint64(e.B)/r.in.W == runningWindow {
				return "" // the running window itself was wrong in memory
			}
		}
		return keyStaleCache
	}
	c2 := mem.Copy()
	_ = c2.Delete(db.RunningEventFilter.Key())
	if exactOn(c2) {
		return keyStaleSnapshot
	}
	c3 := mem.Copy()
	_ = c3.Delete(db.RunningEventFilter.Key())
	head := r.in.Base + uint64(len(r.oracle))
	for wi := uint64(0); wi <= head/r.in.W+1; wi++ {
		_ = c3.Delete(db.AggregatedBloomFilterKey(wi*r.in.W, wi*r.in.W+r.in.W-1))
	}
	if exactOn(c3) {
		return keyStalePersist
	}
	return ""
}

// progress is what the watchdog can still report when the real code hangs
type progress struct {
	mu   sync.Mutex
	oc   *outcome
	step atomic.Int64
	act  atomic.Value
}

var prunedFloors = map[uint64][]uint64{8188: {8186, 5000, 8187}, 16380: {12000, 16378, 8192}}

func replayOne(in *input, idx int, beh []step, m meta, prog *progress) (oc outcome) {
	oc = outcome{index: idx, actions: map[string]int{}, conform: true, windowsHit: map[string]int{}}
	prog.mu.Lock()
	prog.oc = &oc
	prog.mu.Unlock()
	im, err := baseImage(in.Base, m.Variant&1 != 0)
	if err != nil {
		// the real code refused a valid empty block: reported once by the test itself
		oc.machinery = "base image: " + err.Error()
		return oc
	}
	at := newAtoms(m.Seed)
	r := &replayer{in: in, at: at, g: chainkit.NewGen(m.Seed), variant: m.Variant, retained: []retainedResult{}}
	r.mem = im.store.Copy()
	mkInput0 := func(si int) any {
		return vh.J{"w": in.W, "base": in.Base, "behaviours": [][]step{beh[:si+1]}, "meta": []meta{m}, "mode": in.Mode}
	}
	if m.Variant&16 != 0 {
		fls := prunedFloors[in.Base]
		if len(fls) == 0 {
			fls = []uint64{in.Base - 2}
		}
		r.floor = fls[int(m.Seed%int64(len(fls)))]
		if _, _, err := pruner.PruneUpto(context.Background(), r.mem, r.floor, 1<<30); err != nil {
			oc.divergences = append(oc.divergences, vh.Divergence{Key: "event-index:pruned-node:prune-failed",
				What: fmt.Sprintf("pruner.PruneUpto(%d) on the base image: %v", r.floor, err), Input: mkInput0(0), Step: 0})
			return oc
		}
	}
	r.node, err = r.newNode(r.mem)
	if err != nil {
		oc.divergences = append(oc.divergences, vh.Divergence{Key: "event-index:pruned-node:retention-floor-failed",
			What: err.Error(), Input: mkInput0(0), Step: 0})
		return oc
	}
	proj := &projector{at: at, cache: map[string]decoded{}}

	// a panic of the real code is a divergence of the step it happened in
	defer func() {
		if p := recover(); p != nil {
			si := int(prog.step.Load())
			act, _ := prog.act.Load().(string)
			prog.mu.Lock()
			oc.conform = false
			oc.divergences = append(oc.divergences, vh.Divergence{Key: "event-index:panic:" + act,
				What: fmt.Sprintf("%s panics: %v", act, p), Input: mkInput0(si), Step: si})
			prog.mu.Unlock()
		}
	}()

	// "oracle" mode judges the property only: every answer against the receipts the harness stored,
	// Store/RevertHead not refused. It is used for the directed scenarios (which carry no model
	// expectations), for replays of behaviours that exhibited a known defect (they must pass once
	// the defect is repaired), and for the rest of a behaviour after the model predicted a defect
	// that the code does not have.
	oracleOnly := in.Mode == "oracle" || m.Variant&16 != 0
	mkInput := func(si int, mode string) any {
		j := vh.J{"w": in.W, "base": in.Base, "behaviours": [][]step{beh[:si+1]}, "meta": []meta{m}}
		if mode != "" {
			j["mode"] = mode
		}
		return j
	}
	isDefectKey := func(key string) bool {
		return key == keyStaleCache || key == keyStaleSnapshot || key == keyStoreRejected || key == keyStalePersist
	}
	diverge := func(si int, key, what string, exp, obs any) {
		mode := ""
		if oracleOnly || isDefectKey(key) {
			mode = "oracle"
		}
		prog.mu.Lock()
		oc.divergences = append(oc.divergences, vh.Divergence{Key: key, What: what, Input: mkInput(si, mode), Step: si, Expected: exp, Observed: obs})
		prog.mu.Unlock()
	}
	notInCode := func(si int, what string) {
		oc.notes = append(oc.notes, fmt.Sprintf("behaviour %d step %d: %s", idx, si, what))
		oracleOnly = true
	}

	for si := range beh {
		s := &beh[si]
		oc.steps++
		oc.actions[s.A.Name]++
		prog.step.Store(int64(si))
		prog.act.Store(s.A.Name)
		r.curStep = si
		stop := false
		hasModel := s.Res.Kind != ""
		switch s.A.Name {
		case "Store":
			stored, err := r.store(s.A.Blk)
			if err != nil && strings.HasPrefix(err.Error(), "MACHINERY") {
				oc.machinery = err.Error()
				return oc
			}
			switch {
			case stored && (!hasModel || s.Res.Kind == "ok"):
			case stored && oracleOnly:
			case stored: // the model (a `known` defect switch) predicts a refused Store
				notInCode(si, "Store succeeds where the model predicts that the index refuses the block")
			default:
				key := "event-index:store-rejected:other"
				if strings.Contains(err.Error(), "is not within range") {
					key = keyStoreRejected
				}
				if hasModel && s.Res.Kind == "err" && key == keyStoreRejected {
					oc.defects = append(oc.defects, key) // predicted by the faithful model
				} else {
					oc.conform = false
					stop = true
				}
				diverge(si, key, fmt.Sprintf("Blockchain.Store of block %d fails: %v", in.Base+uint64(len(r.oracle)), err), "ok (the index never blocks the chain)", "err")
			}
		case "Revert":
			err := r.node.BC.RevertHead()
			if err == nil {
				r.oracle = r.oracle[:len(r.oracle)-1]
			}
			switch {
			case err == nil && (!hasModel || s.Res.Kind == "ok" || oracleOnly):
			case err == nil:
				notInCode(si, "RevertHead succeeds where the model predicts a failure")
			default:
				if !(hasModel && s.Res.Kind == "err") {
					oc.conform = false
					stop = true
				}
				diverge(si, "event-index:revert-rejected", fmt.Sprintf("Blockchain.RevertHead fails: %v", err), "ok", "err")
			}
		case "Restart":
			if s.A.Graceful {
				if err := r.node.BC.WriteRunningEventFilter(); err != nil {
					oc.conform = false
					diverge(si, "event-index:conformance:GracefulStop:err", "WriteRunningEventFilter: "+err.Error(), "ok", "err")
					stop = true
				}
			}
			if n, err := r.newNode(r.mem); err != nil {
				oc.conform = false
				diverge(si, "event-index:pruned-node:retention-floor-failed", err.Error(), nil, nil)
				stop = true
			} else {
				r.node = n
			}
		case "Query":
			q := r.query(&s.A)
			want := r.naive(&s.A)
			// cross-check of the harness oracle with the model's own naive scan (machinery, not verdict)
			if hasModel && !oracleOnly && !eqRefs(want, concat(refsOfModel([][]mRef{s.Res.Naive}))) {
				oc.machinery = fmt.Sprintf("behaviour %d step %d: harness oracle %v differs from the model's NaiveScan %v", idx, si, want, s.Res.Naive)
				return oc
			}
			mPages, mToks := refsOfModel(s.Res.Pages), toksOfModel(s.Res.Toks)
			conf := hasModel && q.err == "" && s.Res.Kind == "pages" && eqPages(q.pages, mPages) && eqStrings(q.toks, mToks)
			if hasModel && q.err != "" && s.Res.Kind == "err" {
				conf = true
			}
			exact := q.err == "" && q.bad == "" && eqRefs(concat(q.pages), want)
			for _, pg := range q.pages {
				for _, e := range pg {
					oc.windowsHit[fmt.Sprint(uint64(e.B)/in.W)]++
				}
			}
			obs := vh.J{"pages": q.pages, "tokens": q.toks, "error": q.err, "content": q.bad}
			exp := vh.J{"oracle": want, "model_pages": mPages, "model_tokens": mToks, "model_why": s.Res.Why}
			describe := func() string {
				return fmt.Sprintf("query %s over %d..%d (chunk %d, limit %d) returns %v %s%s, the stored receipts hold %v",
					filterString(s.A.F), s.A.From, s.A.To, s.A.Chunk, s.A.Limit, concat(q.pages), q.err, q.bad, want)
			}
			switch {
			case exact && (conf || oracleOnly):
			case !exact && conf && !oracleOnly:
				// the real code violates the property exactly as the model of a `known` defect predicts
				key := "event-query:model-predicted:" + s.Res.Why
				switch s.Res.Why {
				case "cache":
					key = keyStaleCache
				case "snapshot":
					key = keyStaleSnapshot
				case "persisted":
					key = keyStalePersist
				}
				oc.defects = append(oc.defects, key)
				diverge(si, key, describe(), exp, obs)
			case !exact:
				oc.conform = false
				kind := "error"
				switch {
				case q.err == "nontermination":
					kind = "nontermination"
				case q.err != "":
					kind = "error"
				case q.bad != "":
					kind = "content"
				default:
					kind = classify(concat(q.pages), want)
				}
				key := "event-query:" + kind
				if q.err == "" && q.bad == "" {
					if dk := r.diagnose(&s.A, concat(q.pages), want); dk != "" {
						key = dk // the omission has the signature of a known defect
					}
				}
				diverge(si, key, describe(), exp, obs)
				stop = true
			case !s.Res.Exact: // exact, but the model (a `known` defect switch) predicts a false negative
				notInCode(si, "the code answers correctly where the model predicts a false negative caused by: "+s.Res.Why)
			default: // exact but not what the specification computes
				oc.conform = false
				diverge(si, "event-query:paging-conformance", fmt.Sprintf("query %s over %d..%d (chunk %d, limit %d): pages/tokens differ from the specification although their concatenation is right",
					filterString(s.A.F), s.A.From, s.A.To, s.A.Chunk, s.A.Limit), exp, obs)
				stop = true
			}
		default:
			oc.machinery = "unknown action " + s.A.Name
			return oc
		}
		if stop {
			return oc
		}
		if what := r.checkRetained(); what != "" {
			oc.conform = false
			diverge(si, "event-query:retained-result-mutated:after-"+s.A.Name, "a value handed back by EventFilter.Events changed after a later "+s.A.Name+": "+what, nil, nil)
			return oc
		}
		if oracleOnly || !hasModel {
			continue
		}
		rs, err := proj.project(r.mem, in.W)
		if err != nil {
			oc.conform = false
			diverge(si, "event-index:conformance:unreadable", err.Error(), nil, nil)
			return oc
		}
		if field, what := compareState(&s.St, &rs); field != "" {
			oc.conform = false
			diverge(si, "event-index:conformance:"+s.A.Name+":"+field, "after "+s.A.Name+": "+what, s.St, rs)
			return oc
		}
	}
	return oc
}

func filterString(f *mFilter) string {
	b, _ := json.Marshal(f)
	return string(b)
}

// safeBaseImage turns a panic of the real code while building the image into an error
func safeBaseImage(base uint64, newState bool) (im *image, err error) {
	defer func() {
		if p := recover(); p != nil {
			err = fmt.Errorf("panic: %v", p)
		}
	}()
	return baseImage(base, newState)
}

// replayGuarded runs one behaviour under a watchdog: a hang of the real code becomes a divergence
// and whatever the behaviour had already recorded is kept.
func replayGuarded(in *input, idx int, beh []step, m meta) outcome {
	prog := &progress{}
	prog.act.Store("start")
	done := make(chan outcome, 1)
	go func() { done <- replayOne(in, idx, beh, m, prog) }()
	limit := 240 * time.Second
	select {
	case oc := <-done:
		return oc
	case <-time.After(limit):
		prog.mu.Lock()
		defer prog.mu.Unlock()
		oc := outcome{index: idx, actions: map[string]int{}, windowsHit: map[string]int{}}
		if prog.oc != nil {
			oc.divergences = append(oc.divergences, prog.oc.divergences...)
		}
		si := int(prog.step.Load())
		act, _ := prog.act.Load().(string)
		oc.divergences = append(oc.divergences, vh.Divergence{Key: "event-index:hang:" + act,
			What:  fmt.Sprintf("%s (step %d) did not return within %s", act, si, limit),
			Input: vh.J{"w": in.W, "base": in.Base, "behaviours": [][]step{beh[:min(si+1, len(beh))]}, "meta": []meta{m}, "mode": in.Mode}, Step: si})
		return oc
	}
}

// ------------------------------------------------------------------ the test

func TestEventsReplay(t *testing.T) {
	if !vh.Enabled() {
		t.Skip("driver only")
	}
	var in input
	if err := vh.Input(&in); err != nil {
		t.Fatal(err)
	}
	out := vh.NewResult()
	defer out.Write()
	if in.W != core.NumBlocksPerFilter {
		t.Fatalf("behaviours generated for W = %d, code has %d", in.W, core.NumBlocksPerFilter)
	}
	variants := in.Variants
	if len(variants) == 0 {
		variants = []int{0, 3, 5, 6, 8, 15}
		if vh.Thorough() {
			variants = []int{0, 1, 2, 3, 4, 5, 6, 7, 8, 9, 10, 11, 12, 13, 14, 15}
		}
	}
	metas := in.Meta
	if len(metas) != len(in.Behaviours) {
		metas = make([]meta, len(in.Behaviours))
		rnd := rand.New(rand.NewSource(vh.Seed()))
		for i := range metas {
			metas[i] = meta{Variant: variants[i%len(variants)], Seed: rnd.Int63n(1 << 40)}
		}
	}
	// base images first (timed, once per run)
	need := map[bool]bool{}
	for _, m := range metas {
		need[m.Variant&1 != 0] = true
	}
	for ns := range need {
		im, err := safeBaseImage(in.Base, ns)
		if err != nil {
			// the real code refused (or panicked on) one of the valid empty blocks of the base image
			out.Diverge(vh.Divergence{Key: "event-index:base-image:store-refused",
				What:  fmt.Sprintf("building the base image of %d empty blocks through Blockchain.Store (new state backend: %v): %v", in.Base, ns, err),
				Input: vh.J{"w": in.W, "base": in.Base, "behaviours": [][]step{}, "meta": []meta{}, "variants": []int{map[bool]int{false: 0, true: 1}[ns]}, "probe_base_image": true}})
			return
		}
		out.Stats[fmt.Sprintf("base_image_%d_newstate_%v_ms", in.Base, ns)] = int(im.took.Milliseconds())
	}

	workers := in.Workers
	if workers <= 0 {
		workers = 4
	}
	results := make([]outcome, len(in.Behaviours))
	var wg sync.WaitGroup
	ch := make(chan int)
	for w := 0; w < workers; w++ {
		wg.Add(1)
		go func() {
			defer wg.Done()
			for i := range ch {
				results[i] = replayGuarded(&in, i, in.Behaviours[i], metas[i])
			}
		}()
	}
	for i := range in.Behaviours {
		ch <- i
	}
	close(ch)
	wg.Wait()

	actions := map[string]int{}
	windows := map[string]int{}
	perBehaviour := []vh.J{}
	nonConform, withDefect := 0, 0
	notes := []string{}
	// divergences first: a machinery failure must never mask a recorded violation
	machinery := ""
	for _, oc := range results {
		for _, d := range oc.divergences {
			out.Diverge(d)
		}
		if oc.machinery != "" && machinery == "" {
			machinery = fmt.Sprintf("machinery failure in behaviour %d: %s", oc.index, oc.machinery)
		}
	}
	if machinery != "" && len(out.Divergences) == 0 {
		t.Fatal(machinery)
	}
	for _, oc := range results {
		for k, v := range oc.actions {
			actions[k] += v
		}
		for k, v := range oc.windowsHit {
			windows[k] += v
		}
		notes = append(notes, oc.notes...)
		if !oc.conform {
			nonConform++
		}
		if len(oc.defects) > 0 {
			withDefect++
		}
		out.Done(1, oc.steps)
		if in.Mode == "calibrate" {
			first, firstKey := -1, ""
			for _, d := range oc.divergences {
				// the first divergence that is not a defect the model itself predicts
				if d.Key != keyStaleCache && d.Key != keyStaleSnapshot && d.Key != keyStoreRejected && d.Key != keyStalePersist {
					first, firstKey = d.Step, d.Key
					break
				}
			}
			perBehaviour = append(perBehaviour, vh.J{"conform": oc.conform, "defects": oc.defects,
				"first_divergence_step": first, "first_divergence_key": firstKey})
		}
	}
	out.Stats["actions_replayed"] = actions
	out.Stats["events_returned_per_window"] = windows
	if len(notes) > 8 {
		notes = append(notes[:8], fmt.Sprintf("(+%d more)", len(notes)-8))
	}
	out.Stats["notes_model_predicts_defect_not_in_code"] = notes
	out.Stats["behaviours_not_conforming"] = nonConform
	out.Stats["behaviours_exhibiting_known_defect_shape"] = withDefect
	if in.Mode == "calibrate" {
		out.Stats["calibration"] = perBehaviour
	}
	if len(in.Behaviours) > 0 {
		b, _ := json.Marshal(in.Behaviours[0])
		var s any
		_ = json.Unmarshal(b, &s)
		out.Sample(s)
	}
}

// Concurrent round of engine "events" (property C09): event queries run from several goroutines
// (as the RPC handlers do) for the whole lifetime of a writer that stores blocks and reorgs back and
// forth across the 8191|8192 window boundary.
//
// C09 does not quantify over schedules, so only what the statement itself demands is a VERDICT:
//   (V1) a query over a STABLE range - blocks that no concurrent Store/RevertHead touches - equals the
//        naive scan for every chunk size / scan limit ("no matching event is ever omitted because of
//        the index"): the index is being changed next to it, the queried blocks are not;
//   (V2) what is observable SEQUENTIALLY: a query issued by the writer itself between two of its calls
//        (the chain is fixed then) and the queries after the writer has finished, before and after a
//        restart, are exact - nothing a concurrent query did (e.g. caching a window that was being
//        replaced) may outlive the reorg;
//   (V3) a panic of the real code.
// Everything about a query whose range OVERLAPS blocks that are stored/reverted while it runs (an
// event that belongs to no version of its block, order, duplicates, non-termination) and watchdog
// time-outs are OBSERVATIONS: recorded in the result (stats "observations"), never a divergence.
// A query that fails with an error while the chain is being reorganised is tolerated (counted).
package events

import (
	"fmt"
	"math/rand"
	"reflect"
	"sync"
	"sync/atomic"
	"testing"
	"time"

	"github.com/NethermindEth/juno/blockchain"
	"github.com/NethermindEth/juno/core"

	"verifharness/internal/chainkit"
	"verifharness/internal/vh"
)

type concInput struct {
	W       uint64 `json:"w"`
	Base    uint64 `json:"base"`
	Rounds  int    `json:"rounds"`  // independent rounds (each: new node on a copy of the image)
	Reorgs  int    `json:"reorgs"`  // reorgs per round
	Readers int    `json:"readers"` // concurrent query goroutines
	Seed    int64  `json:"seed"`
	// replay of one recorded round: the seed and variant of that round
	RoundSeed bool `json:"_round_of_seed,omitempty"`
	Variant   *int `json:"variant,omitempty"`
}

// every version of every modelled block that was ever stored in the round
type versions struct {
	mu sync.RWMutex
	by map[uint64][]oBlock
}

func (v *versions) add(b oBlock) {
	v.mu.Lock()
	v.by[b.number] = append(v.by[b.number], b)
	v.mu.Unlock()
}

// match returns "" when e is an event of some version of its block
func (v *versions) match(e *blockchain.FilteredEvent) string {
	v.mu.RLock()
	defer v.mu.RUnlock()
	vs := v.by[e.BlockNumber]
	if len(vs) == 0 {
		return fmt.Sprintf("event in block %d which never held events", e.BlockNumber)
	}
	for i := range vs {
		ob := &vs[i]
		if e.BlockHash == nil || !e.BlockHash.Equal(ob.hash) {
			continue
		}
		for _, oe := range ob.events {
			if oe.t == int(e.TransactionIndex) && oe.i == int(e.EventIndex) {
				if e.Event != nil && e.Event.From.Equal(oe.ev.From) && reflect.DeepEqual(e.Event.Keys, oe.ev.Keys) &&
					reflect.DeepEqual(e.Event.Data, oe.ev.Data) && e.TransactionHash != nil && e.TransactionHash.Equal(ob.txHash[oe.t]) {
					return ""
				}
				return fmt.Sprintf("event %d/%d/%d carries the hash of a version of the block whose receipt at that position differs", e.BlockNumber, oe.t, oe.i)
			}
		}
		return fmt.Sprintf("no event at %d/%d/%d in the version of the block with that hash", e.BlockNumber, e.TransactionIndex, e.EventIndex)
	}
	return fmt.Sprintf("event of block %d carries a block hash that no stored version of the block had", e.BlockNumber)
}

func TestEventsConcurrent(t *testing.T) {
	if !vh.Enabled() {
		t.Skip("driver only")
	}
	var in concInput
	if err := vh.Input(&in); err != nil {
		t.Fatal(err)
	}
	out := vh.NewResult()
	defer out.Write()
	if in.W != core.NumBlocksPerFilter {
		t.Fatalf("W = %d, code has %d", in.W, core.NumBlocksPerFilter)
	}
	if in.Readers <= 0 {
		in.Readers = 3
	}
	var queries, tolerated, stableChecks atomic.Int64
	obs := &observations{}
	for round := 0; round < in.Rounds; round++ {
		concurrentRound(&in, round, out, obs, &queries, &tolerated, &stableChecks)
		out.Done(1, 0)
	}
	out.Stats["observations"] = len(obs.list)
	out.Stats["observation_samples"] = obs.sample()
	out.Stats["concurrent_queries"] = int(queries.Load())
	out.Stats["concurrent_queries_failed_with_error_during_reorg"] = int(tolerated.Load())
	out.Stats["concurrent_stable_range_answers_checked"] = int(stableChecks.Load())
}

// observations: concurrency-only misbehaviour on ranges that overlap concurrent mutations
type observations struct {
	mu   sync.Mutex
	list []string
}

func (o *observations) add(key, what string) {
	o.mu.Lock()
	o.list = append(o.list, key+": "+what)
	o.mu.Unlock()
}

func (o *observations) sample() []string {
	o.mu.Lock()
	defer o.mu.Unlock()
	seen, out := map[string]bool{}, []string{}
	for _, s := range o.list {
		k := s
		if i := len(s); i > 60 {
			k = s[:60]
		}
		if !seen[k] && len(out) < 6 {
			seen[k] = true
			out = append(out, s)
		}
	}
	return out
}

func concurrentRound(in *concInput, round int, out *vh.Result, obs *observations, queries, tolerated, stableChecks *atomic.Int64) {
	seed := in.Seed*1000 + int64(round)
	variant := []int{0, 1, 2, 7}[round%4]
	if in.RoundSeed {
		seed = in.Seed
	}
	if in.Variant != nil {
		variant = *in.Variant
	}
	rin := vh.J{"w": in.W, "base": in.Base, "rounds": 1, "reorgs": in.Reorgs, "readers": in.Readers, "seed": seed,
		"_round_of_seed": true, "variant": variant}
	diverge := func(key, what string, exp, obs any) {
		out.Diverge(vh.Divergence{Key: key, What: what, Input: rin, Expected: exp, Observed: obs})
	}
	im, err := safeBaseImage(in.Base, variant&1 != 0)
	if err != nil {
		diverge("event-index:base-image:store-refused", err.Error(), nil, nil)
		return
	}
	rnd := rand.New(rand.NewSource(seed))
	at := newAtoms(seed)
	r := &replayer{in: &input{W: in.W, Base: in.Base}, at: at, g: chainkit.NewGen(seed), variant: variant}
	r.mem = im.store.Copy()
	if r.node, err = r.newNode(r.mem); err != nil {
		diverge("event-index:concurrent:node", err.Error(), nil, nil)
		return
	}
	vers := &versions{by: map[uint64][]oBlock{}}
	randBlock := func() [][]mEvent {
		blk := [][]mEvent{}
		for t := rnd.Intn(3); t > 0; t-- {
			tx := []mEvent{}
			for e := rnd.Intn(3); e > 0; e-- {
				ev := mEvent{A: []string{"a1", "a2"}[rnd.Intn(2)], K: []string{}}
				for k := rnd.Intn(3); k > 0; k-- {
					ev.K = append(ev.K, []string{"k1", "k2"}[rnd.Intn(2)])
				}
				tx = append(tx, ev)
			}
			blk = append(blk, tx)
		}
		return blk
	}
	r.onBuilt = vers.add
	storeOne := func(blk [][]mEvent) error {
		ok, err := r.store(blk)
		if !ok {
			return err
		}
		return nil
	}
	// stable prefix: base .. base+1 with events, then up to the first block of the next window
	stable := uint64(2)
	for i := uint64(0); i < 5; i++ {
		blk := randBlock()
		if i < stable {
			blk = [][]mEvent{{{A: "a1", K: []string{"k1"}}, {A: "a2", K: []string{"k2", "k1"}}}, {{A: "a1", K: []string{"k2"}}}}
		}
		if err := storeOne(blk); err != nil {
			diverge("event-index:concurrent:setup-store-failed", err.Error(), nil, nil)
			return
		}
	}
	stableTo := int64(in.Base + stable - 1)
	stableOracle := append([]oBlock(nil), r.oracle[:stable]...)
	filters := []*mFilter{
		{Addrs: []string{}, Keys: [][]string{{"k1"}}}, {Addrs: []string{"a1"}, Keys: [][]string{}},
		{Addrs: []string{}, Keys: [][]string{{}, {"k1"}}}, {Addrs: []string{"a2", "a1"}, Keys: [][]string{{"k2"}}},
		{Addrs: []string{}, Keys: [][]string{{"k1", "k2"}}},
	}

	var stop atomic.Bool
	var wg sync.WaitGroup
	var dmu sync.Mutex
	// ---- readers: run until the writer is done
	for ri := 0; ri < in.Readers; ri++ {
		wg.Add(1)
		go func(ri int) {
			defer wg.Done()
			defer func() {
				if p := recover(); p != nil {
					dmu.Lock()
					diverge("event-query-concurrent:panic:reader", fmt.Sprintf("a concurrent event query panics: %v", p), nil, nil)
					dmu.Unlock()
				}
			}()
			lr := rand.New(rand.NewSource(seed*31 + int64(ri)))
			// a reader only shares the node (as RPC handlers share the Blockchain); its oracle is fixed
			rd := &replayer{in: r.in, at: at, variant: variant, oracle: stableOracle, node: r.node, content: vers.match}
			for n := 0; !stop.Load(); n++ {
				if n%8 == 7 {
					time.Sleep(200 * time.Microsecond) // keep the writer from being starved on a loaded box
				}
				f := filters[lr.Intn(len(filters))]
				a := &mAct{Name: "Query", F: f, From: 0, Chunk: []uint64{1, 2, 100}[lr.Intn(3)], Limit: []uint{0, 1, 3}[lr.Intn(3)]}
				onStable := n%2 == 0
				if onStable {
					a.To = stableTo
				} else {
					a.To = int64(in.Base + 20)
				}
				q := rd.query(a)
				queries.Add(1)
				if q.err != "" {
					switch {
					case len(q.err) > 5 && q.err[:5] == "panic": // (V3)
						dmu.Lock()
						diverge("event-query-concurrent:panic:reader", fmt.Sprintf("query %s over 0..%d: %s", filterString(f), a.To, q.err), nil, nil)
						dmu.Unlock()
						return
					case q.err == "nontermination" && onStable: // (V1): the pages of a stable range never end
						dmu.Lock()
						diverge("event-query-concurrent:stable-range-nontermination", fmt.Sprintf("query %s over 0..%d (chunk %d, limit %d) does not terminate", filterString(f), a.To, a.Chunk, a.Limit), nil, nil)
						dmu.Unlock()
						return
					case q.err == "nontermination":
						obs.add("nontermination", fmt.Sprintf("query %s over 0..%d overlapping concurrent reorgs does not terminate", filterString(f), a.To))
					default:
						tolerated.Add(1)
					}
					continue
				}
				got := concat(q.pages)
				if onStable {
					stableChecks.Add(1)
					want := rd.naive(a)
					if !eqRefs(got, want) || q.bad != "" {
						dmu.Lock()
						diverge("event-query-concurrent:stable-range-"+classify(got, want),
							fmt.Sprintf("while blocks above %d were being stored/reverted, query %s over 0..%d (chunk %d, limit %d) returned %v %s; these blocks never changed and hold %v",
								stableTo, filterString(f), a.To, a.Chunk, a.Limit, got, q.bad, want), want, got)
						dmu.Unlock()
						return
					}
					continue
				}
				// the range overlaps blocks that are being stored/reverted: OBSERVATIONS only
				if q.bad != "" {
					obs.add("foreign-event", fmt.Sprintf("query %s over 0..%d returned %v: %s", filterString(f), a.To, got, q.bad))
				}
				for i := 1; i < len(got); i++ {
					p, c := got[i-1], got[i]
					if c.B < p.B || (c.B == p.B && (c.T < p.T || (c.T == p.T && c.I <= p.I))) {
						obs.add("order", fmt.Sprintf("query %s over 0..%d returned %v: not in chain order / duplicate", filterString(f), a.To, got))
						break
					}
				}
			}
		}(ri)
	}
	// ---- writer: reorgs around the boundary; never touches the stable prefix
	writerDone := make(chan struct{})
	go func() {
		defer close(writerDone)
		defer func() {
			if p := recover(); p != nil {
				dmu.Lock()
				diverge("event-index-concurrent:panic:writer", fmt.Sprintf("Store/RevertHead panics while queries run: %v", p), nil, nil)
				dmu.Unlock()
			}
		}()
		for i := 0; i < in.Reorgs; i++ {
			height := len(r.oracle)                                  // modelled blocks
			depth := 1 + rnd.Intn(height-int(stable))               // never below the stable prefix
			if depth > 4 {
				depth = 4
			}
			for d := 0; d < depth; d++ {
				if err := r.node.BC.RevertHead(); err != nil {
					dmu.Lock()
					diverge("event-index-concurrent:revert-failed", fmt.Sprintf("RevertHead while queries run: %v", err), nil, nil)
					dmu.Unlock()
					return
				}
				r.oracle = r.oracle[:len(r.oracle)-1]
				if rnd.Intn(3) == 0 {
					time.Sleep(time.Duration(rnd.Intn(3)) * time.Millisecond)
				}
			}
			grow := depth + rnd.Intn(3) - 1
			if len(r.oracle)+grow > 9 {
				grow = 9 - len(r.oracle)
			}
			if len(r.oracle)+grow < 4 {
				grow = 4 - len(r.oracle) // re-complete the window most of the time
			}
			for g := 0; g < grow; g++ {
				if err := storeOne(randBlock()); err != nil {
					dmu.Lock()
					key := "event-index-concurrent:store-failed"
					diverge(key, fmt.Sprintf("Store of block %d while queries run: %v", in.Base+uint64(len(r.oracle)), err), nil, nil)
					dmu.Unlock()
					return
				}
			}
			if rnd.Intn(4) == 0 {
				time.Sleep(time.Duration(rnd.Intn(8)) * time.Millisecond) // let queries warm the cache
			}
			// checkpoint: the writer is the only mutator, so between two of its calls the chain is fixed
			// and a query it issues itself must be exact although the readers keep running - whatever
			// they did during the reorg (e.g. caching a window that was being replaced) must not show
			f := filters[rnd.Intn(len(filters))]
			a := &mAct{Name: "Query", F: f, From: 0, To: int64(in.Base + 20), Chunk: []uint64{2, 100}[rnd.Intn(2)], Limit: 0}
			q := r.query(a)
			want, got := r.naive(a), concat(q.pages)
			if q.err != "" || q.bad != "" || !eqRefs(got, want) {
				key := "event-query-concurrent:checkpoint-" + classify(got, want)
				if q.err != "" || q.bad != "" {
					key = "event-query-concurrent:checkpoint-error"
				} else if dk := r.diagnose(a, got, want); dk == keyStaleCache {
					key = "event-index:stale-cache-after-concurrent-query-during-reorg"
				} else if dk != "" {
					key = dk
				}
				dmu.Lock()
				diverge(key, fmt.Sprintf("between two calls of the only writer (reorg %d done, head %d) query %s over 0..%d (chunk %d) returns %v %s%s, the stored receipts hold %v",
					i, in.Base+uint64(len(r.oracle))-1, filterString(f), a.To, a.Chunk, got, q.err, q.bad, want), want, got)
				dmu.Unlock()
				return
			}
		}
	}()
	select {
	case <-writerDone:
	case <-time.After(600 * time.Second):
		obs.add("hang:writer", "Store/RevertHead did not finish within 600 s while queries ran")
		stop.Store(true)
		return
	}
	stop.Store(true)
	readersDone := make(chan struct{})
	go func() { wg.Wait(); close(readersDone) }()
	select {
	case <-readersDone:
	case <-time.After(120 * time.Second):
		obs.add("hang:reader", "a concurrent query did not return within 120 s after the writer had finished")
		return
	}
	// ---- quiescence: the index must be exact again, before and after a restart
	for pass := 0; pass < 2; pass++ {
		for _, f := range filters {
			for _, cl := range [][2]uint64{{100, 0}, {1, 1}} {
				a := &mAct{Name: "Query", F: f, From: 0, To: int64(in.Base + 20), Chunk: cl[0], Limit: uint(cl[1])}
				r.retained = nil
				q := r.query(a)
				want := r.naive(a)
				got := concat(q.pages)
				if q.err != "" || q.bad != "" || !eqRefs(got, want) {
					key := "event-query-concurrent:quiescent-" + classify(got, want)
					if q.err != "" || q.bad != "" {
						key = "event-query-concurrent:quiescent-error"
					}
					if q.err == "" && q.bad == "" {
						if dk := r.diagnose(a, got, want); dk == keyStaleCache {
							key = "event-index:stale-cache-after-concurrent-query-during-reorg"
						} else if dk != "" {
							key = dk
						}
					}
					diverge(key, fmt.Sprintf("after the reorgs ended (pass %d: %s), query %s over 0..%d (chunk %d, limit %d) returns %v %s%s, the stored receipts hold %v",
						pass, []string{"same process", "after a graceful restart"}[pass], filterString(f), a.To, a.Chunk, a.Limit, got, q.err, q.bad, want), want, got)
					return
				}
			}
		}
		if pass == 0 {
			_ = r.node.BC.WriteRunningEventFilter()
			if n, err := r.newNode(r.mem); err == nil {
				r.node = n
			}
		}
	}
}

// Engine "subs" (specification growth G08): JSON-RPC subscriptions (rpc/v8, rpc/v9, rpc/v10
// subscription*.go, rpc/rpccore deduper) bound to spec/subs/Subs.tla.
//
// sut_test.go: the system under test and the harness's grip on it.
//
//   - a real blockchain.Blockchain (chainkit node, memory store) behind a thin blockchain.Reader
//     wrapper that can hand control to the harness right after Height()/HeadsHeader() returned
//     (the only point of the subscribe path that no other gate reaches);
//   - a real sync.Synchronizer that is never Run: the harness plays storeTask / revertHead / the
//     pre-confirmed poller on it — it stores and reverts through the Blockchain and then sends on
//     the Synchronizer's OWN feeds (private fields reached by reflection) exactly what sync.go /
//     poller.go send, in their order;
//   - the real rpc.Handler with Run() started (the four Tee goroutines per API version), the
//     real method tables of the three API versions on real jsonrpc.Servers;
//   - connections are io.ReadWriters handed to Server.HandleReadWriter message by message, the
//     way jsonrpc.Websocket does (same writer object for every message of a connection, so
//     Conn.Equal works).  A Write blocks until the harness accepts the frame of THAT subscription
//     (one rendezvous channel per subscription id): a subscription goroutine therefore always sits
//     at a point the harness chose — blocked in a write, idle in its select, or gone — and
//     testing/synctest decides "nothing more is coming" without any sleep.
package subs

import (
	"bytes"
	"context"
	"encoding/json"
	"errors"
	"fmt"
	"io"
	"reflect"
	stdsync "sync"
	"unsafe"

	"github.com/NethermindEth/juno/blockchain"
	"github.com/NethermindEth/juno/clients/feeder"
	"github.com/NethermindEth/juno/core"
	"github.com/NethermindEth/juno/core/felt"
	"github.com/NethermindEth/juno/core/pending"
	"github.com/NethermindEth/juno/db"
	"github.com/NethermindEth/juno/db/memory"
	_ "github.com/NethermindEth/juno/encoder/registry"
	"github.com/NethermindEth/juno/feed"
	"github.com/NethermindEth/juno/jsonrpc"
	"github.com/NethermindEth/juno/rpc"
	rpcv10 "github.com/NethermindEth/juno/rpc/v10"
	rpcv8 "github.com/NethermindEth/juno/rpc/v8"
	rpcv9 "github.com/NethermindEth/juno/rpc/v9"
	"github.com/NethermindEth/juno/starknet"
	"github.com/NethermindEth/juno/sync"
	"github.com/NethermindEth/juno/sync/preconfirmed"
	"github.com/NethermindEth/juno/utils/log"

	"verifharness/internal/chainkit"
)

var versions = []string{"v8", "v9", "v10"}

// ---------------------------------------------------------------- gated chain reader

// gatedReader is the blockchain.Reader the handlers see.  Every method is the real Blockchain's;
// Height and HeadsHeader (the first read of resolveBlockRange) call `afterHeight` AFTER the real
// value has been read and BEFORE it is returned: whatever the harness does there happens between
// the handler's height read and its feed subscriptions.
type gatedReader struct {
	*blockchain.Blockchain
	afterHeight func()
}

func (g *gatedReader) Height() (uint64, error) {
	h, err := g.Blockchain.Height()
	if f := g.afterHeight; f != nil {
		g.afterHeight = nil
		f()
	}
	return h, err
}

func (g *gatedReader) HeadsHeader() (*core.Header, error) {
	h, err := g.Blockchain.HeadsHeader()
	if f := g.afterHeight; f != nil {
		g.afterHeight = nil
		f()
	}
	return h, err
}

// l1GateStore is the node's key-value store; the ONE write it can hold back is the L1-head record
// (core.WriteL1Head), so that the harness decides what happens between the feed send and the
// database write of Blockchain.SetL1Head.
type l1GateStore struct {
	db.KeyValueStore
	mu   stdsync.Mutex
	hold chan struct{}
}

func (g *l1GateStore) Put(k, v []byte) error {
	if bytes.Equal(k, db.L1Height.Key()) {
		g.mu.Lock()
		h := g.hold
		g.hold = nil
		g.mu.Unlock()
		if h != nil {
			<-h
		}
	}
	return g.KeyValueStore.Put(k, v)
}

func (g *l1GateStore) arm() chan struct{} {
	g.mu.Lock()
	defer g.mu.Unlock()
	g.hold = make(chan struct{})
	return g.hold
}

// ---------------------------------------------------------------- fake gateway (feeder) status

type fakeFeeder struct {
	feeder.Reader // nil: any other call panics loudly
	mu            stdsync.Mutex
	status        map[felt.Felt]starknet.FinalityStatus
	calls         int
}

func (f *fakeFeeder) TransactionStatus(_ context.Context, h *felt.Felt) (starknet.TransactionStatus, error) {
	f.mu.Lock()
	defer f.mu.Unlock()
	f.calls++
	st, ok := f.status[*h]
	if !ok {
		st = starknet.NotReceived
	}
	return starknet.TransactionStatus{FinalityStatus: st, ExecutionStatus: starknet.Succeeded}, nil
}

func (f *fakeFeeder) set(h *felt.Felt, st starknet.FinalityStatus) {
	f.mu.Lock()
	defer f.mu.Unlock()
	f.status[*h] = st
}

// ---------------------------------------------------------------- the system under test

type sut struct {
	node    *chainkit.Node
	gstore  *l1GateStore
	reader  *gatedReader
	synchro *sync.Synchronizer
	storage *preconfirmed.ChainStorage
	handler *rpc.Handler
	servers map[string]*jsonrpc.Server
	feeder  *fakeFeeder

	heads  *feed.Feed[*core.Block]
	reorgs *feed.Feed[*sync.ReorgBlockRange]
	pcs    *feed.Feed[*pending.PreConfirmed]
	recvd  *feed.Feed[core.Transaction]

	cancel  context.CancelFunc
	runDone chan error
	nconn   int
}

func privateField[T any](obj any, name string) (T, error) {
	var zero T
	f := reflect.ValueOf(obj).Elem().FieldByName(name)
	if !f.IsValid() {
		return zero, fmt.Errorf("%T has no field %s any more", obj, name)
	}
	if f.Type() != reflect.TypeOf(zero) {
		return zero, fmt.Errorf("%T.%s has type %s, expected %s", obj, name, f.Type(), reflect.TypeOf(zero))
	}
	return *(*T)(unsafe.Pointer(f.UnsafeAddr())), nil
}

func newSUT(newState bool) (*sut, error) {
	gstore := &l1GateStore{KeyValueStore: memory.New()}
	node := chainkit.NewNode(gstore, newState)
	logger := log.NewNopZapLogger()
	s := &sut{node: node, gstore: gstore, servers: map[string]*jsonrpc.Server{}, feeder: &fakeFeeder{status: map[felt.Felt]starknet.FinalityStatus{}}}
	s.reader = &gatedReader{Blockchain: node.BC}
	s.synchro = sync.New(node.BC, nil, logger, 0, false, node.Store)
	var err error
	if s.storage, err = privateField[*preconfirmed.ChainStorage](s.synchro, "preConfirmed"); err != nil {
		return nil, err
	}
	if s.heads, err = privateField[*feed.Feed[*core.Block]](s.synchro, "newHeads"); err != nil {
		return nil, err
	}
	if s.reorgs, err = privateField[*feed.Feed[*sync.ReorgBlockRange]](s.synchro, "reorgFeed"); err != nil {
		return nil, err
	}
	if s.pcs, err = privateField[*feed.Feed[*pending.PreConfirmed]](s.synchro, "preConfirmedDataFeed"); err != nil {
		return nil, err
	}
	if s.storage == nil || s.heads == nil || s.reorgs == nil || s.pcs == nil {
		return nil, errors.New("sync.New left a feed or the pre-confirmed storage nil")
	}
	s.recvd = feed.New[core.Transaction]()
	s.handler = rpc.New(s.reader, s.synchro, nil, "verif", logger, chainkit.Network).
		WithFeeder(s.feeder).WithReceivedTransactionFeed(s.recvd)
	m8, _ := s.handler.MethodsV0_8()
	m9, _ := s.handler.MethodsV0_9()
	m10, _ := s.handler.MethodsV0_10()
	for _, x := range []struct {
		v  string
		ms []jsonrpc.Method
	}{{"v8", m8}, {"v9", m9}, {"v10", m10}} {
		srv := jsonrpc.NewServer(1, logger)
		switch x.v {
		case "v8":
			srv = srv.WithValidator(rpcv8.Validator())
		case "v9":
			srv = srv.WithValidator(rpcv9.Validator())
		default:
			srv = srv.WithValidator(rpcv10.Validator())
		}
		if err := srv.RegisterMethods(x.ms...); err != nil {
			return nil, err
		}
		s.servers[x.v] = srv
	}
	ctx, cancel := context.WithCancel(context.Background())
	s.cancel = cancel
	s.runDone = make(chan error, 1)
	go func() { s.runDone <- s.handler.Run(ctx) }()
	return s, nil
}

// stop ends Handler.Run (which waits for every subscription goroutine).
func (s *sut) stop() {
	s.cancel()
	<-s.runDone
}

// registered counts the entries of the version handler's subscription table.
func (s *sut) registered(version string) int {
	name := map[string]string{"v8": "rpcv8Handler", "v9": "rpcv9Handler", "v10": "rpcv10Handler"}[version]
	hf := reflect.ValueOf(s.handler).Elem().FieldByName(name)
	if !hf.IsValid() || hf.Kind() != reflect.Pointer {
		return -1
	}
	mf := hf.Elem().FieldByName("subscriptions")
	if !mf.IsValid() || mf.Type() != reflect.TypeOf(stdsync.Map{}) {
		return -1
	}
	m := (*stdsync.Map)(unsafe.Pointer(mf.UnsafeAddr()))
	n := 0
	m.Range(func(_, _ any) bool { n++; return true })
	return n
}

// ---------------------------------------------------------------- connections

var errConnClosed = errors.New("harness: connection closed")

// wframe is one Write in progress: the writer stays blocked until the harness takes the frame
// (release) or the connection closes.
type wframe struct {
	raw     []byte
	release chan struct{}
}

type conn struct {
	s      *sut
	id     int
	ctx    context.Context
	cancel context.CancelFunc
	mu     stdsync.Mutex
	pend   map[string][]*wframe // subscription id -> blocked notification writes (at most one per goroutine)
	resp   []*wframe            // blocked response writes
	r      io.Reader            // the message being handled
}

func (s *sut) newConn() *conn {
	s.nconn++
	ctx, cancel := context.WithCancel(context.Background())
	return &conn{s: s, id: s.nconn, ctx: ctx, cancel: cancel, pend: map[string][]*wframe{}}
}

func (c *conn) Read(p []byte) (int, error) { return c.r.Read(p) }

// Write is called by Server.HandleReadWriter (responses) and by subscription goroutines through
// jsonrpc's connection (notifications).  It returns when the harness took the frame, or fails
// once the connection is closed (as coder/websocket's writer does).
func (c *conn) Write(p []byte) (int, error) {
	var probe struct {
		Method string `json:"method"`
		Params struct {
			ID string `json:"subscription_id"`
		} `json:"params"`
	}
	if c.ctx.Err() != nil {
		return 0, errConnClosed
	}
	f := &wframe{raw: append([]byte{}, p...), release: make(chan struct{})}
	isNote := json.Unmarshal(p, &probe) == nil && probe.Method != ""
	c.mu.Lock()
	if isNote {
		c.pend[probe.Params.ID] = append(c.pend[probe.Params.ID], f)
	} else {
		c.resp = append(c.resp, f)
	}
	c.mu.Unlock()
	select {
	case <-f.release:
		return len(p), nil
	case <-c.ctx.Done():
		c.mu.Lock()
		if isNote {
			c.pend[probe.Params.ID] = dropFrame(c.pend[probe.Params.ID], f)
		} else {
			c.resp = dropFrame(c.resp, f)
		}
		c.mu.Unlock()
		return 0, errConnClosed
	}
}

func dropFrame(q []*wframe, f *wframe) []*wframe {
	out := q[:0:0]
	for _, x := range q {
		if x != f {
			out = append(out, x)
		}
	}
	return out
}

func decode(raw []byte) (map[string]any, error) {
	dec := json.NewDecoder(bytes.NewReader(raw))
	dec.UseNumber()
	var m map[string]any
	if err := dec.Decode(&m); err != nil {
		return nil, fmt.Errorf("unparsable frame %q: %v", string(raw), err)
	}
	return m, nil
}

// pendingCall is a request whose handler may still be running (Unsubscribe waits for the
// subscription goroutine, which may be blocked in a write the harness has not accepted yet).
type pendingCall struct {
	c    *conn
	done chan error
	raw  string
}

func (c *conn) start(version, method string, params any) *pendingCall {
	req := map[string]any{"jsonrpc": "2.0", "id": 1, "method": method}
	if params != nil {
		req["params"] = params
	}
	raw, _ := json.Marshal(req)
	c.r = bytes.NewReader(raw)
	pc := &pendingCall{c: c, done: make(chan error, 1), raw: string(raw)}
	srv := c.s.servers[version]
	go func() { pc.done <- srv.HandleReadWriter(c.ctx, 0, c) }()
	return pc
}

// answered reports (without taking it) whether the response is waiting to be written.
func (pc *pendingCall) answered() bool {
	pc.c.mu.Lock()
	defer pc.c.mu.Unlock()
	return len(pc.c.resp) > 0
}

// poll takes the response if the handler has produced it (call after synctest.Wait()).
func (pc *pendingCall) poll() (map[string]any, bool, error) {
	pc.c.mu.Lock()
	if len(pc.c.resp) == 0 {
		pc.c.mu.Unlock()
		select {
		case err := <-pc.done:
			if err == nil {
				err = errors.New("handler returned without a response")
			}
			return nil, true, err
		default:
			return nil, false, nil
		}
	}
	f := pc.c.resp[0]
	pc.c.resp = pc.c.resp[1:]
	pc.c.mu.Unlock()
	close(f.release)
	if err := <-pc.done; err != nil {
		return nil, true, err
	}
	m, err := decode(f.raw)
	return m, true, err
}

// peek returns the frame subscription `id` is blocked on, if it is blocked in a write right now
// (call after synctest.Wait()); take also lets the write return.
func (c *conn) peek(id string) (map[string]any, bool) {
	c.mu.Lock()
	defer c.mu.Unlock()
	if q := c.pend[id]; len(q) > 0 {
		m, err := decode(q[0].raw)
		if err != nil {
			return map[string]any{"unparsable": err.Error()}, true
		}
		return m, true
	}
	return nil, false
}

func (c *conn) take(id string) (map[string]any, bool) {
	m, ok := c.peek(id)
	if !ok {
		return nil, false
	}
	c.mu.Lock()
	f := c.pend[id][0]
	c.pend[id] = c.pend[id][1:]
	c.mu.Unlock()
	close(f.release)
	return m, true
}

// strays: notification frames for subscription ids the harness does not know on this connection.
func (c *conn) ids() []string {
	c.mu.Lock()
	defer c.mu.Unlock()
	var out []string
	for id, q := range c.pend {
		if len(q) > 0 {
			out = append(out, id)
		}
	}
	return out
}

func (c *conn) close() { c.cancel() }

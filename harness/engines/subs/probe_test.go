// probe_test.go: TestSubsProbe — directed scripts on the real handlers (same bubble, same gates as
// the replay) for what the exhaustive TLC runs of Subs.tla exhibit when one of the environment
// assumptions NoLag / QuietSub / ReorgPrio is dropped, and for the FixL1None switch.  Every script
// evaluates the USER-LEVEL property on the frames the real code delivered (a Go twin of
// Subs!FoldHeads / FoldEvents): a deviation that is present is reported under its own key (matched
// against known_findings.json by the driver), an absent one is counted.  The stats tell the check
// which model describes THIS code (FixL1None) and which deviations it must expect.
// TestSubsProbe also holds the MaxBlocksBack boundary (1024 blocks), which the small models keep
// symbolic.
package subs

import (
	"fmt"
	"testing"
	"testing/synctest"

	"verifharness/internal/vh"
)

type probe struct {
	r   *replayer
	tag int
	tx  int
	err error
}

func (p *probe) do(a action) resT {
	if p.err != nil {
		return resT{}
	}
	obs, err := p.r.apply(&step{A: a, Res: resT{Kind: "wait"}})
	if err != nil {
		p.err = err
	}
	p.r.settle()
	return obs
}

func (p *probe) store(ntx int) int {
	p.tag++
	var txs []int
	for i := 0; i < ntx; i++ {
		p.tx++
		txs = append(txs, p.tx)
	}
	p.do(action{Name: "Store", Tag: p.tag, H: len(p.r.chain), Txs: txs})
	return p.tag
}
func (p *probe) send() { p.do(action{Name: "SyncSend"}) }
func (p *probe) sendAll() {
	for len(p.r.notify) > 0 && p.err == nil {
		p.send()
	}
}
func (p *probe) revert() { p.do(action{Name: "Revert"}) }

// subscribe = SubResolve, then `inWindow` between the height read and the registration, then SubRegister.
func (p *probe) subscribe(s int, a action, inWindow func()) resT {
	a.Name, a.S, a.C = "SubResolve", s, 1
	p.do(a)
	if inWindow != nil {
		inWindow()
	}
	return p.do(action{Name: "SubRegister", S: s})
}

// drain takes every frame subscription s has or produces until it is idle (or gone).
func (p *probe) drain(s int) []frameT {
	var out []frameT
	for i := 0; i < 5000 && p.err == nil; i++ {
		m, ok := p.r.subConn[s].take(p.r.subID[s])
		if !ok {
			break
		}
		f, _ := p.r.w.project(p.r.ver, m, p.r.receipts(s), noFrame)
		out = append(out, f)
		p.r.settle()
	}
	return out
}

// foldHeads: a client applying heads / reorg frames (Subs!FoldHeads).
func (p *probe) foldHeads(fs []frameT, start int) string {
	w := p.r.w
	var view []int
	base := start
	parentTag := func(t int) int {
		if b := w.built[t]; b != nil {
			if pt, ok := w.tagByH[b.Block.ParentHash.String()]; ok {
				return pt
			}
		}
		return 0
	}
	for i, f := range fs {
		top := base + len(view) - 1
		switch f.K {
		case "head":
			if f.B != base+len(view) {
				if f.B <= top {
					return fmt.Sprintf("frame %d: header of block %d delivered again / without a reorg notice (client holds up to %d)", i, f.B, top)
				}
				return fmt.Sprintf("frame %d: header of block %d while the client expects %d (gap)", i, f.B, base+len(view))
			}
			if len(view) > 0 && parentTag(f.A) != view[len(view)-1] {
				return fmt.Sprintf("frame %d: header of block %d does not extend the previous delivered header (no reorg notice in between)", i, f.B)
			}
			if f.C != f.A {
				return fmt.Sprintf("frame %d: header of block tag %d carries the commitments of block tag %d", i, f.A, f.C)
			}
			view = append(view, f.A)
		case "reorg":
			switch {
			case len(view) == 0:
				base = min(base, f.A)
			case f.A > top:
			case f.A < base:
				if f.C < top {
					return fmt.Sprintf("frame %d: reorg notice ends at %d below the client's top %d", i, f.C, top)
				}
				view, base = nil, f.A
			default:
				if f.C < top || view[f.A-base] != f.B {
					return fmt.Sprintf("frame %d: reorg notice %d..%d does not name the client's top range", i, f.A, f.C)
				}
				view = view[:f.A-base]
			}
		}
	}
	// completeness against the chain the node holds
	chain := p.r.chain
	for n := base; n < len(chain); n++ {
		if n-base >= len(view) {
			return fmt.Sprintf("after everything was consumed the client misses block %d (and above)", n)
		}
		if view[n-base] != chain[n] {
			return fmt.Sprintf("after everything was consumed the client holds another block %d than the node", n)
		}
	}
	if len(view) > max(0, len(chain)-base) {
		return "the client holds blocks above the node's head and no reorg notice is pending"
	}
	return ""
}

// foldEvents: canonical events after applying reorg notices vs the matching events of the chain.
func (p *probe) foldEvents(fs []frameT, start int) string {
	type ev struct{ tag, num, tx int }
	var have []ev
	for _, f := range fs {
		switch {
		case f.K == "event" && f.A != 0:
			have = append(have, ev{f.A, f.B, f.C})
		case f.K == "reorg":
			k := have[:0:0]
			for _, e := range have {
				if e.num < f.A {
					k = append(k, e)
				}
			}
			have = k
		}
	}
	var want []ev
	for n := start; n < len(p.r.chain); n++ {
		b := p.r.w.built[p.r.chain[n]]
		for _, tx := range b.Block.Transactions {
			want = append(want, ev{p.r.chain[n], n, p.r.w.txByH[tx.Hash().String()]})
		}
	}
	if fmt.Sprint(have) != fmt.Sprint(want) {
		return fmt.Sprintf("events held by the client %v, matching events of the chain %v (tag, block, tx)", have, want)
	}
	return ""
}

type probeCase struct {
	key      string // deviation key (the version is appended)
	versions []int
	startL1  int
	run      func(p *probe) (present bool, detail string)
	repeat   int // scripts that depend on the select's random choice are repeated
}

func heads(bid bidT) action { return action{Kind: "heads", Bid: &bid} }
func events(bid bidT, flp bool) action {
	return action{Kind: "events", Bid: &bid, Flp: flp}
}

var latest = bidT{K: "latest"}

func probeCases() []probeCase {
	all := []int{8, 9, 10}
	return []probeCase{
		{key: "subs:events:internal-error-without-l1-head", versions: []int{9, 10}, startL1: -1, run: func(p *probe) (bool, string) {
			res := p.subscribe(1, events(latest, false), nil)
			return res.Kind == "error" && res.Code == -32603, fmt.Sprintf("starknet_subscribeEvents on a node without an L1 head answered %+v", res)
		}},
		{key: "subs:heads:gap:slow-consumer", versions: all, run: func(p *probe) (bool, string) {
			p.subscribe(1, heads(latest), nil) // blocked on the header of block 2: the client does not read
			for i := 0; i < 3; i++ {
				p.store(0)
				p.sendAll()
			}
			why := p.foldHeads(p.drain(1), 2)
			return why != "", why
		}},
		{key: "subs:events:gap:slow-consumer", versions: all, run: func(p *probe) (bool, string) {
			p.store(1)
			p.sendAll()
			p.subscribe(1, events(latest, false), nil) // blocked on the event of block 3
			for i := 0; i < 3; i++ {
				p.store(1)
				p.sendAll()
			}
			why := p.foldEvents(p.drain(1), 3)
			return why != "", why
		}},
		{key: "subs:heads:gap:block-stored-between-height-read-and-feed-subscription", versions: all, run: func(p *probe) (bool, string) {
			p.subscribe(1, heads(latest), func() { p.store(0); p.sendAll() })
			fs := p.drain(1)
			p.store(0)
			p.sendAll()
			why := p.foldHeads(append(fs, p.drain(1)...), 2)
			return why != "", why
		}},
		{key: "subs:events:gap:block-stored-between-height-read-and-feed-subscription", versions: all, run: func(p *probe) (bool, string) {
			p.subscribe(1, events(latest, false), func() { p.store(1); p.sendAll() })
			fs := p.drain(1)
			p.store(1)
			p.sendAll()
			why := p.foldEvents(append(fs, p.drain(1)...), 2)
			return why != "", why
		}},
		{key: "subs:heads:duplicate:head-sent-after-subscription-of-a-stored-block", versions: all, run: func(p *probe) (bool, string) {
			p.store(0) // stored, its head not sent yet (storeTask between Store and newHeads.Send)
			p.subscribe(1, heads(latest), nil)
			fs := p.drain(1)
			p.sendAll()
			why := p.foldHeads(append(fs, p.drain(1)...), 3)
			return why != "", why
		}},
		{key: "subs:events:duplicate:head-sent-after-subscription-of-a-stored-block", versions: all, run: func(p *probe) (bool, string) {
			p.store(1)
			p.subscribe(1, events(latest, false), nil)
			fs := p.drain(1)
			p.sendAll()
			why := p.foldEvents(append(fs, p.drain(1)...), 3)
			return why != "", why
		}},
		{key: "subs:heads:new-fork-header-before-reorg-notice", versions: all, repeat: 64, run: func(p *probe) (bool, string) {
			p.subscribe(1, heads(latest), nil) // blocked on the header of block 2
			p.revert()
			p.store(0)
			p.sendAll() // reorg notice and new head both wait in their slots: the select has no priority
			why := p.foldHeads(p.drain(1), 2)
			return why != "", why
		}},
		{key: "subs:heads:silent-end:head-of-a-reverted-block", versions: []int{10}, run: func(p *probe) (bool, string) {
			p.subscribe(1, heads(latest), nil)
			p.store(0)
			p.sendAll()
			p.revert()
			fs := p.drain(1)
			reg := p.r.s.registered(p.r.version)
			return reg == 0, fmt.Sprintf("frames %v; the subscription was dropped from the handler's table without unsubscribe (registered=%d): BlockCommitmentsByNumber of the reverted block failed", fs, reg)
		}},
		{key: "subs:heads:silent-end:revert-during-catch-up", versions: all, run: func(p *probe) (bool, string) {
			p.subscribe(1, heads(bidT{K: "num", N: 0}), nil) // blocked on the header of block 0
			p.revert()
			p.revert()
			fs := p.drain(1)
			reg := p.r.s.registered(p.r.version)
			return reg == 0, fmt.Sprintf("frames %v; subscription dropped silently (registered=%d) when the catch-up loop reached a reverted height", fs, reg)
		}},
		{key: "subs:events:catch-up-reaches-preconfirmed-chain", versions: []int{9, 10}, run: func(p *probe) (bool, string) {
			p.store(1)
			p.sendAll()
			var fs []frameT
			p.subscribe(1, events(bidT{K: "num", N: 0}, false), func() { // height read: 3; then the head is reverted and a pre-confirmed round opens at 3
				p.revert()
				p.tx++
				p.do(action{Name: "PcFull", Num: 3, Rid: 1, Txs: []int{p.tx}})
			})
			fs = p.drain(1)
			for _, f := range fs {
				if f.K == "event" && f.A == 0 && f.D != finPreConf {
					return true, fmt.Sprintf("frames %v: the catch-up of a subscription that did NOT ask for PRE_CONFIRMED delivered a pre-confirmed event (no block hash) labelled %d", fs, f.D)
				}
			}
			return false, fmt.Sprint(fs)
		}},
		{key: "subs:status:accepted-on-l1-missed:l1-head-event-handled-before-database-write", versions: []int{9, 10}, run: func(p *probe) (bool, string) {
			p.store(1)
			p.sendAll()
			p.subscribe(1, action{Kind: "status", Tx: p.tx}, nil)
			fs := p.drain(1) // ACCEPTED_ON_L2
			p.r.gatedL1 = true
			p.do(action{Name: "SetL1", N: 3}) // SetL1Head: the event is on the feed, the database not yet written: the subscriber handles it now
			p.do(action{Name: "L1Write"})
			fs = append(fs, p.drain(1)...)
			for _, f := range fs {
				if f.K == "status" && f.A == finL1 {
					return false, fmt.Sprint(fs)
				}
			}
			return true, fmt.Sprintf("frames %v: the transaction's block is at the L1 head, the L1-head event was handled, ACCEPTED_ON_L1 was not reported (and will not be before the NEXT L1 head)", fs)
		}},
		{key: "subs:status:stale-after-reorg", versions: []int{9, 10}, run: func(p *probe) (bool, string) {
			t := p.store(1)
			_ = t
			p.sendAll()
			p.subscribe(1, action{Kind: "status", Tx: p.tx}, nil)
			fs := p.drain(1)
			p.revert()
			p.store(0)
			p.sendAll()
			fs = append(fs, p.drain(1)...)
			// the node no longer knows the transaction; the subscriber was told ACCEPTED_ON_L2 and a reorg range, nothing else
			last := 0
			for _, f := range fs {
				if f.K == "status" {
					last = f.A
				}
			}
			stale := last == finL2 && p.r.s.registered(p.r.version) == 1
			p.do(action{Name: "SetL1", N: 0})
			after := p.drain(1)
			return stale && len(after) == 0 && p.r.s.registered(p.r.version) == 0,
				fmt.Sprintf("frames %v; after the reorg the status is not looked at again; the next L1 head ends the subscription without a word (frames %v, registered=%d)", fs, after, p.r.s.registered(p.r.version))
		}},
	}
}

func TestSubsProbe(t *testing.T) {
	if !vh.Enabled() {
		t.Skip("driver only")
	}
	var in struct {
		Only string `json:"only"`
	}
	_ = vh.Input(&in)
	out := vh.NewResult()
	defer out.Write()
	for _, pc := range probeCases() {
		if in.Only != "" && in.Only != pc.key {
			continue
		}
		for _, ver := range pc.versions {
			version := map[int]string{8: "v8", 9: "v9", 10: "v10"}[ver]
			present, detail, herr := false, "", error(nil)
			rounds := max(1, pc.repeat)
			n := 0
			for ; n < rounds && !present && herr == nil; n++ {
				bubble(t, func(t *testing.T) {
					s, err := newSUT(false)
					if err != nil {
						herr = err
						return
					}
					r := &replayer{t: t, ver: ver, version: version, w: newWorld(vh.Seed()*77 + int64(n)), s: s, conns: map[int]*conn{},
						subID: map[int]string{}, subConn: map[int]*conn{}, subAct: map[int]action{}, unsub: map[int]*pendingCall{}}
					p := &probe{r: r}
					for i := 0; i < 3; i++ { // blocks 0..2
						p.store(0)
					}
					r.notify = nil
					if pc.startL1 >= 0 {
						p.do(action{Name: "SetL1", N: pc.startL1})
					}
					present, detail = pc.run(p)
					herr = p.err
					if r.gateRelease != nil {
						close(r.gateRelease)
					}
					for _, c := range r.conns {
						c.close()
					}
					synctest.Wait()
					s.stop()
				})
				out.Done(1, 0)
			}
			key := pc.key + ":" + version
			switch {
			case herr != nil:
				if d, ok := herr.(*divergence); ok {
					out.Diverge(vh.Divergence{Key: d.key + ":" + version, What: "probe " + pc.key + ": " + d.what, Input: vh.J{"only": pc.key}, Expected: d.exp, Observed: d.obs})
				} else {
					out.Diverge(vh.Divergence{Key: "harness:probe", What: "HARNESS PROBLEM (not a verdict about juno): " + herr.Error(), Input: vh.J{"only": pc.key}})
					out.Count("harness_errors", 1)
				}
			case present:
				out.Count("present:"+key, 1)
				out.Diverge(vh.Divergence{Key: key, What: detail, Input: vh.J{"only": pc.key}, Step: n})
			default:
				out.Count("absent:"+key, 1)
			}
		}
	}
}

package subs

package subs

import (
	"context"
	"fmt"
	"os"
	"testing"
	"testing/synctest"
	"time"

	"github.com/NethermindEth/juno/core"

	"verifharness/internal/chainkit"
)

// TestSubsSmoke is a development aid (VERIF_SUBS_SMOKE=1): the plumbing on one tiny scenario.
func TestSubsSmoke(t *testing.T) {
	if os.Getenv("VERIF_SUBS_SMOKE") == "" {
		t.Skip("development aid")
	}
	synctest.Test(t, func(t *testing.T) {
		s, err := newSUT(false)
		if err != nil {
			t.Fatal(err)
		}
		defer s.stop()
		store := func() *chainkit.Built {
			b, err := s.node.Append(chainkit.BlockSpec{Version: "0.14.0", Timestamp: uint64(time.Now().Unix())})
			if err != nil {
				t.Fatal(err)
			}
			return b
		}
		for i := 0; i < 3; i++ {
			store()
		}
		c := s.newConn()
		for _, v := range versions {
			resp, err := c.call(v, "starknet_subscribeNewHeads", map[string]any{"block_id": map[string]any{"block_number": 1}})
			fmt.Println(v, "subscribe:", resp, err)
			id := fmt.Sprint(resp["result"])
			synctest.Wait()
			for k := 0; k < 2; k++ {
				fr, ok := c.take(id)
				fmt.Println(v, "frame", ok, brief(fr))
				synctest.Wait()
			}
			b := store()
			s.heads.Send(b.Block)
			synctest.Wait()
			fr, ok := c.take(id)
			fmt.Println(v, "live frame", ok, brief(fr))
			synctest.Wait()
			_, ok = c.take(id)
			fmt.Println(v, "no more:", !ok, "registered:", s.registered(v))
			if err := s.node.BC.SetL1Head(&core.L1Head{BlockNumber: 1, BlockHash: b.Block.Hash, StateRoot: b.Block.GlobalStateRoot}); err != nil {
				t.Fatal(err)
			}
			resp, err = c.call(v, "starknet_unsubscribe", map[string]any{"subscription_id": id})
			fmt.Println(v, "unsubscribe:", resp, err, "registered:", s.registered(v))
		}
		c.close()
		synctest.Wait()
		_ = context.Background
	})
}

func brief(m map[string]any) string {
	if m == nil {
		return "<nil>"
	}
	p, _ := m["params"].(map[string]any)
	r, _ := p["result"].(map[string]any)
	return fmt.Sprintf("%v %v #%v", m["method"], p["subscription_id"], r["block_number"])
}

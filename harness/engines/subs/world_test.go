// world_test.go: behaviour format (SubsMBT.tla), concretisation of the model's abstract ids
// (transaction ids -> transactions with real hashes, senders and one event each; tags -> blocks
// built by the real Blockchain), the wire form of pre-confirmed updates (what the poller hands to
// ChainStorage.ApplyUpdate) and the projection of real notification frames onto the model's frames.
package subs

import (
	"fmt"
	"math/big"
	"strings"

	"github.com/NethermindEth/juno/core"
	"github.com/NethermindEth/juno/core/felt"
	"github.com/NethermindEth/juno/starknet"

	"verifharness/internal/chainkit"
)

// ---------------------------------------------------------------- behaviour format

type frameT struct {
	K string `json:"k"`
	A int    `json:"a"`
	B int    `json:"b"`
	C int    `json:"c"`
	D int    `json:"d"`
}

var noFrame = frameT{K: "none"}

type bidT struct {
	K string `json:"k,omitempty"`
	N int    `json:"n,omitempty"`
}

type action struct {
	Name string `json:"name"`
	S    int    `json:"s,omitempty"`
	C    int    `json:"c,omitempty"`
	Kind string `json:"kind,omitempty"`
	Bid  *bidT  `json:"bid,omitempty"`
	Flt  bool   `json:"flt,omitempty"`
	Fl2  bool   `json:"fl2,omitempty"`
	Flp  bool   `json:"flp,omitempty"`
	Flr  bool   `json:"flr,omitempty"`
	Tx   int    `json:"tx,omitempty"`
	Tag  int    `json:"tag,omitempty"`
	H    int    `json:"h,omitempty"`
	Txs  []int  `json:"txs,omitempty"`
	F    string `json:"f,omitempty"`
	N    int    `json:"n,omitempty"`
	Num  int    `json:"num,omitempty"`
	Rid  int    `json:"rid,omitempty"`
	Base int    `json:"base,omitempty"`
	T    int    `json:"t,omitempty"`
	St   int    `json:"st,omitempty"`
}

type resT struct {
	Kind string  `json:"kind"`
	Code int     `json:"code"`
	F    *frameT `json:"f"`
}

type postT struct {
	Pend  []frameT `json:"pend"`
	Reg   int      `json:"reg"`
	St    []string `json:"st"`
	Chain []int    `json:"chain"`
	Quiet bool     `json:"quiet"`
	L1    int      `json:"l1"`
}

type step struct {
	A    action `json:"a"`
	Res  resT   `json:"res"`
	Post postT  `json:"post"`
}

type behaviour struct {
	Steps []step `json:"steps"`
}

type input struct {
	Ver        int         `json:"ver"`
	InitLen    int         `json:"initlen"`
	StartL1    int         `json:"startl1"`
	FixL1Order bool        `json:"fixl1order"`
	Behaviours []behaviour `json:"behaviours"`
	First      int         `json:"first"`
}

// ---------------------------------------------------------------- concretisation

const (
	finReceived  = 1
	finCandidate = 2
	finPreConf   = 3
	finL2        = 4
	finL1        = 5
)

var finName = map[string]int{"RECEIVED": finReceived, "CANDIDATE": finCandidate, "PRE_CONFIRMED": finPreConf,
	"ACCEPTED_ON_L2": finL2, "ACCEPTED_ON_L1": finL1}

type world struct {
	seed    int64
	sendA   *felt.Felt // sender / emitter of odd transactions (what a filter selects)
	sendB   *felt.Felt
	key     *felt.Felt
	txs     map[int]core.Transaction
	rcs     map[int]*core.TransactionReceipt
	txByH   map[string]int
	built   map[int]*chainkit.Built // tag -> block as built
	tagByH  map[string]int
	unknown *felt.Felt
}

func newWorld(seed int64) *world {
	g := chainkit.NewGen(seed*104729 + 7)
	return &world{seed: seed, sendA: g.Felt(), sendB: g.Felt(), key: g.Felt(), txs: map[int]core.Transaction{},
		rcs: map[int]*core.TransactionReceipt{}, txByH: map[string]int{}, built: map[int]*chainkit.Built{}, tagByH: map[string]int{},
		unknown: g.Felt()}
}

// tx builds (once) transaction t: odd ids are sent by A (invoke v3 / declare v3 alternating) and emit
// one event from A, even ids are sent by B (invoke v1) or have no sender at all (L1 handler) and
// emit one event from B.
func (w *world) tx(t int) (core.Transaction, *core.TransactionReceipt) {
	if tx, ok := w.txs[t]; ok {
		return tx, w.rcs[t]
	}
	g := chainkit.NewGen(w.seed*1000003 + int64(t))
	var tx core.Transaction
	from := w.sendB
	switch t % 4 {
	case 1:
		tx = g.Tx("invoke3")
		tx.(*core.InvokeTransaction).SenderAddress = w.sendA
		from = w.sendA
	case 3:
		tx = g.Tx("declare3")
		tx.(*core.DeclareTransaction).SenderAddress = w.sendA
		from = w.sendA
	case 0:
		tx = g.Tx("invoke1")
		tx.(*core.InvokeTransaction).SenderAddress = w.sendB
	default:
		tx = g.Tx("l1handler")
	}
	h, err := core.TransactionHash(tx, chainkit.Network)
	if err != nil {
		panic(err)
	}
	chainkit.SetTxHash(tx, &h)
	ev := &core.Event{From: from, Keys: []felt.Felt{*w.key}, Data: []felt.Felt{*chainkit.F(uint64(t))}}
	rc := g.Receipt(tx, []*core.Event{ev})
	rc.Reverted, rc.RevertReason = false, ""
	w.txs[t], w.rcs[t] = tx, rc
	w.txByH[tx.Hash().String()] = t
	return tx, rc
}

func (w *world) spec(tag, h int, txs []int) chainkit.BlockSpec {
	ts := make([]core.Transaction, 0, len(txs))
	rs := make([]*core.TransactionReceipt, 0, len(txs))
	for _, t := range txs {
		tx, rc := w.tx(t)
		ts = append(ts, tx)
		rs = append(rs, rc)
	}
	return chainkit.BlockSpec{Version: "0.14.0", Timestamp: uint64(1_700_000_000 + 100*h + tag), Diff: chainkit.EmptyDiff(), Txs: ts, Receipts: rs}
}

// ---------------------------------------------------------------- wire format of pre-confirmed updates

func feltsPtr(f []felt.Felt) *[]felt.Felt { out := append([]felt.Felt{}, f...); return &out }

func wireBounds(rb map[core.Resource]core.ResourceBounds) *map[starknet.Resource]starknet.ResourceBounds {
	if rb == nil {
		return nil
	}
	out := map[starknet.Resource]starknet.ResourceBounds{}
	for r, b := range rb {
		out[starknet.Resource(r)] = starknet.ResourceBounds{MaxAmount: chainkit.F(b.MaxAmount), MaxPricePerUnit: b.MaxPricePerUnit}
	}
	return &out
}

func wireDA(m core.DataAvailabilityMode) *starknet.DataAvailabilityMode {
	x := starknet.DataAvailabilityMode(m)
	return &x
}

func wireTx(tx core.Transaction) starknet.Transaction {
	switch x := tx.(type) {
	case *core.InvokeTransaction:
		t := starknet.Transaction{Hash: x.TransactionHash.Clone(), Type: starknet.TxnInvoke, Version: (*felt.Felt)(x.Version).Clone(),
			ContractAddress: x.ContractAddress, EntryPointSelector: x.EntryPointSelector, SenderAddress: x.SenderAddress,
			Nonce: x.Nonce, MaxFee: x.MaxFee, CallData: feltsPtr(x.CallData), Signature: feltsPtr(x.TransactionSignature)}
		if x.ResourceBounds != nil {
			t.ResourceBounds = wireBounds(x.ResourceBounds)
			t.Tip = chainkit.F(x.Tip)
			t.PaymasterData = feltsPtr(x.PaymasterData)
			t.AccountDeploymentData = feltsPtr(x.AccountDeploymentData)
			t.NonceDAMode, t.FeeDAMode = wireDA(x.NonceDAMode), wireDA(x.FeeDAMode)
		}
		return t
	case *core.L1HandlerTransaction:
		return starknet.Transaction{Hash: x.TransactionHash.Clone(), Type: starknet.TxnL1Handler, Version: (*felt.Felt)(x.Version).Clone(),
			ContractAddress: x.ContractAddress, EntryPointSelector: x.EntryPointSelector, Nonce: x.Nonce, CallData: feltsPtr(x.CallData)}
	case *core.DeclareTransaction:
		t := starknet.Transaction{Hash: x.TransactionHash.Clone(), Type: starknet.TxnDeclare, Version: (*felt.Felt)(x.Version).Clone(),
			ClassHash: x.ClassHash, SenderAddress: x.SenderAddress, MaxFee: x.MaxFee, Signature: feltsPtr(x.TransactionSignature),
			Nonce: x.Nonce, CompiledClassHash: x.CompiledClassHash}
		if x.ResourceBounds != nil {
			t.ResourceBounds = wireBounds(x.ResourceBounds)
			t.Tip = chainkit.F(x.Tip)
			t.PaymasterData = feltsPtr(x.PaymasterData)
			t.AccountDeploymentData = feltsPtr(x.AccountDeploymentData)
			t.NonceDAMode, t.FeeDAMode = wireDA(x.NonceDAMode), wireDA(x.FeeDAMode)
		}
		return t
	}
	panic(fmt.Sprintf("subs: unsupported tx kind %T", tx))
}

func wireReceipt(rc *core.TransactionReceipt, idx int) *starknet.TransactionReceipt {
	evs := make([]*starknet.Event, len(rc.Events))
	for i, e := range rc.Events {
		evs[i] = &starknet.Event{From: e.From.Clone(), Keys: append([]felt.Felt{}, e.Keys...), Data: append([]felt.Felt{}, e.Data...)}
	}
	return &starknet.TransactionReceipt{TransactionHash: rc.TransactionHash.Clone(), ActualFee: rc.Fee.Clone(), Events: evs,
		ExecutionStatus: starknet.Succeeded, TransactionIndex: uint64(idx),
		ExecutionResources: &starknet.ExecutionResources{Steps: 7, TotalGasConsumed: &starknet.GasConsumed{L1Gas: 1, L2Gas: 2, L1DataGas: 3}}}
}

func emptyWireDiff() *starknet.StateDiff {
	return &starknet.StateDiff{StorageDiffs: map[string][]struct {
		Key   *felt.Felt `json:"key"`
		Value *felt.Felt `json:"value"`
	}{}, Nonces: map[string]*felt.Felt{}}
}

func fu(v uint64) *felt.Felt { return chainkit.F(v) }

// update: the model's PcFull / PcDelta as the value the poller hands to ApplyUpdate.
func (w *world) update(a *action) starknet.PreConfirmedUpdate {
	base := 0
	if a.Name == "PcDelta" {
		base = a.Base
	}
	txs := make([]starknet.Transaction, len(a.Txs))
	rcs := make([]*starknet.TransactionReceipt, len(a.Txs))
	dfs := make([]*starknet.StateDiff, len(a.Txs))
	for i, t := range a.Txs {
		tx, rc := w.tx(t)
		txs[i], rcs[i], dfs[i] = wireTx(tx), wireReceipt(rc, base+i), emptyWireDiff()
	}
	id := fmt.Sprintf("round-%d", a.Rid)
	if a.Name == "PcDelta" {
		return starknet.PreConfirmedDeltaUpdate{BlockIdentifier: id, Transactions: txs, Receipts: rcs, TransactionStateDiffs: dfs}
	}
	return starknet.PreConfirmedBlock{BlockIdentifier: id, Transactions: txs, Receipts: rcs, TransactionStateDiffs: dfs,
		Status: "PRE_CONFIRMED", Timestamp: uint64(1_700_100_000 + 10*a.Num + a.Rid), Version: core.Ver0_14_0.String(),
		SequencerAddress: fu(0x5e9), L1GasPrice: &starknet.GasPrice{PriceInWei: fu(11), PriceInFri: fu(12)},
		L2GasPrice: &starknet.GasPrice{PriceInWei: fu(13), PriceInFri: fu(14)}, L1DAMode: starknet.Blob,
		L1DataGasPrice: &starknet.GasPrice{PriceInWei: fu(15), PriceInFri: fu(16)}}
}

// ---------------------------------------------------------------- projection of real frames

func str(v any) string {
	if v == nil {
		return ""
	}
	return fmt.Sprint(v)
}

func num(v any) int {
	var n int
	if _, err := fmt.Sscan(str(v), &n); err != nil {
		return -999
	}
	return n
}

func obj(v any) map[string]any {
	m, _ := v.(map[string]any)
	return m
}

func sameFelt(v any, f *felt.Felt) bool {
	s := str(v)
	if f == nil {
		return s == ""
	}
	a, ok := new(big.Int).SetString(strings.TrimPrefix(s, "0x"), 16)
	return ok && a.Cmp(f.BigInt(new(big.Int))) == 0
}

var methodOf = map[string]string{"head": "starknet_subscriptionNewHeads", "reorg": "starknet_subscriptionReorg",
	"event": "starknet_subscriptionEvents", "status": "starknet_subscriptionTransactionStatus"}

// project maps a real notification frame onto the model's frame; note describes any field of the
// real frame that contradicts what the harness stored (a projection that merely looks right is not
// enough: header fields, commitments, event body are compared with the built blocks).
func (w *world) project(ver int, m map[string]any, receipts bool, hint frameT) (frameT, string) {
	if m == nil {
		return noFrame, ""
	}
	method := str(m["method"])
	res := obj(m["params"])["result"]
	r := obj(res)
	var notes []string
	note := func(format string, args ...any) { notes = append(notes, fmt.Sprintf(format, args...)) }
	if str(m["jsonrpc"]) != "2.0" {
		note("jsonrpc=%v", m["jsonrpc"])
	}
	tagOf := func(v any) int {
		if t, ok := w.tagByH[str(v)]; ok {
			return t
		}
		if v == nil {
			return 0
		}
		return -1
	}
	switch method {
	case "starknet_subscriptionNewHeads":
		t := tagOf(r["block_hash"])
		f := frameT{K: "head", A: t, B: num(r["block_number"]), C: t}
		if b := w.built[t]; b != nil {
			hd := b.Block.Header
			if !sameFelt(r["parent_hash"], hd.ParentHash) || !sameFelt(r["new_root"], hd.GlobalStateRoot) || num(r["timestamp"]) != int(hd.Timestamp) ||
				!sameFelt(r["sequencer_address"], hd.SequencerAddress) || str(r["starknet_version"]) != hd.ProtocolVersion {
				note("header fields differ from block tag %d", t)
			}
			if ver == 10 {
				// whose commitments are attached?
				f.C = -1
				for tag, bb := range w.built {
					c := bb.Commitments
					if c != nil && sameFelt(r["transaction_commitment"], c.TransactionCommitment) && sameFelt(r["event_commitment"], c.EventCommitment) &&
						sameFelt(r["receipt_commitment"], c.ReceiptCommitment) && sameFelt(r["state_diff_commitment"], c.StateDiffCommitment) {
						if tag == t && f.C != hint.C || tag == hint.C || f.C == -1 {
							f.C = tag // blocks of equal content have equal commitments: the model's choice wins among the matching ones
						}
					}
				}
				if num(r["transaction_count"]) != int(hd.TransactionCount) || num(r["event_count"]) != int(hd.EventCount) {
					note("counts differ from block tag %d", t)
				}
			}
		}
		return f, strings.Join(notes, "; ")
	case "starknet_subscriptionReorg":
		return frameT{K: "reorg", A: num(r["starting_block_number"]), B: tagOf(r["starting_block_hash"]),
			C: num(r["ending_block_number"]), D: tagOf(r["ending_block_hash"])}, ""
	case "starknet_subscriptionEvents":
		t := w.txByH[str(r["transaction_hash"])]
		f := frameT{K: "event", A: tagOf(r["block_hash"]), B: num(r["block_number"]), C: t}
		if ver >= 9 {
			f.D = finName[str(r["finality_status"])]
		}
		if rc := w.rcs[t]; rc != nil {
			ev := rc.Events[0]
			keys, _ := r["keys"].([]any)
			data, _ := r["data"].([]any)
			if !sameFelt(r["from_address"], ev.From) || len(keys) != 1 || !sameFelt(keys[0], &ev.Keys[0]) || len(data) != 1 || !sameFelt(data[0], &ev.Data[0]) {
				note("event body differs from the event of tx %d", t)
			}
		} else {
			note("event of an unknown transaction %v", r["transaction_hash"])
		}
		if ver == 10 && (num(r["event_index"]) != 0 || num(r["transaction_index"]) < 0) {
			note("event_index=%v transaction_index=%v", r["event_index"], r["transaction_index"])
		}
		return f, strings.Join(notes, "; ")
	case "starknet_subscriptionTransactionStatus":
		st := obj(r["status"])
		f := frameT{K: "status", A: finName[str(st["finality_status"])]}
		if f.A >= finPreConf && str(st["execution_status"]) != "SUCCEEDED" {
			note("execution_status=%v", st["execution_status"])
		}
		return f, strings.Join(notes, "; ")
	case "starknet_subscriptionNewTransaction":
		t := w.txByH[str(r["transaction_hash"])]
		f := frameT{K: "tx", A: t, B: finName[str(r["finality_status"])]}
		if tx := w.txs[t]; tx == nil {
			note("unknown transaction %v", r["transaction_hash"])
		} else if inv, ok := tx.(*core.InvokeTransaction); ok && inv.SenderAddress != nil && !sameFelt(r["sender_address"], inv.SenderAddress) {
			note("sender_address differs for tx %d", t)
		}
		return f, strings.Join(notes, "; ")
	case "starknet_subscriptionNewTransactionReceipts":
		t := w.txByH[str(r["transaction_hash"])]
		f := frameT{K: "tx", A: t, B: finName[str(r["finality_status"])], C: tagOf(r["block_hash"]), D: num(r["block_number"])}
		if rc := w.rcs[t]; rc == nil {
			note("receipt of an unknown transaction %v", r["transaction_hash"])
		} else if evs, _ := r["events"].([]any); len(evs) != len(rc.Events) {
			note("receipt of tx %d carries %d events", t, len(evs))
		}
		return f, strings.Join(notes, "; ")
	}
	return frameT{K: "unknown:" + method}, ""
}

// concurrent_test.go: TestSubsConcurrent — free-running rounds (no bubble, no gates): a driver
// goroutine plays the synchroniser and the poller at full speed, client goroutines subscribe,
// read at their own pace, unsubscribe and close; the real Tee goroutines, selects and feeds race
// as they do in production.  The monitors are the invariants Subs.tla proves for the code as it
// is under EVERY schedule (nothing schedule-dependent is judged):
//
//	M1  every frame is whole JSON, carries the id of a subscription of its connection and the method of its kind
//	M2  a header is the header of a block the driver stored, with that block's fields (v10: with the
//	    commitments of a stored block of that height)
//	M3  after the catch-up prefix, headers come in the order the synchroniser sent them (strictly)
//	M4  reorg notices are ranges the synchroniser sent, in its order (strictly)
//	M5  events / transactions belong to stored blocks (or the pre-confirmed round), respect the
//	    address / sender and finality filters; a pre-confirmed item comes once between two reorg notices
//	M6  nothing after the answer of the unsubscribe
//	M7  when every connection is closed and Run is cancelled, Run returns and every table is empty
//
// TestSubsBack — the MaxBlocksBack boundary on a chain of 1030 blocks.
package subs

import (
	"bytes"
	"context"
	"encoding/json"
	"fmt"
	"math/rand"
	"runtime"
	stdsync "sync"
	"testing"
	"testing/synctest"
	"time"

	"github.com/NethermindEth/juno/core"
	"github.com/NethermindEth/juno/sync"

	"verifharness/internal/chainkit"
	"verifharness/internal/vh"
)

// fconn: a connection whose writes never wait for the harness (optionally slowed down).
type fconn struct {
	s      *sut
	ctx    context.Context
	cancel context.CancelFunc
	mu     stdsync.Mutex
	frames map[string][][]byte
	bad    []string
	resp   chan []byte
	r      *bytes.Reader
	slow   int // a write yields up to this many times
	rng    *rand.Rand
}

func newFconn(s *sut, slow int, seed int64) *fconn {
	ctx, cancel := context.WithCancel(context.Background())
	return &fconn{s: s, ctx: ctx, cancel: cancel, frames: map[string][][]byte{}, resp: make(chan []byte, 4), slow: slow, rng: rand.New(rand.NewSource(seed))}
}

func (c *fconn) Read(p []byte) (int, error) { return c.r.Read(p) }
func (c *fconn) Write(p []byte) (int, error) {
	if c.ctx.Err() != nil {
		return 0, errConnClosed
	}
	var probe struct {
		Method string `json:"method"`
		Params struct {
			ID string `json:"subscription_id"`
		} `json:"params"`
	}
	if err := json.Unmarshal(p, &probe); err != nil {
		c.mu.Lock()
		c.bad = append(c.bad, string(p))
		c.mu.Unlock()
		return len(p), nil
	}
	if probe.Method == "" {
		c.resp <- append([]byte{}, p...)
		return len(p), nil
	}
	c.mu.Lock()
	n := 0
	if c.slow > 0 {
		n = c.rng.Intn(c.slow)
	}
	c.frames[probe.Params.ID] = append(c.frames[probe.Params.ID], append([]byte{}, p...))
	c.mu.Unlock()
	for i := 0; i < n; i++ {
		runtime.Gosched()
	}
	return len(p), nil
}

func (c *fconn) call(version, method string, params any) (map[string]any, error) {
	req := map[string]any{"jsonrpc": "2.0", "id": 1, "method": method, "params": params}
	raw, _ := json.Marshal(req)
	c.r = bytes.NewReader(raw)
	if err := c.s.servers[version].HandleReadWriter(c.ctx, 0, c); err != nil {
		return nil, err
	}
	return decode(<-c.resp)
}

func (c *fconn) count(id string) int {
	c.mu.Lock()
	defer c.mu.Unlock()
	return len(c.frames[id])
}

type csub struct {
	c       *fconn
	ver     int
	kind    string
	id      string
	act     action
	startN  int // first block of a heads / events subscription (-1: latest)
	unsubAt int // number of frames when the unsubscribe was answered (-1: never unsubscribed)
	rcpt    bool
}

type cdriver struct {
	mu      stdsync.Mutex
	w       *world
	s       *sut
	chain   []int
	tag, tx int
	headSeq map[int]int // tag -> index of its newHeads.Send
	reorgs  []frameT    // reorg ranges in send order
	nsend   int
	rounds  map[int][]int // pre-confirmed round id -> transactions (each transaction in one round only)
	byNum   map[int][]int // height -> tags ever stored there
	mixed   int
}

func (d *cdriver) store(ntx int, cur **sync.ReorgBlockRange) error {
	d.mu.Lock()
	d.tag++
	tag, h := d.tag, len(d.chain)
	var txs []int
	for i := 0; i < ntx; i++ {
		d.tx++
		txs = append(txs, d.tx)
	}
	spec := d.w.spec(tag, h, txs)
	d.mu.Unlock()
	b, err := d.s.node.Build(spec)
	if err != nil {
		return err
	}
	d.mu.Lock()
	d.w.built[tag] = b
	d.w.tagByH[b.Block.Hash.String()] = tag
	d.byNum[h] = append(d.byNum[h], tag)
	d.mu.Unlock()
	if err := d.s.node.StoreBuilt(b); err != nil {
		return err
	}
	d.mu.Lock()
	d.chain = append(d.chain, tag)
	if *cur != nil {
		r := *cur
		d.reorgs = append(d.reorgs, frameT{K: "reorg", A: int(r.StartBlockNum), B: d.w.tagByH[r.StartBlockHash.String()], C: int(r.EndBlockNum), D: d.w.tagByH[r.EndBlockHash.String()]})
	}
	d.nsend++
	d.headSeq[tag] = d.nsend
	d.mu.Unlock()
	if *cur != nil {
		d.s.reorgs.Send(*cur)
		*cur = nil
	}
	d.s.heads.Send(b.Block)
	return nil
}

func (d *cdriver) revert(cur **sync.ReorgBlockRange) error {
	hd, err := d.s.node.BC.HeadsHeader()
	if err != nil {
		return err
	}
	if hd.Number < 2 {
		return nil
	}
	if err := d.s.node.BC.RevertHead(); err != nil {
		return err
	}
	d.mu.Lock()
	d.chain = d.chain[:len(d.chain)-1]
	d.mu.Unlock()
	if *cur == nil {
		*cur = &sync.ReorgBlockRange{StartBlockHash: hd.Hash, StartBlockNum: hd.Number, EndBlockHash: hd.Hash, EndBlockNum: hd.Number}
	} else {
		(*cur).StartBlockHash, (*cur).StartBlockNum = hd.Hash, hd.Number
	}
	return nil
}

func (d *cdriver) preconfirmed(rid int, delta bool) error {
	h, err := d.s.node.BC.Height()
	if err != nil {
		return err
	}
	d.mu.Lock()
	d.tx++
	t := d.tx
	a := action{Name: "PcFull", Num: int(h) + 1, Rid: rid, Txs: []int{t}}
	if delta {
		a.Name, a.Base = "PcDelta", len(d.rounds[rid])
	}
	d.rounds[rid] = append(d.rounds[rid], t)
	upd := d.w.update(&a)
	d.mu.Unlock()
	if !delta {
		d.s.storage.AdvanceTo(h + 1)
	}
	applied, err := d.s.storage.ApplyUpdate(upd, uint64(a.Num), uint64(a.Base), h+1, nil)
	if err != nil {
		return nil // a delta onto a round the chain has moved past: the poller logs and goes on
	}
	if applied != nil {
		d.s.pcs.Send(applied)
	}
	return nil
}

func TestSubsConcurrent(t *testing.T) {
	if !vh.Enabled() {
		t.Skip("driver only")
	}
	var in struct {
		Rounds int `json:"rounds"`
		First  int `json:"first"`
	}
	if err := vh.Input(&in); err != nil {
		t.Fatal(err)
	}
	out := vh.NewResult()
	defer out.Write()
	for round := in.First; round < in.First+in.Rounds; round++ {
		seed := vh.Seed()*100000 + int64(round)
		bad, herr := concurrentRound(seed, out)
		if herr != nil {
			out.Diverge(vh.Divergence{Key: "harness:concurrent", What: "HARNESS PROBLEM (not a verdict about juno): " + herr.Error(), Input: vh.J{"rounds": 1, "first": round}})
			out.Count("harness_errors", 1)
			return
		}
		if bad != nil {
			out.Diverge(vh.Divergence{Key: bad.key, What: bad.what, Input: vh.J{"rounds": 1, "first": round}, Step: round, Expected: bad.exp, Observed: bad.obs})
			return
		}
		out.Done(1, 0)
	}
}

func concurrentRound(seed int64, out *vh.Result) (*divergence, error) {
	rng := rand.New(rand.NewSource(seed))
	s, err := newSUT(rng.Intn(2) == 1)
	if err != nil {
		return nil, err
	}
	w := newWorld(seed)
	d := &cdriver{w: w, s: s, headSeq: map[int]int{}, rounds: map[int][]int{}, byNum: map[int][]int{}}
	var cur *sync.ReorgBlockRange
	for i := 0; i < 3; i++ {
		if err := d.store(0, &cur); err != nil {
			return nil, err
		}
	}
	if err := s.node.BC.SetL1Head(&core.L1Head{BlockNumber: 1, BlockHash: w.unknown, StateRoot: w.unknown}); err != nil {
		return nil, err
	}
	// clients
	nconn := 3
	conns := make([]*fconn, nconn)
	for i := range conns {
		conns[i] = newFconn(s, []int{0, 3, 40}[i%3], seed+int64(i))
	}
	var (
		subs []*csub
		smu  stdsync.Mutex
		wg   stdsync.WaitGroup
		cerr error
	)
	stopDriver := make(chan struct{})
	wg.Add(1)
	go func() { // the synchroniser + poller
		defer wg.Done()
		r := rand.New(rand.NewSource(seed + 999))
		rid := 0
		for i := 0; i < 160; i++ {
			select {
			case <-stopDriver:
				return
			default:
			}
			var e error
			switch k := r.Intn(10); {
			case k < 5:
				e = d.store(r.Intn(3), &cur)
			case k < 6:
				for n := 1 + r.Intn(2); n > 0 && e == nil; n-- {
					e = d.revert(&cur)
				}
				if e == nil {
					e = d.store(r.Intn(2), &cur)
				}
			case k < 8:
				rid++
				e = d.preconfirmed(rid, false)
			case k < 9:
				if rid > 0 {
					e = d.preconfirmed(rid, true)
				}
			default:
				h, _ := s.node.BC.Height()
				e = s.node.BC.SetL1Head(&core.L1Head{BlockNumber: uint64(r.Intn(int(h) + 1)), BlockHash: w.unknown, StateRoot: w.unknown})
			}
			if e != nil {
				cerr = fmt.Errorf("driver: %w", e)
				return
			}
			for n := r.Intn(4); n > 0; n-- {
				runtime.Gosched()
			}
			if r.Intn(8) == 0 {
				time.Sleep(time.Duration(r.Intn(300)) * time.Microsecond) // pacing only: lets subscribers catch up now and then
			}
		}
	}()
	for ci, c := range conns {
		wg.Add(1)
		go func() {
			defer wg.Done()
			r := rand.New(rand.NewSource(seed + 7*int64(ci)))
			for k := 0; k < 4; k++ {
				ver := []int{8, 9, 10}[r.Intn(3)]
				version := map[int]string{8: "v8", 9: "v9", 10: "v10"}[ver]
				cs := &csub{c: c, ver: ver, unsubAt: -1, startN: -1}
				p := map[string]any{}
				kinds := []string{"heads", "events", "txs", "heads", "events"}
				if ver == 8 {
					kinds = []string{"heads", "events"}
				}
				cs.kind = kinds[r.Intn(len(kinds))]
				method := ""
				switch cs.kind {
				case "heads", "events":
					if r.Intn(2) == 0 {
						cs.startN = r.Intn(3)
						p["block_id"] = map[string]any{"block_number": cs.startN}
					}
					method = "starknet_subscribeNewHeads"
					if cs.kind == "events" {
						method = "starknet_subscribeEvents"
						if cs.act.Flt = r.Intn(2) == 0; cs.act.Flt {
							p["from_address"] = w.sendA.String()
						}
						if cs.act.Flp = ver >= 9 && r.Intn(2) == 0; cs.act.Flp {
							p["finality_status"] = "PRE_CONFIRMED"
						}
					}
				case "txs":
					cs.rcpt = r.Intn(2) == 0
					cs.act.Fl2, cs.act.Flp = true, r.Intn(2) == 0
					fs := []any{"ACCEPTED_ON_L2"}
					if cs.act.Flp {
						fs = append(fs, "PRE_CONFIRMED")
					}
					p["finality_status"] = fs
					if cs.act.Flt = r.Intn(2) == 0; cs.act.Flt {
						p["sender_address"] = []any{w.sendA.String()}
					}
					method = "starknet_subscribeNewTransactions"
					if cs.rcpt {
						method = "starknet_subscribeNewTransactionReceipts"
					}
				}
				resp, err := c.call(version, method, p)
				if err != nil || resp["result"] == nil {
					continue // e.g. BLOCK_NOT_FOUND after a revert: nothing to monitor
				}
				cs.id = str(resp["result"])
				smu.Lock()
				subs = append(subs, cs)
				smu.Unlock()
				for n := r.Intn(400); n > 0; n-- {
					runtime.Gosched()
				}
				if r.Intn(3) == 0 {
					if resp, err := c.call(version, "starknet_unsubscribe", map[string]any{"subscription_id": cs.id}); err == nil && resp["result"] == true {
						cs.unsubAt = c.count(cs.id)
					}
				}
			}
		}()
	}
	wg.Wait()
	close(stopDriver)
	if cerr != nil {
		return nil, cerr
	}
	// let the tail drain (collecting more frames to judge; not an oracle), then end everything
	for i, last := 0, -1; i < 200; i++ {
		n := 0
		for _, c := range conns {
			c.mu.Lock()
			for _, q := range c.frames {
				n += len(q)
			}
			c.mu.Unlock()
		}
		if n == last && i > 5 {
			break
		}
		last = n
		time.Sleep(2 * time.Millisecond)
	}
	for _, c := range conns {
		c.cancel()
	}
	s.cancel()
	select {
	case <-s.runDone:
	case <-time.After(30 * time.Second):
		return mkdiv("subs:concurrent:run-did-not-return", "Handler.Run did not return within 30 s after every connection was closed and its context cancelled (a subscription goroutine never ends)", "returns", "hangs"), nil
	}
	for _, v := range versions {
		if n := s.registered(v); n != 0 {
			return mkdiv("subs:concurrent:registered-after-close:"+v, "subscriptions still registered after every connection closed and Run returned", 0, n), nil
		}
	}
	// ---- monitors
	for _, c := range conns {
		if len(c.bad) > 0 {
			return mkdiv("subs:concurrent:torn-frame", "a frame is not whole JSON", "json", c.bad[0]), nil
		}
		known := map[string]*csub{}
		for _, cs := range subs {
			if cs.c == c {
				known[cs.id] = cs
			}
		}
		for id := range c.frames {
			if known[id] == nil {
				return mkdiv("subs:concurrent:frame-foreign-id", "frames for a subscription id this connection never got", "known ids", id), nil
			}
		}
	}
	nframes := 0
	for _, cs := range subs {
		cs.c.mu.Lock()
		raws := cs.c.frames[cs.id]
		cs.c.mu.Unlock()
		nframes += len(raws)
		if cs.unsubAt >= 0 && len(raws) != cs.unsubAt {
			return mkdiv(fmt.Sprintf("subs:concurrent:frame-after-unsubscribe:v%d", cs.ver), "frames were written after the unsubscribe was answered", cs.unsubAt, len(raws)), nil
		}
		if dv := d.judge(cs, raws); dv != nil {
			return dv, nil
		}
	}
	out.Count("concurrent_frames", nframes)
	out.Count("concurrent_subscriptions", len(subs))
	out.Count("observation_event_tagged_with_hash_of_replacing_block", d.mixed)
	return nil, nil
}

// judge applies M1-M5 to the frames of one subscription.
func (d *cdriver) judge(cs *csub, raws [][]byte) *divergence {
	v := fmt.Sprintf("v%d", cs.ver)
	var fs []frameT
	for _, raw := range raws {
		m, err := decode(raw)
		if err != nil {
			return mkdiv("subs:concurrent:torn-frame", err.Error(), "json", string(raw))
		}
		f, note := d.w.project(cs.ver, m, cs.rcpt, noFrame)
		if note != "" {
			return mkdiv("subs:concurrent:frame-content:"+v, note, nil, m)
		}
		want := map[string][]string{"heads": {"head", "reorg"}, "events": {"event", "reorg"}, "txs": {"tx", "reorg"}}[cs.kind]
		if f.K != want[0] && f.K != want[1] {
			return mkdiv("subs:concurrent:frame-kind:"+v, "a "+cs.kind+" subscription got a "+f.K+" frame", want, f)
		}
		fs = append(fs, f)
	}
	// M4 + M2/M3/M5
	ri, seen := -1, map[[2]int]bool{}
	var heads []frameT
	for _, f := range fs {
		switch f.K {
		case "reorg":
			j := -1
			for k := ri + 1; k < len(d.reorgs); k++ {
				if d.reorgs[k] == f {
					j = k
					break
				}
			}
			if j < 0 {
				return mkdiv("subs:concurrent:reorg-notice:"+v, "a reorg notice that the synchroniser did not send (after the previous delivered one)", d.reorgs, f)
			}
			ri, seen = j, map[[2]int]bool{}
		case "head":
			b := d.w.built[f.A]
			if b == nil || int(b.Block.Number) != f.B {
				return mkdiv("subs:concurrent:head-unknown:"+v, "a header that is not a stored block's", nil, f)
			}
			if cs.ver == 10 {
				ok := false
				for _, t := range d.byNum[f.B] {
					ok = ok || sameCommit(d.w.built[t], d.w.built[f.C])
				}
				if f.C < 0 || !ok {
					return mkdiv("subs:concurrent:head-commitments:"+v, "a header with commitments of no stored block of its height", d.byNum[f.B], f)
				}
			}
			heads = append(heads, f)
		case "event", "tx":
			tx, num, fin, tag := f.C, f.B, f.D, f.A
			if f.K == "tx" {
				tx, num, fin, tag = f.A, f.D, f.B, f.C
			}
			if cs.act.Flt && tx%2 == 0 {
				return mkdiv("subs:concurrent:filter:"+v, "an item of a transaction the address / sender filter excludes", "odd transaction", f)
			}
			if fin == finPreConf && !cs.act.Flp {
				return mkdiv("subs:concurrent:finality-filter:"+v, "a PRE_CONFIRMED item on a subscription that did not ask for it", nil, f)
			}
			if fin == finPreConf {
				if seen[[2]int{num, tx}] {
					return mkdiv("subs:concurrent:preconfirmed-twice:"+v, "a pre-confirmed item sent twice between two reorg notices", nil, f)
				}
				seen[[2]int{num, tx}] = true
			} else if f.K == "event" && tag == 0 && cs.ver >= 9 {
				// the same deviation the probe reports (a revert between the height read and the event filter's read)
				return mkdiv("subs:events:catch-up-reaches-preconfirmed-chain:"+v, "free-running round: an event without block hash labelled ACCEPTED_ON_L2 / L1 (the catch-up range reached into the pre-confirmed chain)", nil, f)
			} else if f.K == "event" || cs.rcpt {
				b := d.w.built[tag]
				in := false
				if b != nil {
					for _, x := range b.Block.Transactions {
						in = in || d.w.txByH[x.Hash().String()] == tx
					}
				}
				if !in || int(b.Block.Number) != num {
					// events read from the DATABASE (v8 always, v9 / v10 in the catch-up) while a reorg replaces the block:
					// blockchain.EventFilter reads the events first and resolves the block hash later (C09's recorded
					// observation, outside the subscription logic): tolerated if both belong to stored blocks of that height
					okTag, okTx := false, false
					for _, t := range d.byNum[num] {
						okTag = okTag || t == tag
						for _, x := range d.w.built[t].Block.Transactions {
							okTx = okTx || d.w.txByH[x.Hash().String()] == tx
						}
					}
					if f.K == "event" && okTag && okTx {
						d.mixed++
						continue
					}
					return mkdiv("subs:concurrent:item-block:"+v, "an event / receipt attributed to a block that does not hold its transaction", nil, f)
				}
			}
		}
	}
	// M3: after the maximal consecutive prefix (the catch-up), headers follow the synchroniser's send order
	k := 0
	for k < len(heads) && heads[k].B == heads[0].B+k {
		k++
	}
	last := 0
	for _, f := range heads[k:] {
		if d.headSeq[f.A] <= last {
			return mkdiv("subs:concurrent:head-order:"+v, "live headers out of the order in which the synchroniser sent them (or one twice)", "strictly increasing send index", heads)
		}
		last = d.headSeq[f.A]
	}
	return nil
}

func sameCommit(a, b *chainkit.Built) bool {
	if a == nil || b == nil || a.Commitments == nil || b.Commitments == nil {
		return false
	}
	x, y := a.Commitments, b.Commitments
	return x.TransactionCommitment.Equal(y.TransactionCommitment) && x.EventCommitment.Equal(y.EventCommitment) &&
		x.ReceiptCommitment.Equal(y.ReceiptCommitment) && x.StateDiffCommitment.Equal(y.StateDiffCommitment)
}

// ---------------------------------------------------------------- MaxBlocksBack

func TestSubsBack(t *testing.T) {
	if !vh.Enabled() {
		t.Skip("driver only")
	}
	out := vh.NewResult()
	defer out.Write()
	const n, back = 1030, 1024
	bubble(t, func(t *testing.T) {
		s, err := newSUT(false)
		if err != nil {
			out.Diverge(vh.Divergence{Key: "harness:back", What: "HARNESS PROBLEM (not a verdict about juno): " + err.Error()})
			out.Count("harness_errors", 1)
			return
		}
		defer func() { synctest.Wait(); s.stop() }()
		r := &replayer{t: t, w: newWorld(vh.Seed()), s: s, conns: map[int]*conn{}, subID: map[int]string{}, subConn: map[int]*conn{}, subAct: map[int]action{}, unsub: map[int]*pendingCall{}}
		for i := 0; i < n; i++ {
			if _, err := r.apply(&step{A: action{Name: "Store", Tag: i + 1, H: i}}); err != nil {
				out.Diverge(vh.Divergence{Key: "harness:back", What: "HARNESS PROBLEM (not a verdict about juno): " + err.Error()})
				out.Count("harness_errors", 1)
				return
			}
		}
		r.notify = nil
		_, _ = r.apply(&step{A: action{Name: "SetL1", N: 0}})
		latest := n - 1
		sidx := 0
		for _, ver := range []int{8, 9, 10} {
			r.ver, r.version = ver, map[int]string{8: "v8", 9: "v9", 10: "v10"}[ver]
			for _, kind := range []string{"heads", "events"} {
				for _, c := range []struct {
					start int
					code  int
				}{{latest - back, 68}, {latest - back + 1, 0}, {latest + 1, 24}} {
					sidx++
					a := action{Name: "SubResolve", S: sidx, C: 1, Kind: kind, Bid: &bidT{K: "num", N: c.start}}
					if _, err := r.apply(&step{A: a}); err != nil {
						out.Diverge(vh.Divergence{Key: "subs:back:" + r.version, What: err.Error()})
						return
					}
					obs, err := r.apply(&step{A: action{Name: "SubRegister", S: sidx}})
					if err != nil || obs.Code != c.code {
						out.Diverge(vh.Divergence{Key: fmt.Sprintf("subs:blocks-back-boundary:%s:%s", kind, r.version),
							What:     fmt.Sprintf("subscribe %s from block %d with the head at %d (MaxBlocksBack = %d)", kind, c.start, latest, back),
							Expected: c.code, Observed: fmt.Sprint(obs, err)})
						continue
					}
					if c.code != 0 {
						continue
					}
					if kind == "heads" { // exactly 1024 headers, in order
						for want := c.start; want <= latest; want++ {
							m, ok := r.subConn[sidx].take(r.subID[sidx])
							synctest.Wait()
							f, _ := r.w.project(ver, m, false, noFrame)
							if !ok || f.K != "head" || f.B != want || f.A != want+1 {
								out.Diverge(vh.Divergence{Key: "subs:blocks-back-catchup:" + r.version, What: "the catch-up over MaxBlocksBack-1 blocks is not the headers start..latest in order",
									Expected: want, Observed: f})
								break
							}
						}
						if _, more := r.subConn[sidx].peek(r.subID[sidx]); more {
							out.Diverge(vh.Divergence{Key: "subs:blocks-back-catchup:" + r.version, What: "more than latest-start+1 headers in the catch-up"})
						}
					}
					out.Done(1, 0)
				}
			}
		}
		for _, c := range r.conns {
			c.close()
		}
	})
}

func mkdiv(key, what string, exp, obs any) *divergence {
	return &divergence{key: key, what: what, exp: exp, obs: obs}
}

// replay_test.go: TestSubsReplay — behaviours simulated by TLC from SubsMBT.tla are stepped through
// the real handlers inside a testing/synctest bubble.  After every step every goroutine of the
// system is durably blocked (synctest.Wait): the Tee goroutines have forwarded, every subscription
// goroutine sits in its select, in a write the harness has not accepted, or in its ticker loop.
// Compared after every step: the answer of the request (result / error code), the frame the client
// takes (Deliver), and — at quiet states of the model — the frame EVERY subscription is blocked on
// (or that it is not blocked), the number of registered subscriptions in the handler's table, that
// a waiting Unsubscribe is still waiting, and that no frame exists for an unknown subscription.
package subs

import (
	"fmt"
	"reflect"
	"strings"
	"testing"
	"testing/synctest"
	"time"

	"github.com/NethermindEth/juno/core"
	"github.com/NethermindEth/juno/starknet"
	"github.com/NethermindEth/juno/sync"

	"verifharness/internal/vh"
)

type replayer struct {
	t       *testing.T
	ver     int
	version string
	w       *world
	s       *sut
	conns   map[int]*conn
	subID   map[int]string
	subConn map[int]*conn
	subAct  map[int]action
	chain   []int // tags
	// the synchroniser's bookkeeping the harness plays (sync.revertHead / storeTask)
	currReorg *sync.ReorgBlockRange
	notify    []func()
	// a subscribe request between its height read and its registration
	pending      *pendingCall
	pendingS     int
	pendingStart func() *pendingCall
	gateReached  chan struct{}
	gateRelease  chan struct{}
	unsub        map[int]*pendingCall // conn -> waiting Unsubscribe
	gatedL1      bool                 // SetL1 steps stop between the feed send and the database write (L1Write follows)
	l1gate       chan struct{}
	l1done       chan error
	nsteps       int
}

type divergence struct {
	key, what string
	exp, obs  any
}

func (d *divergence) Error() string { return d.key + ": " + d.what }

func diverge(key, what string, exp, obs any) error {
	return &divergence{key: key, what: what, exp: exp, obs: obs}
}

func (r *replayer) conn(c int) *conn {
	if x, ok := r.conns[c]; ok {
		return x
	}
	x := r.s.newConn()
	r.conns[c] = x
	return x
}

func (r *replayer) receipts(s int) bool {
	a := r.subAct[s]
	return a.Kind == "txs" && !a.Flr && s%2 == 0
}

func (r *replayer) hashOfTag(t int) string {
	if b := r.w.built[t]; b != nil {
		return b.Block.Hash.String()
	}
	return r.w.unknown.String()
}

func (r *replayer) subscribeRequest(a *action) (string, map[string]any) {
	p := map[string]any{}
	bid := func() {
		if a.Bid == nil {
			return
		}
		switch a.Bid.K {
		case "latest":
			if a.S%2 == 1 {
				p["block_id"] = "latest"
			}
		case "num":
			p["block_id"] = map[string]any{"block_number": a.Bid.N}
		case "hash":
			p["block_id"] = map[string]any{"block_hash": r.hashOfTag(a.Bid.N)}
		}
	}
	switch a.Kind {
	case "heads":
		bid()
		return "starknet_subscribeNewHeads", p
	case "events":
		bid()
		if a.Flt {
			if r.ver == 10 && a.S%2 == 0 {
				p["from_address"] = []any{r.w.sendA.String()}
			} else {
				p["from_address"] = r.w.sendA.String()
			}
			if a.S%3 == 0 {
				p["keys"] = []any{[]any{r.w.key.String()}}
			}
		}
		if a.Flp {
			p["finality_status"] = "PRE_CONFIRMED"
		} else if r.ver >= 9 && a.S%2 == 0 {
			p["finality_status"] = "ACCEPTED_ON_L2"
		}
		return "starknet_subscribeEvents", p
	case "status":
		tx, _ := r.w.tx(a.Tx)
		p["transaction_hash"] = tx.Hash().String()
		return "starknet_subscribeTransactionStatus", p
	case "txs":
		var fs []any
		if a.Flr {
			fs = append(fs, "RECEIVED")
		}
		if a.Flp {
			fs = append(fs, "PRE_CONFIRMED")
		}
		if a.Fl2 {
			fs = append(fs, "ACCEPTED_ON_L2")
		}
		if !(len(fs) == 1 && a.Fl2 && a.S%3 == 0) { // ACCEPTED_ON_L2 alone is also the default
			p["finality_status"] = fs
		}
		if a.Flt {
			p["sender_address"] = []any{r.w.sendA.String()}
		}
		if r.receipts(a.S) {
			return "starknet_subscribeNewTransactionReceipts", p
		}
		return "starknet_subscribeNewTransactions", p
	}
	return "", nil
}

func (r *replayer) settle() { synctest.Wait() }

func answer(resp map[string]any) resT {
	if e := obj(resp["error"]); e != nil {
		return resT{Kind: "error", Code: num(e["code"])}
	}
	return resT{Kind: "ok"}
}

// apply executes one step; returns the observed answer.
func (r *replayer) apply(st *step) (resT, error) {
	a := &st.A
	switch a.Name {
	case "Store":
		b, err := r.s.node.Build(r.w.spec(a.Tag, a.H, a.Txs))
		if err != nil {
			return resT{}, fmt.Errorf("harness: build: %w", err)
		}
		if err := r.s.node.StoreBuilt(b); err != nil {
			return resT{}, fmt.Errorf("harness: store: %w", err)
		}
		r.w.built[a.Tag] = b
		r.w.tagByH[b.Block.Hash.String()] = a.Tag
		r.chain = append(r.chain, a.Tag)
		// sync.storeTask: the accumulated reorg first, then the block
		if r.currReorg != nil {
			reorg := r.currReorg
			r.notify = append(r.notify, func() { r.s.reorgs.Send(reorg) })
			r.currReorg = nil
		}
		r.notify = append(r.notify, func() { r.s.heads.Send(b.Block) })
		return resT{Kind: "ok"}, nil
	case "Revert":
		hd, err := r.s.node.BC.HeadsHeader()
		if err != nil {
			return resT{}, err
		}
		if err := r.s.node.BC.RevertHead(); err != nil {
			return resT{}, fmt.Errorf("harness: revert: %w", err)
		}
		r.chain = r.chain[:len(r.chain)-1]
		if r.currReorg == nil { // sync.revertHead
			r.currReorg = &sync.ReorgBlockRange{StartBlockHash: hd.Hash, StartBlockNum: hd.Number, EndBlockHash: hd.Hash, EndBlockNum: hd.Number}
		} else {
			r.currReorg.StartBlockHash, r.currReorg.StartBlockNum = hd.Hash, hd.Number
		}
		return resT{Kind: "ok"}, nil
	case "SyncSend":
		if len(r.notify) == 0 {
			return resT{}, fmt.Errorf("harness: nothing to send")
		}
		r.notify[0]()
		r.notify = r.notify[1:]
		return resT{Kind: "ok"}, nil
	case "SetL1":
		head := &core.L1Head{BlockNumber: uint64(a.N), BlockHash: r.w.unknown, StateRoot: r.w.unknown}
		if a.N < len(r.chain) {
			b := r.w.built[r.chain[a.N]]
			head.BlockHash, head.StateRoot = b.Block.Hash, b.Block.GlobalStateRoot
		}
		if !r.gatedL1 {
			return resT{Kind: "ok"}, r.s.node.BC.SetL1Head(head)
		}
		// feed send now, database write at the model's L1Write step
		r.l1gate, r.l1done = r.s.gstore.arm(), make(chan error, 1)
		go func(done chan error) { done <- r.s.node.BC.SetL1Head(head) }(r.l1done)
		return resT{Kind: "ok"}, nil
	case "L1Write":
		if r.l1gate == nil {
			return resT{}, fmt.Errorf("harness: L1Write without a pending SetL1Head")
		}
		close(r.l1gate)
		r.l1gate = nil
		return resT{Kind: "ok"}, <-r.l1done
	case "PcFull", "PcDelta":
		h, err := r.s.node.BC.Height()
		if err != nil {
			return resT{}, err
		}
		if a.Name == "PcFull" {
			r.s.storage.AdvanceTo(h + 1) // the poller's tick
		}
		applied, err := r.s.storage.ApplyUpdate(r.w.update(a), uint64(a.Num), uint64(a.Base), h+1, nil)
		if err != nil {
			return resT{}, fmt.Errorf("harness: ApplyUpdate: %w", err)
		}
		if applied != nil { // poller.apply
			r.s.pcs.Send(applied)
		}
		return resT{Kind: "ok"}, nil
	case "Gw":
		tx, _ := r.w.tx(a.T)
		r.s.feeder.set(tx.Hash(), map[int]starknet.FinalityStatus{1: starknet.Received, 2: starknet.Candidate}[a.St])
		return resT{Kind: "ok"}, nil
	case "Recv":
		tx, _ := r.w.tx(a.T)
		r.s.recvd.Send(tx)
		return resT{Kind: "ok"}, nil
	case "SubResolve":
		r.subAct[a.S] = *a
		c := r.conn(a.C)
		method, params := r.subscribeRequest(a)
		r.gateReached, r.gateRelease = nil, nil
		if a.Kind == "heads" || a.Kind == "events" {
			reached, release := make(chan struct{}), make(chan struct{})
			r.s.reader.afterHeight = func() { close(reached); <-release }
			r.gateReached, r.gateRelease = reached, release
		}
		r.subConn[a.S] = c
		r.pendingS = a.S
		if r.gateReached == nil {
			// no read before the registration (status, transactions, receipts): the request is sent at SubRegister
			r.pendingStart = func() *pendingCall { return c.start(r.version, method, params) }
			return resT{Kind: "none"}, nil
		}
		r.pending = c.start(r.version, method, params)
		r.settle()
		if r.gateReached != nil {
			select {
			case <-r.gateReached:
			default:
				return resT{}, diverge("subs:subscribe:height-not-read-first", "the subscribe handler answered or blocked without reading the chain height first",
					"Height()/HeadsHeader() as the first read", "not called")
			}
		}
		return resT{Kind: "none"}, nil
	case "SubRegister":
		if r.pendingStart != nil {
			r.pending, r.pendingStart = r.pendingStart(), nil
		}
		if r.pending == nil {
			return resT{}, fmt.Errorf("harness: SubRegister without SubResolve")
		}
		if r.gateRelease != nil {
			close(r.gateRelease)
			r.gateRelease = nil
		}
		r.settle()
		resp, ok, err := r.pending.poll()
		r.pending = nil
		if err != nil {
			return resT{}, diverge("subs:subscribe:no-answer", "the subscribe request failed at transport level: "+err.Error(), st.Res, err.Error())
		}
		if !ok {
			return resT{}, diverge("subs:subscribe:no-answer", "the subscribe handler did not answer", st.Res, "blocked")
		}
		obs := answer(resp)
		if obs.Kind == "ok" {
			r.subID[a.S] = str(resp["result"])
			if r.subID[a.S] == "" {
				return obs, diverge("subs:subscribe:empty-id", "subscribe answered without a subscription id", "id", resp)
			}
		}
		r.settle()
		return obs, nil
	case "Deliver":
		c, id := r.subConn[a.S], r.subID[a.S]
		m, ok := c.take(id)
		if !ok {
			return resT{Kind: "frame", F: &noFrame}, nil
		}
		hint := noFrame
		if st.Res.F != nil {
			hint = *st.Res.F
		}
		f, note := r.w.project(r.ver, m, r.receipts(a.S), hint)
		if note != "" {
			return resT{Kind: "frame", F: &f}, diverge("subs:frame-content", note, st.Res.F, m)
		}
		if pid := str(obj(m["params"])["subscription_id"]); pid != id {
			return resT{Kind: "frame", F: &f}, diverge("subs:frame-foreign-id", "frame carries another subscription id", id, pid)
		}
		return resT{Kind: "frame", F: &f}, nil
	case "Take", "Exit", "TeeForward":
		return resT{Kind: "ok"}, nil
	case "Tick":
		time.Sleep(time.Second)
		return resT{Kind: "ok"}, nil
	case "TickTimeout":
		time.Sleep(5*time.Minute + time.Second)
		return resT{Kind: "ok"}, nil
	case "UnsubCall":
		c := r.conn(a.C)
		id := r.subID[a.S]
		pc := c.start(r.version, "starknet_unsubscribe", map[string]any{"subscription_id": id})
		r.settle()
		if st.Res.Kind == "wait" {
			r.unsub[a.C] = pc
			return resT{Kind: "wait"}, nil // whether it really waits is checked by checkPost (quiet states) and at UnsubDone
		}
		resp, ok, err := pc.poll()
		if err != nil || !ok {
			return resT{Kind: "wait"}, nil
		}
		obs := answer(resp)
		if obs.Kind == "ok" {
			obs.Kind = str(resp["result"])
		}
		return obs, nil
	case "UnsubDone":
		pc := r.unsub[a.C]
		if pc == nil {
			return resT{}, fmt.Errorf("harness: UnsubDone without a waiting Unsubscribe")
		}
		delete(r.unsub, a.C)
		resp, ok, err := pc.poll()
		if err != nil {
			return resT{}, diverge("subs:unsubscribe:no-answer", "unsubscribe failed at transport level: "+err.Error(), "true", err.Error())
		}
		if !ok {
			return resT{Kind: "wait"}, nil
		}
		if e := obj(resp["error"]); e != nil {
			return resT{Kind: "error", Code: num(e["code"])}, nil
		}
		return resT{Kind: str(resp["result"])}, nil
	case "CloseConn":
		r.conn(a.C).close()
		delete(r.unsub, a.C)
		return resT{Kind: "ok"}, nil
	}
	return resT{}, fmt.Errorf("harness: unknown action %q", a.Name)
}

func sameRes(a, b resT) bool {
	if a.Kind != b.Kind || a.Code != b.Code {
		return false
	}
	if (a.F == nil) != (b.F == nil) {
		return false
	}
	return a.F == nil || *a.F == *b.F
}

// frameEq: a newTransactions frame carries no block, the model's does.
func (r *replayer) frameEq(s int, model, real frameT) bool {
	if model.K == "tx" && !r.receipts(s) {
		model.C, model.D = 0, 0
	}
	return model == real
}

// checkPost compares the real system with the model's state after a step.
func (r *replayer) checkPost(st *step) error {
	// harness sanity: the chain the harness built is the model's
	if !reflect.DeepEqual(append([]int{}, r.chain...), append([]int{}, st.Post.Chain...)) {
		return fmt.Errorf("harness: chain %v differs from the model's %v", r.chain, st.Post.Chain)
	}
	if !st.Post.Quiet {
		return nil
	}
	for i, want := range st.Post.Pend {
		s := i + 1
		id, ok := r.subID[s]
		if !ok {
			continue
		}
		m, blocked := r.subConn[s].peek(id)
		got := noFrame
		if blocked {
			var note string
			got, note = r.w.project(r.ver, m, r.receipts(s), want)
			if note != "" {
				return diverge("subs:frame-content", note, want, m)
			}
		}
		if !r.frameEq(s, want, got) {
			key := "subs:pending-frame:" + r.subAct[s].Kind + ":" + want.K + "-vs-" + got.K
			return diverge(key, fmt.Sprintf("subscription %d (%s) is blocked on another frame than the model's", s, r.subAct[s].Kind), want, got)
		}
	}
	if reg := r.s.registered(r.version); reg != st.Post.Reg {
		return diverge("subs:registered-count", "number of entries in the handler's subscription table", st.Post.Reg, reg)
	}
	for c, pc := range r.unsub {
		if pc.answered() {
			return diverge("subs:unsubscribe:answered-early", fmt.Sprintf("Unsubscribe on connection %d answered although its subscription goroutine has not ended", c), "waiting", "answered")
		}
	}
	known := map[string]bool{}
	for _, id := range r.subID {
		known[id] = true
	}
	for _, c := range r.conns {
		for _, id := range c.ids() {
			if !known[id] {
				return diverge("subs:frame-foreign-id", "a notification for a subscription id nobody was given", "none", id)
			}
		}
	}
	return nil
}

func (r *replayer) run(beh *behaviour, initLen, startL1 int, gated bool) (int, error) {
	// the initial chain: tags 1..InitLen, no transactions
	for t := 1; t <= initLen; t++ {
		if _, err := r.apply(&step{A: action{Name: "Store", Tag: t, H: t - 1}}); err != nil {
			return -1, err
		}
	}
	r.notify = nil
	if startL1 >= 0 {
		if _, err := r.apply(&step{A: action{Name: "SetL1", N: startL1}}); err != nil {
			return -1, err
		}
	}
	r.settle()
	r.gatedL1 = gated
	for i := range beh.Steps {
		st := &beh.Steps[i]
		obs, err := r.apply(st)
		r.nsteps++
		if err != nil {
			return i, err
		}
		r.settle()
		exp := st.Res
		if exp.Kind == "frame" && exp.F != nil && obs.F != nil && r.frameEq(st.A.S, *exp.F, *obs.F) {
			obs.F = exp.F
		}
		if !sameRes(exp, obs) {
			key := "subs:" + st.A.Name + ":answer"
			switch st.A.Name {
			case "Deliver":
				key = "subs:deliver:" + r.subAct[st.A.S].Kind + ":" + exp.F.K + "-vs-" + obs.F.K
			case "SubRegister":
				key = fmt.Sprintf("subs:subscribe:%s:%s%d-vs-%s%d", r.subAct[st.A.S].Kind, exp.Kind, exp.Code, obs.Kind, obs.Code)
			case "UnsubCall", "UnsubDone":
				key = fmt.Sprintf("subs:unsubscribe:%s%d-vs-%s%d", exp.Kind, exp.Code, obs.Kind, obs.Code)
			}
			return i, diverge(key, "the answer / delivered frame differs from Subs.tla", exp, obs)
		}
		if err := r.checkPost(st); err != nil {
			return i, err
		}
	}
	return -1, nil
}

func TestSubsReplay(t *testing.T) {
	if !vh.Enabled() {
		t.Skip("driver only")
	}
	var in input
	if err := vh.Input(&in); err != nil {
		t.Fatal(err)
	}
	out := vh.NewResult()
	defer out.Write()
	version := map[int]string{8: "v8", 9: "v9", 10: "v10"}[in.Ver]
	if version == "" {
		t.Fatalf("bad version %d", in.Ver)
	}
	for bi := range in.Behaviours {
		beh := &in.Behaviours[bi]
		var (
			idx   int
			err   error
			steps int
		)
		dead := bubble(t, func(t *testing.T) {
			s, e := newSUT((bi+in.First)%2 == 1)
			if e != nil {
				err, idx = e, -1
				return
			}
			r := &replayer{t: t, ver: in.Ver, version: version, w: newWorld(vh.Seed()*1000 + int64(bi+in.First)), s: s, conns: map[int]*conn{},
				subID: map[int]string{}, subConn: map[int]*conn{}, subAct: map[int]action{}, unsub: map[int]*pendingCall{}}
			idx, err = r.run(beh, in.InitLen, in.StartL1, !in.FixL1Order)
			steps = r.nsteps
			// end of the behaviour: release a request still in its window, close every connection, stop the handler
			if r.gateRelease != nil {
				close(r.gateRelease)
			}
			if r.l1gate != nil {
				close(r.l1gate)
				<-r.l1done
			}
			for _, c := range r.conns {
				c.close()
			}
			synctest.Wait()
			s.stop()
			synctest.Wait()
			if err == nil {
				for _, v := range versions {
					if n := s.registered(v); n != 0 {
						err, idx = diverge("subs:leak:registered-after-close", "subscriptions still registered after every connection closed and the handler stopped", 0, n), len(beh.Steps)-1
					}
				}
			}
		})
		out.Done(0, steps)
		if err == nil && dead != "" {
			err, idx = diverge("subs:leak:goroutines-after-close", "goroutines of the subscription machinery are still blocked after every connection closed and Run returned: "+dead, "none", dead), len(beh.Steps)-1
		}
		if err != nil {
			var d *divergence
			if dv, ok := err.(*divergence); ok {
				d = dv
			} else {
				d = &divergence{key: "harness", what: err.Error()}
			}
			if d.key == "harness" {
				out.Diverge(vh.Divergence{Key: "harness:" + firstWords(d.what), What: "HARNESS PROBLEM (not a verdict about juno): " + d.what,
					Input: vh.J{"ver": in.Ver, "initlen": in.InitLen, "startl1": in.StartL1, "fixl1order": in.FixL1Order, "first": bi + in.First, "behaviours": []behaviour{{Steps: beh.Steps[:max(idx+1, 0)]}}}, Step: idx})
				out.Count("harness_errors", 1)
				continue
			}
			out.Diverge(vh.Divergence{Key: fmt.Sprintf("%s:%s", d.key, version), What: d.what,
				Input: vh.J{"ver": in.Ver, "initlen": in.InitLen, "startl1": in.StartL1, "fixl1order": in.FixL1Order, "first": bi + in.First, "behaviours": []behaviour{{Steps: beh.Steps[:idx+1]}}},
				Step:  idx, Expected: d.exp, Observed: d.obs})
			continue
		}
		out.Done(1, 0)
		if bi == 0 {
			out.Sample(vh.J{"ver": in.Ver, "steps": beh.Steps[:min(12, len(beh.Steps))]})
		}
	}
	out.Count("replayed_"+version, len(in.Behaviours))
}

func firstWords(s string) string {
	w := strings.Fields(s)
	if len(w) > 4 {
		w = w[:4]
	}
	return strings.Join(w, "-")
}

// bubble runs f inside a synctest bubble; if goroutines are still blocked when f returns the runtime
// panics in this goroutine — the text is returned (they are a leak of the code under test or of the
// harness; the caller decides).
func bubble(t *testing.T, f func(t *testing.T)) (deadlock string) {
	defer func() {
		if r := recover(); r != nil {
			deadlock = fmt.Sprint(r)
		}
	}()
	synctest.Test(t, f)
	return ""
}
